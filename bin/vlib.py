"""Shared machinery of /verif/bin/check (python3 stdlib only).

A property check is a python module /verif/checks/<id>.py with a function run(ctx).
It uses the helpers below to
  * run TLC on a model and collect the behaviours / transitions it prints,
  * hand them to the Rust harness `cvh` which replays them on the real calamine
    built from /repo's working tree (leg 1: spec -> code),
  * let `cvh` drive the real code and record traces, validated by a Trace_* spec
    with TLC (leg 2: code -> spec),
  * triage failures against known_findings.json, write replay files, evidence.
Exit codes: 0 held, 1 violation (with VIOLATION lines), 2 tool error.
"""
import hashlib
import json
import os
import re
import shutil
import subprocess
import sys
import time

ROOT = os.path.dirname(os.path.dirname(os.path.abspath(__file__)))
REPO = "/repo"
HARNESS = os.path.join(ROOT, "harness")
# VERIF_TARGET_DIR: build the harness into another target directory (used by bin/mutant, which runs
# a scratch copy of the whole framework so that a mutant run never touches this tree's evidence,
# work files or build output)
TARGET_DIR = os.environ.get("VERIF_TARGET_DIR") or os.path.join(HARNESS, "target")
CVH = os.path.join(TARGET_DIR, "debug", "cvh")
JAR = "/opt/veriftools/tla/tla2tools.jar:/opt/veriftools/tla/CommunityModules-deps.jar"
TLA_COMMON = os.path.join(ROOT, "tla", "common")


class CheckAborted(Exception):
    """a violation that ends the run (the harness process died in the code under test); already recorded with Ctx.fail"""


class ToolError(Exception):
    pass


def log(*a):
    print("[check]", *a, file=sys.stderr, flush=True)


def build_harness():
    """cargo build of the harness; calamine is a path dependency on /repo, so the
    current working tree of /repo is what gets compiled (with --cfg calamine_verif)."""
    lock = os.path.join(HARNESS, "Cargo.lock")
    if not os.path.exists(lock):
        shutil.copy(os.path.join(REPO, "Cargo.lock"), lock)
    env = dict(os.environ, CARGO_NET_OFFLINE="true")
    t0 = time.time()
    cmd = ["cargo", "build", "--offline"]
    if os.environ.get("VERIF_TARGET_DIR"):
        cmd += ["--target-dir", TARGET_DIR]
    src = os.environ.get("CALAMINE_SRC")
    if src:
        # mutation testing only: compile a scratch copy of calamine instead of /repo
        cmd += ["--config", 'paths=["%s"]' % src]
        log("NOTE: building against scratch copy", src)
    p = subprocess.run(cmd, cwd=HARNESS, env=env,
                       stdout=subprocess.PIPE, stderr=subprocess.STDOUT, text=True)
    if p.returncode != 0:
        sys.stderr.write(p.stdout[-6000:])
        raise ToolError("cargo build of harness failed")
    log("harness built in %.1fs" % (time.time() - t0))


_TAG_RE = re.compile(r'^<<"([A-Z]+)", "(.*)">>$')


def _unquote_tlc(s):
    # TLC prints a string value with \" and \\ escapes
    out = []
    i = 0
    n = len(s)
    while i < n:
        ch = s[i]
        if ch == "\\" and i + 1 < n:
            nx = s[i + 1]
            if nx == '"':
                out.append('"'); i += 2; continue
            if nx == "\\":
                out.append("\\"); i += 2; continue
            if nx == "n":
                out.append("\n"); i += 2; continue
            if nx == "t":
                out.append("\t"); i += 2; continue
        out.append(ch)
        i += 1
    return "".join(out)


class Ctx:
    def __init__(self, pid, tier, seed, level="model_checking"):
        self.pid = pid
        self.tier = tier
        self.seed = seed
        self.level = level
        self.work = os.path.join(ROOT, "work", pid)
        self.replay_dir = os.path.join(ROOT, "work", "replay", pid)
        for d in (self.work, self.replay_dir):
            shutil.rmtree(d, ignore_errors=True)
            os.makedirs(d)
        self.t0 = time.time()
        self.states = 0
        self.transitions = 0
        self.evaluations = 0
        self.nontrivial = 0
        self.traces = 0
        self.samples = []
        self.violations = []       # (key, replay path)
        self.known_hit = {}        # key -> what
        self.checker_cmds = []
        self.assumptions = []
        self.rules = []
        self.exhaustive = True
        self.extra = {}
        self.coverage_actions = {}
        kf = os.path.join(ROOT, "known_findings.json")
        self.excused_compound = set()
        self.known = {}
        if os.path.exists(kf):
            for f in json.load(open(kf)).get("findings", []):
                if f.get("property") == pid:
                    self.known[f["key"]] = f.get("what", "")

    @property
    def quick(self):
        return self.tier == "quick"

    def pick(self, quick, thorough):
        return quick if self.quick else thorough

    # ------------------------------------------------------------------ TLC
    def tlc(self, tladir, module, cfg, *, workers=8, simulate=None, depth=None,
            timeout=1800, xmx="6g", env=None, name=None, coverage=False,
            allow_violation=False, consts=None, eval_error_is_rejection=False):
        """Run TLC; returns dict(tags={TAG: path-to-ndjson}, generated, distinct, out, ok).
        Lines `<<"TAG", "json">>` printed by the spec are collected per TAG."""
        name = name or os.path.splitext(cfg)[0]
        src = os.path.join(ROOT, "tla", tladir)
        meta = os.path.join(self.work, "tlc_" + name)
        shutil.rmtree(meta, ignore_errors=True)
        os.makedirs(meta)
        outp = os.path.join(self.work, name + ".tlc.out")
        cmd = ["java", "-XX:+UseParallelGC", "-Xmx" + xmx, "-Xss1g",
               "-DTLA-Library=" + TLA_COMMON, "-cp", JAR, "tlc2.TLC",
               "-workers", str(workers), "-metadir", meta, "-cleanup", "-noGenerateSpecTE"]
        if simulate:
            cmd += ["-simulate", "num=%d" % simulate, "-depth", str(depth or 100),
                    "-seed", str(self.seed)]
        if coverage:
            cmd += ["-coverage", "1"]
        cmd += ["-config", cfg, module + ".tla"]
        self.checker_cmds.append("(cd tla/%s && %s)" % (tladir, " ".join(
            c for c in cmd if not c.startswith("-DTLA") and c != JAR)))
        e = dict(os.environ)
        e.pop("JAVA_TOOL_OPTIONS", None)
        if env:
            e.update(env)
        tags = {}
        files = {}
        generated = distinct = 0
        err_lines = []
        t0 = time.time()
        with open(outp, "w") as outf:
            p = subprocess.Popen(["timeout", str(timeout)] + cmd, cwd=src, env=e,
                                 stdout=subprocess.PIPE, stderr=subprocess.STDOUT, text=True,
                                 errors="replace")
            for line in p.stdout:
                line = line.rstrip("\n")
                m = _TAG_RE.match(line)
                if m:
                    tag = m.group(1)
                    if tag not in files:
                        path = os.path.join(self.work, "%s.%s.ndjson" % (name, tag))
                        files[tag] = open(path, "w")
                        tags[tag] = path
                    files[tag].write(_unquote_tlc(m.group(2)) + "\n")
                    continue
                outf.write(line + "\n")
                m = re.search(r"^(\d+) states generated, (\d+) distinct states found", line)
                if m:
                    generated, distinct = int(m.group(1)), int(m.group(2))
                m = re.search(r"states generated \((\d+) s/min\)", line)
                if re.search(r"^Error:|is violated|Exception|^The (first|second) argument", line):
                    err_lines.append(line)
            rc = p.wait()
        for f in files.values():
            f.close()
        if simulate and generated == 0:
            txt = open(outp).read()
            m = re.findall(r"(\d+) states checked", txt)
            if m:
                generated = distinct = int(m[-1])
        dt = time.time() - t0
        log("tlc %s/%s %s: rc=%d generated=%d distinct=%d %.1fs" %
            (tladir, module, cfg, rc, generated, distinct, dt))
        if rc == 124:
            if simulate:
                rc = 0     # simulation under an outer timeout is the intended way to stop it
            else:
                raise ToolError("TLC timeout on %s (see %s)" % (cfg, outp))
        violated = [l for l in err_lines if "is violated" in l]
        ok = rc == 0 and not err_lines
        if not ok:
            if violated and allow_violation:
                pass
            elif violated:
                # the transcribed algorithm contradicts the property outside the named
                # deviations: a spec-level violation, never ignored
                self.fail("spec:%s:%s" % (module, violated[0].strip()),
                          {"kind": "tlc-invariant", "module": module, "cfg": cfg,
                           "tlc_output": outp, "message": violated[0].strip()})
            elif eval_error_is_rejection and distinct >= 1 and "The error occurred when TLC was evaluating" in open(outp).read():
                # trace validation: TLC could not even COMPARE the logged value of the next event with the
                # specification's (a text where a record / number is expected, a missing field ...): the event is
                # not one the specification allows.  (On the unchanged tree no trace does this.)
                txt = open(outp).read()
                m = re.search(r"The exception was a [\w.]+\s*\n?: (.*)", txt)
                return {"tags": tags, "generated": generated, "distinct": distinct, "out": outp, "ok": False, "wall": dt,
                        "violated": [], "eval_error": {"at": distinct, "tlc_error": (m.group(1) if m else "evaluation error")[:400]}}
            else:
                sys.stderr.write("\n".join(open(outp).read().splitlines()[-40:]) + "\n")
                raise ToolError("TLC failed on %s/%s (rc=%d)" % (module, cfg, rc))
        self.states += distinct
        self.transitions += generated
        if simulate:
            self.exhaustive = False
        if coverage:
            self._read_coverage(outp, name)
        return {"tags": tags, "generated": generated, "distinct": distinct, "out": outp,
                "ok": ok, "wall": dt, "violated": violated}

    def _read_coverage(self, outp, name):
        acts = {}
        for line in open(outp):
            m = re.match(r"^<(\w+) line \d+, col \d+ to line \d+, col \d+ of module (\w+)>: (\d+):(\d+)", line)
            if m:
                acts["%s.%s" % (m.group(2), m.group(1))] = [int(m.group(3)), int(m.group(4))]
        self.coverage_actions[name] = acts

    # ------------------------------------------------------- Apalache (symbolic, unbounded complements)
    def apalache(self, tladir, module, args, timeout=600):
        """apalache-mc check <args> <module>.tla; True = no error, False = counterexample found, None = the tool
        did not deliver a verdict (missing, timeout, internal error): noted in the evidence, never a violation --
        the bounded TLC legs decide the property, this is an unbounded complement on the specification"""
        src = os.path.join(ROOT, "tla", tladir)
        out = os.path.join(self.work, "apalache_%s_%s.out" % (module, "_".join(a.split("=")[-1] for a in args)))
        cmd = ["timeout", str(timeout), "apalache-mc", "check", "--out-dir=" + os.path.join(self.work, "apalache-out")] + list(args) + [module + ".tla"]
        t0 = time.time()
        try:
            p = subprocess.run(cmd, cwd=src, stdout=subprocess.PIPE, stderr=subprocess.STDOUT, text=True)
            txt = p.stdout
        except OSError as e:
            txt = "cannot run apalache-mc: %s" % e
        open(out, "w").write(txt)
        verdict = True if "EXITCODE: OK" in txt else False if "Checker has found an error" in txt else None
        log("apalache %s/%s %s: %s %.1fs" % (tladir, module, " ".join(args), {True: "no error", False: "ERROR FOUND", None: "no verdict"}[verdict], time.time() - t0))
        self.extra.setdefault("apalache", []).append({"module": module, "args": list(args), "verdict": verdict, "output": out})
        return verdict, out

    # ------------------------------------------------------- trace validation
    def validate_trace(self, tladir, module, cfg, trace, *, timeout=1800, xmx="4g", name=None, extra_env=None):
        """code -> spec: TLC checks that the recorded trace is a behaviour of the Trace_* spec.
        The spec prints <<"ACCEPTED", "n">> or <<"REJECTED", "{...}">> from its POSTCONDITION."""
        name = name or ("trace_" + module)
        env = {"TRACE": os.path.abspath(trace),
               "JAVA_TOOL_OPTIONS": "-Dtlc2.tool.queue.IStateQueue=StateDeque"}
        if os.environ.get("KNOWN"):
            env["KNOWN"] = os.environ["KNOWN"]
        env.update(extra_env or {})
        r = self.tlc(tladir, module, cfg, workers=1, timeout=timeout, xmx=xmx, env=env,
                     name=name, allow_violation=True, eval_error_is_rejection=True)
        if r.get("eval_error"):
            return {"accepted": False, "info": json.dumps(r["eval_error"]), "out": r["out"]}
        # trace runs do not count as model states
        self.states -= r["distinct"]
        self.transitions -= r["generated"]
        acc = r["tags"].get("ACCEPTED")
        rej = r["tags"].get("REJECTED")
        if r["violated"]:
            # the code followed the as-is model into a state that breaks a property invariant
            return {"accepted": False, "info": r["violated"][0].strip(), "out": r["out"]}
        if acc and not rej:
            n = int(open(acc).read().split()[0])
            return {"accepted": True, "events": n, "out": r["out"]}
        info = open(rej).read().strip() if rej else "(no verdict printed; see %s)" % r["out"]
        if not rej and not acc:
            sys.stderr.write("\n".join(open(r["out"]).read().splitlines()[-30:]) + "\n")
            raise ToolError("trace validation produced no verdict for %s" % trace)
        return {"accepted": False, "info": info, "out": r["out"]}

    def fixture_leg(self, fmt, tladir, module, cfg, maxtok=None, timeout=900):
        """leg 2 on the repository's real-world fixtures: `cvh drive fixtures --fmt <fmt>` tokenises every
        worksheet of /repo/tests/*.<fmt> with an independent tokeniser and logs the real reader's range
        (positions exactly, values by coarse kind); the Trace spec of the format re-runs its reader
        operators over the tokens.  Unknown constructs are skipped and listed, never guessed."""
        trace = os.path.join(self.work, "fixtures_%s.ndjson" % fmt)
        skipf = os.path.join(self.work, "fixtures_%s.skipped.json" % fmt)
        args = ["drive", "fixtures", "--fmt", fmt, "--out", trace, "--skipped", skipf]
        if maxtok:
            args += ["--maxtok", maxtok]
        self.cvh(args, timeout=timeout)
        info = json.load(open(skipf))
        self.extra["fixture_sheets_skipped"] = info["skipped"]
        self.rules.append("fixture leg: every worksheet of the %s fixtures under /repo/tests, tokenised independently "
                          "(harness/src/fixtures.rs), must be reproduced by the reader model (bounds and positions "
                          "exactly, values by kind)" % fmt)
        if info["sheets"] == 0:
            self.extra["fixture_sheets_validated"] = 0
            return
        v = self.validate_trace(tladir, module, cfg, trace, timeout=timeout, name="fixtures_" + module)
        if v["accepted"]:
            self.traces += v["events"]
            self.extra["fixture_sheets_validated"] = v["events"]
            self.extra["fixture_tokens"] = info["tokens"]
        else:
            self.extra["fixture_sheets_validated"] = 0
            self.fail("trace-rejected:fixtures:" + module,
                      {"kind": "trace", "trace": trace, "info": v["info"], "tlc_output": v["out"]})

    def bigsst_leg(self, fmts):
        """shared-string tables with more than 65 536 items: index i designates the i-th item"""
        trace = os.path.join(self.work, "bigsst.ndjson")
        self.cvh(["drive", "bigsst", "--fmts", fmts, "--out", trace])
        self.rules.append("big shared-string table (70 000 items, cells referring to indexes 0, 1, 255, 256, 65535, "
                          "65536, 65537, N-1) in %s, validated by Trace_BigSst" % fmts)
        v = self.validate_trace("xlsx", "Trace_BigSst", "Trace_BigSst.cfg", trace, timeout=600, name="bigsst")
        if v["accepted"]:
            self.traces += 1
        else:
            self.fail("trace-rejected:Trace_BigSst", {"kind": "trace", "trace": trace, "info": v["info"], "tlc_output": v["out"]})

    def families_leg(self, aspect):
        """fixture families (same workbook saved in several formats under /repo/tests): the abstract
        content read through each format's reader must agree (tla/api/CrossFormat.tla)"""
        trace = os.path.join(self.work, "families_%s.ndjson" % aspect)
        rep = trace + ".report.json"
        self.cvh(["drive", "families", "--aspect", aspect, "--out", trace, "--report", rep])
        info = json.load(open(rep))
        self.rules.append("fixture families: %d workbooks saved in 2-4 formats under /repo/tests, %d cell reports; "
                          "aspect '%s' must agree across formats (CrossFormat.tla)" % (info["families"], info["cells"], aspect))
        if info["cells"] == 0:
            return
        v = self.validate_trace("api", "CrossFormat", "CrossFormat.cfg", trace, timeout=600, name="families_" + aspect)
        if v["accepted"]:
            self.traces += 1
            self.extra["family_events_validated_" + aspect] = v["events"]
        else:
            self.fail("trace-rejected:CrossFormat:" + aspect,
                      {"kind": "trace", "trace": trace, "info": v["info"], "tlc_output": v["out"]})

    # ------------------------------------------------------------- harness
    def cvh(self, args, timeout=3600, check=True):
        cmd = [CVH] + [str(a) for a in args]
        lp = os.path.join(self.work, "last_panic.txt")
        try:
            os.remove(lp)
        except OSError:
            pass
        env = dict(os.environ, VERIF_SEED=str(self.seed), VERIF_TIER=self.tier,
                   RUST_BACKTRACE="0", CVH_LAST_PANIC=lp)
        p = subprocess.run(["timeout", str(timeout)] + cmd, cwd=ROOT, env=env,
                           stdout=subprocess.PIPE, stderr=subprocess.PIPE, text=True)
        if p.returncode != 0 and check:
            sys.stderr.write(p.stderr[-4000:])
            what = " ".join(map(str, args[:2]))
            died = None
            # the harness reports its own problems with exit code 2; a process that DIED while feeding the
            # specification's behaviours to calamine (replay / drive) died in the code under test: uncaught panic
            # (101) whose location is not in the harness, allocation abort (SIGABRT), kill (SIGKILL: out of memory)
            if args and args[0] in ("replay", "drive"):
                last = ""
                try:
                    last = open(lp).read()
                except OSError:
                    pass
                if p.returncode == 101 and last and "harness" not in last.split(" @ ")[-1] and not last.startswith("harness"):
                    died = ("died:panic", last)
                elif p.returncode in (-6, 134) and "memory allocation of" in p.stderr:
                    died = ("died:abort:alloc", p.stderr.strip().splitlines()[0][-200:])
                elif p.returncode in (-9, 137):
                    died = ("died:killed", "SIGKILL (out of memory)")
            if died:
                self.fail("%s:%s" % (died[0], what.replace(" ", "-")),
                          {"kind": "process-death", "cmd": [str(a) for a in args], "rc": p.returncode, "info": died[1],
                           "note": "the harness process died while the specification's behaviours were played on calamine: "
                                   "no result was delivered for an input the property quantifies over"})
                raise CheckAborted(died[0])
            raise ToolError("cvh %s failed rc=%d" % (" ".join(map(str, args[:3])), p.returncode))
        return p

    def replay(self, sub, infile, extra=None, timeout=3600):
        """spec -> code: feed behaviours to `cvh replay <sub>`; returns the report dict
        {evaluated, distinct, nontrivial, failures:[{key,behaviour,expected,observed}], samples}"""
        out = infile + ".report.json"
        args = ["replay", sub, "--in", infile, "--out", out] + (extra or [])
        self.cvh(args, timeout=timeout)
        rep = json.load(open(out))
        self.evaluations += rep.get("evaluated", 0)
        self.nontrivial += rep.get("nontrivial", 0)
        self.traces += rep.get("evaluated", 0)
        for s in rep.get("samples", [])[:2]:
            if len(self.samples) < 6:
                self.samples.append(s)
        for f in rep.get("failures", []):
            f.setdefault("cmd", ["replay", sub] + (extra or []))
            self.fail(f.get("key", "unexplained"), f)
        nf = rep.get("failed", len(rep.get("failures", [])))
        log("replay %s: %d evaluated, %d distinct non-trivial, %d failed" %
            (sub, rep.get("evaluated", 0), rep.get("nontrivial", 0), nf))
        return rep

    # ------------------------------------------------------------- verdicts
    def fail(self, key, data):
        if key in self.known:
            self.known_hit[key] = self.known[key]
            return
        if (key.startswith("abort:alloc:") or key.startswith("memory:out-of-proportion:")) and " & " in key:
            # a script with several faults: explained iff one of its faulted sites alone is a listed
            # finding of the same class and format (every site is also enumerated as a single fault, so
            # a new site still shows up on its own)
            head, sites = key.rsplit(":", 1)[0], None
            m = re.match(r"^((?:abort:alloc|memory:out-of-proportion):[a-z]+):(.*)$", key)
            if m:
                for site in m.group(2).split(" & "):
                    k1 = m.group(1) + ":" + site
                    if k1 in self.known:
                        self.known_hit[k1] = self.known[k1]
                        self.excused_compound.add(key)
                        return
        if key.startswith("dev:") and "+" in key:
            # a behaviour exhibiting several named deviations whose observed output equals the
            # as-is prediction: excused iff every one of the deviations is a listed finding
            parts = ["dev:" + p for p in key[4:].split("+")]
            if all(p in self.known for p in parts):
                for p in parts:
                    self.known_hit[p] = self.known[p]
                return
        n = len(self.violations)
        path = os.path.join(self.replay_dir, "%d.json" % n)
        if n < 50:
            data = dict(data)
            data["property"] = self.pid
            data["tier"] = self.tier
            data["seed"] = self.seed
            data["key"] = key
            with open(path, "w") as f:
                json.dump(data, f, indent=1, default=str)
        self.violations.append((key, path))

    def finish(self):
        wall = time.time() - self.t0
        for k, what in sorted(self.known_hit.items()):
            print("KNOWN-FINDING: property=%s %s [%s]" % (self.pid, what, k))
        seen = set()
        shown = 0
        for key, path in self.violations:
            if key in seen:
                continue
            seen.add(key)
            if shown < 10:
                # X<NN> checks bind parts of the specification that no listed property speaks about
                # (extended coverage, DESIGN.md section 13): a mismatch there is reported as drift
                # between specification and code, never as a property violation
                if self.pid.startswith("X"):
                    print("SPEC-DRIFT spec=%s replay=%s  (%s)" % (self.pid, path, key))
                else:
                    print("VIOLATION property=%s replay=%s  (%s)" % (self.pid, path, key))
                shown += 1
        cov = {
            "states": self.states, "transitions": self.transitions,
            "traces_validated_against_impl": self.traces,
            "evaluations": self.evaluations, "distinct_nontrivial": self.nontrivial,
            "rule": " | ".join(self.rules),
            "samples": self.samples[:6] or ["(none)"],
            "exhaustive": bool(self.exhaustive),
            "checker_cmd": " ; ".join(self.checker_cmds)[:4000],
            "known_findings_hit": sorted(self.known_hit),
        }
        if self.coverage_actions:
            cov["tlc_action_coverage"] = self.coverage_actions
        cov.update(self.extra)
        ev = {"property_id": self.pid, "tier": self.tier, "seed": self.seed,
              "level": self.level, "coverage": cov, "assumptions": self.assumptions,
              "wall_s": round(wall, 2), "violations": len(self.violations)}
        evdir = "coverage" if self.pid.startswith("X") else "evidence"
        os.makedirs(os.path.join(ROOT, evdir), exist_ok=True)
        with open(os.path.join(ROOT, evdir, self.pid + ".json"), "w") as f:
            json.dump(ev, f, indent=1, default=str)
        # disk hygiene: the behaviour files of a thorough run reach tens of GB over all checks; when
        # nothing was found they are of no further use (a violation keeps everything for the replay)
        if not self.violations and not os.environ.get("VERIF_KEEP_WORK"):
            for dirpath, _dirs, files in os.walk(self.work):
                for fn in files:
                    fp = os.path.join(dirpath, fn)
                    try:
                        if os.path.getsize(fp) > 8 * 1024 * 1024:
                            os.remove(fp)
                    except OSError:
                        pass
        log("%s %s: %d violation(s), %d known finding(s), %.1fs" %
            (self.pid, self.tier, len(self.violations), len(self.known_hit), wall))
        return 1 if self.violations else 0


def digest(obj):
    return hashlib.sha1(json.dumps(obj, sort_keys=True).encode()).hexdigest()[:16]
