"""C01 — XLSX: every cell reads back at its position, with its value and type.
fixture leg (leg 2 on real-world files): every worksheet of /repo/tests/*.xlsx|xlsm is tokenised by the independent
tokeniser harness/src/fixtures.rs (row / rowend / c tokens, explicit-or-absent r, t attribute, children order, lexical
class of <v>) and Trace_XlsxSheet.TFixture re-runs the cursor machine with the coarse-kind typing (RStepK).
sensitivity (fixture leg ALONE, VERIF_ONLY=fixtures bin/mutant C01 ...@src/xlsx/cells_reader.rs): 3 of 3 KILLED
sensitivity:  s/Some(b"str") => {/Some(b"strx") => {/      s/self.col_index = 0;/self.col_index = 1;/
sensitivity:  s/Ok(DataRef::Bool(v != "0"))/Ok(DataRef::String(v))/
"""
LEVEL = "model_checking"


def run(ctx):
    import os
    if os.environ.get("VERIF_ONLY") == "fixtures":      # sensitivity experiments: the fixture leg alone
        ctx.fixture_leg("xlsx", "xlsx", "Trace_XlsxSheet", "Trace_XlsxSheet.cfg")
        return
    run_model_legs(ctx)
    ctx.fixture_leg("xlsx", "xlsx", "Trace_XlsxSheet", "Trace_XlsxSheet.cfg")


def run_model_legs(ctx):
    ctx.rules.append(
        "MC_XlsxSheet: writer||reader product over sparse documents; every complete behaviour (token list: "
        "explicit/implicit row and cell refs (ECMA cursor rule, and the lax style: r on no row and on every cell), empty rows/cells in gaps, dimension variants, all cell forms, "
        "package variants prefix/compression/target spelling/part-name case/optional parts) is materialised "
        "into a real .xlsx and read through worksheet_range, worksheet_range_ref and worksheets(); "
        "non-trivial = has an implicit reference, gap token, dimension element or a non-default package")
    ctx.assumptions += ["zip and quick-xml below the token level", "materialiser harness/src/build/xlsx.rs",
                        "documents keep their bounding box below ~1.1M cells (dense Range)"]
    tier = "quick" if ctx.quick else "thorough"
    for part in ("pos", "lax", "pfx", "typ", "dim", "pkg"):
        r = ctx.tlc("xlsx", "MC_XlsxSheet", "MC_XlsxSheet_%s_%s.cfg" % (tier, part), workers=ctx.pick(6, 12),
                    timeout=ctx.pick(600, 3000), xmx=ctx.pick("4g", "12g"))
        if "REPLAY" in r["tags"]:
            ctx.replay("xlsx_sheet", r["tags"]["REPLAY"])
    trace = ctx.work + "/xlsx_trace.ndjson"
    ctx.cvh(["drive", "xlsx_sheet", "--out", trace, "--n", ctx.pick(60, 1500), "--cells", ctx.pick(60, 200)])
    v = ctx.validate_trace("xlsx", "Trace_XlsxSheet", "Trace_XlsxSheet.cfg", trace, timeout=ctx.pick(600, 3000))
    if v["accepted"]:
        ctx.traces += 1
        ctx.extra["trace_events_validated"] = v["events"]
    else:
        ctx.fail("trace-rejected:Trace_XlsxSheet", {"kind": "trace", "trace": trace, "info": v["info"],
                                                    "tlc_output": v["out"]})
    ctx.bigsst_leg("xlsx")
