"""C02 — XLS (BIFF8): every cell record reads back at its position with its value.

leg 0  tla/biff/MC_BiffCells.tla (writer: every legal record encoding of a sparse sheet: NUMBER | RK
       int | RK int x100 | RK double | RK double x100 | MULRK runs over adjacent columns, LABELSST |
       LABEL 8/16-bit, BOOLERR, FORMULA with cached number/bool/error or [SHRFMLA] STRING, BLANK /
       MULBLANK / ROW / DBCELL / unknown records, optional DIMENSIONS) || tla/biff/BiffCells.tla
       (reader: the `match r.typ` loop of Xls::parse_workbook incl. fmla_pos, then from_sparse);
       tla/biff/Rk.tla + MC_Rk.tla: RkDecode (rk_num) against the RkNumber definition.
leg 1  `cvh replay biffcells`: every behaviour -> real BIFF8 workbook in a compound file -> Xls::new
       -> worksheet_range == ideal; `cvh replay rk`: every RK word -> calamine::verif::rk_num.
leg 2  `cvh drive biffcells`: random sheets (rows <= 65535, cols <= 255, thousands of cells, random
       words/encodings); Trace_BiffCells.tla re-runs the reader model over the logged records.

sensitivity: bin/mutant C02 '<sed>@src/xls.rs' quick -- 10 of 10 killed:
sensitivity: s/(read_i32(&v\[4..8\]) >> 2) as i64/(read_u32(&v[4..8]) >> 2) as i64/   no sign extension      KILLED
sensitivity: s/if d100 \&\& v % 100 != 0 {/if d100 \&\& v % 100 == 0 {/              x100 rule inverted     KILLED
sensitivity: s/let is_int = (rk\[2\] \& 2) != 0;/let is_int = (rk[2] \& 1) != 0;/    flag bits confused     KILLED
sensitivity: s/let mut col = col_first as u32;/let mut col = col_first as u32 + 1;/  MULRK column arithmetic KILLED
sensitivity: s/fmla_pos = (row as u32, col as u32);/fmla_pos = (col as u32, row as u32);/ STRING position      KILLED
sensitivity: s/let i = read_u32(&r\[6..\]) as usize;/let i = read_u32(&r[4..]) as usize;/ LABELSST index offset KILLED
sensitivity: s/Data::Bool(r\[6\] != 0)/Data::Bool(r[6] == 0)/                         BOOLERR inverted       KILLED
sensitivity: s/0x24 => ...CellErrorType::Num/0x24 => ...CellErrorType::NA/             error code map         KILLED
sensitivity: s/v\[4\] \&= 0xFC;//                                                    flag bits leak into the double KILLED
sensitivity: s/\[0x01, _, b, ../[0x01, b, _, ../ in parse_formula_value                 cached bool byte       KILLED
sensitivity: seeded C02-2 (parse_sst drops zero-length strings, later isst shift)                   KILLED (replay + trace: SST = "", s0, "", s1, "")
"""
import json

LEVEL = "model_checking"


def run(ctx):
    ctx.rules.append(
        "TLC (MC_BiffCells) enumerates every behaviour of the writer within the cfg: candidate positions "
        "(real coordinates incl. row 65535 / col 255) x empty | value x every exact encoding x every MULRK "
        "grouping x interleaved ignorable records; each complete record list is one case, materialised "
        "into a real .xls and read by Xls; non-trivial = at least one cell; MC_Rk: 4 flag combinations x "
        "payload classes exhaustively + random 30-bit payloads by simulation, each replayed on rk_num "
        "(non-trivial = x100 or negative integer)")
    ctx.rules.append(
        "leg 2: seeded random sheets, one trace event per record and one per observed range")
    ctx.assumptions += [
        "TLC, CommunityModules (Json, IOUtils, SequencesExt!FoldLeft)",
        "harness writer harness/src/build/biff.rs emits the records the tokens name",
        "numbers are decimal fractions m/100^s or opaque double patterns in the model; trusted glue: "
        "the harness's class table (checked against the model's RK words), f64::from_bits + one division "
        "by 100 for double payloads, obs_value (observed double -> pattern id, or integer/100)",
        "cell styles are non-date formats (dates are C10)",
        "not asserted: FORMULA with the blank-string result, LABELSST to an empty string, single-cell "
        "MULRK, records out of row-major order, BIFF5 and older"]
    cfgs = ctx.pick(
        ["quick_enc", "quick_ign", "quick_lo", "quick_rows", "quick_cols"],
        ["quick_enc", "quick_ign", "thorough_enc", "thorough_lo", "thorough_hi", "thorough_rows",
         "thorough_cols", "thorough_corner"])
    counts = {}
    for c in cfgs:
        r = ctx.tlc("biff", "MC_BiffCells", "MC_BiffCells_%s.cfg" % c, workers=6,
                    timeout=ctx.pick(300, 2400), xmx=ctx.pick("4g", "8g"))
        if "WHY" in r["tags"]:
            ctx.extra.setdefault("spec_violation_reasons", []).extend(
                sorted(set(open(r["tags"]["WHY"]).read().split("\n")) - {""}))
        if "REPLAY" in r["tags"]:
            counts[c] = sum(1 for _ in open(r["tags"]["REPLAY"]))
            ctx.replay("biffcells", r["tags"]["REPLAY"])
    ctx.extra["behaviours_enumerated"] = counts
    # RK sub-model
    r = ctx.tlc("biff", "MC_Rk", "MC_Rk.cfg", workers=2, timeout=300)
    if "STEP" in r["tags"]:
        ctx.replay("rk", r["tags"]["STEP"])
    s = ctx.tlc("biff", "MC_Rk", "MC_Rk_sim.cfg", workers=4, simulate=ctx.pick(400, 5000), depth=250,
                timeout=ctx.pick(120, 900), name="MC_Rk_sim")
    if "STEP" in s["tags"]:
        ctx.replay("rk", s["tags"]["STEP"])
    # leg 2
    chunks = ctx.pick([(10, 1500, 0)], [(40, 4000, 0), (40, 4000, 0), (6, 3000, 2)])
    for k, (n, cells, full) in enumerate(chunks):
        trace = "%s/biff_trace_%d.ndjson" % (ctx.work, k)
        rep = "%s/biff_drive_%d.json" % (ctx.work, k)
        ctx.cvh(["drive", "biffcells", "--out", trace, "--report", rep, "--n", n, "--cells", cells,
                 "--full", full, "--seed", ctx.seed + k])
        d = json.load(open(rep))
        ctx.evaluations += d.get("evaluated", 0)
        ctx.nontrivial += d.get("nontrivial", 0)
        ctx.extra["drive_cells_written"] = ctx.extra.get("drive_cells_written", 0) + d.get("cells_written", 0)
        aborted = False
        for f in d.get("failures", []):
            f["cmd"] = None
            aborted = aborted or f.get("key") == "abort"
            ctx.fail(f.get("key", "unexplained"), f)
        if aborted:
            continue
        v = ctx.validate_trace("biff", "Trace_BiffCells", "Trace_BiffCells.cfg", trace,
                               timeout=ctx.pick(300, 2400), xmx=ctx.pick("4g", "8g"),
                               name="trace_biffcells_%d" % k)
        if v["accepted"]:
            ctx.traces += 1
            ctx.extra["trace_events_validated"] = ctx.extra.get("trace_events_validated", 0) + v["events"]
        else:
            ctx.fail("trace-rejected:Trace_BiffCells", {"kind": "trace", "trace": trace, "info": v["info"],
                                                        "tlc_output": v["out"]})
    ctx.exhaustive = True
    ctx.bigsst_leg("xls")
