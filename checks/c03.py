"""C03 — XLSB: every cell record reads back at its position with its value.

leg 0  tla/xlsb/XlsbFraming.tla (record id / size varints: writer vs. read_type / fill_buffer,
       invariants Aligned, Decoded) and tla/xlsb/XlsbSheet.tla (Ideal from the statement; CellStep =
       one iteration of next_cell; SkipTo = next_skip_blocks over the preamble) checked by TLC over
       MC_XlsbSheet_<profile>.cfg; invariants Refines (AsIs = Ideal), RowAgrees, PrefixOK,
       Incremental, PreambleOK.  MC_XlsbSheet_asis.cfg keeps the reader as pinned (BrtFmlaError not
       read) and MUST be refuted (the repaired defect, commit 2ee9856 in /repo).
leg 1  every cell table printed by TLC -> real .xlsb (harness/src/build/xlsb.rs) -> calamine::Xlsb ->
       worksheet_range / worksheet_range_ref / get_value compared with Ideal; every (id, len) header
       of the framing model is compared with the materialiser's bytes and embedded between cells.
leg 2  `cvh drive xlsb`: random big sheets, logged tokens + observed ranges, validated by
       Trace_XlsbSheet.tla.

sensitivity: (bin/mutant C03 '<sed>@<file>', quick tier; all KILLED)
sensitivity:  s/0x0003 | 0x000B => {/0x0003 => {/@src/xlsb/cells_reader.rs            (the repaired defect re-introduced)
sensitivity:  s/(b \\& 0x7F) as u16 + (((self.read_u8()? \\& 0x7F) as u16) << 7)/(b \\& 0x7F) as u16 + (((self.read_u8()? \\& 0x7F) as u16) << 8)/@src/xlsb/mod.rs
sensitivity:  s/len += ((b \\& 0x7F) as usize) << (7 \\* i);/len += ((b \\& 0x7F) as usize) << (8 * i);/@src/xlsb/mod.rs
sensitivity:  s/for i in 1..4 {/for i in 1..3 {/@src/xlsb/mod.rs                           (4-byte sizes)
sensitivity:  s/let v = (read_i32(\\&self.buf\\[8..12\\]) >> 2) as i64;/let v = (read_u32(\\&self.buf[8..12]) >> 2) as i64;/@src/xlsb/cells_reader.rs  (negative RK integers)
sensitivity:  s/0x0004 | 0x000A => DataRef::Bool/0x0004 => DataRef::Bool/@src/xlsb/cells_reader.rs
sensitivity:  s/0x0092 => return Ok(None), \\/\\/ BrtEndSheetData/0x0024 => return Ok(None),/@src/xlsb/cells_reader.rs   (a filler ends the sheet)
sensitivity:  s/_ => continue, \\/\\/ anything else, ignore and try next, without changing idx/_ => { self.row += 1; continue }/@src/xlsb/cells_reader.rs
sensitivity:  s/let v = if d100 { v \\/ 100.0 } else { v };/let v = if d100 { v \\/ 10.0 } else { v };/@src/xlsb/cells_reader.rs

fixture leg (leg 2 on real-world files): every worksheet part of /repo/tests/*.xlsb is split into records by an
independent BIFF12 framing reader (harness/src/fixtures.rs); Trace_XlsbSheet.TFixture checks next_skip_blocks over the
real preamble ids and re-runs next_cell with the coarse-kind typing (CellStepK).
sensitivity (fixture leg ALONE, VERIF_ONLY=fixtures bin/mutant C03 ...@src/xlsb/cells_reader.rs): 3 of 3 KILLED
sensitivity:  s/0x0004 | 0x000A => DataRef::Bool/0x0004 => DataRef::Bool/   s/0x0006 | 0x0008 => DataRef::String/0x0006 => DataRef::String/
sensitivity:  s/self.row = read_u32(\&self.buf);/self.row = read_u32(\&self.buf) + 1;/
"""
LEVEL = "model_checking"

QUICK = ["q_kinds", "q_pos", "q_ign", "q_pre"]
THOROUGH = ["t_kinds", "t_pos", "t_span", "t_ign", "t_pre", "t_big"]


def run(ctx):
    import os
    if os.environ.get("VERIF_ONLY") == "fixtures":      # sensitivity experiments: the fixture leg alone
        ctx.fixture_leg("xlsb", "xlsb", "Trace_XlsbSheet", "Trace_XlsbSheet.cfg")
        return
    run_model_legs(ctx)
    ctx.fixture_leg("xlsb", "xlsb", "Trace_XlsbSheet", "Trace_XlsbSheet.cfg")


def run_model_legs(ctx):
    ctx.rules.append(
        "TLC (MC_XlsbSheet) enumerates every cell table (BrtRowHdr with ascending rows, cell records of every "
        "listed kind with ascending columns, filler records at every gap) within the profile bounds; every "
        "table (and every prefix of it) is one evaluation: materialised as a real .xlsb, read by "
        "calamine::Xlsb, compared with Ideal; non-trivial = a cell plus at least one more record; "
        "MC_XlsbFraming enumerates ids x payload lengths at the varint boundaries; distinct = distinct "
        "(preamble, token list)")
    ctx.assumptions += [
        "TLC and the CommunityModules (Json, SequencesExt folds)",
        "harness glue: harness/src/build/xlsb.rs writes the tokens 1:1 as BIFF12 records; projection in props/xlsb.rs",
        "canon of an RK token = BIFF8 decoding of its bits (checked by the harness with an independent decoder)",
        "sheets whose bounding rectangle exceeds 2^21 cells are not generated (calamine's Range is dense)",
        "not generated: BrtCellRString, empty strings, date-styled cells (C10), padded size varints, parts without BrtWsDim"]

    a = ctx.tlc("xlsb", "MC_XlsbSheet", "MC_XlsbSheet_asis.cfg", workers=2, timeout=300, xmx="2g",
                allow_violation=True)
    ctx.states -= a["distinct"]
    ctx.transitions -= a["generated"]
    ctx.extra["asis_model_refuted"] = bool(a["violated"])
    if not a["violated"]:
        ctx.fail("selftest:asis-model-not-refuted",
                 {"kind": "selftest", "info": "MC_XlsbSheet_asis.cfg (BrtFmlaError not read) was not refuted",
                  "tlc_output": a["out"]})

    per = {}
    f = ctx.tlc("xlsb", "MC_XlsbFraming", ctx.pick("MC_XlsbFraming_quick.cfg", "MC_XlsbFraming_thorough.cfg"),
                workers=3, timeout=600, xmx="3g")
    if "FRAME" in f["tags"]:
        rep = ctx.replay("xlsbframes", f["tags"]["FRAME"], timeout=1200)
        per["framing"] = {"states": f["distinct"], "headers": rep.get("evaluated", 0)}
    for prof in ctx.pick(QUICK, THOROUGH):
        r = ctx.tlc("xlsb", "MC_XlsbSheet", "MC_XlsbSheet_%s.cfg" % prof, workers=ctx.pick(3, 6),
                    timeout=ctx.pick(300, 2400), xmx=ctx.pick("3g", "8g"))
        n = 0
        if "REPLAY" in r["tags"]:
            n = ctx.replay("xlsb", r["tags"]["REPLAY"], timeout=ctx.pick(300, 2400)).get("evaluated", 0)
        per[prof] = {"states": r["distinct"], "sheets": n}
    if not ctx.quick:
        s = ctx.tlc("xlsb", "MC_XlsbSheet", "MC_XlsbSheet_sim.cfg", workers=6, simulate=1000, depth=60,
                    timeout=240, xmx="6g", name="MC_XlsbSheet_sim")
        n = 0
        if "REPLAY" in s["tags"]:
            n = ctx.replay("xlsb", s["tags"]["REPLAY"], timeout=1200).get("evaluated", 0)
        per["sim"] = {"sheets": n}
    ctx.extra["profiles"] = per

    trace = ctx.work + "/xlsb_trace.ndjson"
    ctx.cvh(["drive", "xlsb", "--out", trace, "--n", ctx.pick(10, 200), "--rows", ctx.pick(300, 400)])
    v = ctx.validate_trace("xlsb", "Trace_XlsbSheet", "Trace_XlsbSheet.cfg", trace,
                           timeout=ctx.pick(300, 2400), xmx=ctx.pick("4g", "8g"))
    if v["accepted"]:
        ctx.traces += v["events"]
        ctx.extra["trace_sheets_validated"] = v["events"]
    else:
        ctx.fail("trace-rejected:Trace_XlsbSheet", {"kind": "trace", "trace": trace, "info": v["info"],
                                                    "tlc_output": v["out"]})
    ctx.bigsst_leg("xlsb")
