"""C04 — ODS: cells read back at their position; repeat counts expand faithfully.

leg 0  tla/ods/OdsTable.tla (Ideal from the statement; ReadRow/ReadTable/GetRange transcribed from
       src/ods.rs) checked by TLC over MC_OdsTable_<profile>.cfg: every physical table over the
       run alphabet of the profile; invariants Refines (AsIs = Ideal for values and formulas),
       ColsAgree, PendingOnlyEmpty, Incremental.  MC_OdsTable_asis.cfg keeps the algorithm as
       pinned (full-width padding of interior blank rows) and MUST be refuted (self-test of the
       model's ability to see the repaired defect, commit 3c840c3 in /repo).
leg 1  every table printed by TLC -> real .ods (harness/src/build/ods.rs) -> calamine::Ods ->
       worksheet_range / worksheet_formula / get_value compared with Ideal; the model's reader
       state is also fed to the internal get_range (calamine::verif::ods_get_range).
leg 2  `cvh drive ods`: random large tables, logged tokens + observed ranges, validated by
       Trace_OdsTable.tla (reader model reproduces the observation, and it equals Ideal).

sensitivity: (bin/mutant C04 '<sed>@src/ods.rs', quick tier; all KILLED)
sensitivity:  s/&empty_cells\\[col_min..\\]/\\&empty_cells/                 (the repaired defect re-introduced)
sensitivity:  s/cells.push(Data::Empty);/();/                              (pending empties never materialised)
sensitivity:  s/empty_col_repeats = repeats;/empty_col_repeats = 1;/       (repeat count of an empty run ignored)
sensitivity:  s/row_max = row_max + row_repeats - 1;/row_max = row_max + row_repeats;/
sensitivity:  s/.saturating_sub(i);/.saturating_sub(i + 1);/               (leading blank rows off by one)
sensitivity:  s/row_max = row_max + empty_row_repeats - consecutive_empty_rows;/row_max = row_max + empty_row_repeats;/
sensitivity:  s/new_cells.extend_from_slice(&row\\[col_min..=col_max\\]);/new_cells.extend_from_slice(\\&row[col_min..col_max]);/  (panics)
sensitivity:  s/QName(b"office:date-value") => Data::DateTimeIso(attr),/QName(b"office:date-value") => Data::String(attr),/
sensitivity:  s/if p > col_max {/if p >= col_max + 2 {/
"""
LEVEL = "model_checking"

QUICK = ["q_rows", "q_runs", "q_big", "q_types", "q_cols"]
THOROUGH = ["t_rows", "t_rows4", "t_runs", "t_big", "t_mid", "t_types", "t_cols"]


def run(ctx):
    ctx.rules.append(
        "TLC (MC_OdsTable) enumerates every physical table (sequence of table:table-row elements with "
        "number-rows-repeated, each a sequence of table-cell / covered-table-cell elements with "
        "number-columns-repeated and a typed value) over the run alphabet of each profile; every complete "
        "table is one evaluation: materialised as a real .ods, read by calamine::Ods, compared with Ideal "
        "(expand every run, tight bounding box, typing per the statement); non-trivial = has a value and "
        "at least one repeated or empty element; distinct = distinct token lists")
    ctx.assumptions += [
        "TLC and the CommunityModules (Json, SequencesExt folds)",
        "harness glue: harness/src/build/ods.rs writes the tokens 1:1 as XML; projection in props/ods.rs",
        "Vec<T> cells is modelled run-length compressed (value-preserving abstraction of the flat vector)",
        "tables whose bounding rectangle exceeds 2^22 cells are not generated (resource bound)",
        "not generated: string cells with empty text, formula cells without cached value, content in covered cells"]

    # self-test: the algorithm as pinned must be refuted by the model
    a = ctx.tlc("ods", "MC_OdsTable", "MC_OdsTable_asis.cfg", workers=2, timeout=300, xmx="2g",
                allow_violation=True)
    ctx.states -= a["distinct"]
    ctx.transitions -= a["generated"]
    ctx.extra["asis_model_refuted"] = bool(a["violated"])
    if not a["violated"]:
        ctx.fail("selftest:asis-model-not-refuted",
                 {"kind": "selftest", "info": "MC_OdsTable_asis.cfg (full-width padding) was not refuted",
                  "tlc_output": a["out"]})

    per = {}
    for prof in ctx.pick(QUICK, THOROUGH):
        r = ctx.tlc("ods", "MC_OdsTable", "MC_OdsTable_%s.cfg" % prof, workers=ctx.pick(3, 6),
                    timeout=ctx.pick(300, 2400), xmx=ctx.pick("3g", "8g"))
        n = 0
        if "REPLAY" in r["tags"]:
            rep = ctx.replay("ods", r["tags"]["REPLAY"], timeout=ctx.pick(300, 2400))
            n = rep.get("evaluated", 0)
        per[prof] = {"states": r["distinct"], "tables": n}
    if not ctx.quick:
        s = ctx.tlc("ods", "MC_OdsTable", "MC_OdsTable_sim.cfg", workers=6, simulate=2000, depth=400,
                    timeout=240, xmx="6g", name="MC_OdsTable_sim")
        n = 0
        if "REPLAY" in s["tags"]:
            n = ctx.replay("ods", s["tags"]["REPLAY"], timeout=1200).get("evaluated", 0)
        per["sim"] = {"tables": n}
    ctx.extra["profiles"] = per

    # leg 2
    trace = ctx.work + "/ods_trace.ndjson"
    ntab = ctx.pick(8, 150)
    ctx.cvh(["drive", "ods", "--out", trace, "--n", ntab, "--rows", ctx.pick(200, 300)])
    v = ctx.validate_trace("ods", "Trace_OdsTable", "Trace_OdsTable.cfg", trace,
                           timeout=ctx.pick(300, 2400), xmx=ctx.pick("4g", "8g"))
    if v["accepted"]:
        ctx.traces += v["events"]
        ctx.extra["trace_tables_validated"] = v["events"]
    else:
        ctx.fail("trace-rejected:Trace_OdsTable", {"kind": "trace", "trace": trace, "info": v["info"],
                                                   "tlc_output": v["out"]})
