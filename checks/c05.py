"""C05 — Range stays a consistent rectangle under every sequence of operations."""
LEVEL = "model_checking"


def run(ctx):
    ctx.rules.append(
        "TLC (MC_Range) enumerates every transition of the abstract Range state graph within the "
        "bounds of the cfg; each is replayed (BFS-shortest prefix + action) on real Range<usize> and "
        "Range<Data> and the full public projection compared with the ideal; non-trivial = the "
        "history contains set_value/range or starts from from_sparse; distinct = distinct (prefix,act)")
    ctx.assumptions += [
        "TLC and the CommunityModules Json module",
        "harness glue: op application and projection in harness/src/props/range.rs",
        "model values 0..3 stand for T::default()/non-default values (usize and Data::Int)"]
    cfg = ctx.pick("MC_Range_quick.cfg", "MC_Range_thorough.cfg")
    r = ctx.tlc("range", "MC_Range", cfg, workers=ctx.pick(4, 12), timeout=ctx.pick(600, 3000),
                xmx=ctx.pick("4g", "12g"), coverage=not ctx.quick)
    if "STEP" in r["tags"]:
        ctx.replay("range", r["tags"]["STEP"])
    if not ctx.quick:
        s = ctx.tlc("range", "MC_Range", "MC_Range_sim.cfg", workers=8, simulate=3000, depth=14,
                    timeout=900, name="MC_Range_sim")
        if "STEP" in s["tags"]:
            ctx.replay("range", s["tags"]["STEP"])
    # leg 2: random histories on the real object, validated against the spec
    trace = ctx.work + "/range_trace.ndjson"
    ctx.cvh(["drive", "range", "--out", trace, "--n", ctx.pick(60, 1500), "--steps", ctx.pick(40, 80)])
    v = ctx.validate_trace("range", "Trace_Range", "Trace_Range.cfg", trace, timeout=ctx.pick(600, 3000))
    if v["accepted"]:
        ctx.traces += 1
        ctx.extra["trace_events_validated"] = v["events"]
    else:
        ctx.fail("trace-rejected:Trace_Range", {"kind": "trace", "trace": trace, "info": v["info"],
                                                "tlc_output": v["out"]})
    # unbounded complement (Apalache): the shape of the range -- start <= end, inner.len() = height * width, the
    # written index inside inner -- is an inductive invariant of set_value's three arms for coordinates of any size
    ctx.rules.append("RangeShapeInd (Apalache, symbolic coordinates): Init => IndInv and IndInv /\\ SetValue => IndInv' "
                     "(shape and in-bounds write of Range::set_value for every rectangle and position)")
    for args in (["--init=Init", "--inv=IndInv", "--length=0"], ["--init=IndInit", "--inv=IndInv", "--length=1"]):
        ok, out = ctx.apalache("range", "RangeShapeInd", args)
        if ok is False:
            ctx.fail("spec:RangeShapeInd:" + args[0], {"kind": "apalache", "module": "RangeShapeInd", "args": args, "output": out})
