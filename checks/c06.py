"""C06 — malformed or hostile files yield an error, never a panic, hang or memory blow-up."""
import json
import os
LEVEL = "fault_enumeration"


def run(ctx):
    ctx.level = "fault_enumeration"
    ctx.rules.append(
        "seeds: 9 well-formed workbooks built by the materialisers (minimal and rich, 4 formats; thorough: + every "
        "repository fixture); the harness scans each for declared lengths/counts/offsets/indices/chain pointers/"
        "tags/numeric attributes/cell references/whole parts (field map); Faults.tla (TLC) enumerates every single "
        "fault (field x class of its kind) -- thorough: also every pair of faults on neighbouring fields --; each "
        "script is applied and EVERY entry point of the format's reader and of auto-detection is called in a worker "
        "process with a 768 MB allocation cap and a per-script deadline; outcome ok/err is safe, panic/abort/hang/"
        "out-of-proportion resources is a violation keyed by the innermost calamine function + message class; "
        "Trace_Faults (TLC) checks that every enumerated script was executed exactly once and is safe or a listed "
        "finding; non-trivial = every script (each is a distinct fault)")
    ctx.assumptions += ["only structured faults of well-formed seeds are reached, not all byte strings",
                        "faults inside zip / quick-xml / encoding_rs are out of scope",
                        "memory bound: 64 x file size + 64 MB; time bound: 3 s + 1 ms/KB (debug build)"]
    fields = ctx.work + "/fields.ndjson"
    fx = [] if ctx.quick else ["--fixtures", "1"]
    ctx.cvh(["faults", "fields", "--out", fields] + fx)
    nfields = sum(1 for _ in open(fields))
    ctx.extra["fields"] = nfields
    cfg = ctx.pick("Faults_single.cfg", "Faults_pairs.cfg")
    r = ctx.tlc("faults", "Faults", cfg, workers=ctx.pick(6, 12), timeout=ctx.pick(900, 6000), xmx=ctx.pick("6g", "24g"),
                env={"FIELDS": fields})
    if "REPLAY" not in r["tags"]:
        return
    scripts = r["tags"]["REPLAY"]
    trace = ctx.work + "/faults_trace.ndjson"
    report = ctx.work + "/faults_report.json"
    ctx.cvh(["faults", "run", "--in", scripts, "--out", trace, "--report", report, "--workers", ctx.pick(12, 14),
             "--deadline_s", ctx.pick(30, 60)] + fx, timeout=ctx.pick(1800, 20000))
    rep = json.load(open(report))
    ctx.evaluations += rep.get("evaluated", 0)
    ctx.nontrivial += rep.get("nontrivial", 0)
    ctx.samples += rep.get("samples", [])[:3]
    for f in rep.get("failures", []):
        ctx.fail(f.get("key", "unexplained"), f)
    # keys that failed but have no stored witness (more than 200 failures): still decide them
    for k in rep.get("fail_keys", {}):
        if k not in ctx.known and not any(v[0] == k for v in ctx.violations):
            ctx.fail(k, {"kind": "fault", "key": k, "note": "see " + report})
        elif k in ctx.known:
            ctx.known_hit[k] = ctx.known[k]
    known = ctx.work + "/known.ndjson"
    with open(known, "w") as f:
        f.write(json.dumps({"key": "__none__"}) + "\n")
        for k in ctx.known:
            f.write(json.dumps({"key": k}) + "\n")
        # scripts with several faults of which one site is a listed finding (see Ctx.fail)
        for k in sorted(ctx.excused_compound):
            f.write(json.dumps({"key": k}) + "\n")
    os.environ["KNOWN"] = known
    v = ctx.validate_trace("faults", "Trace_Faults", "Trace_Faults.cfg", trace, timeout=ctx.pick(900, 6000), xmx=ctx.pick("4g", "16g"))
    if v["accepted"]:
        ctx.traces += 1
        ctx.extra["trace_events_validated"] = v["events"]
    else:
        ctx.fail("trace-rejected:Trace_Faults", {"kind": "trace", "trace": trace, "info": v["info"], "tlc_output": v["out"]})
    # the xls drawing group (cargo feature "picture"; tla/media/Pictures.tla, X06): every malformed picture store of
    # MC_Pictures built into a workbook, and random stores damaged at random -- an error or a reading, never a panic
    # (repair /repo fecc773; known_findings.json "fixed")
    ctx.rules.append("xls drawing group (feature picture): the malformed stores of MC_Pictures_hostile.cfg (instance, blip length, FBSE "
                     "length, FBSE name length, type range, truncation x record cuts) and randomly damaged OfficeArt streams: no panic")
    os.environ.pop("KNOWN", None)
    r = ctx.tlc("media", "MC_Pictures", "MC_Pictures_hostile.cfg", workers=4, timeout=900, xmx="4g")
    if "REPLAY" in r["tags"]:
        ctx.replay("pictures", r["tags"]["REPLAY"], extra=["--only_panics", "1"])
    ptrace = ctx.work + "/pictures_hostile_trace.ndjson"
    ctx.cvh(["drive", "pictures", "--out", ptrace, "--n", ctx.pick(150, 3000)])
    v = ctx.validate_trace("media", "Trace_Pictures", "Trace_Pictures.cfg", ptrace, timeout=ctx.pick(600, 3000), extra_env={"ONLY": "hostile"})
    if v["accepted"]:
        ctx.traces += 1
    else:
        ctx.fail("trace-rejected:Trace_Pictures", {"kind": "trace", "trace": ptrace, "info": v["info"], "tlc_output": v["out"]})
