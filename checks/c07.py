"""C07 — read calls are pure and the alternative access paths agree."""
LEVEL = "model_checking"


def run(ctx):
    ctx.rules.append(
        "MC_ReaderApi enumerates every API history up to a bound (quick 2, thorough 3 calls) over "
        "{worksheet_range, _range_ref, _range_at, worksheets, worksheet_formula, worksheet_merge_cells, "
        "sheet_names, defined_names, vba_project, load_tables, table_names, table_by_name, load_merged_regions, "
        "merged_regions_by_sheet, with_header_row, unknown sheet} with the reader's mutable state tracked; each "
        "history runs on native readers of xlsx/xlsb/xls/ods, on auto-detected readers and on fresh single-call "
        "readers of the same workbook; every call+result is a trace event validated by Trace_ReaderApi "
        "(memo: result is a function of format/call/argument/option only; range-like paths share a key; "
        "unknown sheet => error); non-trivial = more than one call")
    ctx.assumptions += ["one workbook per format (two sheets; the xlsx one also has a formula, merged regions, a table, a defined name)",
                        "worksheets() entries are compared with worksheet_range only under the default option",
                        "Sheets::worksheet_range_ref is unimplemented!() for xls/ods by design and not called"]
    cfg = ctx.pick("MC_ReaderApi_quick_api.cfg", "MC_ReaderApi_thorough_api.cfg")
    r = ctx.tlc("api", "MC_ReaderApi", cfg, workers=ctx.pick(4, 8), timeout=ctx.pick(600, 3000))
    if "REPLAY" not in r["tags"]:
        return
    trace = ctx.work + "/api_trace.ndjson"
    ctx.replay("api", r["tags"]["REPLAY"], extra=["--trace", trace, "--rich", "1"])
    v = ctx.validate_trace("api", "Trace_ReaderApi", "Trace_ReaderApi.cfg", trace, timeout=ctx.pick(600, 3000), xmx=ctx.pick("4g", "12g"))
    if v["accepted"]:
        ctx.traces += 1
        ctx.extra["trace_events_validated"] = v["events"]
    else:
        ctx.fail("trace-rejected:Trace_ReaderApi", {"kind": "trace", "trace": trace, "info": v["info"], "tlc_output": v["out"]})
