"""C08 — header-row option selects the first row without altering any cell."""
LEVEL = "model_checking"


def run(ctx):
    ctx.rules.append(
        "MC_ReaderApi (hdr configuration) enumerates sparse sheets x every sequence (<= 3 steps) of option "
        "changes and reads with header rows before / inside / in a gap of / after the data, 1048575, u32::MAX "
        "and back to the default; each runs on xlsx, xlsb, xls and ods readers (native, auto-detected, fresh; every "
        "other xlsx workbook stores its rows in descending order); "
        "every returned range is a trace event on which Trace_ReaderApi evaluates the statement's predicate "
        "HeaderOK (first row, values at rows >= n, nothing from above, empty when nothing is left, no panic) and "
        "that the option only affects subsequent reads; non-trivial = an explicit header row is in force")
    ctx.assumptions += ["values are compared through absolute positions, column extents are free (lazy and eager readers differ)"]
    cfg = ctx.pick("MC_ReaderApi_quick_hdr.cfg", "MC_ReaderApi_thorough_hdr.cfg")
    r = ctx.tlc("api", "MC_ReaderApi", cfg, workers=ctx.pick(4, 8), timeout=ctx.pick(600, 3000), xmx=ctx.pick("4g", "12g"))
    if "REPLAY" not in r["tags"]:
        return
    trace = ctx.work + "/hdr_trace.ndjson"
    ctx.replay("api", r["tags"]["REPLAY"], extra=["--trace", trace, "--rowsdesc", 1])
    v = ctx.validate_trace("api", "Trace_ReaderApi", "Trace_ReaderApi.cfg", trace, timeout=ctx.pick(900, 6000), xmx=ctx.pick("6g", "24g"))
    if v["accepted"]:
        ctx.traces += 1
        ctx.extra["trace_events_validated"] = v["events"]
        # the last row of the grid: a cell in row 1 048 576 (65 536 in xls) under header rows 0, the last row, u32::MAX
        r2 = ctx.tlc("api", "MC_ReaderApi", "MC_ReaderApi_quick_hdrlast.cfg", workers=2, timeout=300, xmx="2g", name="MC_ReaderApi_hdrlast")
        if "REPLAY" in r2["tags"]:
            t2 = ctx.work + "/hdrlast_trace.ndjson"
            ctx.replay("api", r2["tags"]["REPLAY"], extra=["--trace", t2])
            v2 = ctx.validate_trace("api", "Trace_ReaderApi", "Trace_ReaderApi.cfg", t2, timeout=900, xmx="6g", name="trace_hdrlast")
            if v2["accepted"]:
                ctx.traces += 1
            else:
                ctx.fail("trace-rejected:Trace_ReaderApi:lastrow", {"kind": "trace", "trace": t2, "info": v2["info"], "tlc_output": v2["out"]})
    else:
        ctx.fail("trace-rejected:Trace_ReaderApi", {"kind": "trace", "trace": trace, "info": v["info"], "tlc_output": v["out"]})
