"""C09 — serde deserialisation maps rows to records faithfully.

sensitivity (bin/mutant C09 ...): see DESIGN.md §11; the two defects this check found on the pinned
tree (iterator position never advanced / size_hint constant; CellError column) are fixed in /repo.
"""
LEVEL = "model_checking"


def run(ctx):
    ctx.rules.append(
        "MC_De enumerates scenarios (typed logical table x physical presentation: origin, column "
        "permutation, padded headers x header configuration none/all/custom subset in any order/"
        "struct field names/missing x record shape tuple/struct/map/derived struct); each is built as a "
        "real Range<Data> and deserialised with real serde impls; the observation sequence build,"
        "(size_hint,next)* is compared with the ideal; non-trivial = has data rows or a custom selection")
    ctx.assumptions += ["serde's own impls for String/f64/i64/bool/Option/HashMap and serde_derive",
                        "conversions asserted only where the statement fixes them (DeSpec.ConvBase)",
                        "size_hint compared as a bracket, not for exactness"]
    tier = "quick" if ctx.quick else "thorough"
    for part in ("conv", "iter", "hdr"):
        r = ctx.tlc("de", "MC_De", "MC_De_%s_%s.cfg" % (tier, part), workers=ctx.pick(6, 12),
                    timeout=ctx.pick(600, 3000), xmx=ctx.pick("4g", "12g"))
        if "REPLAY" in r["tags"]:
            ctx.replay("de", r["tags"]["REPLAY"])
    trace = ctx.work + "/de_trace.ndjson"
    ctx.cvh(["drive", "de", "--out", trace, "--n", ctx.pick(150, 3000), "--maxh", ctx.pick(15, 40)])
    v = ctx.validate_trace("de", "Trace_De", "Trace_De.cfg", trace, timeout=ctx.pick(600, 3000))
    if v["accepted"]:
        ctx.traces += 1
        ctx.extra["trace_events_validated"] = v["events"]
    else:
        ctx.fail("trace-rejected:Trace_De", {"kind": "trace", "trace": trace, "info": v["info"],
                                             "tlc_output": v["out"]})
