"""C10 — a number is typed DateTime exactly when its cell style is a date/time format."""
LEVEL = "model_checking"


def run(ctx):
    ctx.rules.append(
        "MC_NumFmt: token-level grammar machine for number formats (sections; bracket prefixes colour/"
        "condition/locale; numeric, date/time, elapsed, text bodies; quoted/escaped literals containing date "
        "letters, '_' and '\\\\'); ground truth by construction; TLC checks the transcribed scanner = truth on "
        "every generated format; each format is classified by the real detect_custom_number_format (window) "
        "AND end-to-end as a custom numFmt of real xlsx workbooks (both date systems, prefixed/unprefixed, two "
        "style-table layouts, three numeric encodings); all strings <= L over the scanner alphabet and all "
        "built-in ids are validated against the spec as a trace; non-trivial = more than one token")
    ctx.assumptions += ["formats outside the generated grammar (aaa/e/g/b tokens, '*' fill, date before elapsed token) are not asserted",
                        "xls/xlsb style tables are covered once their materialisers are merged"]
    if ctx.quick:
        r = ctx.tlc("fmt", "MC_NumFmt", "MC_NumFmt_quick.cfg", workers=6, timeout=600, xmx="4g")
        if "REPLAY" in r["tags"]:
            ctx.replay("numfmt", r["tags"]["REPLAY"])
    else:
        ctx.tlc("fmt", "MC_NumFmt", "MC_NumFmt_thorough.cfg", workers=12, timeout=3000, xmx="16g", coverage=True)
        r = ctx.tlc("fmt", "MC_NumFmt", "MC_NumFmt_thorough_dump.cfg", workers=12, timeout=3000, xmx="16g")
        if "REPLAY" in r["tags"]:
            ctx.replay("numfmt", r["tags"]["REPLAY"])
    # built-in ids through real files
    out = ctx.work + "/builtin.in"
    open(out, "w").write("")
    ctx.replay("numfmt_builtin", out, extra=["--maxid", ctx.pick(300, 2000)])
    # exhaustive short strings + id tables, validated as a trace of the spec
    trace = ctx.work + "/numfmt_trace.ndjson"
    ctx.cvh(["drive", "numfmt", "--out", trace, "--maxlen", ctx.pick(3, 4), "--maxid", ctx.pick(1000, 65535)])
    v = ctx.validate_trace("fmt", "Trace_NumFmt", "Trace_NumFmt.cfg", trace, timeout=ctx.pick(600, 3000), xmx=ctx.pick("4g", "12g"))
    if v["accepted"]:
        ctx.traces += 1
        ctx.extra["trace_events_validated"] = v["events"]
    else:
        ctx.fail("trace-rejected:Trace_NumFmt", {"kind": "trace", "trace": trace, "info": v["info"],
                                                 "tlc_output": v["out"]})
