"""C10 — a number is typed DateTime exactly when its cell style is a date/time format."""
LEVEL = "model_checking"


def xlsb_step(ctx, formats):
    """xlsb style-table path (tla/fmt/XlsbStyles.tla): BrtFmt -> BrtXF numFmtId -> iStyleRef, every
    numeric cell encoding (BrtCellReal, BrtFmlaNum, BrtCellRk int / int x100 / double / double x100).
    sensitivity: (bin/mutant C10 '<sed>@<file>', quick tier; all KILLED)
    sensitivity:  s/fmt @ Some(CellFormat::DateTime | CellFormat::TimeDelta) => {/fmt @ Some(CellFormat::DateTime) => {/@src/xlsb/cells_reader.rs
    sensitivity:  s/let fmt_code = read_u16(\&buf\[2..4\]);/let fmt_code = read_u16(\&buf[0..2]);/@src/xlsb/mod.rs
    sensitivity:  s/let style_ref = u32::from_le_bytes(\[buf\[4\], buf\[5\], buf\[6\], 0\]);/let style_ref = u32::from_le_bytes([buf[4], 0, 0, 0]);/@src/xlsb/mod.rs
    sensitivity:  s/self.is_1904 = \&buf\[0\] \& 0x1 != 0;/self.is_1904 = \&buf[0] \& 0x2 != 0;/@src/xlsb/mod.rs
    sensitivity:  s/0x0269 => {/0x0272 | 0x0269 => {/@src/xlsb/mod.rs        (style XFs taken for cell XFs)
    """
    ctx.rules.append(
        "xlsb: MC_XlsbStyles enumerates style tables (BrtFmt ids below/above 164 incl. same-class overrides of "
        "built-in date ids, in every order; 1 or 3 style XFs; cell XFs; both date systems), each materialised "
        "with one cell per (cell XF, numeric encoding); every MC_NumFmt format is also stored as BrtFmt of real "
        "xlsb workbooks (6 encodings, two layouts, both date systems) and every built-in id as BrtXF numFmtId")
    for cfg, what in (("MC_XlsbStyles_asis.cfg", "integer RK ignores the style"),
                      ("MC_XlsbStyles_asis_builtin.cfg", "a format declared under a built-in date id is ignored")):
        a = ctx.tlc("fmt", "MC_XlsbStyles", cfg, workers=2, timeout=300, xmx="2g", allow_violation=True)
        ctx.states -= a["distinct"]
        ctx.transitions -= a["generated"]
        ctx.extra["refuted:" + cfg] = bool(a["violated"])
        if not a["violated"]:
            ctx.fail("selftest:asis-model-not-refuted", {"kind": "selftest", "info": "%s (%s) was not refuted" % (cfg, what), "tlc_output": a["out"]})
    s = ctx.tlc("fmt", "MC_XlsbStyles", ctx.pick("MC_XlsbStyles_quick.cfg", "MC_XlsbStyles_thorough.cfg"),
                workers=ctx.pick(4, 8), timeout=ctx.pick(300, 1800), xmx=ctx.pick("3g", "8g"))
    if "REPLAY" in s["tags"]:
        ctx.replay("xlsbstyles", s["tags"]["REPLAY"], timeout=1800)
    if formats:
        ctx.replay("numfmt_xlsb", formats, extra=["--maxid", ctx.pick(300, 2000)], timeout=1800)


def run(ctx):
    ctx.rules.append(
        "MC_NumFmt: token-level grammar machine for number formats (sections; bracket prefixes colour/"
        "condition/locale; numeric, date/time, elapsed, text bodies; quoted/escaped literals containing date "
        "letters, '_' and '\\\\'); ground truth by construction; TLC checks the transcribed scanner = truth on "
        "every generated format; each format is classified by the real detect_custom_number_format (window) "
        "AND end-to-end as a custom numFmt of real xlsx workbooks (both date systems, prefixed/unprefixed, two "
        "style-table layouts, three numeric encodings); all strings <= L over the scanner alphabet and all "
        "built-in ids are validated against the spec as a trace; non-trivial = more than one token")
    ctx.assumptions += ["formats outside the generated grammar (aaa/e/g/b tokens, '*' fill, date before elapsed token) are not asserted",
                        "xls style tables are covered once their materialiser is merged"]
    if ctx.quick:
        r = ctx.tlc("fmt", "MC_NumFmt", "MC_NumFmt_quick.cfg", workers=6, timeout=600, xmx="4g")
        if "REPLAY" in r["tags"]:
            ctx.replay("numfmt", r["tags"]["REPLAY"])
    else:
        ctx.tlc("fmt", "MC_NumFmt", "MC_NumFmt_thorough.cfg", workers=12, timeout=3000, xmx="16g", coverage=True)
        r = ctx.tlc("fmt", "MC_NumFmt", "MC_NumFmt_thorough_dump.cfg", workers=12, timeout=3000, xmx="16g")
        if "REPLAY" in r["tags"]:
            ctx.replay("numfmt", r["tags"]["REPLAY"])
    xlsb_step(ctx, r["tags"].get("REPLAY"))
    # built-in ids through real files
    out = ctx.work + "/builtin.in"
    open(out, "w").write("")
    ctx.replay("numfmt_builtin", out, extra=["--maxid", ctx.pick(300, 2000)])
    # exhaustive short strings + id tables, validated as a trace of the spec
    trace = ctx.work + "/numfmt_trace.ndjson"
    ctx.cvh(["drive", "numfmt", "--out", trace, "--maxlen", ctx.pick(3, 4), "--maxid", ctx.pick(1000, 65535)])
    v = ctx.validate_trace("fmt", "Trace_NumFmt", "Trace_NumFmt.cfg", trace, timeout=ctx.pick(600, 3000), xmx=ctx.pick("4g", "12g"))
    if v["accepted"]:
        ctx.traces += 1
        ctx.extra["trace_events_validated"] = v["events"]
    else:
        ctx.fail("trace-rejected:Trace_NumFmt", {"kind": "trace", "trace": trace, "info": v["info"],
                                                 "tlc_output": v["out"]})
