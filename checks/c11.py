"""C11 — serial date-times convert to the right calendar date, time and duration."""
import concurrent.futures
LEVEL = "model_checking"


def run(ctx):
    ctx.rules.append(
        "ExcelDate.tla: calendar state machine (NextDay with the 1900 leap-year shim, 1904 offset) checked by "
        "TLC against the closed form; the real conversions are swept (quick: 15 windows of 700-1500 days per "
        "system; thorough: every whole day 0..=2958465 in both systems) through ExcelDateTime and Data/DataRef "
        "Int/Float/DateTime paths (which must agree), fractions on and +-0.4 ms around second/minute/hour/day "
        "boundaries, monotone chains of serials across the special days (consecutive pairs, both results logged), durations, and out-of-range values; every result is one trace event validated against "
        "the spec; non-trivial = every event (each is a distinct serial/path)")
    ctx.assumptions += ["chrono's NaiveDateTime arithmetic", "exact .5 ms ties and NaN are not asserted",
                        "serial 60 in the 1900 system (fictitious day) is only required not to advance the calendar"]
    cfg = ctx.pick("MC_ExcelDate_quick.cfg", "MC_ExcelDate_thorough.cfg")
    ctx.tlc("date", "MC_ExcelDate", cfg, workers=ctx.pick(4, 2), timeout=ctx.pick(600, 7000), xmx=ctx.pick("4g", "12g"))
    chunks = ctx.pick(1, 14)
    prefix = ctx.work + "/dates"
    ctx.cvh(["drive", "dates", "--out", prefix, "--chunks", chunks, "--mode", ctx.pick("windows", "full")])

    import json, os
    known = ctx.work + "/known.ndjson"
    with open(known, "w") as f:
        f.write(json.dumps({"key": "__none__"}) + "\n")
        for k in ctx.known:
            f.write(json.dumps({"key": k}) + "\n")
    os.environ["KNOWN"] = known
    # helper events that disagree are findings (listed) or violations (not listed)
    for line in open(prefix + ".0.ndjson"):
        if '"e":"helper"' in line:
            ev = json.loads(line)
            if not ev["agree"]:
                ctx.fail(ev["key"], {"kind": "helper", "event": ev})

    def val(i):
        return i, ctx.validate_trace("date", "Trace_ExcelDate", "Trace_ExcelDate.cfg", "%s.%d.ndjson" % (prefix, i),
                                     timeout=ctx.pick(900, 7000), xmx="3g", name="trace_dates_%d" % i)
    events = 0
    with concurrent.futures.ThreadPoolExecutor(max_workers=ctx.pick(1, 14)) as ex:
        for i, v in ex.map(val, range(chunks)):
            if v["accepted"]:
                ctx.traces += 1
                events += v["events"]
            else:
                ctx.fail("trace-rejected:Trace_ExcelDate", {"kind": "trace", "trace": "%s.%d.ndjson" % (prefix, i),
                                                           "info": v["info"], "tlc_output": v["out"]})
    ctx.evaluations += events
    ctx.nontrivial += events
    ctx.extra["trace_events_validated"] = events
    if events:
        import json
        with open(prefix + ".0.ndjson") as f:
            for k, line in enumerate(f):
                if k in (1, 700):
                    ctx.samples.append(json.loads(line))
