"""C12 — XLS strings decode identically however records are split and characters packed.

leg 0  tla/biff/MC_BiffSst.tla (writer: a table of XLUnicodeRichExtendedStrings serialised byte by byte
       into SST + CONTINUE fragments with every legal cut set: between strings, between characters with
       a fresh flag byte and possibly switched 8/16-bit storage, anywhere inside rgRun / ExtRst; rich
       runs cRun in {0,1,2}, ExtRst cb in {0,1,5}; unit classes latin-1 low/high, BMP, surrogate
       halves) || tla/biff/BiffSst.tla (reader: parse_sst, read_rich_extended_string, read_dbcs,
       Record::continue_record, Record::skip, XlsEncoding::decode_to); Refines: the table reads back.
leg 1  `cvh replay sst`: the fragments become a real SST in a real workbook; every string is observed
       through a LABELSST cell; the same strings as LABEL (both storages), FORMULA+STRING and
       BoundSheet8 sheet name; `--inflate K`: every model unit / run / ExtRst byte stands for K real
       ones (8224-byte record limit and 32 000-unit strings are crossed).
leg 2  `cvh drive sst`: random tables (thousands of strings); Trace_BiffSst.tla re-runs the reader model
       over the logged fragments.

sensitivity: bin/mutant C12 '<sed>@src/xls.rs' quick -- 9 of 10 killed:
sensitivity: s/high_byte = r.data\[0\] \& 0x1 != 0;/let _ = r.data[0];/          flag byte not re-read        KILLED
sensitivity: /high_byte = .../{n;s/r.data = &r.data\[1..\];/r.data = \&r.data[0..];/}  flag byte not skipped     KILLED
sensitivity: s/r.skip(c_run \* 4)?;/r.skip(c_run * 2)?;/                          rgRun half skipped           KILLED
sensitivity: s/r.skip(cb_ext_rst)?;//                                              ExtRst not skipped           KILLED
sensitivity: s/if flags \& 0x8 != 0 {/if flags \& 0x10 != 0 {/                    fRichSt bit                  KILLED
sensitivity: s/self.data = v.remove(0);/self.data = v.remove(v.len() - 1);/        continue_record order        KILLED
sensitivity: s/if l == cch {/if l == len {/  (in the repaired read_dbcs)           fast path taken too often    KILLED
sensitivity: s/high_byte = Some(r.data\[0\] \& 0x1 != 0);/high_byte = Some(false);/ sheet-name storage flag   KILLED
sensitivity: s/_ => (Some(r\[2\] \& 0x1 != 0), 3),/_ => (Some(true), 3),/         LABEL/STRING storage flag    KILLED
sensitivity: s/min(stream.len() \/ 2, len)/min((stream.len() + 1) \/ 2, len)/@src/cfb.rs  SURVIVED -- equivalent on the
sensitivity:    checked language: differs only when a 16-bit character is split mid-character (illegal cut)
sensitivity: reverting fix 312fb27 (per-fragment decoding) is refuted by leg 0 (MC_BiffSst_aswas.cfg: dev SurrogateSplit)
sensitivity:    and was observed on the real code (118 of 4686 layouts read U+FFFD U+FFFD) before the fix
sensitivity: seeded C02-2 (parse_sst drops zero-length strings)                                      KILLED (replay + trace)
"""
import json

LEVEL = "model_checking"


def run(ctx):
    ctx.rules.append(
        "TLC (MC_BiffSst) enumerates, for every table of the cfg (1-3 strings, cch <= 3 (4), unit classes "
        "L/E/W/H/Lo, cRun 0/1/2, cbExtRst 0/1/5), every serialisation: initial storage per string x every set "
        "of <= MaxCuts legal cuts x storage after each rgb cut; each complete fragment list is one case, "
        "materialised 1:1 (and inflated) into a real workbook and read by Xls; non-trivial = at least one cut")
    ctx.rules.append("leg 2: seeded random tables, one trace event per table and one per observed string list")
    ctx.assumptions += [
        "TLC, CommunityModules (Json, IOUtils, SequencesExt!FoldLeft)",
        "harness: build/biff.rs record framing and sst_frags (checked byte-for-byte against the model's "
        "fragments at inflation 1)",
        "code page 1200 (BIFF8); strings are observed through LABELSST cells, sheet names through sheet_names()",
        "a character is a UTF-16 code unit (cch counts units): a cut between the halves of a surrogate pair "
        "is in the checked language",
        "not asserted: a cut between the string header and its first character (HeaderCut configuration is "
        "replayed and reported in the evidence only), cuts inside header fields (illegal), empty CONTINUE "
        "records, LABELSST cells pointing at an empty string"]
    cfgs = ctx.pick([("MC_BiffSst_quick.cfg", [1, 2100])],
                    [("MC_BiffSst_quick.cfg", [1, 2100]), ("MC_BiffSst_thorough.cfg", [1, 700, 8000])])
    counts = {}
    for cfg, inflations in cfgs:
        r = ctx.tlc("biff", "MC_BiffSst", cfg, workers=6, timeout=ctx.pick(300, 2400), xmx=ctx.pick("4g", "8g"))
        if "WHY" in r["tags"]:
            ctx.extra.setdefault("spec_violation_reasons", []).extend(
                sorted(set(open(r["tags"]["WHY"]).read().split("\n")) - {""}))
        if "REPLAY" in r["tags"]:
            counts[cfg] = sum(1 for _ in open(r["tags"]["REPLAY"]))
            for k in inflations:
                ctx.replay("sst", r["tags"]["REPLAY"], extra=["--inflate", str(k)])
    # doubtful cut between header and first character: replayed, reported, not asserted
    r = ctx.tlc("biff", "MC_BiffSst", "MC_BiffSst_hdrcut.cfg", workers=6, timeout=300)
    if "REPLAY" in r["tags"]:
        out = r["tags"]["REPLAY"] + ".report.json"
        ctx.cvh(["replay", "sst", "--in", r["tags"]["REPLAY"], "--out", out])
        rep = json.load(open(out))
        ctx.extra["headercut_not_asserted"] = {"evaluated": rep.get("evaluated"), "fail_keys": rep.get("fail_keys")}
        for f in rep.get("failures", []):
            if f.get("key") != "headercut":
                f["cmd"] = ["replay", "sst"]
                ctx.fail(f.get("key", "unexplained"), f)
    ctx.extra["behaviours_enumerated"] = counts
    # leg 2
    chunks = ctx.pick([(6, 400)], [(30, 1500), (3, 10000)])
    for k, (n, strings) in enumerate(chunks):
        trace = "%s/sst_trace_%d.ndjson" % (ctx.work, k)
        rep = "%s/sst_drive_%d.json" % (ctx.work, k)
        ctx.cvh(["drive", "sst", "--out", trace, "--report", rep, "--n", n, "--strings", strings,
                 "--seed", ctx.seed + k])
        d = json.load(open(rep))
        ctx.evaluations += d.get("evaluated", 0)
        ctx.nontrivial += d.get("nontrivial", 0)
        ctx.extra["drive_strings_written"] = ctx.extra.get("drive_strings_written", 0) + d.get("strings_written", 0)
        aborted = False
        for f in d.get("failures", []):
            f["cmd"] = None
            aborted = aborted or f.get("key") == "abort"
            ctx.fail(f.get("key", "unexplained"), f)
        if aborted:
            continue
        v = ctx.validate_trace("biff", "Trace_BiffSst", "Trace_BiffSst.cfg", trace, timeout=ctx.pick(300, 2400),
                               xmx=ctx.pick("4g", "8g"), name="trace_biffsst_%d" % k)
        if v["accepted"]:
            ctx.traces += 1
            ctx.extra["trace_events_validated"] = ctx.extra.get("trace_events_validated", 0) + v["events"]
        else:
            ctx.fail("trace-rejected:Trace_BiffSst", {"kind": "trace", "trace": trace, "info": v["info"],
                                                      "tlc_output": v["out"]})
    ctx.exhaustive = True
