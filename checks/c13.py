"""C13 — compound-file streams are recovered whatever the container's physical layout.

leg 0  tla/cfb/MC_Cfb.tla (writer = every legal [MS-CFB] layout of a stream set over a few model
       sectors) || tla/cfb/Cfb.tla (reader = transcription of src/cfb.rs Cfb::new / get_stream /
       get_chain); TLC checks Refines (every stream reads back byte-exact) for every layout.
leg 1  every enumerated layout is materialised by `cvh replay cfb` into a real compound file (a model
       sector = a run of real sectors) and read through calamine::verif::CfbWindow (byte-exact) and
       Xls::new + worksheet_range (equal to the canonical layout's read).
leg 2  `cvh drive cfb`: random real-size layouts; Trace_Cfb.tla re-runs the reader model over the
       logged file and must reproduce what the real reader returned.

sensitivity: bin/mutant C13 '<sed>@src/cfb.rs' quick -- 8 of 8 killed:
sensitivity: s/if d.len < 4096 {/if d.len <= 4096 {/                      mini cutoff off by one      KILLED (abort + replay)
sensitivity: s/Sectors::new(64, ministream)/Sectors::new(128, ministream)/ mini sector size            KILLED (replay + trace)
sensitivity: s/h.dir_len \* h.sector_size/h.dir_len * 128/                v4 directory cut short      KILLED (replay + trace)
sensitivity: s/while sector_id < RESERVED_SECTORS {/while sector_id < 1 {/ DIFAT sectors ignored       KILLED (trace: sparse > 6.9 MB file)
sensitivity: s/if len > 0 {/if len > 1 {/                                  1-byte streams not truncated KILLED (replay + trace)
sensitivity: s/h.mini_fat_len \* h.sector_size,/h.mini_fat_len * 64,/     mini FAT cut short          KILLED (replay + trace)
sensitivity: re-inserting `|| (h.version != 3 && dirs[0].start == ENDOFCHAIN)` (reverts fix 4f54d44)  KILLED (replay)
sensitivity: seeded C13-2 `difat.last().copied()` for `difat.pop()` (needs >= 2 DIFAT sectors)          KILLED (trace + read: sparse 15.5 / 24 MB files)
sensitivity: s/let start = id as usize \* self.size;/let start = (id as usize + 1) * self.size;/      KILLED (abort)
"""
import json

LEVEL = "model_checking"


def run(ctx):
    ctx.rules.append(
        "TLC (MC_Cfb) enumerates every layout of the cfg's stream sets: version 3/4 x directory order "
        "(incl. unused entries) x mini-sector arrangement x surplus FAT/mini-FAT sectors x every "
        "injection of the sector units into the sector ids (PlaceMode all) or every lowest/highest-free "
        "placement (PlaceMode ends); each complete layout is one case, materialised 1:1 and read back; "
        "non-trivial = chains not in ascending contiguous order or a mini stream present; distinct = "
        "distinct (version, streams, directory, mini slots, unit placement)")
    ctx.rules.append(
        "leg 2: seeded random real-size layouts (lengths around 0,1,63,64,65,4095,4096,4097 and sector "
        "multiples, multi-FAT-sector files, DIFAT chains via > 109 FAT sectors, in thorough also "
        "1-3 MB files and > 6.9 MB files); one trace event per file and per stream read")
    ctx.assumptions += [
        "TLC, CommunityModules (Json, IOUtils, SequencesExt!FoldLeft)",
        "harness writer harness/src/build/cfb.rs produces what its description (logged for Trace_Cfb) says; "
        "it is cross-checked by the model writer only through the common reader",
        "data bytes are abstracted to block descriptors + exact length in the model; the harness compares "
        "real bytes",
        "layouts with DIFAT sectors are model-checked (leg 0) and driven at real size (leg 2) but not "
        "materialised from the model (a real DIFAT sector needs > 109 FAT sectors)",
        "not in the checked language: equal stream names in different storages, empty streams whose start "
        "is not ENDOFCHAIN, mini stream size not a multiple of 64, files > 2 GB (range-lock sector)"]
    cfgs = ctx.pick(
        ["MC_Cfb_quick_perm.cfg", "MC_Cfb_quick_dir.cfg", "MC_Cfb_quick_difat.cfg", "MC_Cfb_quick_difat2.cfg"],
        ["MC_Cfb_quick_perm.cfg", "MC_Cfb_quick_dir.cfg", "MC_Cfb_thorough_perm.cfg", "MC_Cfb_thorough_dir.cfg",
         "MC_Cfb_thorough_difat.cfg", "MC_Cfb_thorough_difat2.cfg"])
    layouts = {}
    for cfg in cfgs:
        r = ctx.tlc("cfb", "MC_Cfb", cfg, workers=6, timeout=ctx.pick(300, 2400),
                    xmx=ctx.pick("4g", "8g"), coverage=False)
        if "WHY" in r["tags"]:
            why = sorted(set(open(r["tags"]["WHY"]).read().split("\n")) - {""})
            ctx.extra.setdefault("spec_violation_reasons", []).extend(why)
        if "REPLAY" in r["tags"]:
            n = sum(1 for _ in open(r["tags"]["REPLAY"]))
            layouts[cfg] = n
            if "difat" not in cfg:
                ctx.replay("cfb", r["tags"]["REPLAY"])
    ctx.extra["layouts_enumerated"] = layouts
    # leg 2
    stats = []
    chunks = ctx.pick([(60, 0, 0, 3)], [(300, 0, 0, 3), (300, 0, 0, 0), (40, 6, 0, 6), (4, 0, 2, 0)])
    for k, (n, big, huge, sparse) in enumerate(chunks):
        trace = "%s/cfb_trace_%d.ndjson" % (ctx.work, k)
        rep = "%s/cfb_drive_%d.json" % (ctx.work, k)
        ctx.cvh(["drive", "cfb", "--out", trace, "--report", rep, "--n", n, "--big", big, "--huge", huge, "--sparse", sparse,
                 "--seed", ctx.seed + k])
        d = json.load(open(rep))
        ctx.evaluations += d.get("evaluated", 0)
        ctx.nontrivial += d.get("nontrivial", 0)
        stats.append(d.get("stats"))
        aborted = False
        for f in d.get("failures", []):
            f["cmd"] = None
            aborted = aborted or f.get("key") == "abort"
            ctx.fail(f.get("key", "unexplained"), f)
        if aborted:
            continue    # the driver process died (calamine aborted); there is no trace to validate
        v = ctx.validate_trace("cfb", "Trace_Cfb", "Trace_Cfb.cfg", trace, timeout=ctx.pick(300, 2400),
                               xmx=ctx.pick("4g", "8g"), name="trace_cfb_%d" % k)
        if v["accepted"]:
            ctx.traces += 1
            ctx.extra["trace_events_validated"] = ctx.extra.get("trace_events_validated", 0) + v["events"]
        else:
            ctx.fail("trace-rejected:Trace_Cfb", {"kind": "trace", "trace": trace, "info": v["info"],
                                                  "tlc_output": v["out"]})
    ctx.extra["drive_stats"] = stats
    ctx.exhaustive = True   # leg 0/1 are exhaustive within the cfg bounds; leg 2 is sampled
