"""C14 — formulas at their cell with A1 text (token-encoded formats: xlsb part).

stored-text formats (xlsx, ods): tla/fmla/StoredFormula.tla, MC_StoredFormula, Trace_StoredFormula
(harness/src/props/stored_formula.rs), run after the token-encoded parts below.

leg 0  tla/fmla/Ptg.tla: formula trees, Rpn(tree) (writer), Render(tree) (Ideal, from the statement)
       and Parse(tokens) = the offset-stack machine of parse_formula (src/xlsb/mod.rs) over symbol
       sequences; TLC checks Parse(Rpn(t)) = Render(t) for every tree of MC_Ptg_<profile>.cfg.
       MC_Ptg_asis_{col,ref,area}.cfg keep the three repaired defects (push_column, PtgRef `$` flags,
       PtgArea/3d flags) and MUST each be refuted.
leg 1  every tree -> BIFF12 rgce bytes (harness/src/build/xlsb.rs rgce_from_tokens; reference class
       variants rotate) -> BrtFmla{Num,String,Bool,Error} record at varying positions + BrtName of a
       real .xlsb -> worksheet_formula / defined_names compared with Render(tree).
sweep  every column 0..16383 through a PtgRef in real files and through verif::push_column.
The BIFF8 (xls) layout is checks/c14_xls.py, run at the end of this check.

sensitivity: (bin/mutant C14 '<sed>@<file>', quick tier)
sensitivity:  s/col = col \\/ 26 - 1;/col = col \\/ 26;/@src/utils.rs
sensitivity:  s/if col_field \\& 0x4000 == 0 {/if col_field \\& 0x8000 == 0 {/@src/xlsb/mod.rs
sensitivity:  s/formula.push_str(op);/formula.push_str(op); formula.push(' ');/@src/xlsb/mod.rs
sensitivity:  s/let e2 = stack.pop().ok_or(XlsbError::StackLen)?;/let e2 = *stack.last().ok_or(XlsbError::StackLen)?;/@src/xlsb/mod.rs
sensitivity:  s/0x13 => {/0x13 if false => {/@src/xlsb/mod.rs
"""
LEVEL = "model_checking"

QUICK = ["q_refs", "q_lits", "q_deep"]
THOROUGH = ["t_refs", "t_lits", "t_deep", "t_wide"]


def run(ctx):
    ctx.rules.append(
        "TLC (MC_Ptg) enumerates formula trees up to depth 2 (refs/areas/3-D refs with every relative/absolute "
        "flag combination over rows {0,9,65535,1048575} x columns {0,25,26,51,52,255,256,701,702,16383}, names, "
        "literals, 7 error codes, 15 binary and 2 unary operators, %, parentheses, fixed/variable-arity "
        "functions with missing arguments, AttrSum, AttrSpace); every tree is one evaluation: laid out as BIFF12 "
        "tokens in a formula cell and a defined name of a real xlsb and read back; non-trivial = more than one "
        "token or a reference; plus all 16384 column letterings")
    ctx.assumptions += [
        "TLC and the CommunityModules; text is modelled as a sequence of symbols (split_off/insert at operand boundaries)",
        "harness glue: BIFF12 byte layout in harness/src/build/xlsb.rs rgce_from_tokens",
        "function names/arity of the 8 functions used are taken from MS-XLSB Ftab",
        "not asserted: strings containing '\"', sheet names needing quotes, PtgExp/PtgArray/PtgMem*, external names, xls (BIFF8) layout"]
    for cfg, what in (("MC_Ptg_asis_col.cfg", "push_column drops leading letters"),
                      ("MC_Ptg_asis_ref.cfg", "PtgRef $ flags swapped"),
                      ("MC_Ptg_asis_area.cfg", "PtgArea/3d ignore the relative flags")):
        a = ctx.tlc("fmla", "MC_Ptg", cfg, workers=1, timeout=300, xmx="2g", allow_violation=True)
        ctx.states -= a["distinct"]
        ctx.transitions -= a["generated"]
        ctx.extra["refuted:" + cfg] = bool(a["violated"])
        if not a["violated"]:
            ctx.fail("selftest:asis-model-not-refuted", {"kind": "selftest", "info": "%s (%s) was not refuted" % (cfg, what), "tlc_output": a["out"]})
    per = {}
    for prof in ctx.pick(QUICK, THOROUGH):
        r = ctx.tlc("fmla", "MC_Ptg", "MC_Ptg_%s.cfg" % prof, workers=ctx.pick(3, 6), timeout=ctx.pick(300, 2400),
                    xmx=ctx.pick("3g", "8g"))
        n = 0
        if "REPLAY" in r["tags"]:
            n = ctx.replay("xlsbfmla", r["tags"]["REPLAY"], timeout=ctx.pick(300, 2400)).get("evaluated", 0)
        per[prof] = {"trees": n}
    ctx.extra["profiles"] = per
    out = ctx.work + "/cols.in"
    open(out, "w").write("")
    ctx.replay("xlsbcols", out, extra=["--max", 16383])
    # BIFF8 (xls) part and token-defined names (C16 xls part): checks/c14_xls.py
    import importlib.util, os
    sp = importlib.util.spec_from_file_location("c14_xls", os.path.join(os.path.dirname(os.path.abspath(__file__)), "c14_xls.py"))
    m = importlib.util.module_from_spec(sp)
    sp.loader.exec_module(m)
    m.run(ctx)
    # stored-text formats (xlsx, ods): tla/fmla/StoredFormula.tla
    ctx.rules.append(
        "MC_StoredFormula: xlsx / ods documents over far-apart positions (every assignment of absent / constant / "
        "formula with / without cached value), the first formula carrying every text of up to MaxChars characters "
        "over XML-special, blank, quote and non-ASCII classes in every escaping form of the format (<f> element "
        "text incl. CDATA; table:formula attribute); worksheet_formula compared by absolute position; "
        "Trace_StoredFormula validates random larger documents with realistic formula texts")
    r = ctx.tlc("fmla", "MC_StoredFormula", ctx.pick("MC_StoredFormula_quick.cfg", "MC_StoredFormula_thorough.cfg"),
                workers=ctx.pick(6, 12), timeout=ctx.pick(600, 3000), xmx=ctx.pick("4g", "12g"))
    if "REPLAY" in r["tags"]:
        ctx.replay("stored_formula", r["tags"]["REPLAY"])
    trace = ctx.work + "/stored_formula_trace.ndjson"
    ctx.cvh(["drive", "stored_formula", "--out", trace, "--n", ctx.pick(150, 3000)])
    v = ctx.validate_trace("fmla", "Trace_StoredFormula", "Trace_StoredFormula.cfg", trace, timeout=ctx.pick(600, 3000))
    if v["accepted"]:
        ctx.traces += 1
        ctx.extra["stored_formula_events_validated"] = v["events"]
    else:
        ctx.fail("trace-rejected:Trace_StoredFormula", {"kind": "trace", "trace": trace, "info": v["info"], "tlc_output": v["out"]})
    ctx.families_leg("fmla")
