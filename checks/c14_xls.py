"""C14 (xls part) — formulas are reported at their cell with the A1 text the file encodes;
C16 (xls part) — defined names given by tokens name the sheet their XTI entry designates.

leg 0  tla/fmla/MC_PtgBiff8.tla: a writer that emits BIFF8 RPN token lists token by token (references
       rel/abs/mixed over boundary rows/columns incl. col >= 26 and 255, areas, 3-D references and 3-D
       error references through an XTI table that is not in sheet order, names, int/num/str(8/16-bit)/
       bool/err literals, 15 binary operators, unary + - %, parentheses, fixed- and variable-arity
       functions, IF with jump attributes, missing arguments, PtgAttrSum, PtgAttrSpace, volatile marker)
       and keeps the A1 text every sub-expression must have; tla/fmla/PtgBiff8.tla: the offset-stack
       machine of src/xls.rs parse_formula; Refines: every complete token list renders to its A1 text.
       tla/fmla/MC_Lbl8.tla: Lbl definitions (PtgRef3d / PtgArea3d / error tokens) -> defined_names.
leg 1  `cvh replay ptg8`: every token list becomes the rgce of a FORMULA record in a real 3-sheet
       workbook; Xls::worksheet_formula must be the tight bounding box of the formula cells, the text at
       the formula's position, "" elsewhere.  `cvh replay lbl8`: Lbl records -> Xls::defined_names.
       The expected text is rendered by the harness's own lettering / operator / function tables.
(leg 2 is not built for this property: parse_formula has no observable intermediate state without
hooks; the xlsb / xlsx / ods parts of C14 belong to other modules.)

sensitivity: bin/mutant C14 ... quick -- 9 of 11 killed, 2 equivalent:
sensitivity: seeded C16 change (defined name's sheet = sheet_names[ixti], seeded/C16-xti/patch.diff)      KILLED (replay lbl8)
sensitivity: s/if col \& 0x4000 == 0 {/if col \& 0x8000 == 0 {/            column $ from the row bit        KILLED
sensitivity: s/let e2 = formula.split_off(e2);/...split_off(e2.saturating_sub(1));/ binary operator offset     KILLED
sensitivity: s/0x13 => {/0x13 if false => {/                               unary minus unrecognised         KILLED
sensitivity: s/sheets.get(xti.itab_first as usize)/sheets.get(xti._itab_last as usize + 1)/  XTI field      KILLED
sensitivity: s/"{}", row as u32 + 1/"{}", row as u32/                      row off by one                   KILLED
sensitivity: s/rgce = &rgce\[1 + used..\];/rgce = &rgce[2 + cch..];/        16-bit PtgStr length (reverts acfc4f9) KILLED
sensitivity: s/col = col \/ 26 - 1;/col = col \/ 26;/@src/utils.rs         push_column bijective step       KILLED
sensitivity: s/\*s -= start;/*s -= 0;/                                     function argument offsets        KILLED
sensitivity: s/col \& 0x3FFF/col \& 0xFF/        SURVIVED -- equivalent: BIFF8 columns are 0..255
sensitivity: s/stack.len() - argc/stack.len() - argc.min(stack.len()).max(1)/ SURVIVED -- equivalent (argc >= 1 and <= len there)
sensitivity: the seven fix: commits bfc8492..3cb7b97 were each observed on the real code before the fix
sensitivity:   (MC_PtgBiff8_aswas.cfg keeps the pinned transcription: 456 of 538 single-reference formulas differ)
"""
LEVEL = "model_checking"


def run(ctx):
    ctx.rules.append(
        "TLC (MC_PtgBiff8) enumerates every RPN token list of <= MaxTok tokens over the cfg's leaf / "
        "operator / function alphabets (every state whose expression stack holds one expression is a "
        "complete formula); each is materialised into a FORMULA record (ptg class bits, cached value "
        "kind and cell position vary per case) and read by Xls::worksheet_formula; non-trivial = more "
        "than a single integer token; MC_Lbl8 enumerates 1-2 defined names over 3-D tokens x XTI entries")
    ctx.assumptions += [
        "TLC, CommunityModules (Json, SequencesExt!FoldLeft)",
        "text is a sequence of symbols in the model; the harness letters columns, prints numbers and maps "
        "sheet / name / string / function ids to text with its own tables ([MS-XLS] 2.5.198)",
        "blanks from PtgAttrSpace are not promised by the statement: compared without them",
        "not in the checked language: PtgNameX, PtgArray, PtgMem*, PtgRefN/AreaN, shared formulas (PtgExp + "
        "SHRFMLA), 3-D references over a sheet range or to a deleted sheet, sheet names that need quoting, "
        "string literals containing a double quote, doubles without a unique short decimal form, relative "
        "references and built-in names in Lbl records",
        "xls only; no trace leg"]
    cfgs = ctx.pick(["quick_refs", "quick_lits", "quick_shared", "quick_ops", "quick_funcs"],
                    ["quick_refs", "quick_lits", "quick_shared", "thorough_ops", "thorough_funcs", "thorough_mix"])
    counts = {}
    for c in cfgs:
        r = ctx.tlc("fmla", "MC_PtgBiff8", "MC_PtgBiff8_%s.cfg" % c, workers=6, timeout=ctx.pick(300, 2400),
                    xmx=ctx.pick("4g", "8g"))
        if "WHY" in r["tags"]:
            ctx.extra.setdefault("spec_violation_reasons", []).extend(
                sorted(set(open(r["tags"]["WHY"]).read().split("\n")) - {""}))
        if "REPLAY" in r["tags"]:
            counts[c] = sum(1 for _ in open(r["tags"]["REPLAY"]))
            ctx.replay("ptg8", r["tags"]["REPLAY"])
    r = ctx.tlc("fmla", "MC_Lbl8", "MC_Lbl8.cfg", workers=2, timeout=300)
    if "REPLAY" in r["tags"]:
        counts["lbl8"] = sum(1 for _ in open(r["tags"]["REPLAY"]))
        ctx.replay("lbl8", r["tags"]["REPLAY"])
    ctx.extra["behaviours_enumerated"] = counts
    ctx.exhaustive = True
