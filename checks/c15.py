"""C15 — XLSX shared formulas expand to the translated formula of each member cell."""
LEVEL = "model_checking"


def run(ctx):
    ctx.rules.append(
        "MC_SharedFormula enumerates master formulas (1..2 lexical atoms: relative/absolute/mixed refs at "
        "boundary columns/rows, areas, sheet-qualified refs incl. quoted and cell-like sheet names, functions "
        "with digits, string literals with cell-like and non-ASCII text, numbers, defined names) x group shapes "
        "(column, row, block) x master positions; Ideal = token-wise translation; as-is = replace_cell_names "
        "transcribed at character level; TLC proves as-is = ideal outside the named deviations; every behaviour "
        "is materialised into a workbook and read with worksheet_formula")
    ctx.assumptions += ["formula lexemes are limited to the menu in MC_SharedFormula.tla",
                        "a mismatch is excused only when the behaviour exhibits listed deviations AND the observed text equals the as-is model's prediction"]
    cfg = ctx.pick("MC_SharedFormula_quick.cfg", "MC_SharedFormula_thorough.cfg")
    r = ctx.tlc("fmla", "MC_SharedFormula", cfg, workers=ctx.pick(6, 12), timeout=ctx.pick(600, 3000),
                xmx=ctx.pick("4g", "12g"))
    if "REPLAY" in r["tags"]:
        ctx.replay("shared_formula", r["tags"]["REPLAY"])
    trace = ctx.work + "/shared_formula_trace.ndjson"
    ctx.cvh(["drive", "shared_formula", "--out", trace, "--n", ctx.pick(400, 6000)])
    v = ctx.validate_trace("fmla", "Trace_SharedFormula", "Trace_SharedFormula.cfg", trace, timeout=ctx.pick(600, 3000))
    if v["accepted"]:
        ctx.traces += 1
        ctx.extra["trace_events_validated"] = v["events"]
    else:
        ctx.fail("trace-rejected:Trace_SharedFormula", {"kind": "trace", "trace": trace, "info": v["info"],
                                                        "tlc_output": v["out"]})
