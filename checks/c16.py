"""C16 — workbook metadata is reported faithfully and in workbook order."""
LEVEL = "model_checking"


def run(ctx):
    ctx.rules.append(
        "MC_Metadata builds workbook descriptors sheet by sheet (names with XML-special, apostrophe/quote, CJK, "
        "astral, surrounding blanks, 31 characters; every visibility x kind the format expresses; text-form defined "
        "names; both date systems; xlsx attribute order / r: vs relationships: / element prefix, xls 8/16-bit name "
        "storage, xlsb ignorable records whose payload aliases record ids) for all four formats; each is materialised "
        "and sheet_names, sheets_metadata, defined_names and the date flag seen by a date cell of every worksheet are "
        "compared with the declaration; random 0..12-sheet workbooks are validated as a trace")
    ctx.rules.append("MC_Lbl8: xls defined names given by tokens (PtgRef3d / PtgArea3d / error 3-D tokens through an "
                     "XTI table that is not in sheet order, names stored 8- and 16-bit) -> Xls::defined_names")
    ctx.assumptions += ["token-encoded defined names of xlsb are decided with the formula model (C14)",
                        "ods expresses visible/hidden worksheets only"]
    tier = "quick" if ctx.quick else "thorough"
    for part in ("names", "order"):
        r = ctx.tlc("meta", "MC_Metadata", "MC_Metadata_%s_%s.cfg" % (tier, part), workers=ctx.pick(6, 12),
                    timeout=ctx.pick(600, 3000), xmx=ctx.pick("4g", "12g"))
        if "REPLAY" in r["tags"]:
            ctx.replay("metadata", r["tags"]["REPLAY"])
    r = ctx.tlc("fmla", "MC_Lbl8", "MC_Lbl8.cfg", workers=2, timeout=300)
    if "REPLAY" in r["tags"]:
        ctx.replay("lbl8", r["tags"]["REPLAY"])
    trace = ctx.work + "/metadata_trace.ndjson"
    ctx.cvh(["drive", "metadata", "--out", trace, "--n", ctx.pick(120, 3000)])
    v = ctx.validate_trace("meta", "Trace_Metadata", "Trace_Metadata.cfg", trace, timeout=ctx.pick(600, 3000))
    if v["accepted"]:
        ctx.traces += 1
        ctx.extra["trace_events_validated"] = v["events"]
    else:
        ctx.fail("trace-rejected:Trace_Metadata", {"kind": "trace", "trace": trace, "info": v["info"], "tlc_output": v["out"]})
