"""C17 — merged regions and tables are reported with the geometry the file declares."""
LEVEL = "model_checking"


def run(ctx):
    ctx.rules.append(
        "MC_XlsxMergeTable enumerates workbook configurations: table reference (inside / partly outside / "
        "outside / far corner of the grid) x headerRowCount absent|0|1 x totalsRowCount absent|0|1 x "
        "relative|absolute part target x 1..3 columns (names needing escaping) x sheet (one possibly empty) x "
        "lists of merged regions per sheet (single cell, area, up to XFD1048576); TLC checks the transcribed "
        "geometry arithmetic = ideal; every configuration is materialised and read through load_tables/"
        "table_names(_in_sheet)/table_by_name(_ref) and load_merged_regions/merged_regions(_by_sheet)/"
        "worksheet_merge_cells(_at)")
    ctx.assumptions += [
                        "tables with no data row are not generated"]
    r = ctx.tlc("xlsx", "MC_XlsxMergeTable", ctx.pick("MC_XlsxMergeTable_quick.cfg", "MC_XlsxMergeTable_thorough.cfg"),
                workers=ctx.pick(6, 12), timeout=ctx.pick(600, 3000), xmx=ctx.pick("4g", "12g"))
    if "REPLAY" in r["tags"]:
        ctx.replay("xlsx_tables", r["tags"]["REPLAY"])
    # xls: MERGECELLS records (any split of the region list over records, two sheets)
    r = ctx.tlc("biff", "MergeCells", ctx.pick("MergeCells_quick.cfg", "MergeCells_thorough.cfg"), workers=4, timeout=900)
    if "REPLAY" in r["tags"]:
        ctx.replay("xls_merge", r["tags"]["REPLAY"])
    trace = ctx.work + "/tables_trace.ndjson"
    ctx.cvh(["drive", "xlsx_tables", "--out", trace, "--n", ctx.pick(80, 2000)])
    v = ctx.validate_trace("xlsx", "Trace_XlsxMergeTable", "Trace_XlsxMergeTable.cfg", trace, timeout=ctx.pick(600, 3000))
    if v["accepted"]:
        ctx.traces += 1
        ctx.extra["trace_events_validated"] = v["events"]
    else:
        ctx.fail("trace-rejected:Trace_XlsxMergeTable", {"kind": "trace", "trace": trace, "info": v["info"],
                                                         "tlc_output": v["out"]})
