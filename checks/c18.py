"""C18 — VBA modules are extracted byte-exact from the compressed project."""
LEVEL = "model_checking"


def run(ctx):
    ctx.rules.append(
        "MC_Ovba: compressor state machine over real positions (chunks of 4096, LitRun / Copy(off,len) with the "
        "position-dependent 4..12-bit split, flag byte per 8 tokens, raw chunks, 1..3 chunks, last chunk 1..4096 "
        "bytes; periodic source so that a copy is right iff its offset is a multiple of the period); TLC checks the "
        "reader's byte accounting against the writer's at every chunk end and the size-field bounds; every container "
        "is compressed for real and decompressed by decompress_stream (window) and, every 7th, as a project module. "
        "MC_VbaDir: project descriptors (compat record, code page 1252/1251/932 with code-page module names, "
        "reference kinds with NAME records, module type / READONLY / PRIVATE records, source offsets, container "
        "shapes, host bin/xlsm/xlsb/xls) -> vba_project(): module names, raw content, text, reference names. "
        "Trace_Ovba validates greedy/random/literal-only tokenisations of larger sources decompressed by the real code")
    ctx.assumptions += ["content is a periodic byte pattern (the model tracks positions; the harness compares bytes)",
                        "reference descriptions / paths are not asserted (the statement lists names)"]
    r = ctx.tlc("vba", "MC_Ovba", ctx.pick("MC_Ovba_quick.cfg", "MC_Ovba_thorough.cfg"), workers=ctx.pick(6, 12),
                timeout=ctx.pick(600, 3000), xmx=ctx.pick("4g", "12g"))
    if "REPLAY" in r["tags"]:
        ctx.replay("ovba", r["tags"]["REPLAY"])
    tier = "quick" if ctx.quick else "thorough"
    for part in ("mods", "hosts"):
        r = ctx.tlc("vba", "MC_VbaDir", "MC_VbaDir_%s_%s.cfg" % (tier, part), workers=ctx.pick(6, 12),
                    timeout=ctx.pick(600, 3000), xmx=ctx.pick("4g", "12g"))
        if "REPLAY" in r["tags"]:
            ctx.replay("vbadir", r["tags"]["REPLAY"])
    trace = ctx.work + "/ovba_trace.ndjson"
    ctx.cvh(["drive", "ovba", "--out", trace, "--n", ctx.pick(150, 4000)])
    v = ctx.validate_trace("vba", "Trace_Ovba", "Trace_Ovba.cfg", trace, timeout=ctx.pick(600, 3000))
    if v["accepted"]:
        ctx.traces += 1
        ctx.extra["trace_events_validated"] = v["events"]
    else:
        ctx.fail("trace-rejected:Trace_Ovba", {"kind": "trace", "trace": trace, "info": v["info"], "tlc_output": v["out"]})
