"""C19 — cell text survives every storage form and escaping layer unchanged."""
LEVEL = "model_checking"


def run(ctx):
    ctx.rules.append(
        "MC_XlsxStrings: writer builds a string item character by character (12 character classes x the "
        "escaping forms XML allows: literal/entity/decimal/hex/CDATA), splits it into plain t / rich runs / "
        "phonetic blocks, stores it shared (at any index, with empty items before) / inline / formula string, "
        "with or without namespace prefix; each behaviour becomes a real .xlsx read via worksheet_range(_ref); "
        "MC_OdsText: ods text as characters x ODF forms (literal/escaped/CDATA, text:s with and without text:c, "
        "text:tab, text:line-break, paragraphs, text:span, annotation, office:string-value); MC_BinText: xlsb "
        "St/Isst/FmlaString and xls LABEL/LABELSST/FORMULA+STRING in 8-/16-bit storage; "
        "non-trivial = more than one part, or a non-literal escaping form, or items before it")
    ctx.assumptions += ["quick-xml's unescaping below the token level", "literal CR is not generated (XML normalises it)",
                        "empty strings as cell values are not asserted"]
    tier = "quick" if ctx.quick else "thorough"
    for part in ("chars", "struct", "sst"):
        r = ctx.tlc("xlsx", "MC_XlsxStrings", "MC_XlsxStrings_%s_%s.cfg" % (tier, part), workers=ctx.pick(6, 12),
                    timeout=ctx.pick(600, 3000), xmx=ctx.pick("4g", "12g"))
        if "REPLAY" in r["tags"]:
            ctx.replay("xlsx_strings", r["tags"]["REPLAY"])
    # ods: text:p / text:s / text:tab / text:line-break / text:span / annotation / attribute form
    r = ctx.tlc("ods", "MC_OdsText", ctx.pick("MC_OdsText_quick.cfg", "MC_OdsText_thorough.cfg"), workers=ctx.pick(6, 12),
                timeout=ctx.pick(600, 3000), xmx=ctx.pick("4g", "12g"))
    if "REPLAY" in r["tags"]:
        ctx.replay("ods_text", r["tags"]["REPLAY"])
    # xlsb / xls string records
    r = ctx.tlc("xlsx", "MC_BinText", ctx.pick("MC_BinText_quick.cfg", "MC_BinText_thorough.cfg"), workers=ctx.pick(6, 12),
                timeout=ctx.pick(600, 3000), xmx=ctx.pick("4g", "12g"))
    if "REPLAY" in r["tags"]:
        ctx.replay("bin_text", r["tags"]["REPLAY"])
    bt = ctx.work + "/bin_text_trace.ndjson"
    ctx.cvh(["drive", "bin_text", "--out", bt, "--n", ctx.pick(60, 1200), "--maxlen", ctx.pick(3000, 32767)])
    v = ctx.validate_trace("xlsx", "Trace_BinText", "Trace_BinText.cfg", bt, timeout=ctx.pick(600, 3000), xmx=ctx.pick("4g", "12g"))
    if v["accepted"]:
        ctx.traces += 1
    else:
        ctx.fail("trace-rejected:Trace_BinText", {"kind": "trace", "trace": bt, "info": v["info"], "tlc_output": v["out"]})
    trace = ctx.work + "/xlsx_strings_trace.ndjson"
    ctx.cvh(["drive", "xlsx_strings", "--out", trace, "--n", ctx.pick(80, 1500), "--maxlen", ctx.pick(150, 2000)])
    v = ctx.validate_trace("xlsx", "Trace_XlsxStrings", "Trace_XlsxStrings.cfg", trace, timeout=ctx.pick(600, 3000))
    if v["accepted"]:
        ctx.traces += 1
        ctx.extra["trace_events_validated"] = v["events"]
    else:
        ctx.fail("trace-rejected:Trace_XlsxStrings", {"kind": "trace", "trace": trace, "info": v["info"],
                                                      "tlc_output": v["out"]})
    ctx.families_leg("text")
    ctx.bigsst_leg("xlsx,xlsb,xls")
