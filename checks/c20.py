"""C20 — encrypted workbooks are reported as password protected, and only those."""
LEVEL = "model_checking"


def run(ctx):
    ctx.rules.append(
        "MC_Protected enumerates container descriptors: encrypted OOXML packages (ciphertext sizes around the "
        "mini-stream cutoff, standard/agile EncryptionInfo, 7 physical compound-file layouts, optional DataSpaces "
        "storage) opened by Xlsx and Xlsb; plain compound files (xls workbook, VBA project) opened by Xlsx/Xlsb/Xls; "
        "BIFF8 globals with FILEPASS of type XOR / RC4 / CryptoAPI directly after BOF or after WRITEPROTECT with "
        "obfuscated records behind it (and without FILEPASS); ods manifests with 1..3 entries, any subset encrypted; "
        "TLC checks the transcribed sniffing = ideal; every descriptor is materialised and opened; plus plain "
        "workbooks of all four formats")
    ctx.assumptions += ["ciphertext and EncryptionInfo payloads are pseudo-random filler (never decrypted by calamine)",
                        "format auto-detection cannot report a password error by design and is not asserted"]
    r = ctx.tlc("crypt", "MC_Protected", ctx.pick("MC_Protected_quick.cfg", "MC_Protected_thorough.cfg"), workers=4, timeout=600)
    if "REPLAY" in r["tags"]:
        ctx.replay("protected", r["tags"]["REPLAY"])
    trace = ctx.work + "/protected_trace.ndjson"
    ctx.cvh(["drive", "protected", "--out", trace, "--n", ctx.pick(150, 3000)])
    v = ctx.validate_trace("crypt", "Trace_Protected", "Trace_Protected.cfg", trace, timeout=ctx.pick(600, 3000))
    if v["accepted"]:
        ctx.traces += 1
        ctx.extra["trace_events_validated"] = v["events"]
    else:
        ctx.fail("trace-rejected:Trace_Protected", {"kind": "trace", "trace": trace, "info": v["info"], "tlc_output": v["out"]})
