"""X01 (extended coverage, not a listed property) — the streaming cell readers XlsxCellReader /
XlsbCellsReader as the cursor state machine of tla/stream/CellStream.tla: what one next_cell /
next_formula call consumes in each format, under every interleaving of the two calls.
worksheet_range / worksheet_formula (C01, C03, C14) are these cursors run to the end."""
LEVEL = "model_checking"


def run(ctx):
    ctx.rules.append(
        "MC_CellStream: every document of blank/constant/formula cells up to the bound, both formats, every "
        "interleaving of next_cell/next_formula up to the bound; TLC checks Forward (no cell twice, document "
        "order), EndIsFinal, Faithful, SkipsOnlyIrrelevant; every behaviour is played on a real reader over a "
        "generated file and each call's result compared with the specification's. Trace_CellStream validates "
        "random larger documents/interleavings and binds worksheet_range/worksheet_formula to the document")
    ctx.assumptions += ["after the end of data None and an error are both accepted (the code reads on)"]
    r = ctx.tlc("stream", "MC_CellStream", ctx.pick("MC_CellStream_quick.cfg", "MC_CellStream_thorough.cfg"),
                workers=ctx.pick(6, 12), timeout=ctx.pick(600, 3000), xmx=ctx.pick("4g", "12g"))
    if "REPLAY" in r["tags"]:
        ctx.replay("stream", r["tags"]["REPLAY"])
    trace = ctx.work + "/stream_trace.ndjson"
    ctx.cvh(["drive", "stream", "--out", trace, "--n", ctx.pick(300, 6000)])
    v = ctx.validate_trace("stream", "Trace_CellStream", "Trace_CellStream.cfg", trace, timeout=ctx.pick(600, 3000))
    if v["accepted"]:
        ctx.traces += 1
        ctx.extra["trace_events_validated"] = v["events"]
    else:
        ctx.fail("trace-rejected:Trace_CellStream", {"kind": "trace", "trace": trace, "info": v["info"], "tlc_output": v["out"]})
