"""X02 (extended coverage, not a listed property) — one logical workbook in several physical encodings:
the fixture families of /repo/tests read through every format's reader agree on the abstract document
(classes, canonical values, formula text, cell counts) -- tla/api/CrossFormat.tla."""
LEVEL = "other"


def run(ctx):
    ctx.assumptions += ["the members of a family were saved from the same workbook (true of the pinned fixtures: "
                        "validated on the pinned tree after fix 3148275)"]
    ctx.families_leg("all")
