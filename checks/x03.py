"""X03 (extended coverage, not a listed property) — the cell-value algebra Data / DataRef / DataType
(tla/dt/DataType.tla): variant predicates, projections, as_i64 / as_f64 / as_string, PartialEq against
primitives, DataRef -> Data; laws checked by TLC, every (operation, argument, value) triple evaluated
on the real types."""
LEVEL = "model_checking"


def run(ctx):
    ctx.rules.append("MC_DataType: 600 (operation, argument, value) triples over 20 value codes (every variant, negative and "
                     "fractional numbers, numeric / non-numeric / empty strings, shared strings); laws ExactlyOneKind, GetIffIs, "
                     "IntImpliesFloat, OwnVariantIsIdentity, OwnedCommutes; each triple evaluated on Data and on DataRef")
    r = ctx.tlc("dt", "MC_DataType", "MC_DataType.cfg", workers=2, timeout=300)
    ctx.exhaustive = True
    if "REPLAY" in r["tags"]:
        ctx.replay("datatype", r["tags"]["REPLAY"])
    ctx.rules.append("Dims: every Dimensions rectangle over a 3 x 3 grid (incl. end before start) x every position: "
                     "contains and len (= number of contained positions) evaluated on calamine::Dimensions")
    r = ctx.tlc("dt", "Dims", "Dims.cfg", workers=2, timeout=300)
    if "REPLAY" in r["tags"]:
        ctx.replay("dims", r["tags"]["REPLAY"])
