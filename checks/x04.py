r"""X04 (extended coverage, not a listed property) -- xls beyond BIFF8/UTF-16: BIFF5 workbooks and code pages
(tla/biff/Biff5.tla).  The BOF version dispatch (parse_bof), the "Book" / "Workbook" stream choice, the CODEPAGE
record selecting the encoding (single-byte pages, a double-byte page, 1200, none), BIFF5 byte strings (no
option-flags byte; BoundSheet 8-bit cch, LABEL / STRING 16-bit cch, FORMAT, NAME) against BIFF8 Unicode strings
under any CODEPAGE value (XlsEncoding::decode_to / high_byte), LABEL vs SST + LABELSST, NUMBER / RK / MULRK.
IDEAL: bytes of page P read as the text they denote in P; BIFF8 strings are Unicode whatever CODEPAGE says; names,
texts and numbers do not depend on the physical form.  Mismatches are SPEC-DRIFT; the deviations of the pinned code
are named (known_findings.json, property X04): DbcsByteString, Biff5Format, Biff5Lbl, UnsupportedCodePage (ShortString was repaired in /repo).
Biff8CodePage and BomSniff were repaired by /repo commit 4e8471f (they reach legal BIFF8 files: C19); the reader model
is the repaired one, MC_Biff5_aswas.cfg keeps the reader as it was (AsWas = TRUE) and TLC has to refute it (self-test).

Binding demonstrated with bin/mutant (each ends in MUTANT KILLED; run from a worktree, never from /verif):
  BOF dispatch        bin/mutant X04 's/0x0500 => Biff::Biff5/0x0500 => Biff::Biff8/@src/xls.rs'
                      bin/mutant X04 's/if dt == 0x1000 {/if dt != 0x1000 {/@src/xls.rs'          (BOF sweep)
  stream name         bin/mutant X04 's/cfb.get_stream("Book", /cfb.get_stream("Books", /@src/xls.rs'
  code-page selection bin/mutant X04 's/force_codepage.unwrap_or(1200)/force_codepage.unwrap_or(1252)/@src/xls.rs'
                      bin/mutant X04 's/encoding = XlsEncoding::from_codepage(read_u16(r.data))?/encoding = XlsEncoding::from_codepage(read_u16(r.data) | 1)?/@src/xls.rs'
  UTF-16 for BIFF8    bin/mutant X04 's/let encoding = if high_byte.is_some() {/let encoding = if high_byte.is_none() {/@src/cfb.rs'
  byte-string length  bin/mutant X04 's/Biff::Biff2 | Biff::Biff3 | Biff::Biff4 | Biff::Biff5 => (None, 2)/Biff::Biff2 | Biff::Biff3 | Biff::Biff4 | Biff::Biff5 => (None, 3)/@src/xls.rs'
  / flags byte        bin/mutant X04 's/let cch = read_u16(r) as usize;/let cch = r[0] as usize;/@src/xls.rs'      (killed by the trace leg: strings > 255 bytes)
                      bin/mutant X04 's/if matches!(biff, Biff::Biff8) {/if !matches!(biff, Biff::Biff8) {/@src/xls.rs'
                      (equivalent, not counted: widening the 8-bit cch of parse_short_string -- the name is the last field
                       of BoundSheet, decode_to clamps the count to the bytes that are left)
  high_byte logic     bin/mutant X04 's/if self.encoding == UTF_8 || self.encoding.is_single_byte() {/if self.encoding == UTF_8 || !self.encoding.is_single_byte() {/@src/cfb.rs'
                      bin/mutant X04 's/let l = min(stream.len() \/ 2, len);/let l = min(stream.len(), len) \/ 2;/@src/cfb.rs'
"""
LEVEL = "model_checking"


def run(ctx):
    ctx.rules.append(
        "MC_Biff5: every document of the configuration (two sheets, the text as constant / formula result / shareable "
        "constant, a number under a custom or built-in date format, RK, MULRK, an optional defined name) in every form: "
        "BIFF5 in 'Book' under each CODEPAGE value or none, BIFF8 in 'Workbook' under each CODEPAGE value or none in "
        "compressed and 16-bit storage, both streams; texts over ASCII, a high-half character of each single-byte page, a "
        "two-byte character of the double-byte page, byte-order-mark look-alikes, one-character strings; plus the BOF "
        "sweep over every version field parse_bof distinguishes.  TLC checks (deviation set empty) <=> (as-is reading = "
        "ideal).  Every document is written by the Rust writer (records equal to the specification writer's byte for byte), "
        "read by calamine::Xls and compared; the ideal is recomputed with encoding_rs, every decode / scan call of the "
        "reader model re-evaluated with encoding_rs / the real scanner.  Trace_Biff5 validates random larger workbooks")
    ctx.assumptions += [
        "with no CODEPAGE record only ASCII bytes have a defined reading (other bytes: as-is reading bound, no ideal)",
        "a BIFF8 workbook may carry any CODEPAGE value ([MS-XLS] 2.4.52) and its strings stay Unicode",
        "BIFF5 layouts after the OpenOffice.org Excel file format documentation (BOF, BOUNDSHEET, FORMAT, DEFINEDNAME, LABEL, STRING, XF)",
    ]
    r = ctx.tlc("biff", "MC_Biff5", ctx.pick("MC_Biff5_quick.cfg", "MC_Biff5_thorough.cfg"),
                workers=ctx.pick(4, 8), timeout=ctx.pick(300, 1800), xmx=ctx.pick("4g", "8g"))
    # self-test: the reader as it was before 4e8471f (BIFF8 strings through the CODEPAGE page, BOM sniffing)
    a = ctx.tlc("biff", "MC_Biff5", "MC_Biff5_aswas.cfg", workers=2, timeout=300, xmx="2g", allow_violation=True)
    ctx.states -= a["distinct"]
    ctx.transitions -= a["generated"]
    ctx.extra["aswas_model_refuted"] = bool(a["violated"])
    if not a["violated"]:
        ctx.fail("selftest:aswas-model-not-refuted",
                 {"kind": "selftest", "info": "MC_Biff5_aswas.cfg (strings decoded through the CODEPAGE page with BOM sniffing) was not refuted",
                  "tlc_output": a["out"]})
    if "REPLAY" in r["tags"]:
        rep = ctx.replay("biff5", r["tags"]["REPLAY"])
        ctx.extra["replay_matched_ideal"] = rep.get("matched_ideal")
        ctx.extra["decode_calls_checked"] = rep.get("decode_calls_checked")
        ctx.extra["replay_fail_keys"] = rep.get("fail_keys")
    trace = ctx.work + "/biff5_trace.ndjson"
    ctx.cvh(["drive", "biff5", "--out", trace, "--n", ctx.pick(250, 4000), "--report", trace + ".report.json"])
    import json
    ctx.extra["drive"] = json.load(open(trace + ".report.json"))
    v = ctx.validate_trace("biff", "Trace_Biff5", "Trace_Biff5.cfg", trace, timeout=ctx.pick(600, 3000))
    if v["accepted"]:
        ctx.traces += 1
        ctx.extra["trace_events_validated"] = v["events"]
    else:
        ctx.fail("trace-rejected:Trace_Biff5", {"kind": "trace", "trace": trace, "info": v["info"], "tlc_output": v["out"]})
