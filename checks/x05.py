"""X05 (extended coverage, not a listed property) — the read side of calamine::Range (tla/range/RangeViews.tla):
rows() / cells() / used_cells() as double-ended cursors under every interleaving of next / next_back /
size_hint, headers(), Index<usize>, Index<(usize, usize)>, get.  (The write side is C05.)"""
LEVEL = "model_checking"


def run(ctx):
    ctx.rules.append(
        "MC_RangeViews: every range up to 2 x 2 over {Empty, Int, String} at two origins and the empty range, three views, "
        "every interleaving of next / next_back / size_hint up to 6 calls (thorough: 3 x 2, 7 calls, model only): the "
        "transcribed cursors (Chunks; Enumerate + i / width, i % width; find / rfind over the remaining window) agree with "
        "the ideal views call by call (Refines), an exhausted cursor stays exhausted (Fused), the hint brackets what is "
        "left (Hint), front and back never overlap and an exhausted cursor has shown the whole view (OnceEach); every "
        "complete behaviour is played on a real Range<Data>, plus headers / Index / get at every position and one past")
    r = ctx.tlc("range", "MC_RangeViews", "MC_RangeViews_quick.cfg", workers=ctx.pick(6, 12), timeout=900, xmx="6g")
    ctx.exhaustive = True
    if "REPLAY" in r["tags"]:
        ctx.replay("range_views", r["tags"]["REPLAY"])
    if ctx.tier == "thorough":
        ctx.tlc("range", "MC_RangeViews", "MC_RangeViews_thorough.cfg", workers=12, timeout=3000, xmx="12g", name="MC_RangeViews_thorough")
    trace = ctx.work + "/range_views_trace.ndjson"
    ctx.cvh(["drive", "range_views", "--out", trace, "--n", ctx.pick(400, 8000)])
    v = ctx.validate_trace("range", "Trace_RangeViews", "Trace_RangeViews.cfg", trace, timeout=ctx.pick(600, 3000))
    if v["accepted"]:
        ctx.traces += 1
        ctx.extra["trace_events_validated"] = v["events"]
    else:
        ctx.fail("trace-rejected:Trace_RangeViews", {"kind": "trace", "trace": trace, "info": v["info"], "tlc_output": v["out"]})
    # unbounded complement (Apalache, symbolic): the rows / cells cursor over a view of ANY length N -- IndInv of
    # tla/range/CursorInd.tla is inductive, so front and back never cross, no item is yielded twice, an exhausted
    # cursor stays exhausted and the hint is exact, for every N
    ctx.rules.append("CursorInd (Apalache): Init => Safety and IndInv /\\ Next => Safety' with the view length N symbolic")
    for args in (["--cinit=ConstInit", "--init=Init", "--inv=Safety", "--length=0"],
                 ["--cinit=ConstInit", "--init=IndInit", "--inv=Safety", "--length=1"]):
        ok, out = ctx.apalache("range", "CursorInd", args)
        if ok is False:
            ctx.fail("spec:CursorInd:" + args[1], {"kind": "apalache", "module": "CursorInd", "args": args, "output": out})
    ctx.extra["apalache_inductive_invariant"] = "CursorInd.IndInv (N symbolic)"
