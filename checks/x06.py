"""X06 (extended coverage, not a listed property) — Reader::pictures() (cargo feature "picture"): which parts of a
zip package are pictures, and the OfficeArt record tree of an xls drawing group (tla/media/Pictures.tla)."""
LEVEL = "model_checking"


def run(ctx):
    ctx.rules.append(
        "MC_Pictures: zip packages (xlsx / xlsb / ods) of up to 2 extra parts over 3 directories x 7 file names; xls picture "
        "stores of up to 2 entries (8 blip kinds x 1-2 UIDs x empty / 3-byte payload x name, entries that only refer to a "
        "picture) written as an OfficeArt stream, cut into MsoDrawingGroup / CONTINUE records in 5 ways, malformed in 6 ways; "
        "Refines: the transcribed readers report the ideal pictures outside the named deviations, a malformed store is an "
        "error; every document is built into a real file and read by calamine. Trace_Pictures: the repository's picture.* "
        "family against picture.jpg / picture.png, and random larger stores")
    r = ctx.tlc("media", "MC_Pictures", "MC_Pictures_quick.cfg", workers=ctx.pick(6, 12), timeout=900, xmx="6g")
    ctx.exhaustive = True
    if "REPLAY" in r["tags"]:
        ctx.replay("pictures", r["tags"]["REPLAY"])
    # self-test of the model: the reader as pinned (Hardened = FALSE) reaches the panic sites -- TLC has to refute NoPanic
    r = ctx.tlc("media", "MC_Pictures", "MC_Pictures_aswas.cfg", workers=2, timeout=300, allow_violation=True)
    ctx.extra["aswas_model_refuted"] = bool(r["violated"])
    if not r["violated"]:
        ctx.fail("selftest:aswas-not-refuted", {"kind": "selftest", "what": "MC_Pictures_aswas.cfg (reader as pinned) satisfies NoPanic: the model lost the panic sites"})
    trace = ctx.work + "/pictures_trace.ndjson"
    ctx.cvh(["drive", "pictures", "--out", trace, "--n", ctx.pick(60, 1500)])
    v = ctx.validate_trace("media", "Trace_Pictures", "Trace_Pictures.cfg", trace, timeout=ctx.pick(600, 3000))
    if v["accepted"]:
        ctx.traces += 1
        ctx.extra["trace_events_validated"] = v["events"]
    else:
        ctx.fail("trace-rejected:Trace_Pictures", {"kind": "trace", "trace": trace, "info": v["info"], "tlc_output": v["out"]})
