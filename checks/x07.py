"""X07 (extended coverage, not a listed property) — description and path of VBA project references (C18 lists them by
name): Reference::set_libid over the one to three LIBIDs of a REGISTERED / CONTROL / ORIGINAL+CONTROL record, the
PROJECT record's absolute path (tla/vba/VbaDir.tla, RefDetail)."""
LEVEL = "model_checking"


def run(ctx):
    ctx.rules.append("MC_VbaDir_refs: one reference of every kind x every combination of five LIBID forms (standard, another "
                     "library, empty path, ending in ##, empty) in each of its LIBID slots, hosts bin / xls; TLC checks the two "
                     "rules (PathIsFirst: the path is the first effective libid's that has one; DescIsLast: the description is "
                     "the last effective libid's, else the name); every project is built and read: name, description, path")
    r = ctx.tlc("vba", "MC_VbaDir", "MC_VbaDir_refs.cfg", workers=4, timeout=600, xmx="4g")
    ctx.exhaustive = True
    if "REPLAY" in r["tags"]:
        ctx.replay("vbadir", r["tags"]["REPLAY"], extra=["--refs_detail", "1"])
