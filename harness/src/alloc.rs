//! Counting global allocator with an optional hard cap (C06): a request that would push the
//! live total over the cap fails (null), which makes the process abort with "memory allocation
//! of N bytes failed" — observed by the parent worker pool as a memory blow-up.
use std::alloc::{GlobalAlloc, Layout, System};
use std::sync::atomic::{AtomicUsize, Ordering};

pub struct Counting;
static LIVE: AtomicUsize = AtomicUsize::new(0);
static PEAK: AtomicUsize = AtomicUsize::new(0);
static CAP: AtomicUsize = AtomicUsize::new(usize::MAX);

unsafe impl GlobalAlloc for Counting {
    unsafe fn alloc(&self, l: Layout) -> *mut u8 {
        let cap = CAP.load(Ordering::Relaxed);
        let live = LIVE.load(Ordering::Relaxed);
        if l.size() > cap || live.saturating_add(l.size()) > cap {
            return std::ptr::null_mut();
        }
        let p = System.alloc(l);
        if !p.is_null() {
            let now = LIVE.fetch_add(l.size(), Ordering::Relaxed) + l.size();
            PEAK.fetch_max(now, Ordering::Relaxed);
        }
        p
    }
    unsafe fn dealloc(&self, p: *mut u8, l: Layout) {
        LIVE.fetch_sub(l.size(), Ordering::Relaxed);
        System.dealloc(p, l)
    }
    unsafe fn alloc_zeroed(&self, l: Layout) -> *mut u8 {
        let cap = CAP.load(Ordering::Relaxed);
        let live = LIVE.load(Ordering::Relaxed);
        if l.size() > cap || live.saturating_add(l.size()) > cap {
            return std::ptr::null_mut();
        }
        let p = System.alloc_zeroed(l);
        if !p.is_null() {
            let now = LIVE.fetch_add(l.size(), Ordering::Relaxed) + l.size();
            PEAK.fetch_max(now, Ordering::Relaxed);
        }
        p
    }
    unsafe fn realloc(&self, p: *mut u8, l: Layout, new: usize) -> *mut u8 {
        let cap = CAP.load(Ordering::Relaxed);
        let live = LIVE.load(Ordering::Relaxed);
        if new > l.size() && (new > cap || live.saturating_add(new - l.size()) > cap) {
            return std::ptr::null_mut();
        }
        let q = System.realloc(p, l, new);
        if !q.is_null() {
            if new >= l.size() {
                let now = LIVE.fetch_add(new - l.size(), Ordering::Relaxed) + (new - l.size());
                PEAK.fetch_max(now, Ordering::Relaxed);
            } else {
                LIVE.fetch_sub(l.size() - new, Ordering::Relaxed);
            }
        }
        q
    }
}

pub fn set_cap(bytes: usize) {
    CAP.store(bytes, Ordering::Relaxed);
}
pub fn reset_peak() {
    PEAK.store(LIVE.load(Ordering::Relaxed), Ordering::Relaxed);
}
pub fn peak() -> usize {
    PEAK.load(Ordering::Relaxed)
}
pub fn live() -> usize {
    LIVE.load(Ordering::Relaxed)
}
