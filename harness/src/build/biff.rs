//! BIFF8 workbook-stream writer ([MS-XLS]): globals substream + worksheet substreams from a
//! record list.  Only well-formed records are produced; every choice the standard leaves to the
//! writer is an explicit argument (which record kind carries a number, how an SST is cut into
//! CONTINUE fragments, 8-bit or 16-bit character storage ...).
//!
//!   workbook_stream(&Workbook) -> Vec<u8>           the "Workbook" stream
//!   xls_bytes(&Workbook)       -> Vec<u8>           wrapped by the canonical compound file
use super::cfb;

pub const MAX_REC: usize = 8224;

/// a BIFF8 string: UTF-16 code units + storage choice (fHighByte)
#[derive(Clone, Debug, PartialEq)]
pub struct XlStr {
    pub units: Vec<u16>,
    pub high: bool,
}
impl XlStr {
    pub fn new(s: &str) -> XlStr {
        let units: Vec<u16> = s.encode_utf16().collect();
        let high = units.iter().any(|u| *u > 0xFF);
        XlStr { units, high }
    }
    pub fn with_storage(s: &str, high: bool) -> XlStr {
        let x = XlStr { units: s.encode_utf16().collect(), high };
        assert!(high || x.units.iter().all(|u| *u <= 0xFF), "8-bit storage of a non-latin-1 unit");
        x
    }
    pub fn chars(&self, out: &mut Vec<u8>) {
        for u in &self.units {
            if self.high {
                out.extend_from_slice(&u.to_le_bytes());
            } else {
                assert!(*u <= 0xFF);
                out.push(*u as u8);
            }
        }
    }
    /// XLUnicodeString: cch u16, flags, characters
    pub fn xl(&self) -> Vec<u8> {
        let mut o = Vec::new();
        o.extend_from_slice(&(self.units.len() as u16).to_le_bytes());
        o.push(self.high as u8);
        self.chars(&mut o);
        o
    }
    /// ShortXLUnicodeString: cch u8, flags, characters
    pub fn short(&self) -> Vec<u8> {
        assert!(self.units.len() <= 255);
        let mut o = vec![self.units.len() as u8, self.high as u8];
        self.chars(&mut o);
        o
    }
    pub fn text(&self) -> String {
        String::from_utf16_lossy(&self.units)
    }
}

/// cached result of a FORMULA record
#[derive(Clone, Debug, PartialEq)]
pub enum FRes {
    Num(f64),
    /// value follows in a STRING record
    Str,
    Bool(bool),
    Err(u8),
    /// empty string (no STRING record)
    Blank,
}

#[derive(Clone, Debug, PartialEq)]
pub enum Rec {
    Number { r: u16, c: u16, xf: u16, v: f64 },
    Rk { r: u16, c: u16, xf: u16, rk: u32 },
    /// consecutive columns starting at c0
    MulRk { r: u16, c0: u16, items: Vec<(u16, u32)> },
    LabelSst { r: u16, c: u16, xf: u16, isst: u32 },
    Label { r: u16, c: u16, xf: u16, s: XlStr },
    BoolErr { r: u16, c: u16, xf: u16, v: u8, is_err: bool },
    /// `shared`: fShrFmla set and rgce = PtgExp (a SHRFMLA record should follow the first one)
    Formula { r: u16, c: u16, xf: u16, res: FRes, shared: bool },
    /// FORMULA with an explicit rgce (parsed expression bytes, without the cce prefix)
    FormulaRgce { r: u16, c: u16, xf: u16, res: FRes, rgce: Vec<u8> },
    ShrFmla { r0: u16, r1: u16, c0: u8, c1: u8 },
    StringRec { s: XlStr },
    Blank { r: u16, c: u16, xf: u16 },
    MulBlank { r: u16, c0: u16, n: u16 },
    Row { r: u16, c0: u16, c1: u16 },
    DbCell,
    /// record of a type calamine (and the property) does not care about
    Unknown { typ: u16, len: usize },
    Raw { typ: u16, data: Vec<u8> },
    /// record given as explicit fragments: first = record body, others = CONTINUE bodies
    Frags { typ: u16, frags: Vec<Vec<u8>> },
}

#[derive(Clone, Debug)]
pub enum Sst {
    None,
    /// strings written with plain headers, cut only between strings when a record fills up
    Strings(Vec<XlStr>),
    /// explicit fragments: frags[0] = SST body (cstTotal, cstUnique, ...), others CONTINUE bodies
    Frags(Vec<Vec<u8>>),
}

#[derive(Clone, Debug)]
pub struct Sheet {
    pub name: XlStr,
    /// rwMic, rwMac (exclusive), colMic, colMac (exclusive)
    pub dims: Option<(u32, u32, u16, u16)>,
    pub recs: Vec<Rec>,
}

#[derive(Clone, Debug)]
pub struct Workbook {
    pub date1904: Option<bool>,
    /// (ifmt, format string)
    pub formats: Vec<(u16, String)>,
    /// ifmt of every XF, in order
    pub xfs: Vec<u16>,
    pub sst: Sst,
    pub sheets: Vec<Sheet>,
    /// extra ignorable records in the globals substream (before BoundSheet8)
    pub globals_extra: Vec<Rec>,
    /// records of the globals substream after the BoundSheet8 records (SupBook, ExternSheet, Lbl ...)
    pub after_sheets: Vec<Rec>,
    /// pad the stream to exactly this many bytes with ignorable records before the last EOF
    pub pad_to: Option<usize>,
    /// CODEPAGE record of the globals substream: Some(cp) writes it, None leaves it out.  BIFF8 strings
    /// are UTF-16 whatever it says (1200 is what Excel writes; 1252 etc. occur in files of other writers)
    pub codepage: Option<u16>,
}

impl Default for Workbook {
    fn default() -> Self {
        Workbook { date1904: None, formats: vec![], xfs: vec![0], sst: Sst::None, sheets: vec![], globals_extra: vec![], after_sheets: vec![], pad_to: None, codepage: Some(1200) }
    }
}

pub struct W {
    pub buf: Vec<u8>,
}
impl W {
    pub fn new() -> W {
        W { buf: Vec::new() }
    }
    pub fn rec(&mut self, typ: u16, data: &[u8]) {
        assert!(data.len() <= MAX_REC, "record payload too long: {}", data.len());
        self.buf.extend_from_slice(&typ.to_le_bytes());
        self.buf.extend_from_slice(&(data.len() as u16).to_le_bytes());
        self.buf.extend_from_slice(data);
    }
    pub fn frags(&mut self, typ: u16, frags: &[Vec<u8>]) {
        for (i, f) in frags.iter().enumerate() {
            self.rec(if i == 0 { typ } else { 0x003C }, f);
        }
    }
    pub fn bof(&mut self, dt: u16) {
        let mut d = Vec::new();
        for x in [0x0600u16, dt, 0x0DBB, 0x07CC] {
            d.extend_from_slice(&x.to_le_bytes());
        }
        d.extend_from_slice(&0x0000_00C1u32.to_le_bytes());
        d.extend_from_slice(&0x0000_0306u32.to_le_bytes());
        self.rec(0x0809, &d);
    }
    pub fn write(&mut self, r: &Rec) {
        let mut d: Vec<u8> = Vec::new();
        let p16 = |d: &mut Vec<u8>, x: u16| d.extend_from_slice(&x.to_le_bytes());
        match r {
            Rec::Number { r, c, xf, v } => {
                p16(&mut d, *r);
                p16(&mut d, *c);
                p16(&mut d, *xf);
                d.extend_from_slice(&v.to_le_bytes());
                self.rec(0x0203, &d)
            }
            Rec::Rk { r, c, xf, rk } => {
                p16(&mut d, *r);
                p16(&mut d, *c);
                p16(&mut d, *xf);
                d.extend_from_slice(&rk.to_le_bytes());
                self.rec(0x027E, &d)
            }
            Rec::MulRk { r, c0, items } => {
                assert!(!items.is_empty());
                p16(&mut d, *r);
                p16(&mut d, *c0);
                for (xf, rk) in items {
                    p16(&mut d, *xf);
                    d.extend_from_slice(&rk.to_le_bytes());
                }
                p16(&mut d, *c0 + items.len() as u16 - 1);
                self.rec(0x00BD, &d)
            }
            Rec::LabelSst { r, c, xf, isst } => {
                p16(&mut d, *r);
                p16(&mut d, *c);
                p16(&mut d, *xf);
                d.extend_from_slice(&isst.to_le_bytes());
                self.rec(0x00FD, &d)
            }
            Rec::Label { r, c, xf, s } => {
                p16(&mut d, *r);
                p16(&mut d, *c);
                p16(&mut d, *xf);
                d.extend_from_slice(&s.xl());
                self.rec(0x0204, &d)
            }
            Rec::BoolErr { r, c, xf, v, is_err } => {
                p16(&mut d, *r);
                p16(&mut d, *c);
                p16(&mut d, *xf);
                d.push(*v);
                d.push(*is_err as u8);
                self.rec(0x0205, &d)
            }
            Rec::Formula { r, c, xf, res, shared } => {
                p16(&mut d, *r);
                p16(&mut d, *c);
                p16(&mut d, *xf);
                match res {
                    FRes::Num(v) => {
                        let b = v.to_le_bytes();
                        assert!(!(b[6] == 0xFF && b[7] == 0xFF), "not a FormulaValue number");
                        d.extend_from_slice(&b)
                    }
                    FRes::Str => d.extend_from_slice(&[0, 0, 0, 0, 0, 0, 0xFF, 0xFF]),
                    FRes::Bool(b) => d.extend_from_slice(&[1, 0, *b as u8, 0, 0, 0, 0xFF, 0xFF]),
                    FRes::Err(e) => d.extend_from_slice(&[2, 0, *e, 0, 0, 0, 0xFF, 0xFF]),
                    FRes::Blank => d.extend_from_slice(&[3, 0, 0, 0, 0, 0, 0xFF, 0xFF]),
                }
                p16(&mut d, if *shared { 0x0008 } else { 0 });
                d.extend_from_slice(&0u32.to_le_bytes());
                if *shared {
                    // PtgExp(row, col) of the first cell of the shared range
                    p16(&mut d, 5);
                    d.push(0x01);
                    p16(&mut d, *r);
                    p16(&mut d, *c);
                } else {
                    // PtgInt 1
                    p16(&mut d, 3);
                    d.extend_from_slice(&[0x1E, 1, 0]);
                }
                self.rec(0x0006, &d)
            }
            Rec::FormulaRgce { r, c, xf, res, rgce } => {
                p16(&mut d, *r);
                p16(&mut d, *c);
                p16(&mut d, *xf);
                match res {
                    FRes::Num(v) => d.extend_from_slice(&v.to_le_bytes()),
                    FRes::Str => d.extend_from_slice(&[0, 0, 0, 0, 0, 0, 0xFF, 0xFF]),
                    FRes::Bool(b) => d.extend_from_slice(&[1, 0, *b as u8, 0, 0, 0, 0xFF, 0xFF]),
                    FRes::Err(e) => d.extend_from_slice(&[2, 0, *e, 0, 0, 0, 0xFF, 0xFF]),
                    FRes::Blank => d.extend_from_slice(&[3, 0, 0, 0, 0, 0, 0xFF, 0xFF]),
                }
                p16(&mut d, 0);
                d.extend_from_slice(&0u32.to_le_bytes());
                p16(&mut d, rgce.len() as u16);
                d.extend_from_slice(rgce);
                self.rec(0x0006, &d)
            }
            Rec::ShrFmla { r0, r1, c0, c1 } => {
                p16(&mut d, *r0);
                p16(&mut d, *r1);
                d.push(*c0);
                d.push(*c1);
                d.push(0);
                d.push(1);
                p16(&mut d, 3);
                d.extend_from_slice(&[0x1E, 1, 0]);
                self.rec(0x04BC, &d)
            }
            Rec::StringRec { s } => self.rec(0x0207, &s.xl()),
            Rec::Blank { r, c, xf } => {
                p16(&mut d, *r);
                p16(&mut d, *c);
                p16(&mut d, *xf);
                self.rec(0x0201, &d)
            }
            Rec::MulBlank { r, c0, n } => {
                p16(&mut d, *r);
                p16(&mut d, *c0);
                for _ in 0..*n {
                    p16(&mut d, 0);
                }
                p16(&mut d, *c0 + *n - 1);
                self.rec(0x00BE, &d)
            }
            Rec::Row { r, c0, c1 } => {
                p16(&mut d, *r);
                p16(&mut d, *c0);
                p16(&mut d, *c1);
                p16(&mut d, 0x00FF);
                p16(&mut d, 0);
                p16(&mut d, 0);
                d.extend_from_slice(&0x0000_0100u32.to_le_bytes());
                self.rec(0x0208, &d)
            }
            Rec::DbCell => {
                d.extend_from_slice(&0u32.to_le_bytes());
                p16(&mut d, 0);
                self.rec(0x00D7, &d)
            }
            Rec::Unknown { typ, len } => {
                let d: Vec<u8> = (0..*len).map(|i| (i as u8).wrapping_mul(31).wrapping_add(*typ as u8)).collect();
                self.rec(*typ, &d)
            }
            Rec::Raw { typ, data } => self.rec(*typ, data),
            Rec::Frags { typ, frags } => self.frags(*typ, frags),
        }
    }
}

/// plain SST fragments: every string with a 3-byte header, a new CONTINUE only between strings
pub fn sst_plain_frags(strings: &[XlStr]) -> Vec<Vec<u8>> {
    let mut frags: Vec<Vec<u8>> = Vec::new();
    let mut cur: Vec<u8> = Vec::new();
    cur.extend_from_slice(&(strings.len() as u32).to_le_bytes());
    cur.extend_from_slice(&(strings.len() as u32).to_le_bytes());
    for s in strings {
        let b = s.xl();
        assert!(b.len() <= MAX_REC);
        if cur.len() + b.len() > MAX_REC {
            frags.push(std::mem::take(&mut cur));
        }
        cur.extend_from_slice(&b);
    }
    frags.push(cur);
    frags
}

pub const PAD_TYPE: u16 = 0x0FFE;

pub fn workbook_stream(wb: &Workbook) -> Vec<u8> {
    // globals, with BoundSheet8 offsets patched afterwards
    let mut g = W::new();
    g.bof(0x0005);
    if let Some(cp) = wb.codepage {
        g.rec(0x0042, &cp.to_le_bytes());
    }
    if let Some(d) = wb.date1904 {
        g.rec(0x0022, &(d as u16).to_le_bytes());
    }
    for (ifmt, s) in &wb.formats {
        let mut d = ifmt.to_le_bytes().to_vec();
        d.extend_from_slice(&XlStr::new(s).xl());
        g.rec(0x041E, &d);
    }
    for ifmt in &wb.xfs {
        let mut d = vec![0u8; 20];
        d[2..4].copy_from_slice(&ifmt.to_le_bytes());
        g.rec(0x00E0, &d);
    }
    for r in &wb.globals_extra {
        g.write(r);
    }
    let mut patch = Vec::new();
    for sh in &wb.sheets {
        let mut d = vec![0u8; 6];
        d.extend_from_slice(&sh.name.short());
        patch.push(g.buf.len() + 4);
        g.rec(0x0085, &d);
    }
    for r in &wb.after_sheets {
        g.write(r);
    }
    match &wb.sst {
        Sst::None => {}
        Sst::Strings(v) => g.frags(0x00FC, &sst_plain_frags(v)),
        Sst::Frags(f) => g.frags(0x00FC, f),
    }
    g.rec(0x000A, &[]);
    let mut out = g.buf;
    let nsheets = wb.sheets.len();
    for (i, sh) in wb.sheets.iter().enumerate() {
        let pos = out.len() as u32;
        out[patch[i]..patch[i] + 4].copy_from_slice(&pos.to_le_bytes());
        let mut w = W::new();
        w.bof(0x0010);
        if let Some((r0, r1, c0, c1)) = sh.dims {
            let mut d = Vec::new();
            d.extend_from_slice(&r0.to_le_bytes());
            d.extend_from_slice(&r1.to_le_bytes());
            d.extend_from_slice(&c0.to_le_bytes());
            d.extend_from_slice(&c1.to_le_bytes());
            d.extend_from_slice(&[0, 0]);
            w.rec(0x0200, &d);
        }
        for r in &sh.recs {
            w.write(r);
        }
        out.extend_from_slice(&w.buf);
        if i + 1 == nsheets {
            if let Some(target) = wb.pad_to {
                let cur = out.len() + 4; // + final EOF
                assert!(target == cur || target >= cur + 4, "cannot pad {} to {}", cur, target);
                let mut gap = target - cur;
                let mut w = W::new();
                while gap > 0 {
                    // leave either 0 or >= 4 bytes for the next pad record
                    let mut n = gap.min(MAX_REC + 4);
                    if gap - n > 0 && gap - n < 4 {
                        n -= 4;
                    }
                    w.write(&Rec::Unknown { typ: PAD_TYPE, len: n - 4 });
                    gap -= n;
                }
                out.extend_from_slice(&w.buf);
            }
        }
        out.extend_from_slice(&[0x0A, 0, 0, 0]);
    }
    if nsheets == 0 {
        if let Some(target) = wb.pad_to {
            assert!(target == out.len(), "cannot pad a workbook without sheets");
        }
    }
    out
}

pub fn xls_bytes(wb: &Workbook) -> Vec<u8> {
    let s = workbook_stream(wb);
    cfb::simple_cfb(&[("Workbook", &s)])
}

// ---------------------------------------------------------------- RK helpers
/// RK encodings of `v` that are exact: (rk word, kind) with kind in "int","int100","flt","flt100"
pub fn rk_exact_encodings(v: f64) -> Vec<(u32, &'static str)> {
    let mut out = Vec::new();
    if v.is_nan() {
        return out;
    }
    let neg_zero = v == 0.0 && v.is_sign_negative();
    // integer
    if !neg_zero && v.fract() == 0.0 && v >= -(1 << 29) as f64 && v <= ((1 << 29) - 1) as f64 {
        let i = v as i32;
        out.push((((i << 2) as u32) | 2, "int"));
    }
    // integer x100: an integer i with i / 100.0 == v (what the decoder computes)
    let i = (v * 100.0).round();
    if !neg_zero && i >= -(1 << 29) as f64 && i <= ((1 << 29) - 1) as f64 && i / 100.0 == v {
        out.push(((((i as i32) << 2) as u32) | 3, "int100"));
    }
    // double: low 34 bits zero
    let bits = v.to_bits();
    if bits & 0x3_FFFF_FFFF == 0 {
        out.push(((bits >> 32) as u32, "flt"));
    }
    // double x100: a double h with low 34 bits zero and h / 100.0 == v
    for h in [v * 100.0, (v * 100.0).round()] {
        let hb = h.to_bits();
        if hb & 0x3_FFFF_FFFF == 0 && h.is_finite() && h / 100.0 == v && (h / 100.0).is_sign_negative() == v.is_sign_negative() {
            out.push((((hb >> 32) as u32) | 1, "flt100"));
            break;
        }
    }
    out
}

// ---------------------------------------------------------------- SST serialiser (C12)
/// an XLUnicodeRichExtendedString to be written: code units, number of formatting runs, size of
/// the ExtRst block, storage of the first segment
#[derive(Clone, Debug)]
pub struct RichStr {
    pub units: Vec<u16>,
    pub crun: usize,
    pub cb: usize,
    pub hi0: bool,
}

/// where a new CONTINUE record starts: `s` = 0-based string index, `at` = units (Rgb) or bytes
/// (Run / Ext) of that part already written
#[derive(Clone, Debug, PartialEq)]
pub enum Cut {
    /// before the header of string s
    Between { s: usize },
    /// inside rgb, the new fragment starts with a flag byte selecting `hi`
    Rgb { s: usize, at: usize, hi: bool },
    Run { s: usize, at: usize },
    Ext { s: usize, at: usize },
}

/// Serialise the table into SST + CONTINUE bodies (frags[0] starts with cstTotal, cstUnique).
/// `cuts` are honoured where they apply; further cuts are inserted (same storage) whenever the
/// next item would not fit into `max` bytes.  8-bit storage is used for a segment only as long as
/// the units are <= 0xFF: the caller chooses `hi` legally, an illegal choice panics.
pub fn sst_frags(strings: &[RichStr], cuts: &[Cut], max: usize) -> Vec<Vec<u8>> {
    let mut frags: Vec<Vec<u8>> = Vec::new();
    let mut cur: Vec<u8> = Vec::new();
    cur.extend_from_slice(&(strings.len() as u32).to_le_bytes());
    cur.extend_from_slice(&(strings.len() as u32).to_le_bytes());
    let has = |c: &Cut| cuts.iter().any(|x| x == c);
    let rgb_cut = |s: usize, at: usize| {
        cuts.iter().find_map(|x| match x {
            Cut::Rgb { s: s2, at: a2, hi } if *s2 == s && *a2 == at => Some(*hi),
            _ => None,
        })
    };
    for (s, st) in strings.iter().enumerate() {
        let hdr_len = 3 + if st.crun > 0 { 2 } else { 0 } + if st.cb > 0 { 4 } else { 0 };
        // the header and the first character stay together (a cut between them is doubtful)
        let first = if st.units.is_empty() { 0 } else if st.hi0 { 2 } else { 1 };
        if has(&Cut::Between { s }) || cur.len() + hdr_len + first > max {
            frags.push(std::mem::take(&mut cur));
        }
        let mut mode = st.hi0;
        cur.extend_from_slice(&(st.units.len() as u16).to_le_bytes());
        cur.push(mode as u8 | if st.cb > 0 { 4 } else { 0 } | if st.crun > 0 { 8 } else { 0 });
        if st.crun > 0 {
            cur.extend_from_slice(&(st.crun as u16).to_le_bytes());
        }
        if st.cb > 0 {
            cur.extend_from_slice(&(st.cb as u32).to_le_bytes());
        }
        for (k, u) in st.units.iter().enumerate() {
            if let Some(hi) = rgb_cut(s, k) {
                frags.push(std::mem::take(&mut cur));
                mode = hi;
                cur.push(mode as u8);
            } else if cur.len() + if mode { 2 } else { 1 } > max {
                frags.push(std::mem::take(&mut cur));
                cur.push(mode as u8);
            }
            if mode {
                cur.extend_from_slice(&u.to_le_bytes());
            } else {
                assert!(*u <= 0xFF, "8-bit storage of unit {:#x}", u);
                cur.push(*u as u8);
            }
        }
        for k in 0..4 * st.crun {
            if has(&Cut::Run { s, at: k }) || cur.len() + 1 > max {
                frags.push(std::mem::take(&mut cur));
            }
            cur.push(200u8.wrapping_add(k as u8));
        }
        for k in 0..st.cb {
            if has(&Cut::Ext { s, at: k }) || cur.len() + 1 > max {
                frags.push(std::mem::take(&mut cur));
            }
            cur.push(200u8.wrapping_add(k as u8));
        }
    }
    frags.push(cur);
    frags
}

// ---------------------------------------------------------------- 3-D references and defined names
/// SupBook (internal references) + ExternSheet with the given XTI entries (itabFirst = itabLast)
pub fn extern_sheet_recs(nsheets: u16, xti_sheets: &[i16]) -> Vec<Rec> {
    let mut sup = nsheets.to_le_bytes().to_vec();
    sup.extend_from_slice(&[0x01, 0x04]);
    let mut ext = (xti_sheets.len() as u16).to_le_bytes().to_vec();
    for s in xti_sheets {
        ext.extend_from_slice(&0u16.to_le_bytes());
        ext.extend_from_slice(&s.to_le_bytes());
        ext.extend_from_slice(&s.to_le_bytes());
    }
    vec![Rec::Raw { typ: 0x01AE, data: sup }, Rec::Raw { typ: 0x0017, data: ext }]
}

/// Lbl (defined name, workbook scope) with the given name and rgce
pub fn lbl_rec(name: &XlStr, rgce: &[u8]) -> Rec {
    let mut d = vec![0u8, 0, 0, name.units.len() as u8];
    d.extend_from_slice(&(rgce.len() as u16).to_le_bytes());
    d.extend_from_slice(&[0u8; 8]);
    d.push(name.high as u8);
    name.chars(&mut d);
    d.extend_from_slice(rgce);
    Rec::Raw { typ: 0x0018, data: d }
}
