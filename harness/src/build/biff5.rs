//! Version-parametric workbook-stream writer for X04 (tla/biff/Biff5.tla): the same logical
//! workbook written as a BIFF5 stream (byte strings in a code page, no option-flags byte, LABEL
//! cells, no SST) or as a BIFF8 stream (Unicode strings, SST + LABELSST), record by record.
//! The record lists are what the specification's WRITER produces (the replay compares them byte
//! for byte) and what the trace events carry; `stream_bytes` lays them out and patches lbPlyPos.
//!
//! Layouts ([MS-XLS] for BIFF8; OpenOffice.org "Excel File Format" sections 5.8 BOF, 5.12
//! BOUNDSHEET, 5.17 CODEPAGE, 5.49 FORMAT, 5.33 DEFINEDNAME, 5.63 LABEL, 5.102 STRING, 5.115 XF
//! for BIFF5).
use super::biff::W;
use super::cfb;

/// logical character: Unicode scalar + its bytes in the workbook's code page (BIFF5 form)
#[derive(Clone, Debug, PartialEq)]
pub struct Ch {
    pub u: u32,
    pub b: Vec<u8>,
}
pub type Text = Vec<Ch>;
pub type Rec = (u16, Vec<u8>);

#[derive(Clone, Debug)]
pub enum Cell {
    /// LABEL in both versions
    Label { r: u16, c: u16, t: Text },
    /// FORMULA with a string result + STRING
    FormulaStr { r: u16, c: u16, t: Text },
    /// a constant a BIFF8 writer puts into the SST (LABELSST); BIFF5 has no SST: LABEL
    Shared { r: u16, c: u16, t: Text },
    Number { r: u16, c: u16, xf: u16, v: [u8; 8] },
    Rk { r: u16, c: u16, xf: u16, rk: [u8; 4] },
    MulRk { r: u16, c0: u16, items: Vec<(u16, [u8; 4])> },
}

#[derive(Clone, Debug)]
pub struct Sheet {
    pub name: Text,
    /// rwMic, rwMac, colMic, colMac of the DIMENSIONS record (None: no record)
    pub dims: Option<(u16, u16, u16, u16)>,
    pub cells: Vec<Cell>,
}

#[derive(Clone, Debug)]
pub struct Book {
    pub sheets: Vec<Sheet>,
    /// custom number format 164 used by XF 1 (None: XF 1 uses the built-in format 14)
    pub fmt: Option<Text>,
    /// defined names (workbook scope, rgce = PtgInt 1)
    pub defs: Vec<Text>,
}

#[derive(Clone, Debug)]
pub struct Form {
    /// 5 or 8
    pub ver: u8,
    /// value of the CODEPAGE record, 0 = no record
    pub cp: u16,
    /// BIFF8: TRUE = every string in 16-bit storage, FALSE = compressed whenever possible
    pub wide: bool,
    /// globals BOF: vers, dt, number of bytes of the record body kept
    pub bof: (u16, u16, usize),
}

pub fn std_bof(ver: u8) -> (u16, u16, usize) {
    if ver == 5 { (0x0500, 5, 8) } else { (0x0600, 5, 16) }
}

pub const RGCE: [u8; 3] = [0x1E, 1, 0];

fn bytes5(t: &Text) -> Vec<u8> {
    t.iter().flat_map(|c| c.b.clone()).collect()
}
fn is_wide(t: &Text, w: bool) -> bool {
    w || t.iter().any(|c| c.u > 0xFF)
}
fn chars8(t: &Text, w: bool) -> Vec<u8> {
    let wide = is_wide(t, w);
    let mut o = Vec::new();
    for c in t {
        assert!(c.u <= 0xFFFF, "harness: astral characters are outside X04's alphabet");
        if wide { o.extend_from_slice(&(c.u as u16).to_le_bytes()); } else { o.push(c.u as u8); }
    }
    o
}
/// string with an 8-bit length
pub fn short_s(ver: u8, t: &Text, w: bool) -> Vec<u8> {
    if ver == 5 {
        let b = bytes5(t);
        assert!(b.len() <= 255);
        let mut o = vec![b.len() as u8];
        o.extend(b);
        o
    } else {
        assert!(t.len() <= 255);
        let mut o = vec![t.len() as u8, is_wide(t, w) as u8];
        o.extend(chars8(t, w));
        o
    }
}
/// string with a 16-bit length
pub fn long_s(ver: u8, t: &Text, w: bool) -> Vec<u8> {
    if ver == 5 {
        let b = bytes5(t);
        let mut o = (b.len() as u16).to_le_bytes().to_vec();
        o.extend(b);
        o
    } else {
        let mut o = (t.len() as u16).to_le_bytes().to_vec();
        o.push(is_wide(t, w) as u8);
        o.extend(chars8(t, w));
        o
    }
}
fn cch(ver: u8, t: &Text) -> usize {
    if ver == 5 { bytes5(t).len() } else { t.len() }
}
fn no_cch(ver: u8, t: &Text, w: bool) -> Vec<u8> {
    if ver == 5 { bytes5(t) } else {
        let mut o = vec![is_wide(t, w) as u8];
        o.extend(chars8(t, w));
        o
    }
}

pub fn bof_rec(bof: (u16, u16, usize)) -> Rec {
    let mut d = Vec::new();
    d.extend_from_slice(&bof.0.to_le_bytes());
    d.extend_from_slice(&bof.1.to_le_bytes());
    d.extend_from_slice(&[0xBB, 0x0D, 0xCC, 0x07, 0xC1, 0, 0, 0, 0x06, 0x03, 0, 0]);
    d.truncate(bof.2);
    (0x0809, d)
}
fn cell_hdr(r: u16, c: u16, xf: u16) -> Vec<u8> {
    let mut d = Vec::new();
    for x in [r, c, xf] { d.extend_from_slice(&x.to_le_bytes()); }
    d
}
fn xf_rec(ver: u8, ifmt: u16) -> Rec {
    let mut d = vec![0u8, 0];
    d.extend_from_slice(&ifmt.to_le_bytes());
    d.extend(vec![0u8; if ver == 5 { 12 } else { 16 }]);
    (0x00E0, d)
}

/// (globals records, records of every sheet substream)
pub fn stream_records(book: &Book, f: &Form) -> (Vec<Rec>, Vec<Vec<Rec>>) {
    let (v, w) = (f.ver, f.wide);
    let mut g: Vec<Rec> = vec![bof_rec(f.bof)];
    if f.cp != 0 {
        g.push((0x0042, f.cp.to_le_bytes().to_vec()));
    }
    if let Some(fmt) = &book.fmt {
        let mut d = 164u16.to_le_bytes().to_vec();
        d.extend(if v == 5 { short_s(5, fmt, w) } else { long_s(8, fmt, w) });
        g.push((0x041E, d));
    }
    g.push(xf_rec(v, 0));
    g.push(xf_rec(v, if book.fmt.is_some() { 164 } else { 14 }));
    for sh in &book.sheets {
        let mut d = vec![0u8; 6];
        d.extend(short_s(v, &sh.name, w));
        g.push((0x0085, d));
    }
    for n in &book.defs {
        let mut d = vec![0u8, 0, 0, cch(v, n) as u8];
        d.extend_from_slice(&(RGCE.len() as u16).to_le_bytes());
        d.extend_from_slice(&[0u8; 8]);
        d.extend(no_cch(v, n, w));
        d.extend_from_slice(&RGCE);
        g.push((0x0018, d));
    }
    // shared strings in cell order
    let mut shared: Vec<&Text> = Vec::new();
    let mut sheets = Vec::new();
    let sheet_bof = bof_rec((std_bof(v).0, 0x0010, std_bof(v).2));
    for sh in &book.sheets {
        let mut s: Vec<Rec> = vec![sheet_bof.clone()];
        if let Some((r0, r1, c0, c1)) = sh.dims {
            let mut d = Vec::new();
            if v == 5 {
                for x in [r0, r1, c0, c1, 0] { d.extend_from_slice(&x.to_le_bytes()); }
            } else {
                d.extend_from_slice(&(r0 as u32).to_le_bytes());
                d.extend_from_slice(&(r1 as u32).to_le_bytes());
                for x in [c0, c1, 0] { d.extend_from_slice(&x.to_le_bytes()); }
            }
            s.push((0x0200, d));
        }
        for cell in &sh.cells {
            match cell {
                Cell::Label { r, c, t } => {
                    let mut d = cell_hdr(*r, *c, 0);
                    d.extend(long_s(v, t, w));
                    s.push((0x0204, d));
                }
                Cell::FormulaStr { r, c, t } => {
                    let mut d = cell_hdr(*r, *c, 0);
                    d.extend_from_slice(&[0, 0, 0, 0, 0, 0, 0xFF, 0xFF]);
                    d.extend_from_slice(&[0, 0]);
                    d.extend_from_slice(&[0, 0, 0, 0]);
                    d.extend_from_slice(&(RGCE.len() as u16).to_le_bytes());
                    d.extend_from_slice(&RGCE);
                    s.push((0x0006, d));
                    s.push((0x0207, long_s(v, t, w)));
                }
                Cell::Shared { r, c, t } => {
                    if v == 5 {
                        let mut d = cell_hdr(*r, *c, 0);
                        d.extend(long_s(5, t, w));
                        s.push((0x0204, d));
                    } else {
                        let mut d = cell_hdr(*r, *c, 0);
                        d.extend_from_slice(&(shared.len() as u32).to_le_bytes());
                        shared.push(t);
                        s.push((0x00FD, d));
                    }
                }
                Cell::Number { r, c, xf, v: val } => {
                    let mut d = cell_hdr(*r, *c, *xf);
                    d.extend_from_slice(val);
                    s.push((0x0203, d));
                }
                Cell::Rk { r, c, xf, rk } => {
                    let mut d = cell_hdr(*r, *c, *xf);
                    d.extend_from_slice(rk);
                    s.push((0x027E, d));
                }
                Cell::MulRk { r, c0, items } => {
                    assert!(!items.is_empty());
                    let mut d = Vec::new();
                    d.extend_from_slice(&r.to_le_bytes());
                    d.extend_from_slice(&c0.to_le_bytes());
                    for (xf, rk) in items {
                        d.extend_from_slice(&xf.to_le_bytes());
                        d.extend_from_slice(rk);
                    }
                    d.extend_from_slice(&(*c0 + items.len() as u16 - 1).to_le_bytes());
                    s.push((0x00BD, d));
                }
            }
        }
        s.push((0x000A, vec![]));
        sheets.push(s);
    }
    if v == 8 {
        let n = shared.len() as u32;
        let mut d = n.to_le_bytes().to_vec();
        d.extend_from_slice(&n.to_le_bytes());
        for t in &shared {
            d.extend(long_s(8, t, w));
        }
        g.push((0x00FC, d));
    }
    g.push((0x000A, vec![]));
    (g, sheets)
}

/// lay the substreams out one after the other; the i-th BoundSheet record points at the i-th sheet
pub fn stream_bytes(g: &[Rec], sheets: &[Vec<Rec>]) -> Vec<u8> {
    let mut w = W::new();
    let mut patch = Vec::new();
    for (typ, d) in g {
        if *typ == 0x0085 {
            patch.push(w.buf.len() + 4);
        }
        w.rec(*typ, d);
    }
    let mut out = w.buf;
    for (i, s) in sheets.iter().enumerate() {
        let pos = out.len() as u32;
        if let Some(p) = patch.get(i) {
            out[*p..*p + 4].copy_from_slice(&pos.to_le_bytes());
        }
        let mut w = W::new();
        for (typ, d) in s {
            w.rec(*typ, d);
        }
        out.extend(w.buf);
    }
    out
}

/// compound file holding the given streams (name, bytes)
pub fn xls_file(streams: &[(String, Vec<u8>)]) -> Vec<u8> {
    let refs: Vec<(&str, &[u8])> = streams.iter().map(|(n, b)| (n.as_str(), b.as_slice())).collect();
    cfb::simple_cfb(&refs)
}
