//! General compound-file (OLE2 / MS-CFB) writer, parameterised by a physical layout.
//!
//!   build_cfb(streams, &layout)            -> bytes
//!   build_cfb_described(streams, &layout)  -> (bytes, CfbDesc)   (what was written, for logging)
//!   simple_cfb(streams)                    -> bytes in the canonical layout (v3, sequential)
//!   plan(stream_lens, &layout)             -> the list of sector *units* the layout has to place
//!
//! A stream is `(path, bytes)`; `path` may contain storages separated by '/', e.g.
//! "_VBA_PROJECT_CUR/VBA/dir" (storage entries are created on demand).
//!
//! Layout freedom (everything [MS-CFB] leaves to the writer):
//!   * version 3 / 512-byte sectors or version 4 / 4096-byte sectors,
//!   * `placement`: any injection of the units (FAT, DIFAT, directory, mini-FAT, mini-stream
//!     container and stream sectors) into sector ids 0..total, unassigned ids are free sectors,
//!   * `mini_placement`: any injection of the 64-byte mini sectors of the short streams into the
//!     slots of the mini stream (unassigned slots are free mini sectors),
//!   * streams shorter than 4096 bytes live in the mini stream, all others in regular sectors,
//!   * order of the directory entries after the root entry and unused entries between them,
//!   * more FAT / mini-FAT sectors than necessary (all FREESECT), DIFAT sectors when the FAT has
//!     more than 109 sectors, bytes after the last sector.
use std::collections::BTreeMap;

pub const DIFSECT: u32 = 0xFFFF_FFFC;
pub const FATSECT: u32 = 0xFFFF_FFFD;
pub const ENDOFCHAIN: u32 = 0xFFFF_FFFE;
pub const FREESECT: u32 = 0xFFFF_FFFF;
pub const NOSTREAM: u32 = 0xFFFF_FFFF;
pub const MINI_CUTOFF: usize = 4096;
pub const MINI_SIZE: usize = 64;
pub const HEADER_DIFAT: usize = 109;

#[derive(Clone, Copy, Debug, PartialEq, Eq, Hash, PartialOrd, Ord)]
pub enum Unit {
    Fat(usize),
    Difat(usize),
    Dir(usize),
    MiniFat(usize),
    /// k-th sector of the mini-stream container (the root entry's chain)
    Mini(usize),
    /// (stream index, k-th sector of its chain)
    Stream(usize, usize),
}

#[derive(Clone, Debug, Default)]
pub struct CfbLayout {
    /// version 4 (4096-byte sectors) instead of version 3 (512-byte sectors)
    pub v4: bool,
    /// directory entries after the root entry: `Some(i)` = i-th entry of the canonical entry list
    /// (`entries()`: storages and streams in order of first appearance), `None` = unused entry.
    /// Empty = canonical order.  The last directory sector is padded with unused entries.
    pub dir_order: Vec<Option<usize>>,
    /// FAT sectors beyond the minimum (their entries are FREESECT)
    pub extra_fat: usize,
    /// mini-FAT sectors beyond the minimum
    pub extra_minifat: usize,
    /// free regular sectors inside the file (total = units + free_sectors)
    pub free_sectors: usize,
    /// free mini sectors inside the mini stream (slots = used + free_minis)
    pub free_minis: usize,
    /// sector id of every unit of `plan().units`, in that order (an injection into 0..total);
    /// None = identity
    pub placement: Option<Vec<u32>>,
    /// slot of every mini unit of `plan().mini_units`, in that order; None = identity
    pub mini_placement: Option<Vec<u32>>,
    /// bytes appended after the last sector
    pub trailing_pad: usize,
    /// seed for the filler bytes in free sectors, slack and padding
    pub fill_seed: u64,
}

#[derive(Clone, Debug)]
pub struct Plan {
    pub ssz: usize,
    pub units: Vec<Unit>,
    /// (stream index, k-th mini sector of it)
    pub mini_units: Vec<(usize, usize)>,
    pub total_sectors: usize,
    pub total_minis: usize,
    pub n_fat: usize,
    pub n_difat: usize,
    pub n_dir: usize,
    pub n_minifat: usize,
    pub n_ministream: usize,
    pub n_dir_entries: usize,
}

#[derive(Clone, Debug)]
pub struct DirEnt {
    pub name: String,
    /// 0 unused, 1 storage, 2 stream, 5 root
    pub typ: u8,
    pub start: u32,
    pub len: u64,
}

/// Everything that was written, in logical terms (leg 2 logs it; Trace_Cfb reads it).
#[derive(Clone, Debug)]
pub struct CfbDesc {
    pub v4: bool,
    pub ssz: usize,
    pub dir_len: u32,
    pub fat_len: u32,
    pub dir_start: u32,
    pub minifat_start: u32,
    pub minifat_len: u32,
    pub difat_start: u32,
    pub difat_len: u32,
    pub header_difat: Vec<u32>,
    /// what each physical sector holds (None = free)
    pub sec: Vec<Option<Unit>>,
    /// the FAT, entry per sector id, as stored (concatenation of the FAT sectors in DIFAT order)
    pub fat: Vec<u32>,
    pub minifat: Vec<u32>,
    /// what each slot of the mini stream holds
    pub mini: Vec<Option<(usize, usize)>>,
    pub dir: Vec<DirEnt>,
    /// raw 32-bit words of every FAT / DIFAT / mini-FAT sector, by sector id
    pub words: BTreeMap<u32, Vec<u32>>,
    pub file_len: usize,
}

fn div_up(a: usize, b: usize) -> usize {
    (a + b - 1) / b
}

/// canonical directory entry list (after the root): storages and streams in order of appearance.
/// Returns (entries: (full path, leaf name, parent entry or None for root, Some(stream idx) | None for storage))
pub fn entries(paths: &[&str]) -> Vec<(String, String, Option<usize>, Option<usize>)> {
    let mut out: Vec<(String, String, Option<usize>, Option<usize>)> = Vec::new();
    for (si, p) in paths.iter().enumerate() {
        let comps: Vec<&str> = p.split('/').collect();
        let mut parent: Option<usize> = None;
        let mut pref = String::new();
        for (ci, c) in comps.iter().enumerate() {
            if ci > 0 {
                pref.push('/');
            }
            pref.push_str(c);
            if ci + 1 == comps.len() {
                out.push((pref.clone(), c.to_string(), parent, Some(si)));
            } else {
                let found = out.iter().position(|e| e.0 == pref && e.3.is_none());
                parent = Some(match found {
                    Some(i) => i,
                    None => {
                        out.push((pref.clone(), c.to_string(), parent, None));
                        out.len() - 1
                    }
                });
            }
        }
    }
    out
}

pub fn plan(paths: &[&str], lens: &[usize], l: &CfbLayout) -> Plan {
    let ssz = if l.v4 { 4096 } else { 512 };
    let eps = ssz / 4;
    let mut mini_units = Vec::new();
    let mut stream_units = Vec::new();
    for (i, len) in lens.iter().enumerate() {
        if *len == 0 {
            continue;
        }
        if *len < MINI_CUTOFF {
            for k in 0..div_up(*len, MINI_SIZE) {
                mini_units.push((i, k));
            }
        } else {
            for k in 0..div_up(*len, ssz) {
                stream_units.push(Unit::Stream(i, k));
            }
        }
    }
    let total_minis = if mini_units.is_empty() { 0 } else { mini_units.len() + l.free_minis };
    let n_ministream = div_up(total_minis * MINI_SIZE, ssz);
    let n_minifat = if total_minis == 0 { 0 } else { div_up(total_minis, eps) + l.extra_minifat };
    let n_entries_min = 1 + if l.dir_order.is_empty() { entries(paths).len() } else { l.dir_order.len() };
    let n_dir = div_up(n_entries_min, ssz / 128);
    let fixed = n_dir + n_minifat + n_ministream + stream_units.len() + l.free_sectors;
    // fixed point: the FAT (and DIFAT) must cover themselves
    let mut n_fat = 1;
    let mut n_difat;
    loop {
        n_difat = if n_fat > HEADER_DIFAT { div_up(n_fat - HEADER_DIFAT, eps - 1) } else { 0 };
        let total = fixed + n_fat + n_difat;
        let need = div_up(total, eps).max(1) + l.extra_fat;
        if need <= n_fat {
            break;
        }
        n_fat = need;
    }
    let mut units = Vec::new();
    units.extend((0..n_fat).map(Unit::Fat));
    units.extend((0..n_difat).map(Unit::Difat));
    units.extend((0..n_dir).map(Unit::Dir));
    units.extend((0..n_minifat).map(Unit::MiniFat));
    units.extend((0..n_ministream).map(Unit::Mini));
    units.extend(stream_units);
    let total_sectors = units.len() + l.free_sectors;
    Plan {
        ssz,
        units,
        mini_units,
        total_sectors,
        total_minis,
        n_fat,
        n_difat,
        n_dir,
        n_minifat,
        n_ministream,
        n_dir_entries: n_dir * (ssz / 128),
    }
}

struct Filler(u64);
impl Filler {
    fn next(&mut self) -> u8 {
        // xorshift64*
        self.0 ^= self.0 >> 12;
        self.0 ^= self.0 << 25;
        self.0 ^= self.0 >> 27;
        (self.0.wrapping_mul(0x2545_F491_4F6C_DD1D) >> 56) as u8
    }
    fn fill(&mut self, b: &mut [u8]) {
        for x in b {
            *x = self.next();
        }
    }
}

fn put_u16(b: &mut [u8], off: usize, v: u16) {
    b[off..off + 2].copy_from_slice(&v.to_le_bytes());
}
fn put_u32(b: &mut [u8], off: usize, v: u32) {
    b[off..off + 4].copy_from_slice(&v.to_le_bytes());
}
fn put_u64(b: &mut [u8], off: usize, v: u64) {
    b[off..off + 8].copy_from_slice(&v.to_le_bytes());
}

/// [MS-CFB] 2.6.4 ordering of sibling names: shorter first, then upper-cased UTF-16 units
fn cfb_name_key(n: &str) -> (usize, Vec<u16>) {
    let u: Vec<u16> = n.to_uppercase().encode_utf16().collect();
    (u.len(), u)
}

pub fn simple_cfb(streams: &[(&str, &[u8])]) -> Vec<u8> {
    // (an odd fill seed: version-3 directory entries carry junk in the ignored high size bits)
    build_cfb(streams, &CfbLayout { fill_seed: 1, ..CfbLayout::default() })
}

pub fn build_cfb(streams: &[(&str, &[u8])], l: &CfbLayout) -> Vec<u8> {
    build_cfb_described(streams, l).0
}

/// Panics (a harness error, not a finding) when the layout description is inconsistent.
pub fn build_cfb_described(streams: &[(&str, &[u8])], l: &CfbLayout) -> (Vec<u8>, CfbDesc) {
    let paths: Vec<&str> = streams.iter().map(|s| s.0).collect();
    let lens: Vec<usize> = streams.iter().map(|s| s.1.len()).collect();
    let p = plan(&paths, &lens, l);
    let ssz = p.ssz;
    let eps = ssz / 4;
    let total = p.total_sectors;
    let mut fill = Filler(l.fill_seed | 1);

    // ---- sector placement
    let place: Vec<u32> = match &l.placement {
        Some(v) => {
            assert_eq!(v.len(), p.units.len(), "placement length != number of units");
            v.clone()
        }
        None => (0..p.units.len() as u32).collect(),
    };
    let mut sec: Vec<Option<Unit>> = vec![None; total];
    let mut at: BTreeMap<Unit, u32> = BTreeMap::new();
    for (u, id) in p.units.iter().zip(place.iter()) {
        assert!((*id as usize) < total, "placement beyond the file");
        assert!(sec[*id as usize].is_none(), "placement not injective");
        sec[*id as usize] = Some(*u);
        at.insert(*u, *id);
    }
    // ---- mini placement
    let mplace: Vec<u32> = match &l.mini_placement {
        Some(v) => {
            assert_eq!(v.len(), p.mini_units.len(), "mini placement length");
            v.clone()
        }
        None => (0..p.mini_units.len() as u32).collect(),
    };
    let mut mini: Vec<Option<(usize, usize)>> = vec![None; p.total_minis];
    let mut mini_at: BTreeMap<(usize, usize), u32> = BTreeMap::new();
    for (u, slot) in p.mini_units.iter().zip(mplace.iter()) {
        assert!((*slot as usize) < p.total_minis, "mini placement beyond the mini stream");
        assert!(mini[*slot as usize].is_none(), "mini placement not injective");
        mini[*slot as usize] = Some(*u);
        mini_at.insert(*u, *slot);
    }

    // ---- FAT
    let mut fat = vec![FREESECT; p.n_fat * eps];
    let chain_next = |u: Unit| -> Option<Unit> {
        match u {
            Unit::Dir(k) => Some(Unit::Dir(k + 1)),
            Unit::MiniFat(k) => Some(Unit::MiniFat(k + 1)),
            Unit::Mini(k) => Some(Unit::Mini(k + 1)),
            Unit::Stream(i, k) => Some(Unit::Stream(i, k + 1)),
            _ => None,
        }
    };
    for (u, id) in &at {
        fat[*id as usize] = match u {
            Unit::Fat(_) => FATSECT,
            Unit::Difat(_) => DIFSECT,
            other => match chain_next(*other).and_then(|n| at.get(&n)) {
                Some(n) => *n,
                None => ENDOFCHAIN,
            },
        };
    }
    // ---- mini FAT
    let mut minifat = vec![FREESECT; p.n_minifat * eps];
    for ((i, k), slot) in &mini_at {
        minifat[*slot as usize] = match mini_at.get(&(*i, *k + 1)) {
            Some(n) => *n,
            None => ENDOFCHAIN,
        };
    }

    // ---- mini stream container bytes
    let mut ms = vec![0u8; p.n_ministream * ssz];
    fill.fill(&mut ms);
    for (slot, u) in mini.iter().enumerate() {
        if let Some((i, k)) = u {
            let data = streams[*i].1;
            let a = k * MINI_SIZE;
            let b = (a + MINI_SIZE).min(data.len());
            ms[slot * MINI_SIZE..slot * MINI_SIZE + (b - a)].copy_from_slice(&data[a..b]);
        }
    }

    // ---- directory
    let ents = entries(&paths);
    let order: Vec<Option<usize>> = if l.dir_order.is_empty() {
        (0..ents.len()).map(Some).collect()
    } else {
        l.dir_order.clone()
    };
    {
        let mut seen = vec![false; ents.len()];
        for o in order.iter().flatten() {
            assert!(!seen[*o], "dir_order repeats an entry");
            seen[*o] = true;
        }
        assert!(seen.iter().all(|x| *x), "dir_order misses an entry");
    }
    // directory index (in the file) of every canonical entry
    let mut dir_idx = vec![0u32; ents.len()];
    for (pos, o) in order.iter().enumerate() {
        if let Some(e) = o {
            dir_idx[*e] = pos as u32 + 1;
        }
    }
    // sibling trees: children of each parent sorted by the CFB name order, balanced BST
    let mut children: BTreeMap<Option<usize>, Vec<usize>> = BTreeMap::new();
    for (i, e) in ents.iter().enumerate() {
        children.entry(e.2).or_default().push(i);
    }
    let mut left = vec![NOSTREAM; ents.len()];
    let mut right = vec![NOSTREAM; ents.len()];
    let mut child_of: BTreeMap<Option<usize>, u32> = BTreeMap::new();
    fn bst(v: &[usize], dir_idx: &[u32], left: &mut [u32], right: &mut [u32]) -> u32 {
        if v.is_empty() {
            return NOSTREAM;
        }
        let m = v.len() / 2;
        let l = bst(&v[..m], dir_idx, left, right);
        let r = bst(&v[m + 1..], dir_idx, left, right);
        left[v[m]] = l;
        right[v[m]] = r;
        dir_idx[v[m]]
    }
    for (par, v) in children.iter_mut() {
        v.sort_by_key(|i| cfb_name_key(&ents[*i].1));
        let root = bst(v, &dir_idx, &mut left, &mut right);
        child_of.insert(*par, root);
    }
    let n_entries = p.n_dir_entries;
    let mut dirbytes = vec![0u8; n_entries * 128];
    let mut dir_desc: Vec<DirEnt> = Vec::with_capacity(n_entries);
    let junk_hi = !l.v4 && l.fill_seed % 2 == 1;
    let write_entry = |buf: &mut [u8], name: &str, typ: u8, l: u32, r: u32, c: u32, start: u32, len: u64| {
        let u: Vec<u16> = name.encode_utf16().collect();
        assert!(u.len() <= 31, "directory entry name too long");
        for (i, x) in u.iter().enumerate() {
            put_u16(buf, 2 * i, *x);
        }
        put_u16(buf, 64, if typ == 0 { 0 } else { (u.len() as u16 + 1) * 2 });
        buf[66] = typ;
        buf[67] = 1; // black
        put_u32(buf, 68, l);
        put_u32(buf, 72, r);
        put_u32(buf, 76, c);
        put_u32(buf, 116, start);
        put_u64(buf, 120, len);
        // [MS-CFB] 2.6.3: in a version 3 file the stream size is a 32-bit value and readers ignore the
        // most significant 32 bits, which some writers leave uninitialised
        if junk_hi && typ != 0 {
            put_u32(buf, 124, 0x0BAD_F00D);
        }
    };
    // root
    let ms_start = at.get(&Unit::Mini(0)).copied().unwrap_or(ENDOFCHAIN);
    let ms_len = (p.total_minis * MINI_SIZE) as u64;
    write_entry(
        &mut dirbytes[0..128],
        "Root Entry",
        5,
        NOSTREAM,
        NOSTREAM,
        child_of.get(&None).copied().unwrap_or(NOSTREAM),
        ms_start,
        ms_len,
    );
    dir_desc.push(DirEnt { name: "Root Entry".into(), typ: 5, start: ms_start, len: ms_len });
    for pos in 1..n_entries {
        let buf = &mut dirbytes[pos * 128..(pos + 1) * 128];
        match order.get(pos - 1).copied().flatten() {
            None => {
                write_entry(buf, "", 0, NOSTREAM, NOSTREAM, NOSTREAM, 0, 0);
                dir_desc.push(DirEnt { name: String::new(), typ: 0, start: 0, len: 0 });
            }
            Some(e) => {
                let (_, leaf, _, sidx) = &ents[e];
                match sidx {
                    None => {
                        let c = child_of.get(&Some(e)).copied().unwrap_or(NOSTREAM);
                        write_entry(buf, leaf, 1, left[e], right[e], c, 0, 0);
                        dir_desc.push(DirEnt { name: leaf.clone(), typ: 1, start: 0, len: 0 });
                    }
                    Some(si) => {
                        let len = lens[*si];
                        let start = if len == 0 {
                            ENDOFCHAIN
                        } else if len < MINI_CUTOFF {
                            mini_at[&(*si, 0)]
                        } else {
                            at[&Unit::Stream(*si, 0)]
                        };
                        write_entry(buf, leaf, 2, left[e], right[e], NOSTREAM, start, len as u64);
                        dir_desc.push(DirEnt { name: leaf.clone(), typ: 2, start, len: len as u64 });
                    }
                }
            }
        }
    }

    // ---- header
    let mut out = vec![0u8; ssz + total * ssz];
    out[..8].copy_from_slice(&[0xD0, 0xCF, 0x11, 0xE0, 0xA1, 0xB1, 0x1A, 0xE1]);
    put_u16(&mut out, 24, 0x003E);
    put_u16(&mut out, 26, if l.v4 { 4 } else { 3 });
    put_u16(&mut out, 28, 0xFFFE);
    put_u16(&mut out, 30, if l.v4 { 0x000C } else { 0x0009 });
    put_u16(&mut out, 32, 0x0006);
    let dir_len = if l.v4 { p.n_dir as u32 } else { 0 };
    let dir_start = at[&Unit::Dir(0)];
    let minifat_start = at.get(&Unit::MiniFat(0)).copied().unwrap_or(ENDOFCHAIN);
    let difat_start = at.get(&Unit::Difat(0)).copied().unwrap_or(ENDOFCHAIN);
    put_u32(&mut out, 40, dir_len);
    put_u32(&mut out, 44, p.n_fat as u32);
    put_u32(&mut out, 48, dir_start);
    put_u32(&mut out, 52, 0);
    put_u32(&mut out, 56, MINI_CUTOFF as u32);
    put_u32(&mut out, 60, minifat_start);
    put_u32(&mut out, 64, p.n_minifat as u32);
    put_u32(&mut out, 68, difat_start);
    put_u32(&mut out, 72, p.n_difat as u32);
    let fat_ids: Vec<u32> = (0..p.n_fat).map(|k| at[&Unit::Fat(k)]).collect();
    let mut header_difat = vec![FREESECT; HEADER_DIFAT];
    for (k, id) in fat_ids.iter().take(HEADER_DIFAT).enumerate() {
        header_difat[k] = *id;
    }
    for (k, id) in header_difat.iter().enumerate() {
        put_u32(&mut out, 76 + 4 * k, *id);
    }

    // ---- sectors
    let mut words: BTreeMap<u32, Vec<u32>> = BTreeMap::new();
    for id in 0..total {
        let off = ssz + id * ssz;
        let buf = &mut out[off..off + ssz];
        match sec[id] {
            None => fill.fill(buf),
            Some(Unit::Fat(k)) => {
                let w = fat[k * eps..(k + 1) * eps].to_vec();
                for (j, x) in w.iter().enumerate() {
                    put_u32(buf, 4 * j, *x);
                }
                words.insert(id as u32, w);
            }
            Some(Unit::Difat(k)) => {
                let mut w = vec![FREESECT; eps];
                let base = HEADER_DIFAT + k * (eps - 1);
                for j in 0..eps - 1 {
                    if let Some(f) = fat_ids.get(base + j) {
                        w[j] = *f;
                    }
                }
                w[eps - 1] = at.get(&Unit::Difat(k + 1)).copied().unwrap_or(ENDOFCHAIN);
                for (j, x) in w.iter().enumerate() {
                    put_u32(buf, 4 * j, *x);
                }
                words.insert(id as u32, w);
            }
            Some(Unit::Dir(k)) => buf.copy_from_slice(&dirbytes[k * ssz..(k + 1) * ssz]),
            Some(Unit::MiniFat(k)) => {
                let w = minifat[k * eps..(k + 1) * eps].to_vec();
                for (j, x) in w.iter().enumerate() {
                    put_u32(buf, 4 * j, *x);
                }
                words.insert(id as u32, w);
            }
            Some(Unit::Mini(k)) => buf.copy_from_slice(&ms[k * ssz..(k + 1) * ssz]),
            Some(Unit::Stream(i, k)) => {
                let data = streams[i].1;
                let a = k * ssz;
                let b = (a + ssz).min(data.len());
                buf[..b - a].copy_from_slice(&data[a..b]);
                fill.fill(&mut buf[b - a..]);
            }
        }
    }
    let mut pad = vec![0u8; l.trailing_pad];
    fill.fill(&mut pad);
    out.extend_from_slice(&pad);
    let desc = CfbDesc {
        v4: l.v4,
        ssz,
        dir_len,
        fat_len: p.n_fat as u32,
        dir_start,
        minifat_start,
        minifat_len: p.n_minifat as u32,
        difat_start,
        difat_len: p.n_difat as u32,
        header_difat,
        sec,
        fat,
        minifat,
        mini,
        dir: dir_desc,
        words,
        file_len: out.len(),
    };
    (out, desc)
}
