//! Materialisers: token lists / logical documents -> real bytes.
pub mod zipw;
pub mod ods;
pub mod xlsb;
