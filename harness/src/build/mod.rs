//! Materialisers: token lists / logical documents -> real bytes.
pub mod zipw;
pub mod xlsx;
pub mod cfb;
pub mod biff;
pub mod ods;
pub mod xlsb;
pub mod simple;
pub mod vba;
pub mod biff5;
