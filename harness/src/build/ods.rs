//! .ods materialiser: a logical/physical description of an OpenDocument spreadsheet -> real zip
//! bytes (`mimetype`, `META-INF/manifest.xml`, `content.xml`).
//!
//! The description is *physical*: every `table:table-row` / `table:table-cell` element that will
//! appear in content.xml is one `OdsRow` / `OdsCell`, with its repeat attribute, value type,
//! lexical value and the form in which the value is stored.  Nothing is re-grouped or normalised
//! here, so a token list produced by a TLA+ writer model is materialised 1:1.
//!
//! JSON token shape (what the specs print, see tla/ods/OdsTable.tla `TokRow`/`TokCell`):
//!   table : {"name": "T", "rows": [row, ...]}            (or just [row, ...])
//!   row   : {"rr": n, "rx": bool?, "cells": [cell, ...]} rr = table:number-rows-repeated,
//!           rx = write the attribute even when rr = 1
//!   cell  : {"k": "c"|"v",          c = table:table-cell, v = table:covered-table-cell
//!            "n": repeat, "x": bool?  (write number-columns-repeated even when n = 1)
//!            "vt": ""|"float"|"percentage"|"currency"|"string"|"boolean"|"date"|"time",
//!            "lex": "1.5",           lexical value (attribute value, or text for strings)
//!            "form": "attr"|"text",  strings: office:string-value attribute or text:p content
//!            "fm": "of:=1+1"?,       table:formula
//!            "vf": bool?}            value attribute written *before* office:value-type
//!   or    {"k": "ws", "lex": name}  a whitespace-only text node between two cell elements
//!   table-level "pw": name | ""     whitespace-only text in front of every row element and,
//!           inside every cell with children, around its text:p elements ("pretty printing");
//!           names: sp nl nl2 tab crlf (see `ws_text`)
use crate::build::zipw::zip_bytes;
use serde_json::Value;

pub const MIMETYPE: &str = "application/vnd.oasis.opendocument.spreadsheet";

#[derive(Clone, Debug, PartialEq)]
pub enum OdsVal {
    /// no office:value-type at all (an empty cell)
    None,
    Float(String),
    Percentage(String),
    /// lexical value, optional office:currency
    Currency(String, Option<String>),
    /// `attr`: store in office:string-value (and repeat it as text:p, as LibreOffice would not,
    /// but ODF allows); otherwise the text:p content is the value. `\n` separates paragraphs.
    Str { text: String, attr: bool },
    Bool(bool),
    /// office:date-value (date or dateTime lexical form)
    Date(String),
    /// office:time-value (duration lexical form)
    Time(String),
}

#[derive(Clone, Debug)]
pub struct OdsCell {
    pub covered: bool,
    pub repeat: u32,
    /// write table:number-columns-repeated even when repeat == 1
    pub explicit_repeat: bool,
    pub val: OdsVal,
    pub formula: Option<String>,
    /// table:formula attribute value already in its physical (escaped) form
    pub formula_raw: Option<String>,
    /// display text (text:p) of a non-string cell; None = the lexical value
    pub display: Option<String>,
    /// write the value attribute before office:value-type (attribute order is free in XML)
    pub value_first: bool,
    /// further attributes, written verbatim (name, unescaped value), e.g. table:style-name
    pub extra_attrs: Vec<(String, String)>,
    /// raw XML children replacing the generated text:p content (C19 storage forms)
    pub raw_children: Option<String>,
    /// Some(text): not an element at all but a (whitespace) text node written in its place
    pub text_node: Option<String>,
}

impl OdsCell {
    pub fn empty(repeat: u32) -> OdsCell {
        OdsCell {
            covered: false,
            repeat,
            explicit_repeat: false,
            val: OdsVal::None,
            formula: None,
            formula_raw: None,
            display: None,
            value_first: false,
            extra_attrs: Vec::new(),
            raw_children: None,
            text_node: None,
        }
    }
    pub fn text_node(text: &str) -> OdsCell {
        OdsCell { text_node: Some(text.to_string()), ..OdsCell::empty(0) }
    }
    pub fn covered(repeat: u32) -> OdsCell {
        OdsCell { covered: true, ..OdsCell::empty(repeat) }
    }
    pub fn value(val: OdsVal, repeat: u32) -> OdsCell {
        OdsCell { val, ..OdsCell::empty(repeat) }
    }
    pub fn with_formula(mut self, f: &str) -> OdsCell {
        self.formula = Some(f.to_string());
        self
    }
}

#[derive(Clone, Debug)]
pub struct OdsRow {
    pub repeat: u32,
    pub explicit_repeat: bool,
    pub cells: Vec<OdsCell>,
}

#[derive(Clone, Debug)]
pub struct OdsTable {
    pub name: String,
    pub rows: Vec<OdsRow>,
    /// Some(false) => an automatic table style with table:display="false" (hidden sheet, C16)
    pub display: Option<bool>,
    /// `<table:table-column table:number-columns-repeated=n/>` declaration (ignored by readers
    /// of cell content, always written by LibreOffice)
    pub column_decl: Option<u32>,
    /// whitespace-only text written in front of every child element of the table, in front of
    /// `</table:table>` and, inside every cell that has children, around its text:p elements
    pub pretty: String,
    /// the first n row elements are wrapped in <table:table-header-rows> (print titles): they are rows
    /// of the table like any other.  Default: the first row of every table with an odd number (>= 3) of
    /// row elements.
    pub header_rows: usize,
}

impl OdsTable {
    pub fn new(name: &str, rows: Vec<OdsRow>) -> OdsTable {
        let header_rows = if rows.len() >= 3 && rows.len() % 2 == 1 { 1 } else { 0 };
        OdsTable { name: name.to_string(), rows, display: None, column_decl: Some(16384), pretty: String::new(), header_rows }
    }
}

#[derive(Clone, Debug, Default)]
pub struct OdsDoc {
    pub tables: Vec<OdsTable>,
    /// (name, expression or range address, is_range): table:named-range / table:named-expression
    pub named: Vec<(String, String, bool)>,
    /// manifest carries manifest:encryption-data for content.xml (C20)
    pub encrypted: bool,
    /// override of the `mimetype` entry
    pub mimetype: Option<Vec<u8>>,
    /// whitespace-only text between the children of table:named-expressions
    pub pretty_named: String,
}

pub fn esc_attr(s: &str) -> String {
    let mut o = String::with_capacity(s.len());
    for ch in s.chars() {
        match ch {
            '&' => o.push_str("&amp;"),
            '<' => o.push_str("&lt;"),
            '>' => o.push_str("&gt;"),
            '"' => o.push_str("&quot;"),
            '\n' => o.push_str("&#10;"),
            '\t' => o.push_str("&#9;"),
            c => o.push(c),
        }
    }
    o
}

pub fn esc_text(s: &str) -> String {
    let mut o = String::with_capacity(s.len());
    for ch in s.chars() {
        match ch {
            '&' => o.push_str("&amp;"),
            '<' => o.push_str("&lt;"),
            '>' => o.push_str("&gt;"),
            c => o.push(c),
        }
    }
    o
}

/// whitespace text by name (the specs carry names, TLC strings are atomic)
pub fn ws_text(name: &str) -> &'static str {
    match name {
        "" => "",
        "sp" => " ",
        "nl" => "\n",
        "nl2" => "\n  ",
        "tab" => "\t",
        "crlf" => "\r\n",
        other => panic!("harness: unknown whitespace name {}", other),
    }
}

fn paragraphs(text: &str, pretty: &str, out: &mut String) {
    for p in text.split('\n') {
        out.push_str(pretty);
        out.push_str("<text:p>");
        out.push_str(&esc_text(p));
        out.push_str("</text:p>");
    }
    out.push_str(pretty);
}

impl OdsCell {
    pub fn write_xml(&self, out: &mut String) {
        self.write_xml_pretty("", out)
    }

    pub fn write_xml_pretty(&self, pretty: &str, out: &mut String) {
        if let Some(t) = &self.text_node {
            out.push_str(&esc_text(t));
            return;
        }
        let tag = if self.covered { "table:covered-table-cell" } else { "table:table-cell" };
        out.push('<');
        out.push_str(tag);
        for (k, v) in &self.extra_attrs {
            out.push_str(&format!(" {}=\"{}\"", k, esc_attr(v)));
        }
        if self.repeat != 1 || self.explicit_repeat {
            out.push_str(&format!(" table:number-columns-repeated=\"{}\"", self.repeat));
        }
        if let Some(f) = &self.formula {
            out.push_str(&format!(" table:formula=\"{}\"", esc_attr(f)));
        }
        if let Some(f) = &self.formula_raw {
            out.push_str(&format!(" table:formula=\"{}\"", f));
        }
        let (vt, vattr): (&str, Vec<(String, String)>) = match &self.val {
            OdsVal::None => ("", vec![]),
            OdsVal::Float(l) => ("float", vec![("office:value".into(), l.clone())]),
            OdsVal::Percentage(l) => ("percentage", vec![("office:value".into(), l.clone())]),
            OdsVal::Currency(l, c) => {
                let mut v = vec![];
                if let Some(c) = c {
                    v.push(("office:currency".to_string(), c.clone()));
                }
                v.push(("office:value".to_string(), l.clone()));
                ("currency", v)
            }
            OdsVal::Str { text, attr } => (
                "string",
                if *attr { vec![("office:string-value".into(), text.clone())] } else { vec![] },
            ),
            OdsVal::Bool(b) => (
                "boolean",
                vec![("office:boolean-value".into(), if *b { "true" } else { "false" }.to_string())],
            ),
            OdsVal::Date(l) => ("date", vec![("office:date-value".into(), l.clone())]),
            OdsVal::Time(l) => ("time", vec![("office:time-value".into(), l.clone())]),
        };
        let mut attrs = String::new();
        for (k, v) in &vattr {
            attrs.push_str(&format!(" {}=\"{}\"", k, esc_attr(v)));
        }
        if !vt.is_empty() {
            let t = format!(" office:value-type=\"{}\" calcext:value-type=\"{}\"", vt, vt);
            if self.value_first {
                out.push_str(&attrs);
                out.push_str(&t);
            } else {
                out.push_str(&t);
                out.push_str(&attrs);
            }
        }
        // children
        let mut kids = String::new();
        if let Some(raw) = &self.raw_children {
            kids.push_str(raw);
        } else {
            match &self.val {
                OdsVal::None => {}
                // with office:string-value the attribute is the value and the paragraphs are only its rendition:
                // they are written with a different text, so that a reader taking the wrong one is seen
                OdsVal::Str { text, attr: true } => paragraphs(self.display.as_deref().unwrap_or(&format!("[{}]", text)), pretty, &mut kids),
                OdsVal::Str { text, .. } => paragraphs(text, pretty, &mut kids),
                OdsVal::Float(l) | OdsVal::Percentage(l) | OdsVal::Currency(l, _) | OdsVal::Date(l)
                | OdsVal::Time(l) => paragraphs(self.display.as_deref().unwrap_or(l), pretty, &mut kids),
                OdsVal::Bool(b) => {
                    paragraphs(self.display.as_deref().unwrap_or(if *b { "TRUE" } else { "FALSE" }), pretty, &mut kids)
                }
            }
        }
        if kids.is_empty() {
            out.push_str("/>");
        } else {
            out.push('>');
            out.push_str(&kids);
            out.push_str("</");
            out.push_str(tag);
            out.push('>');
        }
    }
}

impl OdsRow {
    pub fn write_xml(&self, out: &mut String) {
        self.write_xml_pretty("", out)
    }

    pub fn write_xml_pretty(&self, pretty: &str, out: &mut String) {
        out.push_str("<table:table-row");
        if self.repeat != 1 || self.explicit_repeat {
            out.push_str(&format!(" table:number-rows-repeated=\"{}\"", self.repeat));
        }
        out.push_str(" table:style-name=\"ro1\"");
        if self.cells.is_empty() {
            out.push_str("/>");
            return;
        }
        out.push('>');
        for c in &self.cells {
            c.write_xml_pretty(pretty, out);
        }
        out.push_str("</table:table-row>");
    }
}

const NS: &str = concat!(
    " xmlns:table=\"urn:oasis:names:tc:opendocument:xmlns:table:1.0\"",
    " xmlns:office=\"urn:oasis:names:tc:opendocument:xmlns:office:1.0\"",
    " xmlns:text=\"urn:oasis:names:tc:opendocument:xmlns:text:1.0\"",
    " xmlns:style=\"urn:oasis:names:tc:opendocument:xmlns:style:1.0\"",
    " xmlns:fo=\"urn:oasis:names:tc:opendocument:xmlns:xsl-fo-compatible:1.0\"",
    " xmlns:number=\"urn:oasis:names:tc:opendocument:xmlns:datastyle:1.0\"",
    " xmlns:calcext=\"urn:org:documentfoundation:names:experimental:calc:xmlns:calcext:1.0\"",
    " xmlns:of=\"urn:oasis:names:tc:opendocument:xmlns:of:1.2\""
);

impl OdsDoc {
    pub fn single(table: OdsTable) -> OdsDoc {
        OdsDoc { tables: vec![table], ..OdsDoc::default() }
    }

    pub fn content_xml(&self) -> String {
        let mut o = String::with_capacity(4096);
        o.push_str("<?xml version=\"1.0\" encoding=\"UTF-8\"?>\n<office:document-content");
        o.push_str(NS);
        o.push_str(" office:version=\"1.2\"><office:automatic-styles>");
        o.push_str("<style:style style:name=\"ro1\" style:family=\"table-row\"><style:table-row-properties style:row-height=\"0.452cm\"/></style:style>");
        for (i, t) in self.tables.iter().enumerate() {
            if let Some(d) = t.display {
                o.push_str(&format!(
                    "<style:style style:name=\"ta{}\" style:family=\"table\"><style:table-properties table:display=\"{}\"/></style:style>",
                    i + 1,
                    d
                ));
            }
        }
        o.push_str("</office:automatic-styles><office:body><office:spreadsheet>");
        for (i, t) in self.tables.iter().enumerate() {
            o.push_str(&format!("<table:table table:name=\"{}\"", esc_attr(&t.name)));
            if t.display.is_some() {
                o.push_str(&format!(" table:style-name=\"ta{}\"", i + 1));
            }
            o.push('>');
            if let Some(n) = t.column_decl {
                o.push_str(&t.pretty);
                o.push_str(&format!("<table:table-column table:number-columns-repeated=\"{}\"/>", n));
            }
            for (ri, r) in t.rows.iter().enumerate() {
                if t.header_rows > 0 && ri == 0 {
                    o.push_str(&t.pretty);
                    o.push_str("<table:table-header-rows>");
                }
                o.push_str(&t.pretty);
                r.write_xml_pretty(&t.pretty, &mut o);
                if t.header_rows > 0 && ri + 1 == t.header_rows.min(t.rows.len()) {
                    o.push_str(&t.pretty);
                    o.push_str("</table:table-header-rows>");
                }
            }
            o.push_str(&t.pretty);
            o.push_str("</table:table>");
        }
        if !self.named.is_empty() {
            o.push_str("<table:named-expressions>");
            for (name, expr, is_range) in &self.named {
                o.push_str(&self.pretty_named);
                if *is_range {
                    o.push_str(&format!(
                        "<table:named-range table:name=\"{}\" table:base-cell-address=\"$Sheet1.$A$1\" table:cell-range-address=\"{}\"/>",
                        esc_attr(name),
                        esc_attr(expr)
                    ));
                } else {
                    o.push_str(&format!(
                        "<table:named-expression table:name=\"{}\" table:base-cell-address=\"$Sheet1.$A$1\" table:expression=\"{}\"/>",
                        esc_attr(name),
                        esc_attr(expr)
                    ));
                }
            }
            o.push_str(&self.pretty_named);
            o.push_str("</table:named-expressions>");
        }
        o.push_str("</office:spreadsheet></office:body></office:document-content>");
        o
    }

    pub fn manifest_xml(&self) -> String {
        let mut o = String::new();
        o.push_str("<?xml version=\"1.0\" encoding=\"UTF-8\"?>\n<manifest:manifest xmlns:manifest=\"urn:oasis:names:tc:opendocument:xmlns:manifest:1.0\" manifest:version=\"1.2\">");
        o.push_str(&format!("<manifest:file-entry manifest:full-path=\"/\" manifest:version=\"1.2\" manifest:media-type=\"{}\"/>", MIMETYPE));
        if self.encrypted {
            o.push_str("<manifest:file-entry manifest:full-path=\"content.xml\" manifest:media-type=\"text/xml\" manifest:size=\"1000\">");
            o.push_str("<manifest:encryption-data manifest:checksum-type=\"urn:oasis:names:tc:opendocument:xmlns:manifest:1.0#sha256-1k\" manifest:checksum=\"AAAA\">");
            o.push_str("<manifest:algorithm manifest:algorithm-name=\"http://www.w3.org/2001/04/xmlenc#aes256-cbc\" manifest:initialisation-vector=\"AAAA\"/>");
            o.push_str("<manifest:key-derivation manifest:key-derivation-name=\"PBKDF2\" manifest:key-size=\"32\" manifest:iteration-count=\"100000\" manifest:salt=\"AAAA\"/>");
            o.push_str("</manifest:encryption-data></manifest:file-entry>");
        } else {
            o.push_str("<manifest:file-entry manifest:full-path=\"content.xml\" manifest:media-type=\"text/xml\"/>");
        }
        o.push_str("</manifest:manifest>");
        o
    }

    pub fn parts(&self) -> Vec<(String, Vec<u8>)> {
        vec![
            (
                "mimetype".to_string(),
                self.mimetype.clone().unwrap_or_else(|| MIMETYPE.as_bytes().to_vec()),
            ),
            ("META-INF/manifest.xml".to_string(), self.manifest_xml().into_bytes()),
            ("content.xml".to_string(), self.content_xml().into_bytes()),
        ]
    }

    pub fn to_bytes(&self, deflate: bool) -> Vec<u8> {
        zip_bytes(&self.parts(), deflate)
    }
}

// ------------------------------------------------------------------ JSON tokens -> description

pub fn cell_from_token(t: &Value) -> OdsCell {
    if t["k"].as_str() == Some("ws") {
        return OdsCell::text_node(ws_text(t["lex"].as_str().unwrap_or("sp")));
    }
    let n = t["n"].as_u64().unwrap_or(1) as u32;
    let lex = t["lex"].as_str().unwrap_or("").to_string();
    let val = match t["vt"].as_str().unwrap_or("") {
        "" => OdsVal::None,
        "float" => OdsVal::Float(lex),
        "percentage" => OdsVal::Percentage(lex),
        "currency" => OdsVal::Currency(lex, Some("EUR".to_string())),
        "string" => OdsVal::Str { text: lex, attr: t["form"].as_str() == Some("attr") },
        "boolean" => OdsVal::Bool(lex == "true"),
        "date" => OdsVal::Date(lex),
        "time" => OdsVal::Time(lex),
        other => panic!("harness: unknown value type {}", other),
    };
    let fm = t["fm"].as_str().unwrap_or("");
    OdsCell {
        covered: t["k"].as_str() == Some("v"),
        repeat: n,
        explicit_repeat: t["x"].as_bool().unwrap_or(false),
        val,
        formula: if fm.is_empty() { None } else { Some(fm.to_string()) },
        formula_raw: None,
        display: None,
        value_first: t["vf"].as_bool().unwrap_or(false),
        extra_attrs: Vec::new(),
        raw_children: None,
        text_node: None,
    }
}

pub fn row_from_token(t: &Value) -> OdsRow {
    OdsRow {
        repeat: t["rr"].as_u64().unwrap_or(1) as u32,
        explicit_repeat: t["rx"].as_bool().unwrap_or(false),
        cells: t["cells"].as_array().map(|a| a.iter().map(cell_from_token).collect()).unwrap_or_default(),
    }
}

/// `t` is either `[row, ...]` or `{"name":..., "rows":[row, ...]}`
pub fn table_from_tokens(t: &Value, default_name: &str) -> OdsTable {
    let (name, rows) = match t {
        Value::Array(a) => (default_name.to_string(), a.as_slice()),
        _ => (
            t["name"].as_str().unwrap_or(default_name).to_string(),
            t["rows"].as_array().map(|a| a.as_slice()).unwrap_or(&[]),
        ),
    };
    let mut tb = OdsTable::new(&name, rows.iter().map(row_from_token).collect());
    if let Some(pw) = t.get("pw").and_then(|x| x.as_str()) {
        tb.pretty = ws_text(pw).to_string();
    }
    tb
}
