//! One logical workbook -> bytes in any of the four formats, in a plain canonical encoding.
//! Used by the cross-format properties (C07, C08, C16, C20), which vary the *logical* workbook
//! and the API history, not the physical encoding.
use super::{biff, ods, xlsb, xlsx};
use serde_json::{json, Value};

#[derive(Clone, Debug, PartialEq)]
pub enum SVal {
    Num(f64),
    Str(String),
    Bool(bool),
}

#[derive(Clone, Debug)]
pub struct SSheet {
    pub name: String,
    /// absolute (row, col) -> value; any order
    pub cells: Vec<((u32, u32), SVal)>,
    /// 0 visible, 1 hidden, 2 very hidden
    pub state: u32,
    /// a blank but formatted cell in the row above the first data row (xlsx styled empty <c/>, xlsb
    /// BrtCellBlank inside the declared dimension, xls BLANK record): it is an empty cell
    pub blank_above: bool,
}

impl SSheet {
    pub fn new(name: &str, cells: Vec<((u32, u32), SVal)>) -> SSheet {
        SSheet { name: name.to_string(), cells, state: 0, blank_above: false }
    }
    fn sorted(&self) -> Vec<((u32, u32), SVal)> {
        let mut c = self.cells.clone();
        c.sort_by_key(|x| x.0);
        c
    }
}

pub const FORMATS: [&str; 4] = ["xlsx", "xlsb", "xls", "ods"];

pub fn build(format: &str, sheets: &[SSheet]) -> Vec<u8> {
    match format {
        "xlsx" => build_xlsx_simple(sheets),
        "xlsb" => build_xlsb_simple(sheets),
        "xls" => build_xls_simple(sheets),
        "ods" => build_ods_simple(sheets),
        f => panic!("harness: unknown format {}", f),
    }
}

pub fn xlsx_tokens(s: &SSheet) -> Vec<Value> {
    let mut toks = Vec::new();
    let mut cur: Option<u32> = None;
    if let (true, Some(((r0, c0), _))) = (s.blank_above, s.sorted().first().cloned()) {
        if r0 >= 1 {
            toks.push(json!({"k": "row", "r": r0 - 1}));
            toks.push(json!({"k": "c", "r": [r0 - 1, c0], "s": 0}));
            toks.push(json!({"k": "rowend"}));
        }
    }
    for ((r, c), v) in s.sorted() {
        if cur != Some(r) {
            if cur.is_some() {
                toks.push(json!({"k": "rowend"}));
            }
            toks.push(json!({"k": "row", "r": r}));
            cur = Some(r);
        }
        toks.push(match v {
            SVal::Num(f) => json!({"k": "c", "r": [r, c], "v": format!("{}", f)}),
            SVal::Str(t) => json!({"k": "c", "r": [r, c], "t": "inlineStr", "is": t}),
            SVal::Bool(b) => json!({"k": "c", "r": [r, c], "t": "b", "v": if b { "1" } else { "0" }}),
        });
    }
    if cur.is_some() {
        toks.push(json!({"k": "rowend"}));
    }
    toks
}

fn build_xlsx_simple(sheets: &[SSheet]) -> Vec<u8> {
    let sh: Vec<Value> = sheets.iter().enumerate().map(|(i, s)| {
        let state = match s.state { 1 => json!("hidden"), 2 => json!("veryHidden"), _ => Value::Null };
        json!({"name": s.name, "file": format!("sheet{}.xml", i + 1), "state": state, "tokens": xlsx_tokens(s)})
    }).collect();
    xlsx::build_xlsx(&json!({"styles": {"cellStyleXfs": [0], "cellXfs": [0]}, "sheets": sh}))
}

fn build_xlsb_simple(sheets: &[SSheet]) -> Vec<u8> {
    let mut book = xlsb::XlsbBook::default();
    for s in sheets {
        let mut body = Vec::new();
        let mut cur: Option<u32> = None;
        let cells = s.sorted();
        let (mut r0, mut r1, mut c0, mut c1) = (u32::MAX, 0, u32::MAX, 0);
        for ((r, c), _) in &cells {
            r0 = r0.min(*r); r1 = r1.max(*r); c0 = c0.min(*c); c1 = c1.max(*c);
        }
        if cells.is_empty() { r0 = 0; c0 = 0; }
        if s.blank_above && !cells.is_empty() && r0 >= 1 {
            // the declared dimension starts at the blank row
            body.push(xlsb::row_hdr(r0 - 1, c0, c1));
            body.push(xlsb::cell_record((cells[0].0).1, 0, &xlsb::CellVal::Blank, &xlsb::PTG_INT_1));
            r0 -= 1;
        }
        for ((r, c), v) in cells {
            if cur != Some(r) {
                body.push(xlsb::row_hdr(r, c0, c1));
                cur = Some(r);
            }
            let cv = match v {
                SVal::Num(f) => xlsb::CellVal::Real(f),
                SVal::Str(t) => xlsb::CellVal::St(t),
                SVal::Bool(b) => xlsb::CellVal::Bool(b),
            };
            body.push(xlsb::cell_record(c, 0, &cv, &xlsb::PTG_INT_1));
        }
        book.sheets.push(xlsb::XlsbSheet { name: s.name.clone(), state: s.state, stream: xlsb::sheet_stream(&xlsb::Preamble::default(), (r0, r1, c0, c1), &body) });
    }
    book.to_bytes(false)
}

fn build_xls_simple(sheets: &[SSheet]) -> Vec<u8> {
    biff::xls_bytes(&xls_workbook(sheets))
}

/// the BIFF8 workbook of the simple xls encoding (for callers that add further streams)
pub fn xls_workbook(sheets: &[SSheet]) -> biff::Workbook {
    let mut wb = biff::Workbook::default();
    for s in sheets {
        let mut recs = Vec::new();
        if let (true, Some(((r0, c0), _))) = (s.blank_above, s.sorted().first().cloned()) {
            if r0 >= 1 {
                recs.push(biff::Rec::Blank { r: (r0 - 1) as u16, c: c0 as u16, xf: 0 });
            }
        }
        for ((r, c), v) in s.sorted() {
            let (r, c) = (r as u16, c as u16);
            recs.push(match v {
                SVal::Num(f) => biff::Rec::Number { r, c, xf: 0, v: f },
                SVal::Str(t) => biff::Rec::Label { r, c, xf: 0, s: biff::XlStr::new(&t) },
                SVal::Bool(b) => biff::Rec::BoolErr { r, c, xf: 0, v: b as u8, is_err: false },
            });
        }
        wb.sheets.push(biff::Sheet { name: biff::XlStr::new(&s.name), dims: None, recs });
    }
    wb
}

fn build_ods_simple(sheets: &[SSheet]) -> Vec<u8> {
    let mut doc = ods::OdsDoc::default();
    for s in sheets {
        let mut rows: Vec<ods::OdsRow> = Vec::new();
        let cells = s.sorted();
        let mut next_row = 0u32;
        let mut i = 0;
        while i < cells.len() {
            let r = (cells[i].0).0;
            if r > next_row {
                rows.push(ods::OdsRow { repeat: r - next_row, explicit_repeat: false, cells: vec![ods::OdsCell::empty(1)] });
            }
            let mut rc: Vec<ods::OdsCell> = Vec::new();
            let mut next_col = 0u32;
            while i < cells.len() && (cells[i].0).0 == r {
                let c = (cells[i].0).1;
                if c > next_col {
                    rc.push(ods::OdsCell::empty(c - next_col));
                }
                let v = match &cells[i].1 {
                    SVal::Num(f) => ods::OdsVal::Float(format!("{}", f)),
                    SVal::Str(t) => ods::OdsVal::Str { text: t.clone(), attr: false },
                    SVal::Bool(b) => ods::OdsVal::Bool(*b),
                };
                rc.push(ods::OdsCell::value(v, 1));
                next_col = c + 1;
                i += 1;
            }
            rows.push(ods::OdsRow { repeat: 1, explicit_repeat: false, cells: rc });
            next_row = r + 1;
        }
        let mut t = ods::OdsTable::new(&s.name, rows);
        if s.state != 0 {
            t.display = Some(false);
        }
        doc.tables.push(t);
    }
    doc.to_bytes(false)
}
