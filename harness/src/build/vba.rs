//! MS-OVBA: compressed containers from explicit token lists, the `dir` stream from a project
//! descriptor, and the VBA project compound file (also embedded in xlsm / xlsb / xls).
use super::cfb;
use serde_json::Value;

/// the periodic source pattern.  Two high bytes that are (a) different characters in every code page
/// used (1252: "Ã©", 1251: "Г©", 932: two half-width katakana) and (b) together a valid UTF-8
/// sequence ("é"), so that a text decoded with the wrong code page -- or sniffed as UTF-8 -- differs
pub const PAT: [u8; 3] = [0xC3, 0xA9, b'a'];

/// decompressed content of one chunk: periodic with the given period, restarting at the chunk start
pub fn chunk_source(period: usize, len: usize) -> Vec<u8> {
    (0..len).map(|p| PAT[p % period]).collect()
}

pub fn bit_count(p: usize) -> u32 {
    let mut i = 4;
    while (1usize << i) < p { i += 1; }
    i.min(12)
}

/// CompressedContainer from chunks [{raw, toks:[{k:"lit",n}|{k:"copy",off,len}], len}]
pub fn compress_chunks(period: usize, chunks: &[Value]) -> Vec<u8> {
    let mut out = vec![0x01u8];
    for ch in chunks {
        let len = ch["len"].as_u64().unwrap() as usize;
        let src = chunk_source(period, len);
        if ch["raw"].as_bool().unwrap_or(false) {
            out.extend_from_slice(&0x3FFFu16.to_le_bytes());
            let mut raw = src.clone();
            raw.resize(4096, 0);
            out.extend_from_slice(&raw);
            continue;
        }
        // flatten to single tokens
        let mut toks: Vec<(bool, usize, usize)> = Vec::new(); // (is_copy, off|_, len|1)
        for t in ch["toks"].as_array().unwrap() {
            if t["k"] == "lit" {
                for _ in 0..t["n"].as_u64().unwrap() { toks.push((false, 0, 1)); }
            } else {
                toks.push((true, t["off"].as_u64().unwrap() as usize, t["len"].as_u64().unwrap() as usize));
            }
        }
        let mut data = Vec::new();
        let mut pos = 0usize;
        for group in toks.chunks(8) {
            let mut flags = 0u8;
            for (i, t) in group.iter().enumerate() { if t.0 { flags |= 1 << i; } }
            data.push(flags);
            for t in group {
                if t.0 {
                    let bc = bit_count(pos);
                    let token: u16 = (((t.1 - 1) as u16) << (16 - bc)) | ((t.2 - 3) as u16);
                    data.extend_from_slice(&token.to_le_bytes());
                    pos += t.2;
                } else {
                    data.push(src[pos]);
                    pos += 1;
                }
            }
        }
        assert_eq!(pos, len, "token list does not cover the chunk");
        let hdr: u16 = 0xB000 | ((data.len() + 2 - 3) as u16 & 0x0FFF);
        out.extend_from_slice(&hdr.to_le_bytes());
        out.extend_from_slice(&data);
    }
    out
}

/// literal-only compression of arbitrary bytes (used for the dir stream and code-page texts)
pub fn compress_literal(src: &[u8]) -> Vec<u8> {
    let mut out = vec![0x01u8];
    for chunk in src.chunks(4096) {
        let mut data = Vec::new();
        for g in chunk.chunks(8) {
            data.push(0);
            data.extend_from_slice(g);
        }
        let hdr: u16 = 0xB000 | ((data.len() + 2 - 3) as u16 & 0x0FFF);
        out.extend_from_slice(&hdr.to_le_bytes());
        out.extend_from_slice(&data);
    }
    out
}

fn rec(out: &mut Vec<u8>, id: u16, payload: &[u8]) {
    out.extend_from_slice(&id.to_le_bytes());
    out.extend_from_slice(&(payload.len() as u32).to_le_bytes());
    out.extend_from_slice(payload);
}
fn utf16(s: &str) -> Vec<u8> {
    s.encode_utf16().flat_map(|u| u.to_le_bytes()).collect()
}

pub struct ModuleDesc {
    pub name: Vec<u8>,        // encoded in the project's code page
    pub name_unicode: String,
    pub stream: String,       // ASCII stream name
    pub offset: u32,
    pub class: bool,
    pub readonly: bool,
    pub private: bool,
}
pub struct RefDesc {
    pub kind: String,         // registered | project | control | control_named | original
    pub name: Vec<u8>,
    pub name_unicode: String,
    /// the LIBIDs of the record in file order (registered: 1; control: twiddled, extended; original: original,
    /// twiddled, extended); missing ones are the standard OLE Automation libid
    pub libs: Vec<Vec<u8>>,
}
pub const STD_LIBID: &[u8] = b"*\\G{00020430-0000-0000-C000-000000000046}#2.0#0#C:\\Windows\\System32\\stdole2.tlb#OLE Automation";
pub struct ProjectDesc {
    pub compat: bool,
    pub codepage: u16,
    pub refs: Vec<RefDesc>,
    pub modules: Vec<ModuleDesc>,
}

/// the decompressed `dir` stream ([MS-OVBA] 2.3.4.2)
pub fn dir_stream(p: &ProjectDesc) -> Vec<u8> {
    let mut o = Vec::new();
    rec(&mut o, 0x0001, &1u32.to_le_bytes());                       // PROJECTSYSKIND
    if p.compat { rec(&mut o, 0x004A, &1u32.to_le_bytes()); }      // PROJECTCOMPATVERSION
    rec(&mut o, 0x0002, &0x0409u32.to_le_bytes());                  // PROJECTLCID
    rec(&mut o, 0x0014, &0x0409u32.to_le_bytes());                  // PROJECTLCIDINVOKE
    rec(&mut o, 0x0003, &p.codepage.to_le_bytes());                 // PROJECTCODEPAGE
    rec(&mut o, 0x0004, b"VBAProject");                             // PROJECTNAME
    rec(&mut o, 0x0005, b"doc");                                    // PROJECTDOCSTRING
    rec(&mut o, 0x0040, &utf16("doc"));
    rec(&mut o, 0x0006, b"");                                       // PROJECTHELPFILEPATH
    rec(&mut o, 0x003D, b"");
    rec(&mut o, 0x0007, &0u32.to_le_bytes());                       // PROJECTHELPCONTEXT
    rec(&mut o, 0x0008, &0u32.to_le_bytes());                       // PROJECTLIBFLAGS
    o.extend_from_slice(&0x0009u16.to_le_bytes());                  // PROJECTVERSION
    o.extend_from_slice(&4u32.to_le_bytes());
    o.extend_from_slice(&0x5F3A_1B7Cu32.to_le_bytes());
    o.extend_from_slice(&7u16.to_le_bytes());
    rec(&mut o, 0x000C, b"");                                       // PROJECTCONSTANTS
    rec(&mut o, 0x003C, b"");
    for r in &p.refs {
        rec(&mut o, 0x0016, &r.name);                               // REFERENCENAME
        rec(&mut o, 0x003E, &utf16(&r.name_unicode));
        let lib = |k: usize| -> Vec<u8> { r.libs.get(k).cloned().unwrap_or_else(|| STD_LIBID.to_vec()) };
        let control = |o: &mut Vec<u8>, named: bool, first: usize| {
            let libid = lib(first);
            let mut body = Vec::new();
            body.extend_from_slice(&(libid.len() as u32).to_le_bytes());
            body.extend_from_slice(&libid);
            body.extend_from_slice(&0u32.to_le_bytes());
            body.extend_from_slice(&0u16.to_le_bytes());
            o.extend_from_slice(&0x002Fu16.to_le_bytes());
            o.extend_from_slice(&(body.len() as u32).to_le_bytes());   // SizeTwiddled
            o.extend_from_slice(&body);
            if named {
                rec(o, 0x0016, b"ExtName");
                rec(o, 0x003E, &utf16("ExtName"));
            }
            o.extend_from_slice(&0x0030u16.to_le_bytes());
            let libid = lib(first + 1);
            let mut ext = Vec::new();
            ext.extend_from_slice(&(libid.len() as u32).to_le_bytes());
            ext.extend_from_slice(&libid);
            ext.extend_from_slice(&0u32.to_le_bytes());
            ext.extend_from_slice(&0u16.to_le_bytes());
            ext.extend_from_slice(&[0x11u8; 16]);
            ext.extend_from_slice(&9u32.to_le_bytes());
            o.extend_from_slice(&(ext.len() as u32).to_le_bytes());    // SizeExtended
            o.extend_from_slice(&ext);
        };
        match r.kind.as_str() {
            "registered" => {
                let libid = lib(0);
                let mut body = Vec::new();
                body.extend_from_slice(&(libid.len() as u32).to_le_bytes());
                body.extend_from_slice(&libid);
                body.extend_from_slice(&0u32.to_le_bytes());
                body.extend_from_slice(&0u16.to_le_bytes());
                o.extend_from_slice(&0x000Du16.to_le_bytes());
                o.extend_from_slice(&(body.len() as u32).to_le_bytes());
                o.extend_from_slice(&body);
            }
            "project" => {
                let abs = b"*\\CC:\\books\\other.xlsm".to_vec();
                let rel = b"*\\Cother.xlsm".to_vec();
                let mut body = Vec::new();
                body.extend_from_slice(&(abs.len() as u32).to_le_bytes());
                body.extend_from_slice(&abs);
                body.extend_from_slice(&(rel.len() as u32).to_le_bytes());
                body.extend_from_slice(&rel);
                body.extend_from_slice(&1u32.to_le_bytes());
                body.extend_from_slice(&2u16.to_le_bytes());
                o.extend_from_slice(&0x000Eu16.to_le_bytes());
                o.extend_from_slice(&(body.len() as u32).to_le_bytes());
                o.extend_from_slice(&body);
            }
            "control" => control(&mut o, false, 0),
            "control_named" => control(&mut o, true, 0),
            _ => {
                rec(&mut o, 0x0033, &lib(0));                        // REFERENCEORIGINAL
                control(&mut o, false, 1);
            }
        }
    }
    rec(&mut o, 0x000F, &(p.modules.len() as u16).to_le_bytes());   // PROJECTMODULES
    rec(&mut o, 0x0013, &0xFFFFu16.to_le_bytes());                  // PROJECTCOOKIE
    for m in &p.modules {
        rec(&mut o, 0x0019, &m.name);
        rec(&mut o, 0x0047, &utf16(&m.name_unicode));
        rec(&mut o, 0x001A, m.stream.as_bytes());
        rec(&mut o, 0x0032, &utf16(&m.stream));
        rec(&mut o, 0x001C, b"");
        rec(&mut o, 0x0048, b"");
        rec(&mut o, 0x0031, &m.offset.to_le_bytes());
        rec(&mut o, 0x001E, &0u32.to_le_bytes());
        rec(&mut o, 0x002C, &0xFFFFu16.to_le_bytes());
        o.extend_from_slice(&(if m.class { 0x0022u16 } else { 0x0021u16 }).to_le_bytes());
        o.extend_from_slice(&0u32.to_le_bytes());
        if m.readonly { o.extend_from_slice(&0x0025u16.to_le_bytes()); o.extend_from_slice(&0u32.to_le_bytes()); }
        if m.private { o.extend_from_slice(&0x0028u16.to_le_bytes()); o.extend_from_slice(&0u32.to_le_bytes()); }
        o.extend_from_slice(&0x002Bu16.to_le_bytes());
        o.extend_from_slice(&0u32.to_le_bytes());
    }
    o.extend_from_slice(&0x0010u16.to_le_bytes());
    o.extend_from_slice(&0u32.to_le_bytes());
    o
}

/// streams of a VBA project (relative to the project root): VBA/dir, VBA/<module streams>, PROJECT
pub fn project_streams(p: &ProjectDesc, module_containers: &[Vec<u8>]) -> Vec<(String, Vec<u8>)> {
    let mut v = vec![("VBA/dir".to_string(), compress_literal(&dir_stream(p)))];
    for (m, c) in p.modules.iter().zip(module_containers.iter()) {
        // `offset` bytes of performance cache (never read) precede the compressed source
        let mut s: Vec<u8> = (0..m.offset).map(|i| (i % 251) as u8).collect();
        s.extend_from_slice(c);
        v.push((format!("VBA/{}", m.stream), s));
    }
    v.push(("PROJECT".to_string(), b"ID=\"{00000000-0000-0000-0000-000000000000}\"\r\n".to_vec()));
    v
}

pub fn project_cfb(p: &ProjectDesc, module_containers: &[Vec<u8>]) -> Vec<u8> {
    let streams = project_streams(p, module_containers);
    let s: Vec<(&str, &[u8])> = streams.iter().map(|(n, b)| (n.as_str(), b.as_slice())).collect();
    cfb::simple_cfb(&s)
}
