//! .xlsb materialiser: record lists -> BIFF12 streams -> zip package.
//!
//! A BIFF12 stream is a sequence of records  `id varint (1 byte if id < 128, else 2 bytes, 7 bits
//! each, low group first)`, `length varint (1..4 bytes, 7 bits each)`, payload  (MS-XLSB 2.1.4).
//! `Rec` is one physical record; nothing is reordered or normalised, so a token list produced by
//! a TLA+ writer model (tla/xlsb/XlsbSheet.tla) is materialised 1:1.
//!
//! Package written: `[Content_Types].xml`, `_rels/.rels`, `xl/workbook.bin`,
//! `xl/_rels/workbook.bin.rels`, `xl/sharedStrings.bin`, `xl/styles.bin`,
//! `xl/worksheets/sheetN.bin`.
use crate::build::zipw::zip_bytes;
use serde_json::Value;

// ------------------------------------------------------------------------------ framing

#[derive(Clone, Debug)]
pub struct Rec {
    pub id: u16,
    pub payload: Vec<u8>,
    /// number of bytes of the length varint; None = minimal
    pub len_bytes: Option<usize>,
}

impl Rec {
    pub fn new(id: u16, payload: Vec<u8>) -> Rec {
        Rec { id, payload, len_bytes: None }
    }
}

/// record type: ids < 128 in one byte, ids 128..16383 in two (high bit of the first byte set)
pub fn put_id(out: &mut Vec<u8>, id: u16) {
    assert!(id < 0x4000, "record id does not fit 14 bits");
    if id < 0x80 {
        out.push(id as u8);
    } else {
        out.push((id & 0x7F) as u8 | 0x80);
        out.push((id >> 7) as u8);
    }
}

pub fn min_len_bytes(len: usize) -> usize {
    match len {
        0..=0x7F => 1,
        0x80..=0x3FFF => 2,
        0x4000..=0x1F_FFFF => 3,
        _ => 4,
    }
}

/// record size: 7 bits per byte, low group first, high bit = another byte follows; `nbytes`
/// >= the minimal count pads with continuation bytes carrying zero groups
pub fn put_len(out: &mut Vec<u8>, len: usize, nbytes: Option<usize>) {
    assert!(len < (1 << 28), "record length does not fit 28 bits");
    let n = nbytes.unwrap_or_else(|| min_len_bytes(len)).max(min_len_bytes(len));
    assert!(n <= 4);
    for i in 0..n {
        let mut b = ((len >> (7 * i)) & 0x7F) as u8;
        if i + 1 < n {
            b |= 0x80;
        }
        out.push(b);
    }
}

pub fn header_bytes(id: u16, len: usize, nbytes: Option<usize>) -> Vec<u8> {
    let mut v = Vec::new();
    put_id(&mut v, id);
    put_len(&mut v, len, nbytes);
    v
}

pub fn stream(recs: &[Rec]) -> Vec<u8> {
    let mut out = Vec::with_capacity(recs.iter().map(|r| r.payload.len() + 6).sum());
    for r in recs {
        put_id(&mut out, r.id);
        put_len(&mut out, r.payload.len(), r.len_bytes);
        out.extend_from_slice(&r.payload);
    }
    out
}

// ------------------------------------------------------------------------------ payloads

pub fn wide_str(s: &str) -> Vec<u8> {
    let u: Vec<u16> = s.encode_utf16().collect();
    let mut v = (u.len() as u32).to_le_bytes().to_vec();
    for x in u {
        v.extend_from_slice(&x.to_le_bytes());
    }
    v
}

/// RK of a 30-bit signed integer
pub fn rk_int(v: i32, d100: bool) -> u32 {
    assert!((-(1 << 29)..(1 << 29)).contains(&v));
    ((v as u32) << 2) | 2 | d100 as u32
}

/// RK of a double whose low 34 bits are zero
pub fn rk_float(x: f64, d100: bool) -> u32 {
    let bits = x.to_bits();
    assert!(bits & 0x3_FFFF_FFFF == 0, "double not representable as RK");
    ((bits >> 32) as u32) | d100 as u32
}

/// BIFF8 RK decoding, written from [MS-XLS] 2.5.217 (independent of calamine)
pub fn rk_decode(rk: u32) -> f64 {
    let d100 = rk & 1 != 0;
    let v = if rk & 2 != 0 {
        ((rk as i32) >> 2) as f64
    } else {
        f64::from_bits(((rk & 0xFFFF_FFFC) as u64) << 32)
    };
    if d100 {
        v / 100.0
    } else {
        v
    }
}

#[derive(Clone, Debug, PartialEq)]
pub enum CellVal {
    Blank,
    Rk(u32),
    Error(u8),
    Bool(bool),
    Real(f64),
    St(String),
    Isst(u32),
    FmlaNum(f64),
    FmlaString(String),
    FmlaBool(bool),
    FmlaError(u8),
}

pub const BRT_ROW_HDR: u16 = 0x0000;
pub const BRT_CELL_BLANK: u16 = 0x0001;
pub const BRT_CELL_RK: u16 = 0x0002;
pub const BRT_CELL_ERROR: u16 = 0x0003;
pub const BRT_CELL_BOOL: u16 = 0x0004;
pub const BRT_CELL_REAL: u16 = 0x0005;
pub const BRT_CELL_ST: u16 = 0x0006;
pub const BRT_CELL_ISST: u16 = 0x0007;
pub const BRT_FMLA_STRING: u16 = 0x0008;
pub const BRT_FMLA_NUM: u16 = 0x0009;
pub const BRT_FMLA_BOOL: u16 = 0x000A;
pub const BRT_FMLA_ERROR: u16 = 0x000B;
pub const BRT_FRT_BEGIN: u16 = 0x0023;
pub const BRT_FRT_END: u16 = 0x0024;

/// CellParsedFormula: cce, rgce, cb (no rgcb). Default formula: PtgInt 1.
pub fn parsed_formula(rgce: &[u8]) -> Vec<u8> {
    let mut v = (rgce.len() as u32).to_le_bytes().to_vec();
    v.extend_from_slice(rgce);
    v.extend_from_slice(&0u32.to_le_bytes());
    v
}

pub const PTG_INT_1: [u8; 3] = [0x1E, 0x01, 0x00];

/// Cell structure (col, 24-bit iStyleRef, flags) followed by the value of that record kind
pub fn cell_record(col: u32, style: u32, v: &CellVal, rgce: &[u8]) -> Rec {
    let mut p = col.to_le_bytes().to_vec();
    p.extend_from_slice(&style.to_le_bytes()[..3]);
    // the byte after the 24-bit iStyleRef holds fPhShow (bit 0) and reserved bits: not part of the style
    // reference; set on every other cell
    p.push(((col + style) % 2) as u8);
    let fm = |p: &mut Vec<u8>| {
        p.extend_from_slice(&0u16.to_le_bytes()); // grbitFlags
        p.extend_from_slice(&parsed_formula(rgce));
    };
    let id = match v {
        CellVal::Blank => BRT_CELL_BLANK,
        CellVal::Rk(rk) => {
            p.extend_from_slice(&rk.to_le_bytes());
            BRT_CELL_RK
        }
        CellVal::Error(e) => {
            p.push(*e);
            BRT_CELL_ERROR
        }
        CellVal::Bool(b) => {
            p.push(*b as u8);
            BRT_CELL_BOOL
        }
        CellVal::Real(x) => {
            p.extend_from_slice(&x.to_le_bytes());
            BRT_CELL_REAL
        }
        CellVal::St(s) => {
            p.extend_from_slice(&wide_str(s));
            BRT_CELL_ST
        }
        CellVal::Isst(i) => {
            p.extend_from_slice(&i.to_le_bytes());
            BRT_CELL_ISST
        }
        CellVal::FmlaNum(x) => {
            p.extend_from_slice(&x.to_le_bytes());
            fm(&mut p);
            BRT_FMLA_NUM
        }
        CellVal::FmlaString(s) => {
            p.extend_from_slice(&wide_str(s));
            fm(&mut p);
            BRT_FMLA_STRING
        }
        CellVal::FmlaBool(b) => {
            p.push(*b as u8);
            fm(&mut p);
            BRT_FMLA_BOOL
        }
        CellVal::FmlaError(e) => {
            p.push(*e);
            fm(&mut p);
            BRT_FMLA_ERROR
        }
    };
    Rec::new(id, p)
}

/// BrtRowHdr: rw, ixfe, miyRw, flags, ccolspan = 1, one colspan
pub fn row_hdr(row: u32, col_first: u32, col_last: u32) -> Rec {
    let mut p = row.to_le_bytes().to_vec();
    p.extend_from_slice(&0u32.to_le_bytes());
    p.extend_from_slice(&0x012Cu16.to_le_bytes());
    p.extend_from_slice(&[0, 0, 0]);
    p.extend_from_slice(&1u32.to_le_bytes());
    p.extend_from_slice(&col_first.to_le_bytes());
    p.extend_from_slice(&col_last.to_le_bytes());
    Rec::new(BRT_ROW_HDR, p)
}

/// deterministic filler for payloads the reader must skip; never inspected
pub fn filler(len: usize, salt: u64) -> Vec<u8> {
    let mut x = salt.wrapping_mul(0x9E37_79B9_7F4A_7C15) | 1;
    (0..len)
        .map(|_| {
            x ^= x << 13;
            x ^= x >> 7;
            x ^= x << 17;
            (x >> 24) as u8
        })
        .collect()
}

// ------------------------------------------------------------------------------ sheet

/// Which optional preamble parts (between BrtBeginSheet and BrtBeginSheetData) to write
#[derive(Clone, Debug, Default)]
pub struct Preamble {
    pub ws_prop: bool,
    pub views: bool,
    pub fmt_info: bool,
    pub col_infos: u32,
}

pub fn ws_dim(r0: u32, r1: u32, c0: u32, c1: u32) -> Rec {
    let mut p = Vec::new();
    for x in [r0, r1, c0, c1] {
        p.extend_from_slice(&x.to_le_bytes());
    }
    Rec::new(0x0094, p)
}

fn unhex(s: &str) -> Vec<u8> {
    (0..s.len() / 2).map(|i| u8::from_str_radix(&s[2 * i..2 * i + 2], 16).unwrap()).collect()
}

/// full worksheet stream: preamble, BrtWsDim, cell table `body` (BrtRowHdr / cell / other
/// records as given, *without* BrtBeginSheetData / BrtEndSheetData), trailer
pub fn sheet_stream(pre: &Preamble, dim: (u32, u32, u32, u32), body: &[Rec]) -> Vec<u8> {
    let mut r: Vec<Rec> = Vec::new();
    r.push(Rec::new(0x0081, vec![])); // BrtBeginSheet
    if pre.ws_prop {
        r.push(Rec::new(0x0093, unhex("c904020040000000000000ffffffffffffffff06000000530068006500650074003100")));
    }
    r.push(ws_dim(dim.0, dim.1, dim.2, dim.3));
    if pre.views {
        r.push(Rec::new(0x0085, vec![])); // BrtBeginWsViews
        r.push(Rec::new(0x0089, unhex("9c0300000000000000000000000040000000640000000000000000000000")));
        r.push(Rec::new(0x0098, unhex("030000000f0000000200000000000000010000000f0000000f0000000200000002000000")));
        r.push(Rec::new(0x008A, vec![])); // BrtEndWsView
        r.push(Rec::new(0x0086, vec![])); // BrtEndWsViews
    }
    if pre.fmt_info {
        r.push(Rec::new(0x01E5, unhex("ffffffff08002c0100000000")));
    }
    if pre.col_infos > 0 {
        r.push(Rec::new(0x0186, vec![]));
        for i in 0..pre.col_infos {
            let mut p = i.to_le_bytes().to_vec();
            p.extend_from_slice(&i.to_le_bytes());
            p.extend_from_slice(&unhex("b60a0000000000000600"));
            r.push(Rec::new(0x003C, p));
        }
        r.push(Rec::new(0x0187, vec![]));
    }
    r.push(Rec::new(0x0091, vec![])); // BrtBeginSheetData
    let mut out = stream(&r);
    out.extend_from_slice(&stream(body));
    out.extend_from_slice(&stream(&[
        Rec::new(0x0092, vec![]), // BrtEndSheetData
        Rec::new(0x01DD, vec![0x10, 0x00]), // BrtPrintOptions
        Rec::new(0x0082, vec![]), // BrtEndSheet
    ]));
    out
}

// ------------------------------------------------------------------------------ workbook

#[derive(Clone, Debug)]
pub struct XlsbSheet {
    pub name: String,
    /// 0 visible, 1 hidden, 2 very hidden
    pub state: u32,
    pub stream: Vec<u8>,
}

#[derive(Clone, Debug, Default)]
pub struct XlsbBook {
    pub sheets: Vec<XlsbSheet>,
    pub strings: Vec<String>,
    /// numFmtId of each cell XF (index = iStyleRef); empty = one General XF
    pub xfs: Vec<u16>,
    /// custom number formats (id, code) written in BrtBeginFmts, in this order
    pub custom_fmts: Vec<(u16, String)>,
    /// numFmtId of each *style* XF (BrtBeginCellStyleXFs, written before the cell XFs);
    /// empty = one General style XF
    pub style_xfs: Vec<u16>,
    pub is_1904: bool,
    /// records written after BrtEndBundleShs and before BrtEndBook (BrtExternSheet, BrtName ..)
    pub extra_workbook: Vec<Rec>,
}

impl XlsbBook {
    pub fn workbook_bin(&self) -> Vec<u8> {
        let mut r = vec![Rec::new(0x0083, vec![])]; // BrtBeginBook
        let mut wbprop = (0x0001_0020u32 | self.is_1904 as u32).to_le_bytes().to_vec();
        wbprop.extend_from_slice(&0x0001_E542u32.to_le_bytes());
        wbprop.extend_from_slice(&wide_str("ThisWorkbook"));
        r.push(Rec::new(0x0099, wbprop)); // BrtWbProp
        r.push(Rec::new(0x008F, vec![])); // BrtBeginBundleShs
        for (i, s) in self.sheets.iter().enumerate() {
            let mut p = s.state.to_le_bytes().to_vec();
            p.extend_from_slice(&(i as u32 + 1).to_le_bytes());
            p.extend_from_slice(&wide_str(&format!("rId{}", i + 1)));
            p.extend_from_slice(&wide_str(&s.name));
            r.push(Rec::new(0x009C, p)); // BrtBundleSh
        }
        r.push(Rec::new(0x0090, vec![])); // BrtEndBundleShs
        r.extend(self.extra_workbook.iter().cloned());
        r.push(Rec::new(0x0084, vec![])); // BrtEndBook
        stream(&r)
    }

    pub fn shared_strings_bin(&self) -> Vec<u8> {
        let n = self.strings.len() as u32;
        let mut p = n.to_le_bytes().to_vec();
        p.extend_from_slice(&n.to_le_bytes());
        let mut r = vec![Rec::new(0x009F, p)]; // BrtBeginSst
        for s in &self.strings {
            let mut p = vec![0u8];
            p.extend_from_slice(&wide_str(s));
            r.push(Rec::new(0x0013, p)); // BrtSSTItem
        }
        r.push(Rec::new(0x00A0, vec![]));
        stream(&r)
    }

    pub fn styles_bin(&self) -> Vec<u8> {
        let cnt = |n: u32| n.to_le_bytes().to_vec();
        let mut r = vec![Rec::new(0x0116, vec![])]; // BrtBeginStyleSheet
        if !self.custom_fmts.is_empty() {
            r.push(Rec::new(0x0267, cnt(self.custom_fmts.len() as u32)));
            for (id, code) in &self.custom_fmts {
                let mut p = id.to_le_bytes().to_vec();
                p.extend_from_slice(&wide_str(code));
                r.push(Rec::new(0x002C, p));
            }
            r.push(Rec::new(0x0268, vec![]));
        }
        r.push(Rec::new(0x0263, cnt(1))); // fonts
        r.push(Rec::new(0x002B, unhex("dc000000900100000002000007010000000000ff0207000000430061006c006900620072006900")));
        r.push(Rec::new(0x0264, vec![]));
        r.push(Rec::new(0x025B, cnt(1))); // fills
        r.push(Rec::new(0x002D, unhex("0000000003400000000000ff03410000ffffffff000000000000000000000000000000000000000000000000000000000000000000000000000000000000000000000000")));
        r.push(Rec::new(0x025C, vec![]));
        r.push(Rec::new(0x0265, cnt(1))); // borders
        r.push(Rec::new(0x002E, unhex("000000010000000000000000000100000000000000000001000000000000000000010000000000000000000100000000000000")));
        r.push(Rec::new(0x0266, vec![]));
        let sxfs: Vec<u16> = if self.style_xfs.is_empty() { vec![0] } else { self.style_xfs.clone() };
        r.push(Rec::new(0x0272, cnt(sxfs.len() as u32))); // cellStyleXfs
        for f in &sxfs {
            let mut p = 0xFFFFu16.to_le_bytes().to_vec();
            p.extend_from_slice(&f.to_le_bytes());
            p.extend_from_slice(&unhex("000000000000000010100000"));
            r.push(Rec::new(0x002F, p));
        }
        r.push(Rec::new(0x0273, vec![]));
        let xfs: Vec<u16> = if self.xfs.is_empty() { vec![0] } else { self.xfs.clone() };
        r.push(Rec::new(0x0269, cnt(xfs.len() as u32))); // BrtBeginCellXFs
        for f in &xfs {
            let mut p = 0u16.to_le_bytes().to_vec();
            p.extend_from_slice(&f.to_le_bytes());
            p.extend_from_slice(&unhex("000000000000000010100000"));
            r.push(Rec::new(0x002F, p));
        }
        r.push(Rec::new(0x026A, vec![]));
        r.push(Rec::new(0x0117, vec![])); // BrtEndStyleSheet
        stream(&r)
    }

    pub fn parts(&self) -> Vec<(String, Vec<u8>)> {
        let mut ct = String::from("<?xml version=\"1.0\" encoding=\"UTF-8\" standalone=\"yes\"?>\n<Types xmlns=\"http://schemas.openxmlformats.org/package/2006/content-types\"><Default Extension=\"bin\" ContentType=\"application/vnd.ms-excel.sheet.binary.macroEnabled.main\"/><Default Extension=\"rels\" ContentType=\"application/vnd.openxmlformats-package.relationships+xml\"/><Default Extension=\"xml\" ContentType=\"application/xml\"/>");
        let mut rels = String::from("<?xml version=\"1.0\" encoding=\"UTF-8\" standalone=\"yes\"?>\n<Relationships xmlns=\"http://schemas.openxmlformats.org/package/2006/relationships\">");
        let n = self.sheets.len();
        for i in 0..n {
            ct.push_str(&format!("<Override PartName=\"/xl/worksheets/sheet{}.bin\" ContentType=\"application/vnd.ms-excel.worksheet\"/>", i + 1));
            rels.push_str(&format!("<Relationship Id=\"rId{}\" Type=\"http://schemas.openxmlformats.org/officeDocument/2006/relationships/worksheet\" Target=\"worksheets/sheet{}.bin\"/>", i + 1, i + 1));
        }
        ct.push_str("<Override PartName=\"/xl/styles.bin\" ContentType=\"application/vnd.ms-excel.styles\"/><Override PartName=\"/xl/sharedStrings.bin\" ContentType=\"application/vnd.ms-excel.sharedStrings\"/></Types>");
        rels.push_str(&format!("<Relationship Id=\"rId{}\" Type=\"http://schemas.openxmlformats.org/officeDocument/2006/relationships/styles\" Target=\"styles.bin\"/>", n + 1));
        rels.push_str(&format!("<Relationship Id=\"rId{}\" Type=\"http://schemas.openxmlformats.org/officeDocument/2006/relationships/sharedStrings\" Target=\"sharedStrings.bin\"/></Relationships>", n + 2));
        let root = "<?xml version=\"1.0\" encoding=\"UTF-8\" standalone=\"yes\"?>\n<Relationships xmlns=\"http://schemas.openxmlformats.org/package/2006/relationships\"><Relationship Id=\"rId1\" Type=\"http://schemas.openxmlformats.org/officeDocument/2006/relationships/officeDocument\" Target=\"xl/workbook.bin\"/></Relationships>";
        let mut parts = vec![
            ("[Content_Types].xml".to_string(), ct.into_bytes()),
            ("_rels/.rels".to_string(), root.as_bytes().to_vec()),
            ("xl/workbook.bin".to_string(), self.workbook_bin()),
            ("xl/_rels/workbook.bin.rels".to_string(), rels.into_bytes()),
            ("xl/sharedStrings.bin".to_string(), self.shared_strings_bin()),
            ("xl/styles.bin".to_string(), self.styles_bin()),
        ];
        for (i, s) in self.sheets.iter().enumerate() {
            parts.push((format!("xl/worksheets/sheet{}.bin", i + 1), s.stream.clone()));
        }
        parts
    }

    pub fn to_bytes(&self, deflate: bool) -> Vec<u8> {
        zip_bytes(&self.parts(), deflate)
    }
}

// ------------------------------------------------------------------ JSON tokens -> records

/// error name <-> BErr code (MS-XLSB 2.5.97.2)
pub fn berr_code(name: &str) -> u8 {
    match name {
        "Null" => 0x00,
        "Div0" => 0x07,
        "Value" => 0x0F,
        "Ref" => 0x17,
        "Name" => 0x1D,
        "Num" => 0x24,
        "NA" => 0x2A,
        "GettingData" => 0x2B,
        other => panic!("harness: unknown error name {}", other),
    }
}

/// value part of a cell token (see tla/xlsb/XlsbSheet.tla `ValTable`):
///   {"k":"rk","int":bool,"d100":bool,"m":"150"}   m = the stored number (before /100)
///   {"k":"real"|"fnum","x":"1.5"}  {"k":"bool"|"fbool","b":bool}  {"k":"err"|"ferr","e":"Div0"}
///   {"k":"st"|"fstr","s":"text"}   {"k":"isst","i":n}   {"k":"blank"}
pub fn cellval_from_token(t: &Value) -> CellVal {
    let num = |key: &str| t[key].as_str().unwrap().parse::<f64>().unwrap();
    match t["k"].as_str().unwrap() {
        "blank" => CellVal::Blank,
        "rk" => {
            let d100 = t["d100"].as_bool().unwrap();
            if t["int"].as_bool().unwrap() {
                CellVal::Rk(rk_int(t["m"].as_str().unwrap().parse::<i32>().unwrap(), d100))
            } else {
                CellVal::Rk(rk_float(num("m"), d100))
            }
        }
        "real" => CellVal::Real(num("x")),
        "fnum" => CellVal::FmlaNum(num("x")),
        "bool" => CellVal::Bool(t["b"].as_bool().unwrap()),
        "fbool" => CellVal::FmlaBool(t["b"].as_bool().unwrap()),
        "err" => CellVal::Error(berr_code(t["e"].as_str().unwrap())),
        "ferr" => CellVal::FmlaError(berr_code(t["e"].as_str().unwrap())),
        "st" => CellVal::St(t["s"].as_str().unwrap().to_string()),
        "fstr" => CellVal::FmlaString(t["s"].as_str().unwrap().to_string()),
        "isst" => CellVal::Isst(t["i"].as_u64().unwrap() as u32),
        other => panic!("harness: unknown cell kind {}", other),
    }
}

/// record tokens of the cell table -> records, plus the BrtWsDim bounding box of the cell records
///   {"t":"row","r":n}  {"t":"cell","c":n,"v":value[,"s":iStyleRef]}  {"t":"ign","id":n,"len":n[,"lb":bytes]}
pub fn body_from_tokens(toks: &[Value]) -> (Vec<Rec>, (u32, u32, u32, u32)) {
    let mut recs = Vec::with_capacity(toks.len());
    let (mut r0, mut r1, mut c0, mut c1) = (u32::MAX, 0u32, u32::MAX, 0u32);
    let mut row = 0u32;
    for (i, t) in toks.iter().enumerate() {
        match t["t"].as_str().unwrap() {
            "row" => {
                row = t["r"].as_u64().unwrap() as u32;
                recs.push(row_hdr(row, 0, 0));
            }
            "cell" => {
                let c = t["c"].as_u64().unwrap() as u32;
                let style = t["s"].as_u64().unwrap_or(0) as u32; // iStyleRef
                // "fm": RPN token list of the cell's formula (formula records only)
                let rgce = match t["fm"].as_array() {
                    Some(f) => rgce_from_tokens(f),
                    None => PTG_INT_1.to_vec(),
                };
                recs.push(cell_record(c, style, &cellval_from_token(&t["v"]), &rgce));
                r0 = r0.min(row);
                r1 = r1.max(row);
                c0 = c0.min(c);
                c1 = c1.max(c);
            }
            "ign" => {
                let len = t["len"].as_u64().unwrap() as usize;
                let mut r = Rec::new(t["id"].as_u64().unwrap() as u16, filler(len, i as u64 + 1));
                r.len_bytes = t["lb"].as_u64().map(|x| x as usize);
                recs.push(r);
            }
            other => panic!("harness: unknown token {}", other),
        }
    }
    if r0 == u32::MAX {
        (recs, (0, 0, 0, 0))
    } else {
        (recs, (r0, r1, c0, c1))
    }
}

// ------------------------------------------------------------------ formulas (BIFF12 rgce)
//
// RPN token list (tla/fmla/Ptg.tla `Rpn`) -> rgce bytes in the BIFF12 layout (MS-XLSB 2.5.97):
// rows are 4 bytes, columns 2 bytes whose low 14 bits are the column, bit 14 = fColRel,
// bit 15 = fRwRel.  Tokens (JSON):
//   {"p":"ref","r":row,"c":col,"rr":bool,"cr":bool[,"cls":0|1|2]}
//   {"p":"area","r1","c1","rr1","cr1","r2","c2","rr2","cr2"}
//   {"p":"ref3d","x":ixti, ..ref}   {"p":"area3d","x":ixti, ..area}
//   {"p":"name","i":index(1-based)}
//   {"p":"int","v":n} {"p":"num","s":"1.5"} {"p":"str","s":"ab"} {"p":"bool","b":bool}
//   {"p":"err","e":"Div0"} {"p":"miss"}
//   {"p":"bin","op":"+"} {"p":"un","op":"-"} {"p":"pct"} {"p":"paren"}
//   {"p":"func","f":iftab} {"p":"funcv","f":iftab,"n":argc} {"p":"attrsum"} {"p":"attrspace"}

fn col_field(col: u64, col_rel: bool, row_rel: bool) -> [u8; 2] {
    assert!(col < 0x4000);
    ((col as u16) | ((col_rel as u16) << 14) | ((row_rel as u16) << 15)).to_le_bytes()
}

pub fn binop_ptg(op: &str) -> u8 {
    match op {
        "+" => 0x03, "-" => 0x04, "*" => 0x05, "/" => 0x06, "^" => 0x07, "&" => 0x08, "<" => 0x09,
        "<=" => 0x0A, "=" => 0x0B, ">=" => 0x0C, ">" => 0x0D, "<>" => 0x0E, " " => 0x0F, "," => 0x10,
        ":" => 0x11,
        other => panic!("harness: unknown binary operator {:?}", other),
    }
}

pub fn rgce_from_tokens(toks: &[Value]) -> Vec<u8> {
    let mut o = Vec::new();
    let u = |t: &Value, k: &str| t[k].as_u64().unwrap_or_else(|| panic!("harness: token field {} missing in {}", k, t));
    let b = |t: &Value, k: &str| t[k].as_bool().unwrap_or(false);
    for t in toks {
        let cls = (t["cls"].as_u64().unwrap_or(0) as u8) * 0x20;
        match t["p"].as_str().unwrap() {
            "ref" => {
                o.push(0x24 + cls);
                o.extend_from_slice(&(u(t, "r") as u32).to_le_bytes());
                o.extend_from_slice(&col_field(u(t, "c"), b(t, "cr"), b(t, "rr")));
            }
            "area" => {
                o.push(0x25 + cls);
                o.extend_from_slice(&(u(t, "r1") as u32).to_le_bytes());
                o.extend_from_slice(&(u(t, "r2") as u32).to_le_bytes());
                o.extend_from_slice(&col_field(u(t, "c1"), b(t, "cr1"), b(t, "rr1")));
                o.extend_from_slice(&col_field(u(t, "c2"), b(t, "cr2"), b(t, "rr2")));
            }
            "ref3d" => {
                o.push(0x3A + cls);
                o.extend_from_slice(&(u(t, "x") as u16).to_le_bytes());
                o.extend_from_slice(&(u(t, "r") as u32).to_le_bytes());
                o.extend_from_slice(&col_field(u(t, "c"), b(t, "cr"), b(t, "rr")));
            }
            "area3d" => {
                o.push(0x3B + cls);
                o.extend_from_slice(&(u(t, "x") as u16).to_le_bytes());
                o.extend_from_slice(&(u(t, "r1") as u32).to_le_bytes());
                o.extend_from_slice(&(u(t, "r2") as u32).to_le_bytes());
                o.extend_from_slice(&col_field(u(t, "c1"), b(t, "cr1"), b(t, "rr1")));
                o.extend_from_slice(&col_field(u(t, "c2"), b(t, "cr2"), b(t, "rr2")));
            }
            "name" => {
                o.push(0x23 + cls);
                o.extend_from_slice(&(u(t, "i") as u32).to_le_bytes());
            }
            "int" => {
                o.push(0x1E);
                o.extend_from_slice(&(u(t, "v") as u16).to_le_bytes());
            }
            "num" => {
                o.push(0x1F);
                o.extend_from_slice(&t["s"].as_str().unwrap().parse::<f64>().unwrap().to_le_bytes());
            }
            "str" => {
                let w: Vec<u16> = t["s"].as_str().unwrap().encode_utf16().collect();
                o.push(0x17);
                o.extend_from_slice(&(w.len() as u16).to_le_bytes());
                for x in w {
                    o.extend_from_slice(&x.to_le_bytes());
                }
            }
            "bool" => {
                o.push(0x1D);
                o.push(b(t, "b") as u8);
            }
            "err" => {
                o.push(0x1C);
                o.push(berr_code(t["e"].as_str().unwrap()));
            }
            "miss" => o.push(0x16),
            "bin" => o.push(binop_ptg(t["op"].as_str().unwrap())),
            "un" => o.push(if t["op"].as_str() == Some("-") { 0x13 } else { 0x12 }),
            "pct" => o.push(0x14),
            "paren" => o.push(0x15),
            "func" => {
                o.push(0x21 + cls);
                o.extend_from_slice(&(u(t, "f") as u16).to_le_bytes());
            }
            "funcv" => {
                o.push(0x22 + cls);
                o.push(u(t, "n") as u8);
                o.extend_from_slice(&(u(t, "f") as u16).to_le_bytes());
            }
            "attrsum" => o.extend_from_slice(&[0x19, 0x10, 0x00, 0x00]),
            "attrspace" => o.extend_from_slice(&[0x19, 0x40, 0x00, 0x01]),
            other => panic!("harness: unknown formula token {}", other),
        }
    }
    o
}

/// BrtBeginExternals, BrtSupSelf, BrtExternSheet (one Xti per entry: first = last = sheet index,
/// -2 = the workbook), BrtEndExternals — for `XlsbBook::extra_workbook`
pub fn extern_sheet_records(itabs: &[i32]) -> Vec<Rec> {
    let mut p = (itabs.len() as u32).to_le_bytes().to_vec();
    for t in itabs {
        p.extend_from_slice(&0u32.to_le_bytes()); // externalLink: the SupSelf entry
        p.extend_from_slice(&t.to_le_bytes());
        p.extend_from_slice(&t.to_le_bytes());
    }
    vec![Rec::new(0x0161, vec![]), Rec::new(0x0165, vec![]), Rec::new(0x016A, p), Rec::new(0x0162, vec![])]
}

/// BrtName: workbook-scope defined name with its formula
pub fn name_record(name: &str, rgce: &[u8]) -> Rec {
    let mut p = 0u32.to_le_bytes().to_vec(); // flags
    p.push(0); // chKey
    p.extend_from_slice(&0xFFFF_FFFFu32.to_le_bytes()); // itab: workbook scope
    p.extend_from_slice(&wide_str(name));
    p.extend_from_slice(&parsed_formula(rgce));
    p.extend_from_slice(&0xFFFF_FFFFu32.to_le_bytes()); // comment: NULL string
    Rec::new(0x0027, p)
}
