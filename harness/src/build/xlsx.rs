//! xlsx materialiser: workbook description (JSON, produced from TLC behaviours or by drivers)
//! -> real .xlsx bytes.  Every physical variation the properties quantify over is a field of
//! the description; nothing is decided here.
//!
//! {"prefix":""|"x", "deflate":bool, "date1904":null|bool, "wbpr_prefix":bool,
//!  "sst":null|[{"text":..}|{"raw":"<si>..</si>"}], "sst_raw":null|"<sst ..>..</sst>",
//!  "styles":null|{"numFmts":[[id,"code"]..],"cellStyleXfs":[id..],"cellXfs":[id..],"dxfs":[[id,"code"]..]},
//!  "styles_raw":null|"..",
//!  "sheets":[{"name":..,"file":"sheet1.xml","dir":"worksheets","target":"rel"|"abs","case":"exact"|"upper",
//!             "state":null|"hidden"|"veryHidden","tokens":[..],"raw":null|"..",
//!             "merge":["A1:B2"..],"tables":[{"file":"table1.xml","target":"rel"|"abs","xml":".."}]}],
//!  "defined_names":[[name,value]..], "vba":null|base64?, "extra":[[path,content]..]}
use super::zipw::zip_bytes;
use serde_json::Value;

pub fn col_name(mut c: u32) -> String {
    let mut s = Vec::new();
    loop {
        s.push(b'A' + (c % 26) as u8);
        if c < 26 {
            break;
        }
        c = c / 26 - 1;
    }
    s.reverse();
    String::from_utf8(s).unwrap()
}

pub fn cell_ref(r: u32, c: u32) -> String {
    format!("{}{}", col_name(c), r as u64 + 1)
}

pub fn esc(s: &str) -> String {
    let mut o = String::new();
    for ch in s.chars() {
        match ch {
            '&' => o.push_str("&amp;"),
            '<' => o.push_str("&lt;"),
            '>' => o.push_str("&gt;"),
            '"' => o.push_str("&quot;"),
            '\r' => o.push_str("&#13;"),
            _ => o.push(ch),
        }
    }
    o
}

const MAIN_NS: &str = "http://schemas.openxmlformats.org/spreadsheetml/2006/main";
const REL_NS: &str = "http://schemas.openxmlformats.org/officeDocument/2006/relationships";

/// element name with the workbook's namespace prefix
fn q(p: &str, n: &str) -> String {
    if p.is_empty() {
        n.to_string()
    } else {
        format!("{}:{}", p, n)
    }
}
fn nsdecl(p: &str) -> String {
    if p.is_empty() {
        format!("xmlns=\"{}\"", MAIN_NS)
    } else {
        format!("xmlns:{}=\"{}\"", p, MAIN_NS)
    }
}

fn space_attr(s: &str) -> &'static str {
    if s.starts_with(|c: char| c.is_whitespace()) || s.ends_with(|c: char| c.is_whitespace()) || s.contains("  ") || s.contains('\n') || s.contains('\t') {
        " xml:space=\"preserve\""
    } else {
        ""
    }
}

pub fn sheet_xml(p: &str, sh: &Value) -> String {
    if let Some(raw) = sh["raw"].as_str() {
        return raw.to_string();
    }
    let mut x = String::from("<?xml version=\"1.0\" encoding=\"UTF-8\" standalone=\"yes\"?>\n");
    x.push_str(&format!("<{} {} xmlns:r=\"{}\">", q(p, "worksheet"), nsdecl(p), REL_NS));
    let toks: Vec<Value> = sh["tokens"].as_array().cloned().unwrap_or_default();
    let mut in_data = false;
    // what every real worksheet part has around its data: sheetViews (with nested elements, i.e. end tags
    // before sheetData), sheetFormatPr and, after the data, pageMargins -- unless the token list places
    // ignorable elements itself ("ign") or the sheet asks for a bare part ("bare": true)
    let auto_prologue = !sh["bare"].as_bool().unwrap_or(false) && !toks.iter().any(|t| t["k"] == "ign");
    let prologue = if auto_prologue {
        format!("<{sv}><{v} workbookViewId=\"0\"><{s} activeCell=\"A1\" sqref=\"A1\"/></{v}></{sv}><{f} defaultRowHeight=\"15\"/>",
                sv = q(p, "sheetViews"), v = q(p, "sheetView"), s = q(p, "selection"), f = q(p, "sheetFormatPr"))
    } else {
        String::new()
    };
    let open_data = |x: &mut String, in_data: &mut bool| {
        if !*in_data {
            x.push_str(&prologue);
            x.push_str(&format!("<{}>", q(p, "sheetData")));
            *in_data = true;
        }
    };
    for t in &toks {
        match t["k"].as_str().unwrap_or("") {
            "dim" => x.push_str(&format!("<{} ref=\"{}\"/>", q(p, "dimension"), t["ref"].as_str().unwrap())),
            "ign" => {
                let n = t["name"].as_str().unwrap();
                match n {
                    "sheetViews" => x.push_str(&format!("<{sv}><{v} workbookViewId=\"0\"><{s} activeCell=\"B2\" sqref=\"B2\"/></{v}></{sv}>",
                                                         sv = q(p, "sheetViews"), v = q(p, "sheetView"), s = q(p, "selection"))),
                    "cols" => x.push_str(&format!("<{c}><{o} min=\"1\" max=\"3\" width=\"12\" customWidth=\"1\"/></{c}>", c = q(p, "cols"), o = q(p, "col"))),
                    _ => x.push_str(&format!("<{}/>", q(p, n))),
                }
            }
            "row" => {
                open_data(&mut x, &mut in_data);
                match t["r"].as_u64() {
                    Some(r) => x.push_str(&format!("<{} r=\"{}\">", q(p, "row"), r + 1)),
                    None => x.push_str(&format!("<{}>", q(p, "row"))),
                }
            }
            "rowend" => x.push_str(&format!("</{}>", q(p, "row"))),
            "emptyrow" => {
                open_data(&mut x, &mut in_data);
                match t["r"].as_u64() {
                    Some(r) => x.push_str(&format!("<{} r=\"{}\"/>", q(p, "row"), r + 1)),
                    None => x.push_str(&format!("<{}/>", q(p, "row"))),
                }
            }
            "c" => {
                let mut a = String::new();
                if let Some(rc) = t["r"].as_array() {
                    a.push_str(&format!(" r=\"{}\"", cell_ref(rc[0].as_u64().unwrap() as u32, rc[1].as_u64().unwrap() as u32)));
                }
                if let Some(s) = t["s"].as_u64() {
                    a.push_str(&format!(" s=\"{}\"", s));
                }
                if let Some(ty) = t["t"].as_str() {
                    a.push_str(&format!(" t=\"{}\"", ty));
                }
                let mut kids = String::new();
                if let Some(raw) = t["f_raw"].as_str() {
                    // formula text already in its physical (escaped / CDATA) form
                    kids.push_str(&format!("<{f}>{t}</{f}>", f = q(p, "f"), t = raw));
                } else if let Some(f) = t["f"].as_str() {
                    let mut fa = String::new();
                    if let Some(o) = t["fattrs"].as_object() {
                        for (k, v) in o {
                            fa.push_str(&format!(" {}=\"{}\"", k, esc(&v.as_str().map(|s| s.to_string()).unwrap_or_else(|| v.to_string()))));
                        }
                    }
                    if f.is_empty() && !fa.is_empty() {
                        kids.push_str(&format!("<{}{}/>", q(p, "f"), fa));
                    } else {
                        kids.push_str(&format!("<{f}{a}>{t}</{f}>", f = q(p, "f"), a = fa, t = esc(f)));
                    }
                }
                if let Some(raw) = t["v_raw"].as_str() {
                    kids.push_str(&format!("<{v}>{t}</{v}>", v = q(p, "v"), t = raw));
                } else if let Some(v) = t["v"].as_str() {
                    kids.push_str(&format!("<{v}{sp}>{t}</{v}>", v = q(p, "v"), sp = space_attr(v), t = esc(v)));
                }
                if let Some(raw) = t["is_raw"].as_str() {
                    kids.push_str(raw);
                } else if let Some(is) = t["is"].as_str() {
                    kids.push_str(&format!("<{i}><{t}{sp}>{s}</{t}></{i}>", i = q(p, "is"), t = q(p, "t"), sp = space_attr(is), s = esc(is)));
                }
                if kids.is_empty() {
                    x.push_str(&format!("<{}{}/>", q(p, "c"), a));
                } else {
                    x.push_str(&format!("<{c}{a}>{k}</{c}>", c = q(p, "c"), a = a, k = kids));
                }
            }
            other => panic!("harness: unknown sheet token {}", other),
        }
    }
    if !in_data {
        x.push_str(&prologue);
        x.push_str(&format!("<{}/>", q(p, "sheetData")));
    } else {
        x.push_str(&format!("</{}>", q(p, "sheetData")));
    }
    if let Some(m) = sh["merge"].as_array() {
        if !m.is_empty() {
            x.push_str(&format!("<{} count=\"{}\">", q(p, "mergeCells"), m.len()));
            for r in m {
                x.push_str(&format!("<{} ref=\"{}\"/>", q(p, "mergeCell"), r.as_str().unwrap()));
            }
            x.push_str(&format!("</{}>", q(p, "mergeCells")));
        }
    }
    if auto_prologue {
        x.push_str(&format!("<{} left=\"0.7\" right=\"0.7\" top=\"0.75\" bottom=\"0.75\" header=\"0.3\" footer=\"0.3\"/>", q(p, "pageMargins")));
    }
    if let Some(tb) = sh["tables"].as_array() {
        if !tb.is_empty() {
            x.push_str(&format!("<{} count=\"{}\">", q(p, "tableParts"), tb.len()));
            for (i, _) in tb.iter().enumerate() {
                x.push_str(&format!("<{} r:id=\"rIdT{}\"/>", q(p, "tablePart"), i + 1));
            }
            x.push_str(&format!("</{}>", q(p, "tableParts")));
        }
    }
    x.push_str(&format!("</{}>", q(p, "worksheet")));
    x
}

fn sst_xml(p: &str, sst: &[Value]) -> String {
    let mut x = String::from("<?xml version=\"1.0\" encoding=\"UTF-8\" standalone=\"yes\"?>\n");
    x.push_str(&format!("<{} {} count=\"{n}\" uniqueCount=\"{n}\">", q(p, "sst"), nsdecl(p), n = sst.len()));
    for it in sst {
        if let Some(raw) = it["raw"].as_str() {
            x.push_str(raw);
        } else {
            let s = it["text"].as_str().unwrap_or("");
            x.push_str(&format!("<{si}><{t}{sp}>{s}</{t}></{si}>", si = q(p, "si"), t = q(p, "t"), sp = space_attr(s), s = esc(s)));
        }
    }
    x.push_str(&format!("</{}>", q(p, "sst")));
    x
}

fn styles_xml(p: &str, st: &Value) -> String {
    let mut x = String::from("<?xml version=\"1.0\" encoding=\"UTF-8\" standalone=\"yes\"?>\n");
    x.push_str(&format!("<{} {}>", q(p, "styleSheet"), nsdecl(p)));
    if let Some(nf) = st["numFmts"].as_array() {
        if !nf.is_empty() {
            x.push_str(&format!("<{} count=\"{}\">", q(p, "numFmts"), nf.len()));
            for f in nf {
                x.push_str(&format!("<{} numFmtId=\"{}\" formatCode=\"{}\"/>", q(p, "numFmt"), f[0], esc(f[1].as_str().unwrap())));
            }
            x.push_str(&format!("</{}>", q(p, "numFmts")));
        }
    }
    x.push_str(&format!("<{f} count=\"1\"><{o}><{s} val=\"11\"/></{o}></{f}>", f = q(p, "fonts"), o = q(p, "font"), s = q(p, "sz")));
    x.push_str(&format!("<{f} count=\"1\"><{o}><{s} patternType=\"none\"/></{o}></{f}>", f = q(p, "fills"), o = q(p, "fill"), s = q(p, "patternFill")));
    x.push_str(&format!("<{f} count=\"1\"><{o}/></{f}>", f = q(p, "borders"), o = q(p, "border")));
    for (tag, key) in [("cellStyleXfs", "cellStyleXfs"), ("cellXfs", "cellXfs")] {
        if let Some(xs) = st[key].as_array() {
            x.push_str(&format!("<{} count=\"{}\">", q(p, tag), xs.len()));
            for (i, id) in xs.iter().enumerate() {
                if id.is_null() {
                    x.push_str(&format!("<{} fontId=\"0\"/>", q(p, "xf")));
                } else {
                    // the apply* attributes record which parts of the xf were set by the user (style
                    // inheritance in the UI); the number format of a cell is its xf's numFmtId whatever
                    // they say -- written "1", "0", "true" or not at all, xf after xf
                    let apply = ["applyNumberFormat=\"1\"", "applyNumberFormat=\"0\"", "", "applyNumberFormat=\"false\""][i % 4];
                    x.push_str(&format!("<{} numFmtId=\"{}\" fontId=\"0\" fillId=\"0\" borderId=\"0\" {}/>", q(p, "xf"), id, apply));
                }
            }
            x.push_str(&format!("</{}>", q(p, tag)));
        }
    }
    if let Some(dx) = st["dxfs"].as_array() {
        x.push_str(&format!("<{} count=\"{}\">", q(p, "dxfs"), dx.len()));
        for f in dx {
            x.push_str(&format!("<{d}><{n} numFmtId=\"{}\" formatCode=\"{}\"/></{d}>", f[0], esc(f[1].as_str().unwrap()), d = q(p, "dxf"), n = q(p, "numFmt")));
        }
        x.push_str(&format!("</{}>", q(p, "dxfs")));
    }
    x.push_str(&format!("</{}>", q(p, "styleSheet")));
    x
}

pub fn build_xlsx(w: &Value) -> Vec<u8> {
    let p = w["prefix"].as_str().unwrap_or("");
    let deflate = w["deflate"].as_bool().unwrap_or(false);
    let empty = Vec::new();
    let sheets = w["sheets"].as_array().unwrap_or(&empty);
    let mut parts: Vec<(String, Vec<u8>)> = Vec::new();

    let mut ct = String::from("<?xml version=\"1.0\" encoding=\"UTF-8\" standalone=\"yes\"?>\n<Types xmlns=\"http://schemas.openxmlformats.org/package/2006/content-types\"><Default Extension=\"rels\" ContentType=\"application/vnd.openxmlformats-package.relationships+xml\"/><Default Extension=\"xml\" ContentType=\"application/xml\"/><Override PartName=\"/xl/workbook.xml\" ContentType=\"application/vnd.openxmlformats-officedocument.spreadsheetml.sheet.main+xml\"/>");
    for sh in sheets {
        ct.push_str(&format!("<Override PartName=\"/xl/{}/{}\" ContentType=\"application/vnd.openxmlformats-officedocument.spreadsheetml.worksheet+xml\"/>", sh["dir"].as_str().unwrap_or("worksheets"), sh["file"].as_str().unwrap()));
    }
    ct.push_str("</Types>");
    parts.push(("[Content_Types].xml".into(), ct.into_bytes()));
    parts.push(("_rels/.rels".into(), format!("<?xml version=\"1.0\" encoding=\"UTF-8\" standalone=\"yes\"?>\n<Relationships xmlns=\"http://schemas.openxmlformats.org/package/2006/relationships\"><Relationship Id=\"rId1\" Type=\"{}/officeDocument\" Target=\"xl/workbook.xml\"/></Relationships>", REL_NS).into_bytes()));

    // workbook.xml
    let mut wb = String::from("<?xml version=\"1.0\" encoding=\"UTF-8\" standalone=\"yes\"?>\n");
    let relp = w["rel_prefix"].as_str().unwrap_or("r");
    wb.push_str(&format!("<{} {} xmlns:{}=\"{}\">", q(p, "workbook"), nsdecl(p), relp, REL_NS));
    if let Some(raw) = w["workbook_pre"].as_str() {
        wb.push_str(raw);
    }
    if let Some(d) = w["date1904"].as_bool() {
        let name = if w["wbpr_prefix"].as_bool().unwrap_or(true) { q(p, "workbookPr") } else { "workbookPr".to_string() };
        let val = match w["date1904_spelling"].as_str() {
            Some(s) => s.to_string(),
            None => (if d { "1" } else { "0" }).to_string(),
        };
        wb.push_str(&format!("<{} date1904=\"{}\"/>", name, val));
    }
    wb.push_str(&format!("<{}>", q(p, "sheets")));
    for (i, sh) in sheets.iter().enumerate() {
        let mut a = String::new();
        let idattr = format!("{}:id=\"rId{}\"", relp, i + 1);
        let nameattr = format!("name=\"{}\"", esc(sh["name"].as_str().unwrap()));
        let sid = format!("sheetId=\"{}\"", i + 1);
        let mut attrs = vec![nameattr, sid];
        if let Some(s) = sh["state"].as_str() {
            attrs.push(format!("state=\"{}\"", s));
        }
        attrs.push(idattr);
        if sh["attr_order"].as_str() == Some("rev") {
            attrs.reverse();
        }
        a.push_str(&attrs.join(" "));
        wb.push_str(&format!("<{} {}/>", q(p, "sheet"), a));
    }
    wb.push_str(&format!("</{}>", q(p, "sheets")));
    if let Some(dn) = w["defined_names"].as_array() {
        if !dn.is_empty() {
            wb.push_str(&format!("<{}>", q(p, "definedNames")));
            for d in dn {
                // "defined_name_split": the value arrives in several XML events -- a comment after the first
                // character and the rest partly as a CDATA section (both legal inside element content)
                let v = d[1].as_str().unwrap();
                let body = if w["defined_name_split"].as_bool().unwrap_or(false) && v.chars().count() >= 3 && !v.contains("]]>") {
                    let cs: Vec<char> = v.chars().collect();
                    let (a, b, c): (String, String, String) = (cs[..1].iter().collect(), cs[1..2].iter().collect(), cs[2..].iter().collect());
                    format!("{}<!-- split -->{}<![CDATA[{}]]>", esc(&a), esc(&b), c)
                } else {
                    esc(v)
                };
                wb.push_str(&format!("<{n} name=\"{}\">{}</{n}>", esc(d[0].as_str().unwrap()), body, n = q(p, "definedName")));
            }
            wb.push_str(&format!("</{}>", q(p, "definedNames")));
        }
    }
    // "ext_workbookpr": true -> the extension list Excel 2013+ writes, whose x15:workbookPr has the
    // local name of the workbook's own workbookPr (and no date1904 attribute)
    if w["ext_workbookpr"].as_bool().unwrap_or(false) {
        wb.push_str(&format!("<{e}><{x} uri=\"{{140A7094-0E35-4892-8432-C8D2B28F4B1F}}\" xmlns:x15=\"http://schemas.microsoft.com/office/spreadsheetml/2010/11/main\"><x15:workbookPr chartTrackingRefBase=\"1\"/></{x}></{e}>", e = q(p, "extLst"), x = q(p, "ext")));
    }
    wb.push_str(&format!("</{}>", q(p, "workbook")));
    parts.push(("xl/workbook.xml".into(), wb.into_bytes()));

    // relationships of the workbook
    let mut rels = String::from("<?xml version=\"1.0\" encoding=\"UTF-8\" standalone=\"yes\"?>\n<Relationships xmlns=\"http://schemas.openxmlformats.org/package/2006/relationships\">");
    for (i, sh) in sheets.iter().enumerate() {
        let dir = sh["dir"].as_str().unwrap_or("worksheets");
        let file = sh["file"].as_str().unwrap();
        let target = match sh["target"].as_str().unwrap_or("rel") {
            "abs" => format!("/xl/{}/{}", dir, file),
            "xlrel" => format!("xl/{}/{}", dir, file),
            _ => format!("{}/{}", dir, file),
        };
        let kind = match dir {
            "chartsheets" => "chartsheet",
            "dialogsheets" => "dialogsheet",
            "macrosheets" => "macrosheet",
            _ => "worksheet",
        };
        rels.push_str(&format!("<Relationship Id=\"rId{}\" Type=\"{}/{}\" Target=\"{}\"/>", i + 1, REL_NS, kind, target));
    }
    let n = sheets.len();
    if !w["styles"].is_null() || w["styles_raw"].is_string() {
        rels.push_str(&format!("<Relationship Id=\"rId{}\" Type=\"{}/styles\" Target=\"styles.xml\"/>", n + 1, REL_NS));
    }
    if !w["sst"].is_null() || w["sst_raw"].is_string() {
        rels.push_str(&format!("<Relationship Id=\"rId{}\" Type=\"{}/sharedStrings\" Target=\"sharedStrings.xml\"/>", n + 2, REL_NS));
    }
    rels.push_str("</Relationships>");
    parts.push(("xl/_rels/workbook.xml.rels".into(), rels.into_bytes()));

    if let Some(raw) = w["sst_raw"].as_str() {
        parts.push(("xl/sharedStrings.xml".into(), raw.as_bytes().to_vec()));
    } else if let Some(sst) = w["sst"].as_array() {
        parts.push(("xl/sharedStrings.xml".into(), sst_xml(p, sst).into_bytes()));
    }
    if let Some(raw) = w["styles_raw"].as_str() {
        parts.push(("xl/styles.xml".into(), raw.as_bytes().to_vec()));
    } else if !w["styles"].is_null() {
        parts.push(("xl/styles.xml".into(), styles_xml(p, &w["styles"]).into_bytes()));
    }
    for sh in sheets {
        let dir = sh["dir"].as_str().unwrap_or("worksheets");
        let file = sh["file"].as_str().unwrap();
        let mut path = format!("xl/{}/{}", dir, file);
        match sh["case"].as_str().unwrap_or("exact") {
            "upper" => path = path.to_uppercase(),
            "mixed" => path = format!("xl/{}/{}", capitalise(dir), capitalise(file)),
            _ => {}
        }
        parts.push((path, sheet_xml(p, sh).into_bytes()));
        if let Some(tb) = sh["tables"].as_array() {
            if !tb.is_empty() {
                let mut r = String::from("<?xml version=\"1.0\" encoding=\"UTF-8\" standalone=\"yes\"?>\n<Relationships xmlns=\"http://schemas.openxmlformats.org/package/2006/relationships\">");
                for (i, t) in tb.iter().enumerate() {
                    let tf = t["file"].as_str().unwrap();
                    let target = match t["target"].as_str().unwrap_or("rel") {
                        "abs" => format!("/xl/tables/{}", tf),
                        _ => format!("../tables/{}", tf),
                    };
                    r.push_str(&format!("<Relationship Id=\"rIdT{}\" Type=\"{}/table\" Target=\"{}\"/>", i + 1, REL_NS, target));
                    parts.push((format!("xl/tables/{}", tf), t["xml"].as_str().unwrap().as_bytes().to_vec()));
                }
                r.push_str("</Relationships>");
                parts.push((format!("xl/{}/_rels/{}.rels", dir, file), r.into_bytes()));
            }
        }
    }
    if let Some(ex) = w["extra"].as_array() {
        for e in ex {
            parts.push((e[0].as_str().unwrap().to_string(), e[1].as_str().unwrap().as_bytes().to_vec()));
        }
    }
    zip_bytes(&parts, deflate)
}

fn capitalise(s: &str) -> String {
    let mut c = s.chars();
    match c.next() {
        Some(f) => f.to_uppercase().collect::<String>() + c.as_str(),
        None => String::new(),
    }
}
