//! Minimal zip container writer (stored or deflated entries, names exactly as given).
use std::io::{Cursor, Write};
use zip::write::SimpleFileOptions;
use zip::CompressionMethod;

pub fn zip_bytes(parts: &[(String, Vec<u8>)], deflate: bool) -> Vec<u8> {
    let mut w = zip::ZipWriter::new(Cursor::new(Vec::new()));
    let opt = SimpleFileOptions::default().compression_method(if deflate {
        CompressionMethod::Deflated
    } else {
        CompressionMethod::Stored
    });
    for (name, data) in parts {
        w.start_file(name.as_str(), opt).expect("zip start_file");
        w.write_all(data).expect("zip write");
    }
    w.finish().expect("zip finish").into_inner()
}
