use serde_json::{json, Value};
use std::cell::RefCell;
use std::collections::hash_map::DefaultHasher;
use std::collections::{HashMap, HashSet};
use std::hash::{Hash, Hasher};
use std::io::{BufRead, BufReader, Write};
use std::panic::{catch_unwind, AssertUnwindSafe};

pub struct Args {
    pub cmd: String,
    pub sub: String,
    pub opts: HashMap<String, String>,
}

impl Args {
    pub fn parse() -> Args {
        let v: Vec<String> = std::env::args().collect();
        let cmd = v.get(1).cloned().unwrap_or_default();
        let sub = v.get(2).cloned().unwrap_or_default();
        let mut opts = HashMap::new();
        let mut i = 3;
        while i < v.len() {
            if let Some(k) = v[i].strip_prefix("--") {
                if i + 1 < v.len() && !v[i + 1].starts_with("--") {
                    opts.insert(k.to_string(), v[i + 1].clone());
                    i += 2;
                } else {
                    opts.insert(k.to_string(), "1".to_string());
                    i += 1;
                }
            } else {
                i += 1;
            }
        }
        Args { cmd, sub, opts }
    }
    pub fn get(&self, k: &str) -> Option<&str> {
        self.opts.get(k).map(|s| s.as_str())
    }
    pub fn req(&self, k: &str) -> &str {
        self.get(k).unwrap_or_else(|| {
            eprintln!("missing --{}", k);
            std::process::exit(2)
        })
    }
    pub fn num(&self, k: &str, d: u64) -> u64 {
        self.get(k).and_then(|s| s.parse().ok()).unwrap_or(d)
    }
    pub fn seed(&self) -> u64 {
        self.get("seed")
            .and_then(|s| s.parse().ok())
            .or_else(|| std::env::var("VERIF_SEED").ok().and_then(|s| s.parse().ok()))
            .unwrap_or(20260927)
    }
    pub fn thorough(&self) -> bool {
        std::env::var("VERIF_TIER").map(|t| t == "thorough").unwrap_or(false)
    }
}

thread_local! {
    static LAST_PANIC: RefCell<Option<String>> = RefCell::new(None);
}

/// Panics in the code under test are data: the hook records message and location, prints nothing.
pub fn install_panic_hook() {
    std::panic::set_hook(Box::new(|info| {
        let msg = if let Some(s) = info.payload().downcast_ref::<&str>() {
            s.to_string()
        } else if let Some(s) = info.payload().downcast_ref::<String>() {
            s.clone()
        } else {
            "panic".to_string()
        };
        let loc = info
            .location()
            .map(|l| format!("{}:{}", l.file(), l.line()))
            .unwrap_or_default();
        // C06 keys a panic by the innermost calamine frame outside the byte helpers: function and
        // source text of the line (line tables give inlined frames too)
        let mut func = String::new();
        if std::env::var("CVH_PANIC_FRAMES").is_ok() {
            let bt = std::backtrace::Backtrace::force_capture().to_string();
            if std::env::var("CVH_BT_DUMP").is_ok() { eprintln!("{}", bt); }
            let lines: Vec<&str> = bt.lines().collect();
            for i in 1..lines.len() {
                let at = match lines[i].trim().strip_prefix("at ") { Some(a) => a, None => continue };
                // calamine frames: absolute source paths that are neither the toolchain nor a registry crate
                if at.starts_with("./") || at.contains("/harness/") || at.starts_with("/rustc/") || at.contains("/.cargo/registry/") || at.contains("/csu/") || !at.contains("/src/") {
                    continue;
                }
                let mut it = at.rsplitn(3, ':');
                let _col = it.next();
                let line = it.next().and_then(|x| x.parse::<usize>().ok());
                let file = match it.next() { Some(f) => f, None => continue };
                if file.ends_with("/utils.rs") {
                    continue;
                }
                let text = line.and_then(|n| std::fs::read_to_string(file).ok().and_then(|src| src.lines().nth(n.saturating_sub(1)).map(|l| l.trim().to_string()))).unwrap_or_default();
                let name = lines[i - 1].trim().splitn(2, ": ").nth(1).unwrap_or("").split('<').next().unwrap_or("").to_string();
                let rel = file.rsplit_once("/src/").map(|x| x.1).unwrap_or(file);
                func = format!("calamine::{}::{} [{}]", rel, name, text);
                break;
            }
        }
        // the orchestrator tells a panic that killed the process (not under `catch`) in the code under test from one
        // of the harness by the last message left here
        if let Ok(f) = std::env::var("CVH_LAST_PANIC") {
            let _ = std::fs::write(f, format!("{} @ {}", msg, loc));
        }
        LAST_PANIC.with(|p| *p.borrow_mut() = Some(if func.is_empty() { format!("{} @ {}", msg, loc) } else { format!("{} @ {} in {}", msg, loc, func) }));
    }));
}

pub fn catch<T>(f: impl FnOnce() -> T) -> Result<T, String> {
    match catch_unwind(AssertUnwindSafe(f)) {
        Ok(v) => Ok(v),
        Err(_) => Err(LAST_PANIC
            .with(|p| p.borrow_mut().take())
            .unwrap_or_else(|| "panic".to_string())),
    }
}

pub fn read_ndjson(path: &str) -> impl Iterator<Item = Value> {
    let f = std::fs::File::open(path).unwrap_or_else(|e| {
        eprintln!("cannot open {}: {}", path, e);
        std::process::exit(2)
    });
    BufReader::new(f).lines().filter_map(|l| {
        let l = l.ok()?;
        if l.trim().is_empty() {
            return None;
        }
        match serde_json::from_str::<Value>(&l) {
            Ok(v) => Some(v),
            Err(e) => {
                eprintln!("bad json line: {} ({})", &l[..l.len().min(200)], e);
                std::process::exit(2)
            }
        }
    })
}

pub fn hash_value(v: &Value) -> u64 {
    let mut h = DefaultHasher::new();
    v.to_string().hash(&mut h);
    h.finish()
}

/// Outcome of replaying behaviours: counts, a few samples, and the failures with their key.
#[derive(Default)]
pub struct Report {
    pub evaluated: u64,
    pub distinct: HashSet<u64>,
    pub nontrivial: HashSet<u64>,
    pub failed: u64,
    pub failures: Vec<Value>,
    pub fail_keys: HashMap<String, u64>,
    pub samples: Vec<Value>,
    pub extra: serde_json::Map<String, Value>,
}

impl Report {
    pub fn new() -> Report {
        Report::default()
    }
    /// record one evaluated case; `nontrivial` by the caller's stated rule
    pub fn case(&mut self, behaviour: &Value, nontrivial: bool) {
        self.evaluated += 1;
        let h = hash_value(behaviour);
        self.distinct.insert(h);
        if nontrivial {
            self.nontrivial.insert(h);
        }
    }
    pub fn sample(&mut self, v: Value) {
        if self.samples.len() < 3 {
            self.samples.push(v);
        }
    }
    pub fn fail(&mut self, key: &str, behaviour: &Value, expected: Value, observed: Value) {
        self.failed += 1;
        let n = self.fail_keys.entry(key.to_string()).or_insert(0);
        *n += 1;
        // keep the first few witnesses of every key
        if *n <= 3 && self.failures.len() < 200 {
            self.failures.push(json!({"key": key, "behaviour": behaviour,
                                      "expected": expected, "observed": observed}));
        }
    }
    pub fn write(&self, path: &str) {
        let mut m = serde_json::Map::new();
        m.insert("evaluated".into(), json!(self.evaluated));
        m.insert("distinct".into(), json!(self.distinct.len()));
        m.insert("nontrivial".into(), json!(self.nontrivial.len()));
        m.insert("failed".into(), json!(self.failed));
        m.insert("fail_keys".into(), json!(self.fail_keys));
        m.insert("failures".into(), json!(self.failures));
        m.insert("samples".into(), json!(self.samples));
        for (k, v) in &self.extra {
            m.insert(k.clone(), v.clone());
        }
        let mut f = std::fs::File::create(path).expect("create report");
        f.write_all(Value::Object(m).to_string().as_bytes()).unwrap();
    }
}

/// Decide the key of a mismatch: an observed result that equals the as-is model's prediction
/// on a behaviour exhibiting named deviations is keyed by those deviations (candidate known
/// finding); anything else is unexplained.
pub fn mismatch_key(dev: &Value, observed_is_asis: bool) -> String {
    let names: Vec<String> = dev
        .as_array()
        .map(|a| a.iter().filter_map(|x| x.as_str().map(String::from)).collect())
        .unwrap_or_default();
    if observed_is_asis && !names.is_empty() {
        let mut n = names;
        n.sort();
        format!("dev:{}", n.join("+"))
    } else {
        "unexplained".to_string()
    }
}

/// Is `obs` explained by the ideal and the as-is prediction together: every leaf (recursively through
/// arrays of equal length and objects of equal keys) equals the ideal's or the as-is model's?  A reader
/// in which some of the listed deviations are repaired yields such a mix; a third reading never does.
pub fn explained_mix(obs: &Value, ideal: &Value, asis: &Value) -> bool {
    if obs == ideal || obs == asis {
        return true;
    }
    match (obs, ideal, asis) {
        (Value::Array(o), Value::Array(i), Value::Array(a)) if o.len() == i.len() && o.len() == a.len() =>
            o.iter().zip(i.iter().zip(a.iter())).all(|(x, (y, z))| explained_mix(x, y, z)),
        (Value::Object(o), Value::Object(i), Value::Object(a)) if o.len() == i.len() && o.len() == a.len() =>
            o.iter().all(|(k, x)| match (i.get(k), a.get(k)) { (Some(y), Some(z)) => explained_mix(x, y, z), _ => false }),
        _ => false,
    }
}
