//! Fixture-driven trace validation (leg 2 on real-world files).
//!
//! For every worksheet of every fixture under /repo/tests an INDEPENDENT tokeniser (written from
//! the format descriptions, sharing no code with calamine or with our writers) turns the
//! physical sheet part into the token vocabulary of the reader model of that format; the real
//! reader's `worksheet_range` is logged next to the tokens (positions exactly, values by coarse
//! kind: n s b e iso dur), and the Trace_* spec of the format re-runs its reader operators over
//! the tokens.  Constructs a tokeniser does not know are never guessed: the sheet is skipped and
//! listed with the reason.
//!
//!   cvh drive fixtures --fmt xlsx|xlsb|ods --out trace.ndjson --skipped skipped.json
//!                      [--dir /repo/tests] [--maxtok N]
use crate::common::*;
use calamine::{Data, Ods, Range, Reader, Xlsb, Xlsx};
use quick_xml::events::{BytesStart, Event};
use quick_xml::Reader as Xml;
use serde_json::{json, Value};
use std::collections::HashMap;
use std::io::{Cursor, Read, Write};

type Zip = zip::ZipArchive<Cursor<Vec<u8>>>;

fn zip_part(z: &mut Zip, path: &str) -> Option<Vec<u8>> {
    // part names are matched case-insensitively (OPC)
    let name = z.file_names().find(|n| n.eq_ignore_ascii_case(path))?.to_string();
    let mut f = z.by_name(&name).ok()?;
    let mut v = Vec::new();
    f.read_to_end(&mut v).ok()?;
    Some(v)
}

fn local(name: &[u8]) -> &[u8] {
    match name.iter().rposition(|b| *b == b':') {
        Some(p) => &name[p + 1..],
        None => name,
    }
}

fn attr(e: &BytesStart<'_>, key: &[u8], by_local_name: bool) -> Option<String> {
    for a in e.attributes().with_checks(false).flatten() {
        let k = a.key.as_ref();
        if k == key || (by_local_name && local(k) == key) {
            let raw = std::str::from_utf8(&a.value).ok()?;
            return quick_xml::escape::unescape(raw).ok().map(|v| v.to_string());
        }
    }
    None
}

/// Id -> Target of a relationships part
fn rels(xml: &[u8]) -> HashMap<String, String> {
    let mut m = HashMap::new();
    let mut r = Xml::from_reader(xml);
    let mut buf = Vec::new();
    loop {
        match r.read_event_into(&mut buf) {
            Ok(Event::Start(e)) | Ok(Event::Empty(e)) if local(e.name().as_ref()) == b"Relationship" => {
                if let (Some(id), Some(t)) = (attr(&e, b"Id", false), attr(&e, b"Target", false)) {
                    m.insert(id, t);
                }
            }
            Ok(Event::Eof) | Err(_) => break,
            _ => {}
        }
        buf.clear();
    }
    m
}

fn resolve(target: &str) -> String {
    match target.strip_prefix('/') {
        Some(t) => t.to_string(),
        None => format!("xl/{}", target),
    }
}

/// observed range: start, end, non-empty cells as [r, c, kind-projection]
fn observed(r: &Range<Data>, val: impl Fn(&Data) -> Value) -> Value {
    let p2 = |p: Option<(u32, u32)>| match p {
        Some((a, b)) => json!([a, b]),
        None => json!([]),
    };
    let mut cells = Vec::new();
    if let Some(s) = r.start() {
        for (ri, ci, v) in r.used_cells() {
            cells.push(json!([s.0 as u64 + ri as u64, s.1 as u64 + ci as u64, val(v)]));
        }
    }
    json!({"start": p2(r.start()), "end": p2(r.end()), "cells": cells})
}

fn kind(d: &Data) -> &'static str {
    match d {
        Data::Empty => "_",
        Data::Int(_) | Data::Float(_) | Data::DateTime(_) => "n",
        Data::String(_) => "s",
        Data::Bool(_) => "b",
        Data::Error(_) => "e",
        Data::DateTimeIso(_) => "iso",
        Data::DurationIso(_) => "dur",
    }
}

// ------------------------------------------------------------------------------------ xlsx

/// lexical class of the text of a <v> element: "empty", "num" (a decimal numeral), "text";
/// Err for spellings whose reading as a number is a matter of the parser (inf, nan, hex ..)
fn v_class(s: &str) -> Result<&'static str, String> {
    if s.is_empty() {
        return Ok("empty");
    }
    let b = s.as_bytes();
    let mut i = 0;
    if b[i] == b'+' || b[i] == b'-' {
        i += 1;
    }
    let d0 = i;
    while i < b.len() && b[i].is_ascii_digit() {
        i += 1;
    }
    let mut digits = i - d0;
    if i < b.len() && b[i] == b'.' {
        i += 1;
        let f0 = i;
        while i < b.len() && b[i].is_ascii_digit() {
            i += 1;
        }
        digits += i - f0;
    }
    if digits > 0 && i < b.len() && (b[i] == b'e' || b[i] == b'E') {
        let save = i;
        i += 1;
        if i < b.len() && (b[i] == b'+' || b[i] == b'-') {
            i += 1;
        }
        let e0 = i;
        while i < b.len() && b[i].is_ascii_digit() {
            i += 1;
        }
        if i == e0 {
            i = save;
        }
    }
    if digits > 0 && i == b.len() {
        return Ok("num");
    }
    let l = s.trim_start_matches(['+', '-']).to_ascii_lowercase();
    if l == "inf" || l == "infinity" || l == "nan" {
        return Err(format!("<v>{}</v>: number spelling left to the parser", s));
    }
    Ok("text")
}

/// "BC12" -> (11, 54) zero based; None if not of that shape
fn a1(s: &str) -> Option<(u32, u32)> {
    let letters: String = s.chars().take_while(|c| c.is_ascii_alphabetic()).collect();
    let digits = &s[letters.len()..];
    if letters.is_empty() || digits.is_empty() || !digits.bytes().all(|b| b.is_ascii_digit()) {
        return None;
    }
    let mut col: u64 = 0;
    for ch in letters.chars() {
        col = col * 26 + (ch.to_ascii_uppercase() as u64 - 'A' as u64 + 1);
    }
    let row: u64 = digits.parse().ok()?;
    if row == 0 || col > 16384 || row > 1048576 {
        return None;
    }
    Some((row as u32 - 1, col as u32 - 1))
}

const XLSX_ERRS: [&str; 8] = ["#DIV/0!", "#N/A", "#NAME?", "#NULL!", "#NUM!", "#REF!", "#VALUE!", "#GETTING_DATA"];

/// sheetData of a worksheet part -> reader-model tokens (see tla/xlsx/XlsxSheet.tla RStepK)
pub fn xlsx_tokens(xml: &[u8]) -> Result<Vec<Value>, String> {
    let mut r = Xml::from_reader(xml);
    let mut buf = Vec::new();
    let mut toks = Vec::new();
    let mut in_data = false;
    let mut seen_data = false;
    loop {
        let ev = r.read_event_into(&mut buf).map_err(|e| format!("xml: {}", e))?;
        match ev {
            Event::Eof => break,
            Event::Start(ref e) if local(e.name().as_ref()) == b"sheetData" => {
                if seen_data {
                    return Err("second sheetData".into());
                }
                in_data = true;
                seen_data = true;
            }
            Event::Empty(ref e) if local(e.name().as_ref()) == b"sheetData" => {
                if seen_data {
                    return Err("second sheetData".into());
                }
                seen_data = true; // <sheetData/>: a sheet without rows
            }
            Event::End(ref e) if local(e.name().as_ref()) == b"sheetData" => in_data = false,
            Event::Start(ref e) | Event::Empty(ref e) if in_data && local(e.name().as_ref()) == b"row" => {
                let empty = matches!(ev, Event::Empty(_));
                match attr(e, b"r", false) {
                    Some(rs) => {
                        let n: u64 = rs.parse().map_err(|_| format!("row r={:?}", rs))?;
                        if n == 0 || n > 1048576 {
                            return Err(format!("row r={}", n));
                        }
                        toks.push(json!({"k": "row", "r": n - 1, "x": true}));
                    }
                    None => toks.push(json!({"k": "row", "r": 0, "x": false})),
                }
                if empty {
                    toks.push(json!({"k": "rowend"}));
                }
            }
            Event::End(ref e) if in_data && local(e.name().as_ref()) == b"row" => toks.push(json!({"k": "rowend"})),
            Event::Start(ref e) | Event::Empty(ref e) if in_data && local(e.name().as_ref()) == b"c" => {
                let empty = matches!(ev, Event::Empty(_));
                let (p, x) = match attr(e, b"r", false) {
                    Some(s) => (a1(&s).ok_or(format!("cell r={:?}", s))?, true),
                    None => ((0, 0), false),
                };
                let t = attr(e, b"t", false).unwrap_or_else(|| "none".to_string());
                if !["none", "s", "b", "e", "d", "str", "n", "inlineStr"].contains(&t.as_str()) {
                    return Err(format!("cell t={:?}", t));
                }
                let e = e.to_owned();
                let mut kids: Vec<&str> = Vec::new();
                let (mut vk, mut isk) = ("none", "none");
                if !empty {
                    // children until </c>
                    let mut cb = Vec::new();
                    loop {
                        let cev = r.read_event_into(&mut cb).map_err(|e| format!("xml: {}", e))?;
                        match cev {
                            Event::End(ref x) if local(x.name().as_ref()) == b"c" => break,
                            Event::Eof => return Err("eof in c".into()),
                            Event::Start(ref k) | Event::Empty(ref k) => {
                                let kempty = matches!(cev, Event::Empty(_));
                                let name = local(k.name().as_ref()).to_vec();
                                let kname = k.name().as_ref().to_vec();
                                match name.as_slice() {
                                    b"f" => {
                                        kids.push("f");
                                        if !kempty {
                                            r.read_to_end_into(quick_xml::name::QName(&kname), &mut Vec::new()).map_err(|e| e.to_string())?;
                                        }
                                    }
                                    b"v" => {
                                        kids.push("v");
                                        let mut text = String::new();
                                        if !kempty {
                                            let mut vb = Vec::new();
                                            loop {
                                                match r.read_event_into(&mut vb).map_err(|e| e.to_string())? {
                                                    Event::Text(t) => text.push_str(&t.unescape().map_err(|e| e.to_string())?),
                                                    Event::CData(t) => text.push_str(&String::from_utf8_lossy(&t)),
                                                    Event::End(ref x) if local(x.name().as_ref()) == b"v" => break,
                                                    Event::Eof => return Err("eof in v".into()),
                                                    Event::Start(_) | Event::Empty(_) => return Err("element inside v".into()),
                                                    _ => {}
                                                }
                                                vb.clear();
                                            }
                                        }
                                        vk = v_class(&text)?;
                                        match t.as_str() {
                                            "inlineStr" => return Err("t=inlineStr with a v child".into()),
                                            "e" if !XLSX_ERRS.contains(&text.as_str()) => return Err(format!("t=e v={:?}", text)),
                                            "n" if vk == "text" => return Err(format!("t=n v={:?}", text)),
                                            "s" if !(vk == "num" && text.bytes().all(|b| b.is_ascii_digit())) => return Err(format!("t=s v={:?}", text)),
                                            _ => {}
                                        }
                                    }
                                    b"is" => {
                                        kids.push("is");
                                        // only the plain shape <is><t>non-empty text</t></is> is classified
                                        let mut depth = 1;
                                        let mut text = String::new();
                                        let mut ib = Vec::new();
                                        if kempty {
                                            return Err("empty is".into());
                                        }
                                        while depth > 0 {
                                            match r.read_event_into(&mut ib).map_err(|e| e.to_string())? {
                                                Event::Start(ref x) => {
                                                    depth += 1;
                                                    if local(x.name().as_ref()) != b"t" || depth != 2 {
                                                        return Err("inline string that is not <is><t>..</t></is>".into());
                                                    }
                                                }
                                                Event::Empty(_) => return Err("empty element inside is".into()),
                                                Event::End(_) => depth -= 1,
                                                Event::Text(t) => text.push_str(&t.unescape().map_err(|e| e.to_string())?),
                                                Event::Eof => return Err("eof in is".into()),
                                                _ => {}
                                            }
                                            ib.clear();
                                        }
                                        if text.is_empty() {
                                            return Err("inline string without text".into());
                                        }
                                        isk = "text";
                                    }
                                    other => return Err(format!("cell child <{}>", String::from_utf8_lossy(other))),
                                }
                            }
                            _ => {}
                        }
                        cb.clear();
                    }
                }
                let _ = e;
                toks.push(json!({"k": "c", "p": [p.0, p.1], "x": x, "t": t, "kids": kids, "vk": vk, "isk": isk}));
            }
            _ => {}
        }
        buf.clear();
    }
    if !seen_data {
        return Err("no sheetData".into());
    }
    Ok(toks)
}

/// (sheet name, part path) of the worksheets of an xlsx/xlsm package
fn xlsx_sheets(z: &mut Zip) -> Result<Vec<(String, String)>, String> {
    let wb = zip_part(z, "xl/workbook.xml").ok_or("no xl/workbook.xml")?;
    let rl = rels(&zip_part(z, "xl/_rels/workbook.xml.rels").ok_or("workbook rels missing or unreadable")?);
    let mut out = Vec::new();
    let mut r = Xml::from_reader(wb.as_slice());
    let mut buf = Vec::new();
    loop {
        match r.read_event_into(&mut buf) {
            Ok(Event::Start(e)) | Ok(Event::Empty(e)) if local(e.name().as_ref()) == b"sheet" => {
                if let (Some(name), Some(id)) = (attr(&e, b"name", false), attr(&e, b"id", true)) {
                    if let Some(t) = rl.get(&id) {
                        out.push((name, resolve(t)));
                    }
                }
            }
            Ok(Event::Eof) => break,
            Err(e) => return Err(format!("workbook.xml: {}", e)),
            _ => {}
        }
        buf.clear();
    }
    Ok(out)
}

// ------------------------------------------------------------------------------------ xlsb

/// BIFF12 framing, written from MS-XLSB 2.1.4: (record id, payload) list; None if truncated
pub fn biff12_records(b: &[u8]) -> Option<Vec<(u16, &[u8])>> {
    let mut i = 0;
    let mut out = Vec::new();
    while i < b.len() {
        let mut id = b[i] as u16;
        i += 1;
        if id & 0x80 != 0 {
            id = (id & 0x7F) | ((*b.get(i)? as u16 & 0x7F) << 7);
            i += 1;
        }
        let mut len = 0usize;
        for k in 0..4 {
            let x = *b.get(i)?;
            i += 1;
            len |= ((x & 0x7F) as usize) << (7 * k);
            if x & 0x80 == 0 {
                break;
            }
        }
        out.push((id, b.get(i..i + len)?));
        i += len;
    }
    Some(out)
}

fn u32le(b: &[u8], at: usize) -> Option<u32> {
    Some(u32::from_le_bytes(b.get(at..at + 4)?.try_into().ok()?))
}

fn wide(b: &[u8], at: usize) -> Option<(String, usize)> {
    let n = u32le(b, at)? as usize;
    let raw = b.get(at + 4..at + 4 + 2 * n)?;
    let u: Vec<u16> = raw.chunks(2).map(|c| u16::from_le_bytes([c[0], c[1]])).collect();
    Some((String::from_utf16_lossy(&u), at + 4 + 2 * n))
}

fn xlsb_sheets(z: &mut Zip) -> Result<Vec<(String, String)>, String> {
    let wb = zip_part(z, "xl/workbook.bin").ok_or("no xl/workbook.bin")?;
    let rl = rels(&zip_part(z, "xl/_rels/workbook.bin.rels").ok_or("workbook rels missing or unreadable")?);
    let mut out = Vec::new();
    for (id, p) in biff12_records(&wb).ok_or("workbook.bin framing")? {
        if id == 0x009C {
            let (rid, next) = wide(p, 8).ok_or("BrtBundleSh")?;
            let (name, _) = wide(p, next).ok_or("BrtBundleSh name")?;
            if let Some(t) = rl.get(&rid) {
                out.push((name, resolve(t)));
            }
        }
    }
    Ok(out)
}

/// worksheet part -> (record ids up to and including BrtBeginSheetData, cell-table tokens)
pub fn xlsb_tokens(part: &[u8]) -> Result<(Vec<u16>, Vec<Value>), String> {
    let recs = biff12_records(part).ok_or("record framing")?;
    let start = recs.iter().position(|r| r.0 == 0x0091).ok_or("no BrtBeginSheetData")?;
    let pre: Vec<u16> = recs[..=start].iter().map(|r| r.0).collect();
    let mut toks = Vec::new();
    for (id, p) in &recs[start + 1..] {
        match *id {
            0x0092 => return Ok((pre, toks)),
            0x0000 => toks.push(json!({"t": "row", "r": u32le(p, 0).ok_or("short BrtRowHdr")?})),
            1..=11 => {
                let k = ["", "blank", "rk", "err", "bool", "real", "st", "isst", "fstr", "fnum", "fbool", "ferr"][*id as usize];
                toks.push(json!({"t": "cell", "c": u32le(p, 0).ok_or("short cell record")?, "v": {"k": k}}));
            }
            other => toks.push(json!({"t": "ign", "id": other, "len": p.len()})),
        }
    }
    Err("no BrtEndSheetData".into())
}

// ------------------------------------------------------------------------------------- ods

const TABLE_NS_ROW: &[u8] = b"table:table-row";

/// tables of content.xml -> (name, physical rows) in the vocabulary of tla/ods/OdsTable.tla
pub fn ods_tables(xml: &[u8]) -> Vec<(String, Result<Vec<Value>, String>)> {
    let mut out: Vec<(String, Result<Vec<Value>, String>)> = Vec::new();
    let mut r = Xml::from_reader(xml);
    let mut buf = Vec::new();
    // state of the table being read
    let mut name: Option<String> = None;
    let mut rows: Vec<Value> = Vec::new();
    let mut err: Option<String> = None;
    let mut row: Option<(u64, Vec<Value>)> = None;
    let mut cell_depth = 0usize; // > 0: inside a cell element (depth of elements below the row)
    loop {
        let ev = match r.read_event_into(&mut buf) {
            Ok(e) => e,
            Err(e) => {
                if let Some(n) = name.take() {
                    out.push((n, Err(format!("xml: {}", e))));
                }
                break;
            }
        };
        match ev {
            Event::Eof => break,
            Event::Start(ref e) | Event::Empty(ref e) if e.name().as_ref() == b"table:table" => {
                let empty = matches!(ev, Event::Empty(_));
                if name.is_some() {
                    err.get_or_insert("nested table:table".into());
                    if !empty && cell_depth > 0 {
                        cell_depth += 1;
                    }
                } else {
                    name = Some(attr(e, b"table:name", false).unwrap_or_default());
                    rows.clear();
                    err = None;
                    if empty {
                        out.push((name.take().unwrap(), Ok(Vec::new())));
                    }
                }
            }
            Event::End(ref e) if e.name().as_ref() == b"table:table" => {
                if cell_depth > 0 {
                    cell_depth -= 1;
                } else if let Some(n) = name.take() {
                    out.push((n, match err.take() { Some(m) => Err(m), None => Ok(std::mem::take(&mut rows)) }));
                }
            }
            _ if name.is_none() => {}
            Event::Start(ref e) | Event::Empty(ref e) if cell_depth == 0 && e.name().as_ref() == TABLE_NS_ROW => {
                let rr = match attr(e, b"table:number-rows-repeated", false) {
                    Some(s) => match s.parse::<u64>() { Ok(n) if n >= 1 => n, _ => { err.get_or_insert(format!("rows-repeated={:?}", s)); 1 } },
                    None => 1,
                };
                if matches!(ev, Event::Empty(_)) {
                    rows.push(json!({"rr": rr, "rx": false, "cells": []}));
                } else {
                    row = Some((rr, Vec::new()));
                }
            }
            Event::End(ref e) if cell_depth == 0 && e.name().as_ref() == TABLE_NS_ROW => {
                if let Some((rr, cells)) = row.take() {
                    rows.push(json!({"rr": rr, "rx": false, "cells": cells}));
                }
            }
            Event::Start(ref e) | Event::Empty(ref e) if row.is_some() && cell_depth == 0 => {
                let n = e.name().as_ref().to_vec();
                let empty = matches!(ev, Event::Empty(_));
                if n == b"table:table-cell" || n == b"table:covered-table-cell" {
                    match ods_cell(e, n == b"table:covered-table-cell") {
                        Ok(t) => row.as_mut().unwrap().1.push(t),
                        Err(m) => { err.get_or_insert(m); }
                    }
                } else {
                    err.get_or_insert(format!("<{}> inside a row", String::from_utf8_lossy(&n)));
                }
                if !empty {
                    cell_depth = 1;
                }
            }
            Event::Start(_) if cell_depth > 0 => cell_depth += 1,
            Event::End(_) if cell_depth > 0 => cell_depth -= 1,
            Event::Text(ref t) if row.is_some() && cell_depth == 0 => {
                if t.iter().all(|b| matches!(b, b' ' | b'\t' | b'\r' | b'\n')) {
                    row.as_mut().unwrap().1.push(json!({"k": "ws", "n": 0, "x": false, "vt": "", "lex": "sp", "canon": "", "form": "", "fm": ""}));
                } else {
                    err.get_or_insert("text between cells".into());
                }
            }
            Event::CData(_) if row.is_some() && cell_depth == 0 => { err.get_or_insert("cdata between cells".into()); }
            _ => {}
        }
        buf.clear();
    }
    out
}

fn ods_cell(e: &BytesStart<'_>, covered: bool) -> Result<Value, String> {
    let n = match attr(e, b"table:number-columns-repeated", false) {
        Some(s) => s.parse::<u64>().ok().filter(|n| *n >= 1).ok_or(format!("columns-repeated={:?}", s))?,
        None => 1,
    };
    let vt = attr(e, b"office:value-type", false).unwrap_or_default();
    let has = |k: &[u8]| attr(e, k, false).is_some();
    let present: Vec<&str> = ["office:value", "office:string-value", "office:boolean-value", "office:date-value", "office:time-value"]
        .into_iter().filter(|k| has(k.as_bytes())).collect();
    let (want, form): (Vec<&str>, &str) = match vt.as_str() {
        "" => (vec![], ""),
        "float" | "percentage" | "currency" => (vec!["office:value"], "attr"),
        "boolean" => (vec!["office:boolean-value"], "attr"),
        "date" => (vec!["office:date-value"], "attr"),
        "time" => (vec!["office:time-value"], "attr"),
        "string" => {
            if has(b"office:string-value") { (vec!["office:string-value"], "attr") } else { (vec![], "text") }
        }
        other => return Err(format!("office:value-type={:?}", other)),
    };
    if present != want {
        return Err(format!("value-type {:?} with value attributes {:?}", vt, present));
    }
    if vt == "boolean" {
        let b = attr(e, b"office:boolean-value", false).unwrap_or_default();
        if b != "true" && b != "false" {
            return Err(format!("boolean-value={:?}", b));
        }
    }
    let fm = match attr(e, b"table:formula", false) { Some(f) if !f.is_empty() => "f", _ => "" };
    if vt.is_empty() && !fm.is_empty() {
        return Err("formula cell without cached value".into());
    }
    Ok(json!({"k": if covered { "v" } else { "c" }, "n": n, "x": false, "vt": vt, "lex": "", "canon": "", "form": form, "fm": fm}))
}

// ----------------------------------------------------------------------------------- drive

fn catch_obs<T>(f: impl FnOnce() -> Result<T, String>) -> Result<T, String> {
    match catch(f) {
        Ok(r) => r,
        Err(p) => Err(format!("panic: {}", p)),
    }
}

pub fn drive(args: &Args) -> i32 {
    let fmt = args.req("fmt").to_string();
    let dir = args.get("dir").unwrap_or("/repo/tests").to_string();
    let maxtok = args.num("maxtok", 1_000_000) as usize;
    let mut out = std::io::BufWriter::new(std::fs::File::create(args.req("out")).unwrap());
    let mut skipped: Vec<Value> = Vec::new();
    let mut files: Vec<String> = std::fs::read_dir(&dir).expect("fixture dir").flatten()
        .map(|e| e.file_name().to_string_lossy().to_string())
        .filter(|n| {
            let ext = n.rsplit('.').next().unwrap_or("");
            match fmt.as_str() { "xlsx" => ext == "xlsx" || ext == "xlsm" || ext == "xlam", other => ext == other }
        })
        .collect();
    files.sort();
    let mut run = 0u64;
    let mut ntok = 0usize;
    for fname in files {
        let path = format!("{}/{}", dir, fname);
        let bytes = std::fs::read(&path).expect("read fixture");
        let mut skip = |sheet: &str, why: String| skipped.push(json!({"fixture": fname, "sheet": sheet, "reason": why}));
        let mut z = match zip::ZipArchive::new(Cursor::new(bytes.clone())) {
            Ok(z) => z,
            Err(e) => { skip("*", format!("not a zip package: {}", e)); continue; }
        };
        // (sheet, event body without the observation) per supported sheet
        let mut todo: Vec<(String, Value)> = Vec::new();
        match fmt.as_str() {
            "xlsx" => match xlsx_sheets(&mut z) {
                Err(m) => skip("*", m),
                Ok(sheets) => for (name, part) in sheets {
                    if !part.to_ascii_lowercase().contains("worksheets/") { skip(&name, format!("not a worksheet part: {}", part)); continue; }
                    match zip_part(&mut z, &part).ok_or(format!("part {} missing", part)).and_then(|x| xlsx_tokens(&x)) {
                        Ok(t) => todo.push((name, json!({"tokens": t}))),
                        Err(m) => skip(&name, m),
                    }
                },
            },
            "xlsb" => match xlsb_sheets(&mut z) {
                Err(m) => skip("*", m),
                Ok(sheets) => for (name, part) in sheets {
                    if !part.to_ascii_lowercase().contains("worksheets/") { skip(&name, format!("not a worksheet part: {}", part)); continue; }
                    match zip_part(&mut z, &part).ok_or(format!("part {} missing", part)).and_then(|x| xlsb_tokens(&x)) {
                        Ok((pre, t)) => todo.push((name, json!({"pre_ids": pre, "tokens": t}))),
                        Err(m) => skip(&name, m),
                    }
                },
            },
            "ods" => {
                if zip_part(&mut z, "META-INF/manifest.xml").map_or(false, |m| String::from_utf8_lossy(&m).contains("manifest:encryption-data")) {
                    skip("*", "encrypted package".into());
                    continue;
                }
                match zip_part(&mut z, "content.xml") {
                    None => skip("*", "no content.xml".into()),
                    Some(x) => {
                        let tables = ods_tables(&x);
                        // the reader keeps one table per name
                        let mut names = std::collections::HashSet::new();
                        let dup = tables.iter().any(|t| !names.insert(t.0.clone()));
                        for (name, t) in tables {
                            if dup { skip(&name, "duplicate table names".into()); continue; }
                            match t {
                                Ok(rows) => todo.push((name, json!({"pw": "", "tokens": rows}))),
                                Err(m) => skip(&name, m),
                            }
                        }
                    }
                }
            }
            other => { eprintln!("unknown --fmt {}", other); return 2; }
        }
        for (sheet, mut ev) in todo {
            let n = ev["tokens"].as_array().map_or(0, |a| a.len());
            if n > maxtok {
                skip(&sheet, format!("{} tokens exceed the limit of this tier ({})", n, maxtok));
                continue;
            }
            let b = bytes.clone();
            let s = sheet.clone();
            let obs: Result<Value, String> = match fmt.as_str() {
                "xlsx" => catch_obs(|| {
                    let mut wb: Xlsx<_> = Xlsx::new(Cursor::new(b)).map_err(|e| format!("open: {}", e))?;
                    let r = wb.worksheet_range(&s).map_err(|e| format!("worksheet_range: {}", e))?;
                    Ok(observed(&r, |d| json!([kind(d)])))
                }),
                "xlsb" => catch_obs(|| {
                    let mut wb: Xlsb<_> = Xlsb::new(Cursor::new(b)).map_err(|e| format!("open: {}", e))?;
                    let r = wb.worksheet_range(&s).map_err(|e| format!("worksheet_range: {}", e))?;
                    Ok(observed(&r, |d| json!([kind(d)])))
                }),
                _ => catch_obs(|| {
                    let mut wb: Ods<_> = Ods::new(Cursor::new(b)).map_err(|e| format!("open: {}", e))?;
                    let r = wb.worksheet_range(&s).map_err(|e| format!("worksheet_range: {}", e))?;
                    let f = wb.worksheet_formula(&s).map_err(|e| format!("worksheet_formula: {}", e))?;
                    let tag = |d: &Data| json!([match kind(d) { "n" => "f", k => k }, ""]);
                    let mut v = observed(&r, tag);
                    v["shape"] = json!(r.rows().count() == r.height() && r.rows().all(|x| x.len() == r.width()));
                    let p2 = |p: Option<(u32, u32)>| match p { Some((a, b)) => json!([a, b]), None => json!([]) };
                    let mut fc = Vec::new();
                    if let Some(st) = f.start() {
                        for (ri, ci, x) in f.used_cells() {
                            let _ = x;
                            fc.push(json!([st.0 as u64 + ri as u64, st.1 as u64 + ci as u64, ["f"]]));
                        }
                    }
                    let fv = json!({"start": p2(f.start()), "end": p2(f.end()), "cells": fc,
                                    "shape": f.rows().count() == f.height()});
                    Ok(json!({"v": v, "f": fv}))
                }),
            };
            ev["e"] = json!(if fmt == "ods" { "table" } else { "fixture" });
            ev["run"] = json!(run);
            ev["fixture"] = json!(fname);
            ev["sheet"] = json!(sheet);
            match obs {
                Ok(o) => {
                    if fmt == "ods" {
                        ev["v"] = o["v"].clone();
                        ev["f"] = o["f"].clone();
                    } else {
                        ev["start"] = o["start"].clone();
                        ev["end"] = o["end"].clone();
                        ev["cells"] = o["cells"].clone();
                    }
                }
                Err(m) => ev["error"] = json!(m),
            }
            ntok += n;
            writeln!(out, "{}", ev).unwrap();
            run += 1;
        }
    }
    let sk = json!({"sheets": run, "tokens": ntok, "skipped": skipped});
    std::fs::write(args.req("skipped"), sk.to_string()).unwrap();
    0
}
