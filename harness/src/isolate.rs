//! Process isolation for replay/drive workers.  calamine aborts the process when an allocation
//! fails (e.g. a corrupted chain walk asks for terabytes); that cannot be caught with
//! catch_unwind.  `run_replay` executes the worker in a child process (the same executable with
//! CVH_CHILD=1); when the child dies abnormally the input is bisected to the behaviours that kill
//! it, each of which is reported as a failure with key "abort" (observed = how the child died), and
//! the rest of the input is still evaluated.  The normal case costs one extra process.
use crate::common::*;
use serde_json::{json, Value};
use std::io::Write;
use std::process::Command;

pub fn is_child() -> bool {
    std::env::var("CVH_CHILD").is_ok()
}

fn child(args: &Args, infile: &str, outfile: &str) -> Result<(), String> {
    let exe = std::env::current_exe().expect("current_exe");
    let mut c = Command::new(exe);
    c.arg(&args.cmd).arg(&args.sub);
    for (k, v) in &args.opts {
        if k != "in" && k != "out" {
            c.arg(format!("--{}", k)).arg(v);
        }
    }
    c.arg("--in").arg(infile).arg("--out").arg(outfile).env("CVH_CHILD", "1");
    let _ = std::fs::remove_file(outfile);
    match c.status() {
        Ok(s) if s.success() => Ok(()),
        Ok(s) => {
            #[cfg(unix)]
            {
                use std::os::unix::process::ExitStatusExt;
                if let Some(sig) = s.signal() {
                    return Err(format!("killed by signal {}", sig));
                }
            }
            match s.code() {
                Some(2) => {
                    eprintln!("harness error in child");
                    std::process::exit(2)
                }
                c => Err(format!("exit code {:?}", c)),
            }
        }
        Err(e) => {
            eprintln!("cannot spawn child: {}", e);
            std::process::exit(2)
        }
    }
}

fn merge(acc: &mut Value, r: &Value) {
    if acc.is_null() {
        *acc = r.clone();
        return;
    }
    for k in ["evaluated", "distinct", "nontrivial", "failed"] {
        acc[k] = json!(acc[k].as_u64().unwrap_or(0) + r[k].as_u64().unwrap_or(0));
    }
    if let Some(m) = r["fail_keys"].as_object() {
        for (k, v) in m {
            let cur = acc["fail_keys"][k].as_u64().unwrap_or(0);
            acc["fail_keys"][k] = json!(cur + v.as_u64().unwrap_or(0));
        }
    }
    for k in ["failures", "samples"] {
        if let Some(a) = r[k].as_array() {
            let dst = acc[k].as_array_mut().unwrap();
            for x in a {
                if dst.len() < 200 {
                    dst.push(x.clone());
                }
            }
        }
    }
}

fn write_lines(path: &str, lines: &[String]) {
    let mut f = std::io::BufWriter::new(std::fs::File::create(path).expect("create chunk"));
    for l in lines {
        writeln!(f, "{}", l).unwrap();
    }
}

/// Run `worker` (a replay sub-command reading --in and writing a Report to --out) isolated.
pub fn run_replay(args: &Args, worker: fn(&Args) -> i32) -> i32 {
    if is_child() {
        return worker(args);
    }
    let infile = args.req("in").to_string();
    let out = args.req("out").to_string();
    if child(args, &infile, &out).is_ok() {
        return 0;
    }
    // abnormal death: find the killers
    let lines: Vec<String> = std::fs::read_to_string(&infile).expect("read input").lines().filter(|l| !l.trim().is_empty()).map(String::from).collect();
    let tmp_in = format!("{}.chunk", infile);
    let tmp_out = format!("{}.chunk.report", infile);
    let mut acc = Value::Null;
    let mut killers = 0;
    let mut lo = 0usize;
    let mut aborted_after = None;
    while lo < lines.len() {
        // largest prefix of the rest that survives, by doubling then bisecting
        let rest = &lines[lo..];
        write_lines(&tmp_in, rest);
        if child(args, &tmp_in, &tmp_out).is_ok() {
            merge(&mut acc, &serde_json::from_str(&std::fs::read_to_string(&tmp_out).unwrap()).unwrap());
            break;
        }
        let (mut good, mut bad) = (0usize, rest.len()); // rest[..good] survives, rest[..bad] dies
        let mut how = String::new();
        while bad - good > 1 {
            let mid = (good + bad) / 2;
            write_lines(&tmp_in, &rest[..mid]);
            match child(args, &tmp_in, &tmp_out) {
                Ok(()) => good = mid,
                Err(e) => {
                    bad = mid;
                    how = e;
                }
            }
        }
        if how.is_empty() {
            write_lines(&tmp_in, &rest[..bad]);
            how = child(args, &tmp_in, &tmp_out).err().unwrap_or_else(|| "died (not reproducible)".into());
        }
        if good > 0 {
            write_lines(&tmp_in, &rest[..good]);
            if child(args, &tmp_in, &tmp_out).is_ok() {
                merge(&mut acc, &serde_json::from_str(&std::fs::read_to_string(&tmp_out).unwrap()).unwrap());
            }
        }
        let killer: Value = serde_json::from_str(&rest[bad - 1]).unwrap_or(Value::Null);
        let mut r = Report::new();
        r.case(&killer, true);
        r.fail("abort", &killer, json!("no abort"), json!({ "abort": how }));
        let tmp = format!("{}.k", tmp_out);
        r.write(&tmp);
        merge(&mut acc, &serde_json::from_str(&std::fs::read_to_string(&tmp).unwrap()).unwrap());
        let _ = std::fs::remove_file(&tmp);
        killers += 1;
        lo += bad;
        if killers >= 3 {
            aborted_after = Some(lo);
            break;
        }
    }
    if acc.is_null() {
        acc = json!({"evaluated": 0, "distinct": 0, "nontrivial": 0, "failed": 0, "fail_keys": {}, "failures": [], "samples": []});
    }
    if let Some(n) = aborted_after {
        acc["stopped_after_3_aborts_at_line"] = json!(n);
    }
    let _ = std::fs::remove_file(&tmp_in);
    let _ = std::fs::remove_file(&tmp_out);
    std::fs::write(&out, acc.to_string()).expect("write report");
    0
}

/// Run a drive sub-command isolated: on abnormal death the report (--report) carries one failure
/// with key "abort" and the trace file is left empty.
pub fn run_drive(args: &Args, worker: fn(&Args) -> i32) -> i32 {
    if is_child() {
        return worker(args);
    }
    let exe = std::env::current_exe().expect("current_exe");
    let mut c = Command::new(exe);
    c.arg(&args.cmd).arg(&args.sub);
    for (k, v) in &args.opts {
        c.arg(format!("--{}", k)).arg(v);
    }
    c.env("CVH_CHILD", "1");
    match c.status() {
        Ok(s) if s.success() => 0,
        Ok(s) if s.code() == Some(2) => 2,
        Ok(s) => {
            let mut r = Report::new();
            let b = json!({"drive": args.sub, "seed": args.seed()});
            r.case(&b, true);
            r.fail("abort", &b, json!("no abort"), json!({"abort": format!("{:?}", s)}));
            if let Some(p) = args.get("report") {
                r.write(p);
            }
            if let Some(p) = args.get("out") {
                let _ = std::fs::write(p, "");
            }
            0
        }
        Err(e) => {
            eprintln!("cannot spawn child: {}", e);
            2
        }
    }
}
