#![allow(dead_code)]
//! cvh — conformance harness binding the TLA+ specifications under /verif/tla to the real
//! calamine built from /repo's working tree (path dependency, --cfg calamine_verif).
//!
//!   cvh replay <spec> --in behaviours.ndjson --out report.json [opts]   (spec -> code)
//!   cvh drive  <spec> --out trace.ndjson [--n N] [opts]                 (code -> spec traces)
mod build;
mod common;
mod isolate;
mod observe;
mod props;

#[allow(unused_imports)]
use common::Args;

fn main() {
    common::install_panic_hook();
    let args = Args::parse();
    let code = match (args.cmd.as_str(), args.sub.as_str()) {
        ("replay", "range") => props::range::replay(&args),
        ("drive", "range") => props::range::drive(&args),
        ("replay", "cfb") => isolate::run_replay(&args, props::cfb::replay),
        ("drive", "cfb") => isolate::run_drive(&args, props::cfb::drive),
        ("replay", "biffcells") => isolate::run_replay(&args, props::biff::replay_cells),
        ("replay", "rk") => props::biff::replay_rk(&args),
        ("replay", "sst") => isolate::run_replay(&args, props::sst::replay),
        ("drive", "sst") => isolate::run_drive(&args, props::sst::drive),
        ("drive", "biffcells") => isolate::run_drive(&args, props::biff::drive_cells),
        _ => {
            eprintln!("unknown command {} {}", args.cmd, args.sub);
            2
        }
    };
    std::process::exit(code);
}
