#![allow(dead_code)]
//! cvh — conformance harness binding the TLA+ specifications under /verif/tla to the real
//! calamine built from /repo's working tree (path dependency, --cfg calamine_verif).
//!
//!   cvh replay <spec> --in behaviours.ndjson --out report.json [opts]   (spec -> code)
//!   cvh drive  <spec> --out trace.ndjson [--n N] [opts]                 (code -> spec traces)
mod alloc;
mod build;
mod common;
mod fixtures;
mod isolate;
mod observe;
mod par;
mod props;

#[global_allocator]
static GLOBAL: alloc::Counting = alloc::Counting;

#[allow(unused_imports)]
use common::Args;

fn main() {
    common::install_panic_hook();
    let args = Args::parse();
    let code = match (args.cmd.as_str(), args.sub.as_str()) {
        ("replay", "range") => props::range::replay(&args),
        ("drive", "range") => props::range::drive(&args),
        ("replay", "xlsx_sheet") => props::xlsx_sheet::replay(&args),
        ("drive", "xlsx_sheet") => props::xlsx_sheet::drive(&args),
        ("replay", "xlsx_strings") => props::xlsx_strings::replay(&args),
        ("drive", "xlsx_strings") => props::xlsx_strings::drive(&args),
        ("replay", "shared_formula") => props::shared_formula::replay(&args),
        ("drive", "shared_formula") => props::shared_formula::drive(&args),
        ("replay", "numfmt") => props::numfmt::replay(&args),
        ("drive", "numfmt") => props::numfmt::drive(&args),
        ("replay", "numfmt_builtin") => props::numfmt::builtin_files(&args),
        ("replay", "numfmt_xlsb") => props::numfmt::replay_xlsb(&args),
        ("replay", "xlsbstyles") => props::numfmt::replay_xlsb_styles(&args),
        ("drive", "dates") => props::dates::drive(&args),
        ("replay", "xlsx_tables") => props::xlsx_tables::replay(&args),
        ("drive", "xlsx_tables") => props::xlsx_tables::drive(&args),
        ("replay", "api") => props::api::replay(&args),
        ("replay", "protected") => props::protected::replay(&args),
        ("drive", "protected") => props::protected::drive(&args),
        ("replay", "metadata") => props::metadata::replay(&args),
        ("drive", "metadata") => props::metadata::drive(&args),
        ("faults", "fields") => props::faults::write_fields(&args),
        ("faults", "child") => props::faults::child(&args),
        ("faults", "dump") => props::faults::dump(&args),
        ("faults", "run") => props::faults::run(&args),
        ("replay", "ods_text") => props::ods_text::replay(&args),
        ("replay", "stream") => props::stream::replay(&args),
        ("drive", "stream") => props::stream::drive(&args),
        ("drive", "families") => props::families::drive(&args),
        ("drive", "bigsst") => props::bigsst::drive(&args),
        ("replay", "datatype") => props::datatype::replay(&args),
        ("replay", "dims") => props::datatype::replay_dims(&args),
        ("replay", "pictures") => props::pictures::replay(&args),
        ("drive", "pictures") => props::pictures::drive(&args),
        ("replay", "range_views") => props::range_views::replay(&args),
        ("drive", "range_views") => props::range_views::drive(&args),
        ("replay", "stored_formula") => props::stored_formula::replay(&args),
        ("drive", "stored_formula") => props::stored_formula::drive(&args),
        ("replay", "bin_text") => props::bin_text::replay(&args),
        ("drive", "bin_text") => props::bin_text::drive(&args),
        ("replay", "xls_merge") => props::xls_merge::replay(&args),
        ("replay", "ovba") => props::vba::replay_ovba(&args),
        ("replay", "vbadir") => props::vba::replay_vbadir(&args),
        ("drive", "ovba") => props::vba::drive(&args),
        ("replay", "de") => props::de::replay(&args),
        ("drive", "de") => props::de::drive(&args),
        ("replay", "cfb") => isolate::run_replay(&args, props::cfb::replay),
        ("drive", "cfb") => isolate::run_drive(&args, props::cfb::drive),
        ("replay", "ods") => props::ods::replay(&args),
        ("drive", "ods") => props::ods::drive(&args),
        ("drive", "odsfile") => props::ods::file(&args),
        ("replay", "xlsb") => props::xlsb::replay(&args),
        ("replay", "xlsbframes") => props::xlsb::frames(&args),
        ("drive", "xlsb") => props::xlsb::drive(&args),
        ("drive", "fixtures") => fixtures::drive(&args),
        ("replay", "biffcells") => isolate::run_replay(&args, props::biff::replay_cells),
        ("replay", "rk") => props::biff::replay_rk(&args),
        ("replay", "ptg8") => isolate::run_replay(&args, props::ptg8::replay_ptg8),
        ("replay", "lbl8") => isolate::run_replay(&args, props::ptg8::replay_lbl8),
        ("replay", "sst") => isolate::run_replay(&args, props::sst::replay),
        ("drive", "sst") => isolate::run_drive(&args, props::sst::drive),
        ("drive", "biffcells") => isolate::run_drive(&args, props::biff::drive_cells),
        ("replay", "biff5") => props::biff5::replay(&args),
        ("drive", "biff5") => props::biff5::drive(&args),
        ("replay", "xlsbfmla") => props::xlsb_fmla::replay(&args),
        ("replay", "xlsbcols") => props::xlsb_fmla::columns(&args),
        _ => {
            eprintln!("unknown command {} {}", args.cmd, args.sub);
            2
        }
    };
    std::process::exit(code);
}
