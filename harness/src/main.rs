#![allow(dead_code)]
//! cvh — conformance harness binding the TLA+ specifications under /verif/tla to the real
//! calamine built from /repo's working tree (path dependency, --cfg calamine_verif).
//!
//!   cvh replay <spec> --in behaviours.ndjson --out report.json [opts]   (spec -> code)
//!   cvh drive  <spec> --out trace.ndjson [--n N] [opts]                 (code -> spec traces)
mod build;
mod common;
mod observe;
mod par;
mod props;

#[allow(unused_imports)]
use common::Args;

fn main() {
    common::install_panic_hook();
    let args = Args::parse();
    let code = match (args.cmd.as_str(), args.sub.as_str()) {
        ("replay", "range") => props::range::replay(&args),
        ("drive", "range") => props::range::drive(&args),
        ("replay", "ods") => props::ods::replay(&args),
        ("drive", "ods") => props::ods::drive(&args),
        ("drive", "odsfile") => props::ods::file(&args),
        ("replay", "xlsb") => props::xlsb::replay(&args),
        ("replay", "xlsbframes") => props::xlsb::frames(&args),
        ("drive", "xlsb") => props::xlsb::drive(&args),
        _ => {
            eprintln!("unknown command {} {}", args.cmd, args.sub);
            2
        }
    };
    std::process::exit(code);
}
