//! calamine values -> canonical JSON (shared by all property modules).
use calamine::{CellErrorType, Data, DataRef, Range};
use serde_json::{json, Value};

pub fn err_name(e: &CellErrorType) -> &'static str {
    match e {
        CellErrorType::Div0 => "Div0",
        CellErrorType::NA => "NA",
        CellErrorType::Name => "Name",
        CellErrorType::Null => "Null",
        CellErrorType::Num => "Num",
        CellErrorType::Ref => "Ref",
        CellErrorType::Value => "Value",
        CellErrorType::GettingData => "GettingData",
    }
}

/// tagged value: ["_"] ["i",n] ["f","1.5"] ["s",".."] ["b",true] ["e","Div0"]
/// ["dt","44000.5","d"|"t",is1904] ["iso",".."] ["dur",".."]
pub fn data_json(d: &Data) -> Value {
    match d {
        Data::Empty => json!(["_"]),
        Data::Int(i) => json!(["i", i]),
        Data::Float(f) => json!(["f", format!("{:?}", f)]),
        Data::String(s) => json!(["s", s]),
        Data::Bool(b) => json!(["b", b]),
        Data::Error(e) => json!(["e", err_name(e)]),
        Data::DateTime(dt) => json!(["dt", format!("{:?}", dt.as_f64()),
                                    if dt.is_duration() { "t" } else { "d" }, is_1904(dt)]),
        Data::DateTimeIso(s) => json!(["iso", s]),
        Data::DurationIso(s) => json!(["dur", s]),
    }
}

/// the 1900/1904 flag is not exposed by an accessor; it is observed through the calendar
/// conversion (C11): serial 0 is 1904-01-01 in the 1904 system
pub fn is_1904(dt: &calamine::ExcelDateTime) -> bool {
    let probe = calamine::ExcelDateTime::new(dt.as_f64(), calamine::ExcelDateTimeType::DateTime, true);
    dt.as_datetime() == probe.as_datetime()
        && calamine::ExcelDateTime::new(dt.as_f64(), calamine::ExcelDateTimeType::DateTime, false).as_datetime() != dt.as_datetime()
}

pub fn dataref_json(d: &DataRef<'_>) -> Value {
    data_json(&Data::from(d.clone()))
}

/// numeric reading of a cell: Int n and Float n are the same number
pub fn as_number(d: &Data) -> Option<f64> {
    match d {
        Data::Int(i) => Some(*i as f64),
        Data::Float(f) => Some(*f),
        _ => None,
    }
}

/// {"start":[r,c]|[], "end":[r,c]|[], "cells":[[r,c,val],...]} — absolute positions of the
/// non-Empty cells in row-major order; also checks rows()/get_size() are consistent
pub fn range_json(r: &Range<Data>) -> Value {
    let p2 = |p: Option<(u32, u32)>| match p {
        Some((a, b)) => json!([a, b]),
        None => json!([]),
    };
    let mut cells = Vec::new();
    let (h, w) = r.get_size();
    let mut shape_ok = r.rows().count() == h;
    if let Some(s) = r.start() {
        for (ri, row) in r.rows().enumerate() {
            if row.len() != w {
                shape_ok = false;
            }
            for (ci, v) in row.iter().enumerate() {
                if *v != Data::Empty {
                    cells.push(json!([s.0 as u64 + ri as u64, s.1 as u64 + ci as u64, data_json(v)]));
                }
            }
        }
    }
    let mut o = json!({"start": p2(r.start()), "end": p2(r.end()), "cells": cells});
    if !shape_ok {
        o["shape"] = json!("rows()/get_size() inconsistent");
    }
    o
}

pub fn string_range_json(r: &Range<String>) -> Value {
    let p2 = |p: Option<(u32, u32)>| match p {
        Some((a, b)) => json!([a, b]),
        None => json!([]),
    };
    let mut cells = Vec::new();
    if let Some(s) = r.start() {
        for (ri, row) in r.rows().enumerate() {
            for (ci, v) in row.iter().enumerate() {
                if !v.is_empty() {
                    cells.push(json!([s.0 as u64 + ri as u64, s.1 as u64 + ci as u64, v]));
                }
            }
        }
    }
    json!({"start": p2(r.start()), "end": p2(r.end()), "cells": cells})
}
