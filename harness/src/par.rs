//! Parallel replay: behaviours are read line by line and handed in batches to a small pool of
//! worker threads, each with its own `Report`; the reports are merged at the end.
//! `f(report, index, behaviour)` — index is the 1-based line number (stable across runs).
use crate::common::Report;
use serde_json::Value;
use std::io::{BufRead, BufReader};
use std::sync::mpsc::sync_channel;
use std::sync::{Arc, Mutex};

pub fn threads() -> usize {
    std::env::var("VERIF_THREADS").ok().and_then(|s| s.parse().ok()).unwrap_or(6)
}

pub fn merge(into: &mut Report, from: Report) {
    into.evaluated += from.evaluated;
    into.failed += from.failed;
    into.distinct.extend(from.distinct);
    into.nontrivial.extend(from.nontrivial);
    for (k, n) in from.fail_keys {
        *into.fail_keys.entry(k).or_insert(0) += n;
    }
    for f in from.failures {
        let key = f["key"].as_str().unwrap_or("").to_string();
        let have = into.failures.iter().filter(|g| g["key"] == key.as_str()).count();
        if have < 3 && into.failures.len() < 200 {
            into.failures.push(f);
        }
    }
    for s in from.samples {
        if into.samples.len() < 3 {
            into.samples.push(s);
        }
    }
}

pub fn par_replay<F>(path: &str, f: F) -> Report
where
    F: Fn(&mut Report, u64, &Value) + Send + Sync + 'static,
{
    let file = std::fs::File::open(path).unwrap_or_else(|e| {
        eprintln!("cannot open {}: {}", path, e);
        std::process::exit(2)
    });
    let n = threads().max(1);
    let (tx, rx) = sync_channel::<Vec<(u64, String)>>(n * 2);
    let rx = Arc::new(Mutex::new(rx));
    let f = Arc::new(f);
    let mut handles = Vec::new();
    for _ in 0..n {
        let rx = rx.clone();
        let f = f.clone();
        handles.push(std::thread::Builder::new().stack_size(64 << 20).spawn(move || {
            let mut rep = Report::new();
            loop {
                let batch = match rx.lock().unwrap().recv() {
                    Ok(b) => b,
                    Err(_) => break,
                };
                for (i, line) in batch {
                    match serde_json::from_str::<Value>(&line) {
                        Ok(v) => f(&mut rep, i, &v),
                        Err(e) => {
                            eprintln!("bad json line {}: {}", i, e);
                            std::process::exit(2)
                        }
                    }
                }
            }
            rep
        }).unwrap());
    }
    let mut batch = Vec::with_capacity(512);
    let mut i = 0u64;
    for line in BufReader::new(file).lines() {
        let line = line.unwrap();
        if line.trim().is_empty() {
            continue;
        }
        i += 1;
        batch.push((i, line));
        if batch.len() == 512 {
            tx.send(std::mem::replace(&mut batch, Vec::with_capacity(512))).unwrap();
        }
    }
    if !batch.is_empty() {
        tx.send(batch).unwrap();
    }
    drop(tx);
    let mut total = Report::new();
    for h in handles {
        match h.join() {
            Ok(r) => merge(&mut total, r),
            Err(_) => {
                eprintln!("replay worker died");
                std::process::exit(2)
            }
        }
    }
    total
}
