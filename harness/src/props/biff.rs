//! C02 — BIFF8 cell records.
//! replay cells: token lists printed by MC_BiffCells -> real BIFF8 workbook stream (build/biff.rs)
//!               inside the canonical compound file -> Xls::new -> worksheet_range, compared with
//!               the ideal range (numbers numerically, variant where the ideal names one).
//! replay rk   : RK words printed by MC_Rk -> calamine::verif::rk_num.
//! drive cells : random sheets (rows <= 65535, cols <= 255, thousands of cells, random exact
//!               encodings, MULRK runs, formulas with strings, ignorable records); logs one event
//!               per record and the observed range; Trace_BiffCells.tla validates the log.
use crate::build::biff::{self, FRes, Rec, Sheet, Sst, Workbook, XlStr};
use crate::common::*;
use crate::observe;
use calamine::{Data, Reader, Xls};
use rand::rngs::StdRng;
use rand::{Rng, SeedableRng};
use serde_json::{json, Value};
use std::io::{Cursor, Write};

/// number classes of MC_BiffCells (ClsValT), as IEEE doubles
pub const CLASS: [f64; 11] = [0.0, 1.0, -1.0, 536870911.0, -536870912.0, 1.5, 12.34, 0.07, 1e300, -0.0, 100.0];

pub fn str_of(id: &str) -> &'static str {
    match id {
        "s0" => "r\u{e9}sum\u{e9}",
        "s1" => "caf\u{e9}",
        "" => "",
        _ => "?",
    }
}

fn rk_for(v: f64, enc: &str) -> Option<u32> {
    biff::rk_exact_encodings(v).into_iter().find(|(_, k)| *k == enc).map(|x| x.0)
}

/// raw RK word of a model word [int, x100, p]; for double payloads `bits30` gives the top 30 bits
fn model_rk_int(rk: &Value) -> Option<u32> {
    if rk["int"].as_bool()? {
        let p = rk["p"].as_u64()? as u32;
        Some((p << 2) | 2 | rk["x100"].as_bool()? as u32)
    } else {
        None
    }
}

fn u16of(v: &Value) -> u16 {
    v.as_u64().unwrap() as u16
}

/// tokens -> records of one sheet; Err = inconsistency between the model's tables and the harness's
pub fn tokens_to_recs(toks: &[Value]) -> Result<(Vec<Rec>, bool), String> {
    let mut recs = Vec::new();
    let mut dims = false;
    let mut xf = 0u16;
    for t in toks {
        xf = (xf + 1) % 3;
        let k = t["k"].as_str().unwrap();
        match k {
            "dims" => dims = true,
            "number" => recs.push(Rec::Number { r: u16of(&t["r"]), c: u16of(&t["c"]), xf, v: CLASS[t["n"].as_u64().unwrap() as usize] }),
            "rk" => {
                let v = CLASS[t["n"].as_u64().unwrap() as usize];
                let enc = t["enc"].as_str().unwrap();
                let rk = rk_for(v, enc).ok_or_else(|| format!("encoding {} is not exact for {}", enc, v))?;
                if let Some(m) = model_rk_int(&t["rk"]) {
                    if m != rk {
                        return Err(format!("model RK word {:#x} != harness {:#x} for {} {}", m, rk, v, enc));
                    }
                }
                recs.push(Rec::Rk { r: u16of(&t["r"]), c: u16of(&t["c"]), xf, rk });
            }
            "mulrk" => {
                let mut items = Vec::new();
                for (j, m) in t["ms"].as_array().unwrap().iter().enumerate() {
                    let v = CLASS[m["n"].as_u64().unwrap() as usize];
                    let enc = m["enc"].as_str().unwrap();
                    let rk = rk_for(v, enc).ok_or_else(|| format!("encoding {} is not exact for {}", enc, v))?;
                    if let Some(mw) = model_rk_int(&t["rks"][j]) {
                        if mw != rk {
                            return Err(format!("model RK word {:#x} != harness {:#x}", mw, rk));
                        }
                    }
                    items.push(((xf + j as u16) % 3, rk));
                }
                recs.push(Rec::MulRk { r: u16of(&t["r"]), c0: u16of(&t["c"]), items });
            }
            "labelsst" => recs.push(Rec::LabelSst { r: u16of(&t["r"]), c: u16of(&t["c"]), xf, isst: t["isst"].as_u64().unwrap() as u32 }),
            "label" => recs.push(Rec::Label {
                r: u16of(&t["r"]),
                c: u16of(&t["c"]),
                xf,
                s: XlStr::with_storage(str_of(t["s"].as_str().unwrap()), t["hi"].as_bool().unwrap()),
            }),
            "boolerr" => recs.push(Rec::BoolErr { r: u16of(&t["r"]), c: u16of(&t["c"]), xf, v: t["v"].as_u64().unwrap() as u8, is_err: t["err"].as_u64().unwrap() == 1 }),
            "formula" => {
                let res = &t["res"];
                let fr = match res["t"].as_str().unwrap() {
                    "num" => FRes::Num(CLASS[res["n"].as_u64().unwrap() as usize]),
                    "str" => FRes::Str,
                    "bool" => FRes::Bool(res["v"].as_u64().unwrap() != 0),
                    "err" => FRes::Err(res["v"].as_u64().unwrap() as u8),
                    _ => FRes::Blank,
                };
                recs.push(Rec::Formula { r: u16of(&t["r"]), c: u16of(&t["c"]), xf, res: fr, shared: t.get("shr").is_some() });
            }
            "shrfmla" => recs.push(Rec::ShrFmla { r0: u16of(&t["r"]), r1: u16of(&t["r"]), c0: u16of(&t["c"]) as u8, c1: u16of(&t["c"]) as u8 }),
            "string" => recs.push(Rec::StringRec { s: XlStr::with_storage(str_of(t["s"].as_str().unwrap()), t["hi"].as_bool().unwrap()) }),
            "blank" => recs.push(Rec::Blank { r: u16of(&t["r"]), c: u16of(&t["c"]), xf }),
            "mulblank" => recs.push(Rec::MulBlank { r: u16of(&t["r"]), c0: u16of(&t["c"]), n: u16of(&t["n"]) }),
            "row" => recs.push(Rec::Row { r: u16of(&t["r"]), c0: 0, c1: 256 }),
            "dbcell" => recs.push(Rec::DbCell),
            "unknown" => recs.push(Rec::Unknown { typ: 0x0FFD, len: 5 }),
            other => return Err(format!("unknown token {}", other)),
        }
    }
    Ok((recs, dims))
}

/// DIMENSIONS of the used range (all cell records, blanks included), as a writer computes it
pub fn dims_of(recs: &[Rec]) -> (u32, u32, u16, u16) {
    let mut b: Option<(u32, u32, u16, u16)> = None;
    let mut add = |r: u16, c0: u16, c1: u16| {
        let r = r as u32;
        b = Some(match b {
            None => (r, r + 1, c0, c1 + 1),
            Some((a, z, x, y)) => (a.min(r), z.max(r + 1), x.min(c0), y.max(c1 + 1)),
        });
    };
    for x in recs {
        match x {
            Rec::Number { r, c, .. } | Rec::Rk { r, c, .. } | Rec::LabelSst { r, c, .. } | Rec::Label { r, c, .. } | Rec::BoolErr { r, c, .. } | Rec::Formula { r, c, .. } | Rec::Blank { r, c, .. } => add(*r, *c, *c),
            Rec::MulRk { r, c0, items } => add(*r, *c0, *c0 + items.len() as u16 - 1),
            Rec::MulBlank { r, c0, n } => add(*r, *c0, *c0 + *n - 1),
            _ => {}
        }
    }
    b.unwrap_or((0, 0, 0, 0))
}

pub fn workbook_for(recs: Vec<Rec>, dims: bool, variant: u64, sst: &[String]) -> Workbook {
    let mut wb = Workbook::default();
    wb.xfs = vec![0, 2, 0];
    // the CODEPAGE record does not govern BIFF8 strings: 1200 (what Excel writes), 1252, absent
    wb.codepage = match variant % 3 { 0 => Some(1200), 1 => Some(1252), _ => None };
    if variant % 4 == 1 {
        wb.date1904 = Some(false);
    }
    wb.sst = Sst::Strings(sst.iter().map(|id| if id.is_empty() { XlStr::new("") } else { XlStr::new(str_of(id)) }).collect());
    let d = if dims { Some(dims_of(&recs)) } else { None };
    let main = Sheet { name: XlStr::new("Sheet1"), dims: d, recs };
    let other = Sheet { name: XlStr::new("Other"), dims: None, recs: vec![Rec::Number { r: 3, c: 4, xf: 0, v: 42.5 }] };
    if variant % 2 == 0 {
        wb.sheets = vec![main, other];
    } else {
        wb.sheets = vec![other, main];
    }
    wb
}

pub fn read_sheet(file: &[u8], name: &str) -> Value {
    match catch(|| match Xls::new(Cursor::new(file.to_vec())) {
        Err(e) => json!({"err": e.to_string()}),
        Ok(mut x) => match x.worksheet_range(name) {
            Ok(r) => observe::range_json(&r),
            Err(e) => json!({"err": e.to_string()}),
        },
    }) {
        Ok(v) => v,
        Err(p) => json!({ "panic": p }),
    }
}

/// the number a model value [m, s] / [cls, sc] denotes (one division for s = 1)
fn model_number(v: &Value) -> Option<f64> {
    if let Some(m) = v.get("m") {
        let m = m.as_i64()? as f64;
        let s = v["s"].as_i64()?;
        Some(match s {
            0 => m,
            1 => m / 100.0,
            2 => m / 10000.0,
            s if s < 0 => m * 100f64.powi(-s as i32),
            _ => return None,
        })
    } else {
        let c = CLASS[v["cls"].as_u64()? as usize];
        match v["sc"].as_i64()? {
            0 => Some(c),
            -1 => Some(c / 100.0),
            1 => Some(c * 100.0),
            _ => None,
        }
    }
}

/// does the observed cell value (observe::data_json form) satisfy the ideal model value?
fn value_ok(obs: &Value, ideal: &Value) -> bool {
    let tag = obs[0].as_str().unwrap_or("");
    match ideal["t"].as_str().unwrap_or("") {
        t @ ("i" | "f" | "any") => {
            let want = match model_number(ideal) {
                Some(x) => x,
                None => return false,
            };
            let got = match tag {
                "i" => obs[1].as_i64().map(|x| x as f64),
                "f" => obs[1].as_str().and_then(|s| s.parse::<f64>().ok()),
                _ => None,
            };
            got == Some(want) && (t == "any" || t == tag)
        }
        "s" => tag == "s" && obs[1].as_str() == Some(str_of(ideal["v"].as_str().unwrap_or(""))),
        "b" => tag == "b" && obs[1] == ideal["b"],
        "e" => tag == "e" && obs[1] == ideal["e"],
        _ => false,
    }
}

fn range_ok(obs: &Value, ideal: &Value) -> bool {
    if obs.get("shape").is_some() || obs.get("cells").is_none() {
        return false;
    }
    if obs["start"] != ideal["start"] || obs["end"] != ideal["end"] {
        return false;
    }
    let mut want: Vec<&Value> = ideal["cells"].as_array().map(|a| a.iter().collect()).unwrap_or_default();
    want.sort_by_key(|c| (c["p"][0].as_u64().unwrap(), c["p"][1].as_u64().unwrap()));
    let got = obs["cells"].as_array().unwrap();
    got.len() == want.len()
        && got.iter().zip(want.iter()).all(|(g, w)| g[0] == w["p"][0] && g[1] == w["p"][1] && value_ok(&g[2], &w["v"]))
}

pub fn replay_cells(args: &Args) -> i32 {
    let mut rep = Report::new();
    let other_expected = json!({"start": [3, 4], "end": [3, 4], "cells": [[3, 4, ["f", "42.5"]]]});
    let mut idx = 0u64;
    for b in read_ndjson(args.req("in")) {
        idx += 1;
        let toks = b["tokens"].as_array().unwrap();
        let (recs, dims) = match tokens_to_recs(toks) {
            Ok(x) => x,
            Err(e) => {
                eprintln!("harness: {}", e);
                return 2;
            }
        };
        let ncells = b["ideal"]["cells"].as_array().map_or(0, |a| a.len());
        rep.case(&b["tokens"], ncells > 0);
        let sst: Vec<String> = b["sst"].as_array().map(|a| a.iter().map(|x| x.as_str().unwrap_or("").to_string()).collect()).unwrap_or_else(|| vec!["s0".into(), "s1".into()]);
        let wb = workbook_for(recs, dims, idx, &sst);
        let file = biff::xls_bytes(&wb);
        let obs = read_sheet(&file, "Sheet1");
        let ideal = &b["ideal"];
        if !range_ok(&obs, ideal) {
            rep.fail("unexplained", &b, ideal.clone(), obs);
        } else {
            let o2 = read_sheet(&file, "Other");
            if o2 != other_expected {
                rep.fail("unexplained", &b, json!({"Other": other_expected}), json!({ "Other": o2 }));
            }
        }
        if rep.evaluated % 4999 == 1 {
            rep.sample(json!({"tokens": b["tokens"], "ideal": ideal}));
        }
    }
    rep.write(args.req("out"));
    0
}

// ------------------------------------------------------------------ RK sub-model
fn rk_word(rk: &Value) -> u32 {
    let x100 = rk["x100"].as_bool().unwrap() as u32;
    if rk["int"].as_bool().unwrap() {
        ((rk["p"].as_u64().unwrap() as u32) << 2) | 2 | x100
    } else {
        ((rk["p"]["cls"].as_u64().unwrap() as u32) << 2) | x100
    }
}

pub fn replay_rk(args: &Args) -> i32 {
    let mut rep = Report::new();
    for b in read_ndjson(args.req("in")) {
        let rk = &b["rk"];
        let w = rk_word(rk);
        let mut bytes = vec![0u8, 0u8];
        bytes.extend_from_slice(&w.to_le_bytes());
        let obs = catch(|| calamine::verif::rk_num(&bytes, &[], false));
        let is_int = rk["int"].as_bool().unwrap();
        rep.case(&json!(w), rk["x100"].as_bool().unwrap() || (is_int && w >> 31 == 1));
        let ideal = &b["ideal"];
        let t = ideal["t"].as_str().unwrap();
        let ok = match &obs {
            Err(_) => false,
            Ok(d) => {
                if is_int {
                    let want = model_number(ideal);
                    let got = observe::as_number(d);
                    want.is_some() && got == want && (t == "any" || matches!((t, d), ("i", Data::Int(_)) | ("f", Data::Float(_))))
                } else {
                    // opaque double: top 30 bits given, optionally divided by 100 (trusted glue)
                    let pat = f64::from_bits(((w & 0xFFFF_FFFC) as u64) << 32);
                    let want = match ideal["sc"].as_i64().unwrap() {
                        0 => pat,
                        -1 => pat / 100.0,
                        _ => f64::NAN,
                    };
                    match d {
                        Data::Float(x) => x.to_bits() == want.to_bits() || (x.is_nan() && want.is_nan()),
                        Data::Int(i) => t == "any" && (*i as f64) == want,
                        _ => false,
                    }
                }
            }
        };
        if !ok {
            let o = match obs {
                Ok(d) => observe::data_json(&d),
                Err(p) => json!({ "panic": p }),
            };
            rep.fail("unexplained", &b, ideal.clone(), json!({"word": format!("{:#010x}", w), "observed": o}));
        }
        if rep.evaluated % 4999 == 1 {
            rep.sample(json!({"word": format!("{:#010x}", w), "ideal": ideal}));
        }
    }
    rep.write(args.req("out"));
    0
}

// ------------------------------------------------------------------ drive
/// strip factors of 100 like Rk!Norm
fn norm(mut m: i64, mut s: i64) -> (i64, i64) {
    if m == 0 {
        return (0, 0);
    }
    while m % 100 == 0 {
        m /= 100;
        s -= 1;
    }
    (m, s)
}

/// observed value in the model's terms, relative to the payload of the token that wrote the cell
fn obs_value(d: &Data, payload: &Value, strings: &[String]) -> Value {
    match d {
        Data::Int(v) => {
            let (m, s) = norm(*v, 0);
            json!({"t": "i", "m": m, "s": s})
        }
        Data::Float(x) => {
            if let Some(id) = payload.get("dbl") {
                // payload = an opaque double (bits in the driver's table): same bits, or /100
                let bits = payload["bits"].as_str().and_then(|s| u64::from_str_radix(s, 16).ok()).unwrap_or(0);
                let p = f64::from_bits(bits);
                let both = x.to_bits() == bits && x.to_bits() == (p / 100.0).to_bits();
                if both {
                    // the pattern is a zero: pattern and pattern/100 coincide; report the form the
                    // record's fX100 flag names (either is numerically the same value)
                    json!({"t": "f", "cls": id, "sc": if payload["x100"] == json!(true) { -1 } else { 0 }})
                } else if x.to_bits() == bits {
                    json!({"t": "f", "cls": id, "sc": 0})
                } else if *x == p / 100.0 {
                    json!({"t": "f", "cls": id, "sc": -1})
                } else {
                    json!({"t": "f", "cls": -1, "sc": 0})
                }
            } else if let Some(p) = payload.get("int").and_then(|v| v.as_i64()) {
                if *x == p as f64 / 100.0 {
                    let (m, s) = norm(p, 1);
                    json!({"t": "f", "m": m, "s": s})
                } else {
                    json!({"t": "f", "cls": -1, "sc": 0})
                }
            } else {
                json!({"t": "f", "cls": -1, "sc": 0})
            }
        }
        // (the empty text is its own id: a formula whose cached result is the blank string)
        Data::String(s) if s.is_empty() => json!({"t": "s", "v": ""}),
        Data::String(s) => match strings.iter().position(|t| t == s) {
            Some(i) => json!({"t": "s", "v": format!("str{}", i)}),
            None => json!({"t": "s", "v": "?"}),
        },
        Data::Bool(b) => json!({"t": "b", "b": b}),
        Data::Error(e) => json!({"t": "e", "e": observe::err_name(e)}),
        other => json!({"t": "?", "v": format!("{:?}", other)}),
    }
}

pub fn drive_cells(args: &Args) -> i32 {
    let n = args.num("n", 20);
    let max_cells = args.num("cells", 3000) as usize;
    let full = args.num("full", 0); // sheets spanning rows 0..65535 x cols 0..255
    let mut rng = StdRng::seed_from_u64(args.seed());
    let mut out = std::io::BufWriter::new(std::fs::File::create(args.req("out")).unwrap());
    let mut rep = Report::new();
    let errs = [0u8, 7, 15, 23, 29, 36, 42, 43];
    let mut total_cells = 0u64;
    for run in 0..(n + full) {
        // window of the sheet
        let (r0, r1, c0, c1) = if run >= n {
            (0u32, 65535u32, 0u32, 255u32)
        } else {
            match rng.gen_range(0..4) {
                0 => (0, rng.gen_range(0..400), 0, 255),
                1 => {
                    let a = rng.gen_range(0..65000);
                    (a, (a + rng.gen_range(0..3000)).min(65535), rng.gen_range(0..200), 255)
                }
                2 => (rng.gen_range(60000..65535), 65535, 0, rng.gen_range(0..256)),
                _ => (0, 65535, 250, 255),
            }
        };
        let (c0, c1) = if run < n && r1 - r0 > 5000 { (c0.max(c1.saturating_sub(6)), c1) } else { (c0, c1) };
        let nstr = rng.gen_range(1..40usize);
        // empty shared strings at the first, some middle and the last index; cells refer to the others
        let nstr = nstr + 2;
        let strings: Vec<String> = (0..nstr)
            // every sixth string is long: the 8-bit / 16-bit boundary of the character count (255, 256, 257) and beyond
            .map(|i| if i == 0 || i + 1 == nstr || (i % 5 == 3) { String::new() }
                 else if i % 6 == 1 { format!("long{}-{}", i, "y".repeat([255usize, 256, 257, 300, 1000][(i / 6) % 5] - 5 - i.to_string().len())) }
                 else { format!("str{}-{}", i, "x".repeat(i % 7)) })
            .collect();
        let pick_str = |rng: &mut StdRng| loop {
            let i = rng.gen_range(0..nstr);
            if !strings[i].is_empty() {
                break i;
            }
        };
        let want = rng.gen_range(1..=max_cells);
        let area = (r1 - r0 + 1) as u64 * (c1 - c0 + 1) as u64;
        let density = (want as f64 / area as f64).min(0.9);
        let mut recs: Vec<Rec> = Vec::new();
        let mut events: Vec<Value> = Vec::new();
        let mut payloads: Vec<((u32, u32), Value)> = Vec::new(); // per written cell, in record order
        let mut dbl_id = 0u64;
        // rows that have cells: sample
        let mut r = r0;
        let row_p = (density * (c1 - c0 + 1) as f64).min(1.0).max(0.0005);
        let mut cells_here = 0usize;
        while r <= r1 && cells_here < want {
            // skip rows geometrically when sparse
            if row_p < 0.5 && !rng.gen_bool(row_p.max(0.002)) && r != r0 && r != r1 {
                r += 1;
                continue;
            }
            if rng.gen_bool(0.2) {
                recs.push(Rec::Row { r: r as u16, c0: c0 as u16, c1: c1 as u16 + 1 });
                events.push(json!({"e": "tok", "k": "row", "r": r}));
            }
            let mut c = c0;
            let cell_p = if row_p < 0.5 { 0.3 } else { density.max(0.05) };
            while c <= c1 && cells_here < want {
                let force = (r == r0 && c == c0 && run >= n) || (r == r1 && c == c1 && run >= n);
                if !force && !rng.gen_bool(cell_p) {
                    c += 1;
                    continue;
                }
                let xf = rng.gen_range(0..3u16);
                let kind = rng.gen_range(0..20);
                let mut adv = 1u32;
                match kind {
                    0..=3 => {
                        // NUMBER: a random double
                        let v: f64 = match rng.gen_range(0..4) {
                            0 => rng.gen_range(-1e6..1e6),
                            1 => (rng.gen_range(-100000..100000) as f64) / 100.0,
                            2 => f64::from_bits(rng.gen::<u64>() & 0x7FEF_FFFF_FFFF_FFFF | (rng.gen::<u64>() & (1 << 63))),
                            _ => rng.gen_range(-1000..1000) as f64,
                        };
                        dbl_id += 1;
                        recs.push(Rec::Number { r: r as u16, c: c as u16, xf, v });
                        events.push(json!({"e": "tok", "k": "number", "r": r, "c": c, "n": dbl_id}));
                        payloads.push(((r, c), json!({"dbl": dbl_id, "bits": format!("{:x}", v.to_bits())})));
                    }
                    4..=7 => {
                        // RK with a random raw word
                        let (rk, ev, pl) = random_rk(&mut rng, &mut dbl_id);
                        recs.push(Rec::Rk { r: r as u16, c: c as u16, xf, rk });
                        events.push(json!({"e": "tok", "k": "rk", "r": r, "c": c, "rk": ev}));
                        payloads.push(((r, c), pl));
                    }
                    8..=10 => {
                        // MULRK run
                        let len = rng.gen_range(2..=12u32).min(c1 - c + 1);
                        if len < 2 {
                            c += 1;
                            continue;
                        }
                        let mut items = Vec::new();
                        let mut evs = Vec::new();
                        for j in 0..len {
                            let (rk, ev, pl) = random_rk(&mut rng, &mut dbl_id);
                            items.push((rng.gen_range(0..3u16), rk));
                            evs.push(ev);
                            payloads.push(((r, c + j), pl));
                        }
                        recs.push(Rec::MulRk { r: r as u16, c0: c as u16, items });
                        events.push(json!({"e": "tok", "k": "mulrk", "r": r, "c": c, "rks": evs}));
                        adv = len;
                    }
                    11..=12 => {
                        let isst = pick_str(&mut rng);
                        recs.push(Rec::LabelSst { r: r as u16, c: c as u16, xf, isst: isst as u32 });
                        events.push(json!({"e": "tok", "k": "labelsst", "r": r, "c": c, "isst": isst}));
                        payloads.push(((r, c), json!({})));
                    }
                    13 => {
                        let i = pick_str(&mut rng);
                        let hi = rng.gen_bool(0.5);
                        recs.push(Rec::Label { r: r as u16, c: c as u16, xf, s: XlStr::with_storage(&strings[i], hi) });
                        events.push(json!({"e": "tok", "k": "label", "r": r, "c": c, "s": format!("str{}", i), "hi": hi}));
                        payloads.push(((r, c), json!({})));
                    }
                    14 => {
                        let is_err = rng.gen_bool(0.5);
                        let v = if is_err { errs[rng.gen_range(0..8)] } else { rng.gen_range(0..2u8) };
                        recs.push(Rec::BoolErr { r: r as u16, c: c as u16, xf, v, is_err });
                        events.push(json!({"e": "tok", "k": "boolerr", "r": r, "c": c, "v": v, "err": is_err as u8}));
                        payloads.push(((r, c), json!({})));
                    }
                    15..=17 => {
                        let (res, rj, pl) = match rng.gen_range(0..5) {
                            0 => {
                                let v: f64 = rng.gen_range(-1e9..1e9);
                                // every other cached number has one of the marker values of the non-numeric results
                                // (0 string, 1 boolean, 2 error, 3 blank) in its lowest byte: it is still a number,
                                // because its two highest bytes are not FF FF
                                let v = if rng.gen_bool(0.5) { f64::from_bits((v.to_bits() & !0xFF) | rng.gen_range(0..4u64)) } else { v };
                                dbl_id += 1;
                                (FRes::Num(v), json!({"t": "num", "n": dbl_id}), json!({"dbl": dbl_id, "bits": format!("{:x}", v.to_bits())}))
                            }
                            1 => (FRes::Bool(rng.gen_bool(0.5)), Value::Null, json!({})),
                            2 => (FRes::Err(errs[rng.gen_range(0..8)]), Value::Null, json!({})),
                            3 => (FRes::Blank, json!({"t": "empty"}), json!({})),
                            _ => (FRes::Str, json!({"t": "str"}), json!({})),
                        };
                        let rj = match &res {
                            FRes::Bool(b) => json!({"t": "bool", "v": *b as u8}),
                            FRes::Err(e) => json!({"t": "err", "v": e}),
                            _ => rj,
                        };
                        let shared = matches!(res, FRes::Str) && rng.gen_bool(0.3);
                        recs.push(Rec::Formula { r: r as u16, c: c as u16, xf, res: res.clone(), shared });
                        events.push(json!({"e": "tok", "k": "formula", "r": r, "c": c, "res": rj}));
                        if matches!(res, FRes::Str) {
                            if shared {
                                recs.push(Rec::ShrFmla { r0: r as u16, r1: r as u16, c0: c as u8, c1: c as u8 });
                                events.push(json!({"e": "tok", "k": "shrfmla"}));
                            }
                            let i = pick_str(&mut rng);
                            let hi = rng.gen_bool(0.5);
                            recs.push(Rec::StringRec { s: XlStr::with_storage(&strings[i], hi) });
                            events.push(json!({"e": "tok", "k": "string", "s": format!("str{}", i), "hi": hi}));
                        }
                        payloads.push(((r, c), pl));
                    }
                    18 => {
                        recs.push(Rec::Blank { r: r as u16, c: c as u16, xf });
                        events.push(json!({"e": "tok", "k": "blank", "r": r, "c": c}));
                    }
                    _ => {
                        let typ = [0x0FFDu16, 0x00D7, 0x0867, 0x001D][rng.gen_range(0..4)];
                        recs.push(Rec::Unknown { typ, len: rng.gen_range(0..40) });
                        events.push(json!({"e": "tok", "k": "unknown"}));
                        adv = 0;
                    }
                }
                if adv > 0 {
                    cells_here += adv as usize;
                }
                c += adv;
            }
            r += 1;
        }
        total_cells += cells_here as u64;
        let dims = rng.gen_bool(0.7);
        let mut wb = Workbook::default();
        wb.xfs = vec![0, 2, 0];
        wb.sst = Sst::Strings(strings.iter().map(|s| XlStr::new(s)).collect());
        wb.sheets = vec![Sheet { name: XlStr::new("Sheet1"), dims: if dims { Some(dims_of(&recs)) } else { None }, recs }];
        let file = biff::xls_bytes(&wb);
        writeln!(out, "{}", json!({"e": "reset", "run": run, "sst": (0..nstr).map(|i| if strings[i].is_empty() { String::new() } else { format!("str{}", i) }).collect::<Vec<_>>(), "dims": dims})).unwrap();
        for ev in &events {
            writeln!(out, "{}", ev).unwrap();
        }
        // observation
        let res = catch(|| match Xls::new(Cursor::new(file.clone())) {
            Err(e) => Err(e.to_string()),
            Ok(mut x) => x.worksheet_range("Sheet1").map_err(|e| e.to_string()),
        });
        let beh = json!({"run": run, "seed": args.seed(), "window": [r0, r1, c0, c1], "records": events.len()});
        rep.case(&beh, true);
        let ev = match res {
            Err(p) => {
                rep.fail("unexplained", &beh, json!("a range"), json!({ "panic": p }));
                json!({"e": "range", "panic": p})
            }
            Ok(Err(e)) => {
                rep.fail("unexplained", &beh, json!("a range"), json!({ "err": e }));
                json!({"e": "range", "err": e})
            }
            Ok(Ok(range)) => {
                let mut cells = Vec::new();
                let mut shape_ok = true;
                if let Some(s) = range.start() {
                    let (h, w) = range.get_size();
                    shape_ok = range.rows().count() == h;
                    let mut pi = 0usize;
                    for (ri, row) in range.rows().enumerate() {
                        if row.len() != w {
                            shape_ok = false;
                        }
                        for (ci, v) in row.iter().enumerate() {
                            if *v != Data::Empty {
                                let p = (s.0 + ri as u32, s.1 + ci as u32);
                                // payload of the token that wrote this position (tokens are row-major,
                                // so a forward scan finds it)
                                while pi < payloads.len() && payloads[pi].0 < p {
                                    pi += 1;
                                }
                                let pl = if pi < payloads.len() && payloads[pi].0 == p { payloads[pi].1.clone() } else { json!({}) };
                                cells.push(json!({"p": [p.0, p.1], "v": obs_value(v, &pl, &strings)}));
                            }
                        }
                    }
                }
                let p2 = |p: Option<(u32, u32)>| match p {
                    Some((a, b)) => json!([a, b]),
                    None => json!([]),
                };
                json!({"e": "range", "start": p2(range.start()), "end": p2(range.end()), "cells": cells, "shape_ok": shape_ok})
            }
        };
        writeln!(out, "{}", ev).unwrap();
    }
    rep.extra.insert("cells_written".into(), json!(total_cells));
    if let Some(r) = args.get("report") {
        rep.write(r);
    }
    0
}

/// random RK word: (raw word, model word for the log, payload descriptor for obs_value)
fn random_rk(rng: &mut StdRng, dbl_id: &mut u64) -> (u32, Value, Value) {
    let x100 = rng.gen_bool(0.5);
    if rng.gen_bool(0.6) {
        let v: i32 = match rng.gen_range(0..5) {
            0 => rng.gen_range(-(1 << 29)..(1 << 29)),
            1 => rng.gen_range(-100000..100000),
            2 => rng.gen_range(-1000..1000) * 100,
            3 => [(1 << 29) - 1, -(1 << 29), -1, 0, 99, -99, 100, -100][rng.gen_range(0..8)],
            _ => rng.gen_range(-50..50),
        };
        let u = (v as u32) & 0x3FFF_FFFF;
        ((u << 2) | 2 | x100 as u32, json!({"int": true, "x100": x100, "p": u}), json!({"int": v}))
    } else {
        let hi: u32 = match rng.gen_range(0..3) {
            0 => (rng.gen_range(-1e6f64..1e6).to_bits() >> 32) as u32,
            1 => ((rng.gen_range(-1000..1000) as f64).to_bits() >> 32) as u32,
            _ => (rng.gen::<u32>() & 0x7FEF_FFFF) | (rng.gen::<u32>() & 0x8000_0000),
        } & 0xFFFF_FFFC;
        *dbl_id += 1;
        let bits = (hi as u64) << 32;
        (hi | x100 as u32, json!({"int": false, "x100": x100, "p": {"cls": *dbl_id, "sc": 0}}), json!({"dbl": *dbl_id, "bits": format!("{:x}", bits), "x100": x100}))
    }
}
