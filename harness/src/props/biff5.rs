//! X04 -- BIFF5 workbooks and code pages (tla/biff/Biff5.tla, MC_Biff5.tla, Trace_Biff5.tla).
//! leg 1 (replay): every document TLC enumerated is written by the Rust writer (build/biff5.rs;
//! its records must equal the specification writer's byte for byte), wrapped in a compound file
//! and read with calamine::Xls; the observation (sheet names, cells, defined names or the error
//! class) is projected onto the model's vocabulary and compared with the ideal.  The ideal itself
//! is recomputed here from the logical document with encoding_rs (bytes of page P -> text) and
//! the real format scanner, and every decode / scan call of the as-is reader model is re-evaluated
//! with encoding_rs / calamine::verif.  A mismatch that equals the as-is prediction on a behaviour
//! with named deviations is keyed dev:<names>.
//! leg 2 (drive): random larger workbooks (more sheets, cells, longer strings, more pages), one
//! event per workbook with the record bytes, the harness ideal and the observation.
use crate::build::biff5::*;
use crate::common::*;
use crate::observe::data_json;
use calamine::{Data, ExcelDateTime, ExcelDateTimeType, Reader, Xls, XlsError};
use rand::rngs::StdRng;
use rand::{Rng, SeedableRng};
use serde_json::{json, Value};
use std::io::{Cursor, Write};

fn encoding_of(cp: u64) -> Option<&'static encoding_rs::Encoding> {
    Some(match cp {
        1252 => encoding_rs::WINDOWS_1252,
        1251 => encoding_rs::WINDOWS_1251,
        1250 => encoding_rs::WINDOWS_1250,
        866 => encoding_rs::IBM866,
        10000 => encoding_rs::MACINTOSH,
        932 => encoding_rs::SHIFT_JIS,
        936 => encoding_rs::GBK,
        1200 => encoding_rs::UTF_16LE,
        _ => return None,
    })
}

fn cps(s: &str) -> Vec<u32> {
    s.chars().map(|c| c as u32).collect()
}
fn text_u(t: &Text) -> Vec<u32> {
    t.iter().map(|c| c.u).collect()
}
fn text_string(t: &Text) -> String {
    t.iter().map(|c| char::from_u32(c.u).unwrap_or('\u{FFFD}')).collect()
}
fn text_of_json(v: &Value) -> Text {
    v.as_array().unwrap().iter().map(|c| Ch {
        u: c["u"].as_u64().unwrap() as u32,
        b: c["b"].as_array().unwrap().iter().map(|x| x.as_u64().unwrap() as u8).collect(),
    }).collect()
}
fn recs_json(r: &[Rec]) -> Value {
    json!(r.iter().map(|(t, d)| json!([t, d])).collect::<Vec<_>>())
}
fn stream_json(g: &[Rec], s: &[Vec<Rec>]) -> Value {
    json!({"g": recs_json(g), "s": s.iter().map(|x| recs_json(x)).collect::<Vec<_>>()})
}

fn cls_name(c: u8) -> &'static str {
    match c { 1 => "dt", 2 => "td", _ => "o" }
}

/// Data a numeric record denotes under a format class
fn render(kind: &str, bytes: &[u8], cls: &str) -> Data {
    let dt = |v: f64| match cls {
        "dt" => Some(Data::DateTime(ExcelDateTime::new(v, ExcelDateTimeType::DateTime, false))),
        "td" => Some(Data::DateTime(ExcelDateTime::new(v, ExcelDateTimeType::TimeDelta, false))),
        _ => None,
    };
    if kind == "num" {
        let v = f64::from_le_bytes(bytes.try_into().unwrap());
        dt(v).unwrap_or(Data::Float(v))
    } else {
        // RK ([MS-XLS] 2.5.217): bit 0 = divide by 100, bit 1 = integer
        let w = u32::from_le_bytes(bytes.try_into().unwrap());
        let (d100, is_int) = (w & 1 != 0, w & 2 != 0);
        if is_int {
            let i = ((w as i32) >> 2) as i64;
            if d100 && i % 100 != 0 { let v = i as f64 / 100.0; dt(v).unwrap_or(Data::Float(v)) }
            else { let i = if d100 { i / 100 } else { i }; dt(i as f64).unwrap_or(Data::Int(i)) }
        } else {
            let v = f64::from_bits(((w & 0xFFFF_FFFC) as u64) << 32);
            let v = if d100 { v / 100.0 } else { v };
            dt(v).unwrap_or(Data::Float(v))
        }
    }
}

/// numeric cells of the logical workbook: (r, c) -> (kind, payload bytes, xf)
fn numeric_cells(book: &Book) -> Vec<((u32, u32), (&'static str, Vec<u8>, u16))> {
    let mut v = Vec::new();
    for sh in &book.sheets {
        for c in &sh.cells {
            match c {
                Cell::Number { r, c, xf, v: val } => v.push(((*r as u32, *c as u32), ("num", val.to_vec(), *xf))),
                Cell::Rk { r, c, xf, rk } => v.push(((*r as u32, *c as u32), ("rk", rk.to_vec(), *xf))),
                Cell::MulRk { r, c0, items } => for (k, (xf, rk)) in items.iter().enumerate() {
                    v.push(((*r as u32, *c0 as u32 + k as u32), ("rk", rk.to_vec(), *xf)));
                },
                _ => {}
            }
        }
    }
    v
}

fn err_class(e: &XlsError) -> String {
    match e {
        XlsError::Len { typ, .. } => format!("Len({})", typ),
        XlsError::Unrecognized { typ, .. } => format!("Unrecognized({})", typ),
        XlsError::EoStream(s) => format!("EoStream({})", s),
        XlsError::Password => "Password".into(),
        XlsError::Cfb(c) => {
            let s = c.to_string();
            if s.contains("odepage") || s.contains("ode page") { "CodePageNotFound".into() } else { format!("Cfb({})", s) }
        }
        other => format!("other({})", other),
    }
}

/// the public observation of a file in the model's vocabulary
pub fn observe(file: &[u8], book: &Book) -> Value { observe_forced(file, book, 0) }
/// `force` = XlsOptions::force_codepage (0: not set)
pub fn observe_forced(file: &[u8], book: &Book, force: u16) -> Value {
    let nums = numeric_cells(book);
    let r = catch(|| -> Result<Value, String> {
        let opened = if force == 0 { Xls::new(Cursor::new(file.to_vec())) } else {
            let mut o = calamine::XlsOptions::default();
            o.force_codepage = Some(force);
            Xls::new_with_options(Cursor::new(file.to_vec()), o)
        };
        let mut wb: Xls<_> = match opened {
            Ok(w) => w,
            Err(e) => return Ok(json!({"err": err_class(&e), "sheets": [], "defs": []})),
        };
        let mut sheets = Vec::new();
        for name in wb.sheet_names() {
            let range = wb.worksheet_range(&name).map_err(|e| format!("worksheet_range({:?}): {}", name, e))?;
            let mut cells = Vec::new();
            if let Some((r0, c0)) = range.start() {
                for (r, c, v) in range.used_cells() {
                    let pos = (r0 + r as u32, c0 + c as u32);
                    let pv = match v {
                        Data::String(s) => json!(["s", cps(s)]),
                        other => {
                            let mut found = None;
                            for (p, (kind, bytes, _)) in &nums {
                                if *p != pos { continue; }
                                for cls in ["o", "dt", "td"] {
                                    if data_json(&render(kind, bytes, cls)) == data_json(other) {
                                        found = Some(json!(["n", kind, bytes, cls]));
                                    }
                                }
                            }
                            found.unwrap_or_else(|| json!(["?", data_json(other)]))
                        }
                    };
                    cells.push(json!([pos.0, pos.1, pv]));
                }
            }
            sheets.push(json!({"name": cps(&name), "cells": cells}));
        }
        let defs: Vec<Value> = wb.defined_names().iter().map(|(n, _)| json!(cps(n))).collect();
        Ok(json!({"err": "", "sheets": sheets, "defs": defs}))
    });
    match r {
        Ok(Ok(v)) => v,
        Ok(Err(e)) => json!({"err": format!("harness:{}", e), "sheets": [], "defs": []}),
        Err(p) => json!({"err": format!("panic:{}", p), "sheets": [], "defs": []}),
    }
}

/// IDEAL, recomputed from the logical workbook: every string reads as its text, numbers as the
/// record's number under the class of the XF's format (real scanner on the logical format string)
pub fn ideal_obs(book: &Book) -> Value {
    let cls1 = match &book.fmt {
        Some(f) => cls_name(calamine::verif::detect_custom_number_format(&text_string(f))),
        None => cls_name(calamine::verif::builtin_format_by_code(14)),
    };
    let cls = |xf: u16| if xf == 1 { cls1 } else { "o" };
    let mut sheets = Vec::new();
    for sh in &book.sheets {
        let mut cells = Vec::new();
        for c in &sh.cells {
            match c {
                Cell::Label { r, c, t } | Cell::FormulaStr { r, c, t } | Cell::Shared { r, c, t } => cells.push(json!([r, c, ["s", text_u(t)]])),
                Cell::Number { r, c, xf, v } => cells.push(json!([r, c, ["n", "num", v.to_vec(), cls(*xf)]])),
                Cell::Rk { r, c, xf, rk } => cells.push(json!([r, c, ["n", "rk", rk.to_vec(), cls(*xf)]])),
                Cell::MulRk { r, c0, items } => for (k, (xf, rk)) in items.iter().enumerate() {
                    cells.push(json!([r, *c0 as usize + k, ["n", "rk", rk.to_vec(), cls(*xf)]]));
                },
            }
        }
        sheets.push(json!({"name": text_u(&sh.name), "cells": cells}));
    }
    json!({"err": "", "sheets": sheets, "defs": book.defs.iter().map(text_u).collect::<Vec<_>>()})
}

/// every character's bytes denote its code point in page cp (encoding_rs, no BOM handling)
fn check_chars(book: &Book, cp: u64) -> Result<(), String> {
    let enc = match encoding_of(cp) { Some(e) => e, None => return Ok(()) };
    let mut all: Vec<&Text> = book.defs.iter().collect();
    if let Some(f) = &book.fmt { all.push(f); }
    for sh in &book.sheets {
        all.push(&sh.name);
        for c in &sh.cells {
            if let Cell::Label { t, .. } | Cell::FormulaStr { t, .. } | Cell::Shared { t, .. } = c { all.push(t); }
        }
    }
    for t in all {
        for ch in t {
            let (s, bad) = enc.decode_without_bom_handling(&ch.b);
            if bad || cps(&s) != vec![ch.u] {
                return Err(format!("bytes {:?} in code page {} denote {:?}, the document says U+{:04X}", ch.b, cp, s, ch.u));
            }
        }
    }
    Ok(())
}

/// the model's document -> logical workbook + the streams to write
fn book_of_doc(doc: &Value) -> (Book, Vec<(String, Form)>) {
    let tn = text_of_json(&doc["tn"]);
    let tc = text_of_json(&doc["tc"]);
    let fmt = text_of_json(&doc["fmt"]);
    let mut name2 = vec![Ch { u: 98, b: vec![98] }];
    name2.extend(tn.clone());
    let num15 = 1.5f64.to_le_bytes();
    let (rk7, rk3) = ([30u8, 0, 0, 0], [14u8, 0, 0, 0]);
    let s1 = Sheet { name: tn.clone(), dims: Some((0, 5, 0, 2)), cells: vec![
        Cell::Label { r: 0, c: 0, t: tc.clone() },
        Cell::FormulaStr { r: 1, c: 0, t: tc.clone() },
        Cell::Number { r: 2, c: 0, xf: 1, v: num15 },
        Cell::Rk { r: 2, c: 1, xf: 0, rk: rk7 },
        Cell::MulRk { r: 3, c0: 0, items: vec![(0, rk7), (1, rk3)] },
        Cell::Shared { r: 4, c: 0, t: tc.clone() },
    ] };
    let s2 = Sheet { name: name2, dims: None, cells: vec![Cell::Label { r: 0, c: 1, t: tc.clone() }] };
    let book = Book {
        sheets: vec![s1, s2],
        fmt: if fmt.is_empty() { None } else { Some(fmt) },
        defs: if doc["lbl"] == true { vec![text_of_json(&doc["lname"])] } else { vec![] },
    };
    let cp = doc["cp"].as_u64().unwrap() as u16;
    let wide = doc["wide"] == true;
    let bof = (doc["bof"][0].as_u64().unwrap() as u16, doc["bof"][1].as_u64().unwrap() as u16, doc["bof"][2].as_u64().unwrap() as usize);
    let forms = match doc["lay"].as_str().unwrap() {
        "b5" => vec![("Book".to_string(), Form { ver: 5, cp, wide: false, bof })],
        "b8" => vec![("Workbook".to_string(), Form { ver: 8, cp, wide, bof })],
        "dual" => vec![("Book".to_string(), Form { ver: 5, cp, wide: false, bof }),
                       ("Workbook".to_string(), Form { ver: 8, cp: 1200, wide, bof: std_bof(8) })],
        l => panic!("harness: layout {}", l),
    };
    (book, forms)
}

fn build_file(book: &Book, forms: &[(String, Form)]) -> (Vec<u8>, Value) {
    let mut streams = Vec::new();
    let mut files = serde_json::Map::new();
    for (name, f) in forms {
        let (g, s) = stream_records(book, f);
        files.insert(name.clone(), stream_json(&g, &s));
        streams.push((name.clone(), stream_bytes(&g, &s)));
    }
    (xls_file(&streams), Value::Object(files))
}

fn u32s(v: &Value) -> Vec<u32> {
    v.as_array().map(|a| a.iter().map(|x| x.as_u64().unwrap_or(u64::MAX) as u32).collect()).unwrap_or_default()
}

pub fn replay(args: &Args) -> i32 {
    let mut rep = Report::new();
    let mut matched_ideal = 0u64;
    let mut decode_calls = 0u64;
    for b in read_ndjson(args.req("in")) {
        let doc = &b["doc"];
        let unspec = doc["unspec"] == true;
        let (book, forms) = book_of_doc(doc);
        let nontrivial = doc["lay"] != "b8" || doc["cp"] != 1200;
        rep.case(doc, nontrivial);
        // the specification's writer and the Rust writer produce the same records
        let (file, files) = build_file(&book, &forms);
        if files != b["files"] {
            rep.fail("writer-mismatch", doc, b["files"].clone(), files);
            continue;
        }
        // the specification's ideal is the one the statement gives (recomputed with encoding_rs)
        if !unspec {
            let page = if doc["lay"] == "b8" { 0 } else { doc["cp"].as_u64().unwrap() };
            if let Err(e) = check_chars(&book, page) {
                rep.fail("oracle-mismatch:chars", doc, json!(null), json!(e));
                continue;
            }
            let ih = ideal_obs(&book);
            if ih != b["ideal"] {
                rep.fail("oracle-mismatch", doc, b["ideal"].clone(), ih);
                continue;
            }
        }
        // the decoding tables and the scanner of the reader model agree with encoding_rs / calamine
        let mut table_ok = true;
        for call in b["calls"].as_array().unwrap() {
            decode_calls += 1;
            let arg: Vec<u8> = call[1].as_array().unwrap().iter().map(|x| x.as_u64().unwrap() as u8).collect();
            let want = u32s(&call[2]);
            match encoding_of(call[0].as_u64().unwrap()) {
                Some(enc) => {
                    let got = cps(&enc.decode_without_bom_handling(&arg).0);
                    if got != want { rep.fail("table-mismatch", doc, call.clone(), json!(got)); table_ok = false; break; }
                }
                None => { rep.fail("table-mismatch:page", doc, call.clone(), json!(null)); table_ok = false; break; }
            }
        }
        for scan in b["scans"].as_array().unwrap() {
            let s: String = u32s(&scan[0]).iter().map(|c| char::from_u32(*c).unwrap_or('\u{FFFD}')).collect();
            let got = cls_name(calamine::verif::detect_custom_number_format(&s));
            if scan[1] != got { rep.fail("scanner-mismatch", doc, scan.clone(), json!(got)); table_ok = false; break; }
        }
        if !table_ok { continue; }
        let obs = observe(&file, &book);
        let strictly_asis = obs == b["asis"];
        // a reader with some of the listed deviations repaired reads part of the workbook as the ideal says
        // -- `cands`: what the model reads with each subset of the exhibited deviations repaired (Biff5.tla, Rep);
        // leaf by leaf on top of that, for repairs whose result the model has no switch for
        let is_asis = strictly_asis || (!unspec && (explained_mix(&obs, &b["ideal"], &b["asis"])
            || b["cands"].as_array().map_or(false, |cs| cs.iter().any(|c| obs == *c || explained_mix(&obs, &b["ideal"], c)))));
        if unspec {
            if !strictly_asis { rep.fail("unexplained", doc, b["asis"].clone(), obs); }
        } else if obs == b["ideal"] {
            matched_ideal += 1;
            if rep.evaluated % 397 == 1 { rep.sample(json!({"doc": doc, "observed": obs})); }
        } else {
            rep.fail(&mismatch_key(&b["dev"], is_asis), doc, b["ideal"].clone(), obs);
        }
    }
    rep.extra.insert("matched_ideal".into(), json!(matched_ideal));
    rep.extra.insert("decode_calls_checked".into(), json!(decode_calls));
    rep.write(args.req("out"));
    0
}

// ---------------------------------------------------------------------------------- drive
fn ascii(c: u8) -> Ch { Ch { u: c as u32, b: vec![c] } }

/// non-ASCII characters of a page inside the specification's tables: (code point, bytes)
fn page_highs(cp: u16) -> Vec<Ch> {
    let m = |u: u32, b: &[u8]| Ch { u, b: b.to_vec() };
    match cp {
        1252 => vec![m(0xE9, &[0xE9]), m(0x20AC, &[0x80]), m(0xFE, &[0xFE]), m(0xFF, &[0xFF])],
        1251 => vec![m(0x410, &[0xC0]), m(0x439, &[0xE9]), m(0x44E, &[0xFE]), m(0x44F, &[0xFF])],
        1250 => vec![m(0x141, &[0xA3]), m(0xE9, &[0xE9])],
        866 => vec![m(0x410, &[0x80]), m(0x449, &[0xE9])],
        10000 => vec![m(0xE9, &[0x8E]), m(0xC8, &[0xE9])],
        932 => vec![m(0xFF71, &[0xB1]), m(0x3042, &[0x82, 0xA0])],
        936 => vec![m(0x4E2D, &[0xD6, 0xD0])],
        _ => vec![],
    }
}
/// BIFF8 alphabet: BMP characters (a BIFF8 string is UTF-16 whatever the CODEPAGE record says), with the
/// byte-order-mark look-alikes U+FEFF and U+BBEF U+00BF (bytes EF BB BF 00) included
fn uni_highs() -> Vec<Ch> {
    [0xE9u32, 0x416, 0x20AC, 0x3042, 0xFEFF, 0xBBEF, 0xBF, 0xFF, 0xFE].iter().map(|u| Ch { u: *u, b: vec![] }).collect()
}

fn rand_text(rng: &mut StdRng, highs: &[Ch], len: usize, p_high: f64) -> Text {
    (0..len).map(|_| {
        if !highs.is_empty() && rng.gen_bool(p_high) { highs[rng.gen_range(0..highs.len())].clone() }
        else { ascii(b"abcdefghijklmnopqrstuvwxyzABCXYZ0123456789 _.-"[rng.gen_range(0..46)]) }
    }).collect()
}

pub fn drive(args: &Args) -> i32 {
    // diagnostic: `cvh drive biff5 --file F.xls` prints what calamine reads from an existing workbook
    if let Some(f) = args.get("file") {
        let bytes = std::fs::read(f).unwrap();
        println!("{}", observe(&bytes, &Book { sheets: vec![], fmt: None, defs: vec![] }));
        return 0;
    }
    let n = args.num("n", 150);
    let mut rng = StdRng::seed_from_u64(args.seed() ^ 0xB1FF5);
    let mut out = std::io::BufWriter::new(std::fs::File::create(args.req("out")).unwrap());
    let (mut ideal_n, mut other_n) = (0u64, 0u64);
    for run in 0..n {
        let lay = ["b5", "b5", "b8", "dual"][rng.gen_range(0..4)];
        let cp: u16 = match lay {
            "b5" => [0, 1252, 1252, 1251, 1250, 866, 10000, 932, 936][rng.gen_range(0..9)],
            "b8" => [0, 1200, 1200, 1252, 1251, 1250, 866, 10000, 932, 936][rng.gen_range(0..10)],
            _ => [1252, 1251, 1250, 866, 10000, 932, 936][rng.gen_range(0..7)],
        };
        // XlsOptions::force_codepage: the workbook says page `cp` (or nothing), the user says `force`; the text is
        // written with bytes that have a reading in every single-byte page of the tables (ASCII and 0xE9) and MEANS
        // what the forced page says
        let force: u16 = if lay != "b8" && cp != 932 && cp != 936 && rng.gen_bool(0.25) { [1252, 1251, 1250, 866, 10000][rng.gen_range(0..5)] } else { 0 };
        let highs = if force != 0 {
            let u = encoding_of(force as u64).unwrap().decode_without_bom_handling(&[0xE9]).0.chars().next().unwrap() as u32;
            vec![Ch { u, b: vec![0xE9] }]
        } else if lay == "b8" { uni_highs() } else { page_highs(cp) };
        let p_high = [0.0, 0.15, 0.5][rng.gen_range(0..3)];
        let nsheets = rng.gen_range(1..5usize);
        let mut sheets = Vec::new();
        for si in 0..nsheets {
            // distinct names: a digit prefix, then random text (at most 31 characters)
            let mut name = vec![ascii(b'1' + si as u8)];
            let l = rng.gen_range(0..12);
            name.extend(rand_text(&mut rng, &highs, l, p_high));
            // a sheet name neither starts nor ends with an apostrophe and has no : \ / ? * [ ] -- the alphabet has none
            let ncell = rng.gen_range(0..25usize);
            let r0 = [0u16, 0, 7, 1000, 65000][rng.gen_range(0..5)];
            let c0 = [0u16, 0, 3, 200][rng.gen_range(0..4)];
            // row-major distinct positions in a 12 x 8 box; a MULRK takes up to 3 columns of a row
            let mut cells = Vec::new();
            let mut slots: Vec<(u16, u16)> = (0..12).flat_map(|r| (0..8).map(move |c| (r0 + r, c0 + c * 4))).collect();
            for i in 0..ncell.min(slots.len()) { let j = rng.gen_range(i..slots.len()); slots.swap(i, j); }
            let mut chosen: Vec<(u16, u16)> = slots[..ncell.min(slots.len())].to_vec();
            chosen.sort();
            for (r, c) in chosen {
                // (long strings only where they have a record of their own: the SST stays inside one record)
                let kind = rng.gen_range(0..7);
                let tl = if rng.gen_bool(0.05) && kind != 3 { rng.gen_range(256..400) } else { rng.gen_range(1..30) };
                let t = rand_text(&mut rng, &highs, tl, p_high);
                let xf = rng.gen_range(0..2u16);
                let rk = |rng: &mut StdRng| (((rng.gen_range(-500i32..500) << 2) | 2) as u32).to_le_bytes();
                cells.push(match kind {
                    0 | 1 => Cell::Label { r, c, t },
                    2 => Cell::FormulaStr { r, c, t },
                    3 => Cell::Shared { r, c, t },
                    4 => Cell::Number { r, c, xf, v: (rng.gen_range(-4000i32..90000) as f64 / 8.0).to_le_bytes() },
                    5 => Cell::Rk { r, c, xf, rk: rk(&mut rng) },
                    _ => { let k = rng.gen_range(1..4); Cell::MulRk { r, c0: c, items: (0..k).map(|_| (rng.gen_range(0..2u16), rk(&mut rng))).collect() } }
                });
            }
            sheets.push(Sheet { name, dims: if rng.gen_bool(0.7) { Some((r0, r0 + 12, c0, c0 + 32)) } else { None }, cells });
        }
        let q = |s: &str| -> Text { s.bytes().map(ascii).collect() };
        let fmt = match rng.gen_range(0..8) {
            0 | 1 => None,
            2 => Some(q("yyyy-mm-dd")),
            3 => Some(q("0.00")),
            4 => Some(q("[h]:mm:ss")),
            5 => Some(q("dd")),
            6 => Some(q("#,##0.0;-#,##0.0")),
            _ => { let mut f = q("\""); f.extend(rand_text(&mut rng, &highs, 3, 0.5)); f.extend(q("\"hh:mm")); Some(f) }
        };
        let ndef = rng.gen_range(0..3);
        let defs: Vec<Text> = (0..ndef).map(|k| { let mut t = vec![ascii(b'N' + k as u8)]; let l = rng.gen_range(0..8); t.extend(rand_text(&mut rng, &highs, l, p_high).into_iter().filter(|c| c.u != 0x20AC && c.u != 0x20 && c.u != 0x2D)); t }).collect();
        let book = Book { sheets, fmt, defs };
        let wide = rng.gen_bool(0.5);
        let forms = match lay {
            "b5" => vec![("Book".to_string(), Form { ver: 5, cp, wide: false, bof: std_bof(5) })],
            "b8" => vec![("Workbook".to_string(), Form { ver: 8, cp, wide, bof: std_bof(8) })],
            _ => vec![("Book".to_string(), Form { ver: 5, cp, wide: false, bof: std_bof(5) }),
                      ("Workbook".to_string(), Form { ver: 8, cp: 1200, wide, bof: std_bof(8) })],
        };
        let (file, files) = build_file(&book, &forms);
        let ideal = ideal_obs(&book);
        let obs = observe_forced(&file, &book, force);
        if obs == ideal { ideal_n += 1 } else { other_n += 1 }
        writeln!(out, "{}", json!({"e": "book", "run": run, "lay": lay, "cp": cp, "force": force, "files": files, "ideal": ideal, "obs": obs})).unwrap();
    }
    if let Some(p) = args.get("report") {
        std::fs::write(p, json!({"books": n, "read_as_ideal": ideal_n, "read_otherwise": other_n}).to_string()).unwrap();
    }
    0
}
