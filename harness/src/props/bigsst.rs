//! Shared-string tables beyond 65 536 entries: "shared-string indices always designate the i-th item
//! of the table" (C19; C01 / C02 / C03 "shared-string indices resolved") for indexes that do not fit
//! 16 bits.  `cvh drive bigsst --fmts xlsx,xlsb,xls --out T` builds one workbook per format with N
//! strings "s<i>" and cells referring to the boundary indexes; validated by tla/xlsx/Trace_BigSst.tla.
use crate::build::{biff, xlsb, xlsx};
use crate::common::*;
use calamine::{Data, Reader, Xls, Xlsb, Xlsx};
use serde_json::{json, Value};
use std::io::{Cursor, Write};

pub fn drive(args: &Args) -> i32 {
    let n = args.num("strings", 70_000) as usize;
    let fmts: Vec<String> = args.get("fmts").unwrap_or("xlsx,xlsb,xls").split(',').map(String::from).collect();
    let idx: Vec<usize> = [0usize, 1, 255, 256, 65_535, 65_536, 65_537, n - 1].iter().cloned().filter(|i| *i < n).collect();
    let mut out = std::io::BufWriter::new(std::fs::File::create(args.req("out")).unwrap());
    for fmt in &fmts {
        let r = catch(|| -> Result<Vec<Value>, String> {
            let range = match fmt.as_str() {
                "xlsx" => {
                    let sst: Vec<Value> = (0..n).map(|i| json!({"text": format!("s{}", i)})).collect();
                    let mut toks = Vec::new();
                    for (k, i) in idx.iter().enumerate() {
                        toks.push(json!({"k": "row", "r": k}));
                        toks.push(json!({"k": "c", "r": [k, 0], "t": "s", "v": i.to_string()}));
                        toks.push(json!({"k": "rowend"}));
                    }
                    let bytes = xlsx::build_xlsx(&json!({"styles": {"cellStyleXfs": [0], "cellXfs": [0]}, "sst": sst, "sheets": [{"name": "S1", "file": "sheet1.xml", "tokens": toks}]}));
                    let mut wb: Xlsx<_> = Xlsx::new(Cursor::new(bytes)).map_err(|e| format!("open: {}", e))?;
                    wb.worksheet_range("S1").map_err(|e| e.to_string())?
                }
                "xlsb" => {
                    let mut book = xlsb::XlsbBook::default();
                    book.strings = (0..n).map(|i| format!("s{}", i)).collect();
                    let mut body = Vec::new();
                    for (k, i) in idx.iter().enumerate() {
                        body.push(xlsb::row_hdr(k as u32, 0, 0));
                        body.push(xlsb::cell_record(0, 0, &xlsb::CellVal::Isst(*i as u32), &xlsb::PTG_INT_1));
                    }
                    book.sheets.push(xlsb::XlsbSheet { name: "S1".into(), state: 0, stream: xlsb::sheet_stream(&xlsb::Preamble::default(), (0, idx.len() as u32 - 1, 0, 0), &body) });
                    let mut wb: Xlsb<_> = Xlsb::new(Cursor::new(book.to_bytes(false))).map_err(|e| format!("open: {}", e))?;
                    wb.worksheet_range("S1").map_err(|e| e.to_string())?
                }
                _ => {
                    let mut wb = biff::Workbook::default();
                    wb.sst = biff::Sst::Strings((0..n).map(|i| biff::XlStr::new(&format!("s{}", i))).collect());
                    let recs = idx.iter().enumerate().map(|(k, i)| biff::Rec::LabelSst { r: k as u16, c: 0, xf: 0, isst: *i as u32 }).collect();
                    wb.sheets.push(biff::Sheet { name: biff::XlStr::new("S1"), dims: None, recs });
                    let mut x: Xls<_> = Xls::new(Cursor::new(biff::xls_bytes(&wb))).map_err(|e| format!("open: {}", e))?;
                    x.worksheet_range("S1").map_err(|e| e.to_string())?
                }
            };
            Ok((0..idx.len()).map(|k| match range.get_value((k as u32, 0)) { Some(Data::String(s)) => json!(s), o => json!(format!("{:?}", o)) }).collect())
        });
        let ev = match r {
            Ok(Ok(got)) => json!({"e": "bigsst", "fmt": fmt, "n": n, "idx": idx, "got": got}),
            Ok(Err(e)) => json!({"e": "bigsst", "fmt": fmt, "n": n, "idx": idx, "got": [], "error": e}),
            Err(p) => json!({"e": "bigsst", "fmt": fmt, "n": n, "idx": idx, "got": [], "error": p}),
        };
        writeln!(out, "{}", ev).unwrap();
    }
    0
}
