//! C19 (xlsb, xls) — cell text in the binary formats' string records.
use crate::build::{biff, xlsb};
use crate::common::*;
use calamine::{Data, Reader, ReaderRef, Xls, Xlsb};
use rand::rngs::StdRng;
use rand::{Rng, SeedableRng};
use serde_json::{json, Value};
use std::io::{Cursor, Write};

pub fn cls_char(c: &str) -> char {
    // "bom": U+FEFF is an ordinary character of a cell text (no byte-order-mark sniffing)
    match c { "latin1" => 'é', "bom" => '\u{feff}', o => crate::props::xlsx_strings::class_char(o) }
}

/// returns the text found in cell (0,0)
pub fn store_and_read(text: &str, cfg: &Value) -> Result<Data, String> {
    let pre = cfg["pre"].as_u64().unwrap_or(0) as usize;
    let store = cfg["store"].as_str().unwrap();
    if cfg["fmt"] == "xlsb" {
        let mut book = xlsb::XlsbBook::default();
        let cv = match store {
            "shared" => {
                for i in 0..pre { book.strings.push(if i % 2 == 0 { String::new() } else { "zz".into() }); }
                book.strings.push(text.to_string());
                book.strings.push("after".into());
                xlsb::CellVal::Isst(pre as u32)
            }
            "fstr" => xlsb::CellVal::FmlaString(text.to_string()),
            _ => xlsb::CellVal::St(text.to_string()),
        };
        let body = vec![xlsb::row_hdr(0, 0, 0), xlsb::cell_record(0, 0, &cv, &xlsb::PTG_INT_1)];
        book.sheets.push(xlsb::XlsbSheet { name: "S1".into(), state: 0, stream: xlsb::sheet_stream(&xlsb::Preamble::default(), (0, 0, 0, 0), &body) });
        let bytes = book.to_bytes(false);
        let mut wb: Xlsb<_> = Xlsb::new(Cursor::new(bytes)).map_err(|e| format!("open: {}", e))?;
        let a = wb.worksheet_range("S1").map_err(|e| e.to_string())?.get_value((0, 0)).cloned().unwrap_or(Data::Empty);
        let b = wb.worksheet_range_ref("S1").map_err(|e| e.to_string())?.get_value((0, 0)).map(|d| Data::from(d.clone())).unwrap_or(Data::Empty);
        if a != b { return Err(format!("worksheet_range {:?} != worksheet_range_ref {:?}", a, b)); }
        Ok(a)
    } else {
        let high = cfg["high"].as_bool().unwrap_or(false);
        let xs = |s: &str| if high { biff::XlStr::with_storage(s, true) } else { biff::XlStr::new(s) };
        let mut wb = biff::Workbook::default();
        // the CODEPAGE record does not govern BIFF8 strings: 1200 (what Excel writes), 1252, absent
        wb.codepage = match (text.chars().count() + pre) % 3 { 0 => Some(1200), 1 => Some(1252), _ => None };
        let recs = match store {
            "shared" => {
                let mut v: Vec<biff::XlStr> = (0..pre).map(|i| if i % 2 == 0 { biff::XlStr::new("") } else { biff::XlStr::new("zz") }).collect();
                v.push(xs(text));
                v.push(biff::XlStr::new("after"));
                wb.sst = biff::Sst::Strings(v);
                vec![biff::Rec::LabelSst { r: 0, c: 0, xf: 0, isst: pre as u32 }]
            }
            "fstr" => vec![biff::Rec::Formula { r: 0, c: 0, xf: 0, res: biff::FRes::Str, shared: false }, biff::Rec::StringRec { s: xs(text) }],
            _ => vec![biff::Rec::Label { r: 0, c: 0, xf: 0, s: xs(text) }],
        };
        wb.sheets.push(biff::Sheet { name: biff::XlStr::new("S1"), dims: None, recs });
        let bytes = biff::xls_bytes(&wb);
        let mut wb: Xls<_> = Xls::new(Cursor::new(bytes)).map_err(|e| format!("open: {}", e))?;
        Ok(wb.worksheet_range("S1").map_err(|e| e.to_string())?.get_value((0, 0)).cloned().unwrap_or(Data::Empty))
    }
}

pub fn replay(args: &Args) -> i32 {
    let mut rep = Report::new();
    for b in read_ndjson(args.req("in")) {
        let text: String = b["chars"].as_array().unwrap().iter().map(|c| cls_char(c.as_str().unwrap())).collect();
        rep.case(&b, text.chars().count() > 1 || !text.is_ascii());
        match catch(|| store_and_read(&text, &b["cfg"])) {
            Ok(Ok(Data::String(s))) if s == text => {
                if rep.evaluated % 2999 == 1 { rep.sample(json!({"text": text, "cfg": b["cfg"]})); }
            }
            other => rep.fail("unexplained", &b, json!(text), json!(format!("{:?}", other))),
        }
    }
    rep.write(args.req("out"));
    0
}

/// leg 2: long random texts (up to the format limits) in every binary storage form
pub fn drive(args: &Args) -> i32 {
    let n = args.num("n", 60);
    let maxlen = args.num("maxlen", 3000) as usize;
    let mut rng = StdRng::seed_from_u64(args.seed() ^ 0xB19);
    let mut out = std::io::BufWriter::new(std::fs::File::create(args.req("out")).unwrap());
    let classes = ["a", "amp", "quot", "sp", "tab", "nl", "latin1", "cjk", "astral", "bom"];
    for run in 0..n {
        let fmt = ["xlsb", "xls"][rng.gen_range(0..2)];
        let store = ["cell", "shared", "fstr"][rng.gen_range(0..3)];
        let latin_only = fmt == "xls" && rng.gen_bool(0.4);
        // LABEL / STRING records hold at most 8224 bytes; SST strings continue over records
        // (the plain SST writer used here keeps a string inside one record: <= 2000 characters (astral ones take two 16-bit units);
        // strings continued over CONTINUE records are C12's subject)
        let cap = if fmt == "xls" { if store != "shared" { maxlen.min(2000) } else { maxlen.min(2000) } } else { maxlen };
        let len = rng.gen_range(1..=cap);
        let cls: Vec<&str> = (0..len).map(|_| if latin_only { classes[rng.gen_range(0..7)] } else { classes[rng.gen_range(0..classes.len())] }).collect();
        let text: String = cls.iter().map(|c| cls_char(c)).collect();
        let high = fmt == "xls" && (!latin_only || rng.gen_bool(0.5));
        let cfg = json!({"fmt": fmt, "store": store, "high": high, "pre": if store == "shared" { rng.gen_range(0..3) } else { 0 }});
        let got = catch(|| store_and_read(&text, &cfg));
        let back: Value = match got {
            Ok(Ok(Data::String(s))) => json!(s.chars().map(|c| match c { 'a' => "a", '&' => "amp", '"' => "quot", ' ' => "sp", '\t' => "tab", '\n' => "nl", 'é' => "latin1", '漢' => "cjk", '😀' => "astral", '\u{feff}' => "bom", _ => "?" }).collect::<Vec<_>>()),
            o => json!([format!("{:?}", o)]),
        };
        writeln!(out, "{}", json!({"e": "text", "run": run, "cfg": cfg, "chars": cls, "observed": back})).unwrap();
    }
    0
}
