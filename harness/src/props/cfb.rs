//! C13 — compound-file layout independence.
//! replay: every layout enumerated by MC_Cfb (model sectors) is materialised into a real compound
//!         file: a model sector stands for a run of R real sectors (R = 8 for 512-byte sectors,
//!         1 for 4096-byte sectors, i.e. 4096 bytes either way), a model mini slot for a run of 32
//!         real mini sectors; the unit occupying a model sector fills the run from its start, the
//!         rest of the run is free.  Streams are read back through CfbWindow::{new,get_stream}
//!         (byte-exact) and, the "Workbook" stream being a real BIFF8 workbook, through
//!         Xls::new + worksheet_range (must equal the read of the canonical layout).
//! drive : seeded random real-size layouts (boundary lengths, multi-FAT-sector files, DIFAT
//!         chains, both sector sizes, shuffled chains/minis/directory); logs the file as written
//!         (header, FAT words, directory, what each sector holds) and what the real reader
//!         returned (length + block descriptors decoded from the returned bytes); Trace_Cfb.tla
//!         re-runs the reader model over the logged file.
use crate::build::biff::{self, Rec, Sheet, Workbook, XlStr};
use crate::build::cfb::{self, CfbDesc, CfbLayout, Unit};
use crate::common::*;
use crate::observe;
use calamine::verif::CfbWindow;
use calamine::{Reader, Xls};
use rand::rngs::StdRng;
use rand::seq::SliceRandom;
use rand::{Rng, SeedableRng};
use serde_json::{json, Value};
use std::collections::HashMap;
use std::io::{Cursor, Write};

fn mix(a: u64, b: u64) -> u64 {
    let mut x = a ^ b.wrapping_mul(0x9E37_79B9_7F4A_7C15);
    x ^= x >> 30;
    x = x.wrapping_mul(0xBF58_476D_1CE4_E5B9);
    x ^= x >> 27;
    x = x.wrapping_mul(0x94D0_49BB_1331_11EB);
    x ^ (x >> 31)
}
fn name_hash(s: &str) -> u64 {
    s.bytes().fold(0xcbf2_9ce4_8422_2325u64, |h, b| (h ^ b as u64).wrapping_mul(0x100_0000_01b3))
}

/// pseudo-random stream content; every 64-byte block differs from every other (w.h.p.)
pub fn stream_bytes(seed: u64, name: &str, len: usize) -> Vec<u8> {
    let mut st = mix(seed, name_hash(name)) | 1;
    let mut v = Vec::with_capacity(len);
    while v.len() < len {
        st = mix(st, v.len() as u64 + 1);
        v.extend_from_slice(&st.to_le_bytes());
    }
    v.truncate(len);
    v
}

/// a real BIFF8 workbook stream of exactly `len` bytes (ignorable records pad it)
pub fn workbook_bytes(seed: u64, len: usize) -> Vec<u8> {
    let mut wb = Workbook::default();
    wb.sst = biff::Sst::Strings(vec![XlStr::new("shared"), XlStr::new("caf\u{e9} \u{4e2d}")]);
    let recs = vec![
        Rec::Number { r: 1, c: 1, xf: 0, v: 1.5 },
        Rec::Rk { r: 1, c: 2, xf: 0, rk: (7 << 2) | 2 },
        Rec::LabelSst { r: 2, c: 1, xf: 0, isst: 1 },
        Rec::Label { r: 3, c: 3, xf: 0, s: XlStr::new("label") },
        Rec::BoolErr { r: 4, c: 1, xf: 0, v: 1, is_err: false },
    ];
    wb.sheets.push(Sheet { name: XlStr::new("Sheet1"), dims: Some((1, 5, 1, 4)), recs });
    let base = biff::workbook_stream(&wb);
    if len == base.len() {
        return base;
    }
    assert!(len >= base.len() + 4, "workbook stream cannot be {} bytes (minimum {})", len, base.len());
    // pad with ignorable records carrying position-dependent random bytes
    let mut gap = len - base.len();
    let mut n = 0u64;
    let sh = wb.sheets.last_mut().unwrap();
    while gap > 0 {
        let mut take = gap.min(biff::MAX_REC + 4);
        if gap - take > 0 && gap - take < 4 {
            take -= 4;
        }
        n += 1;
        sh.recs.push(Rec::Raw { typ: biff::PAD_TYPE, data: stream_bytes(mix(seed, n), "pad", take - 4) });
        gap -= take;
    }
    let out = biff::workbook_stream(&wb);
    assert_eq!(out.len(), len);
    out
}
pub const MIN_WORKBOOK: usize = 320;

fn wb_expected() -> Value {
    json!({"start": [1, 1], "end": [4, 3], "cells": [
        [1, 1, ["f", "1.5"]], [1, 2, ["i", 7]], [2, 1, ["s", "caf\u{e9} \u{4e2d}"]],
        [3, 3, ["s", "label"]], [4, 1, ["b", true]]]})
}

fn read_xls(bytes: &[u8]) -> Value {
    match catch(|| match Xls::new(Cursor::new(bytes.to_vec())) {
        Err(e) => json!({"err": e.to_string()}),
        Ok(mut x) => match x.worksheet_range("Sheet1") {
            Ok(r) => observe::range_json(&r),
            Err(e) => json!({"err": e.to_string()}),
        },
    }) {
        Ok(v) => v,
        Err(p) => json!({ "panic": p }),
    }
}

/// open through the internal reader and fetch every stream; per stream "ok" | description
fn read_streams(file: &[u8], streams: &[(String, Vec<u8>)]) -> (Value, Vec<Result<Vec<u8>, String>>) {
    let r = catch(|| {
        let mut cur = Cursor::new(file);
        match CfbWindow::new(&mut cur, file.len()) {
            Err(e) => Err(e),
            Ok(mut w) => {
                let mut out = Vec::new();
                for (name, _) in streams {
                    let leaf = name.rsplit('/').next().unwrap();
                    if !w.has_directory(leaf) {
                        out.push(Err("has_directory=false".to_string()));
                        continue;
                    }
                    out.push(w.get_stream(leaf, &mut cur));
                }
                let ghost = w.get_stream("nosuchstream", &mut cur);
                if ghost.is_ok() || w.has_directory("nosuchstream") {
                    out.push(Err("ghost stream found".into()));
                }
                Ok(out)
            }
        }
    });
    match r {
        Err(p) => (json!({ "panic": p }), vec![]),
        Ok(Err(e)) => (json!({ "new": e }), vec![]),
        Ok(Ok(v)) => {
            let mut summary = Vec::new();
            for (i, (_, want)) in streams.iter().enumerate() {
                summary.push(match &v[i] {
                    Err(e) => json!(e),
                    Ok(got) if got == want => json!("ok"),
                    Ok(got) => {
                        let at = got.iter().zip(want.iter()).position(|(a, b)| a != b).unwrap_or(got.len().min(want.len()));
                        json!(format!("differs at byte {} (len {} expected {})", at, got.len(), want.len()))
                    }
                });
            }
            if v.len() > streams.len() {
                summary.push(json!("ghost stream found"));
            }
            (json!({ "streams": summary }), v)
        }
    }
}

// ------------------------------------------------------------------ replay
struct Scale {
    r: usize,         // real sectors per model sector
    mu: usize,        // real mini sectors per model mini unit / slot
    block: usize,     // real bytes per model regular block
}

fn real_len(name: &str, len_m: u64, g: &Value, sc: &Scale, h: u64) -> usize {
    let cut = g["cut"].as_u64().unwrap();
    let msz = g["msz"].as_u64().unwrap();
    let ssz = g["ssz"].as_u64().unwrap();
    let pick = |c: &[usize]| c[(h % c.len() as u64) as usize];
    let slot = sc.mu * 64;
    if len_m == 0 {
        0
    } else if len_m < cut {
        let full = (len_m / msz) as usize;
        let part = len_m % msz != 0;
        let tail = if !part {
            0
        } else if name == "Workbook" && full == 0 {
            pick(&[MIN_WORKBOOK, 1024, slot - 63, slot - 1])
        } else {
            pick(&[1, 63, 64, 65, slot - 1])
        };
        full * slot + tail
    } else {
        let full = (len_m / ssz) as usize;
        let t = len_m % ssz;
        let b = sc.block;
        let tail = match t {
            0 => 0,
            1 => pick(&[1, 63, 64, 65]),
            2 => pick(&[511, 512, 513, b / 2]),
            _ => pick(&[b - 1, b - 63, b - 511, b - 512]),
        };
        full * b + tail
    }
}

struct Mat {
    file: Vec<u8>,
    streams: Vec<(String, Vec<u8>)>,
    trivial: bool,
}

fn materialise(b: &Value, seed: u64, idx: u64) -> Result<Mat, String> {
    let v4 = b["ver"].as_u64().unwrap() == 4;
    let g = &b["geo"];
    let ssz = if v4 { 4096 } else { 512 };
    let sc = Scale { r: 4096 / ssz, mu: 32, block: 4096 };
    if b["ndifat"].as_u64().unwrap_or(0) > 0 {
        return Err("difat".into());
    }
    let ms = b["streams"].as_array().unwrap();
    let mut streams: Vec<(String, Vec<u8>)> = Vec::new();
    for (i, s) in ms.iter().enumerate() {
        let name = s["n"].as_str().unwrap().to_string();
        let len = real_len(&name, s["len"].as_u64().unwrap(), g, &sc, mix(seed, idx * 7 + i as u64));
        let bytes = if name == "Workbook" { workbook_bytes(seed, len) } else { stream_bytes(seed, &name, len) };
        streams.push((name, bytes));
    }
    let refs: Vec<(&str, &[u8])> = streams.iter().map(|s| (s.0.as_str(), s.1.as_slice())).collect();
    let paths: Vec<&str> = refs.iter().map(|s| s.0).collect();
    let lens: Vec<usize> = refs.iter().map(|s| s.1.len()).collect();
    // directory: model sector k holds dps_m entries; real sector k the same entries + unused ones
    let dps_m = g["dps"].as_u64().unwrap() as usize;
    let dps_r = ssz / 128;
    if dps_m > dps_r {
        return Err("dps".into());
    }
    let ndir = b["ndir"].as_u64().unwrap() as usize;
    let mdir: Vec<&str> = b["dir"].as_array().unwrap().iter().map(|x| x.as_str().unwrap()).collect();
    let mut full: Vec<Option<usize>> = Vec::new(); // incl. root position 0
    for k in 0..ndir {
        for j in 0..dps_r {
            let mpos = k * dps_m + j; // position in model directory (0 = root)
            if j < dps_m && mpos >= 1 {
                let nm = mdir[mpos - 1];
                full.push(if nm.is_empty() { None } else { Some(paths.iter().position(|p| *p == nm).unwrap()) });
            } else {
                full.push(None);
            }
        }
    }
    let dir_order: Vec<Option<usize>> = full[1..].to_vec();
    let nsect = b["nsect"].as_u64().unwrap() as usize;
    let total = nsect * sc.r;
    let eps = ssz / 4;
    let nfat_m = b["nfat"].as_u64().unwrap() as usize;
    let nmini_m = b["nmini"].as_u64().unwrap() as usize;
    let nmf_m = b["nmf"].as_u64().unwrap() as usize;
    let mut l = CfbLayout { v4, dir_order, ..Default::default() };
    l.extra_fat = nfat_m - (total + eps - 1) / eps;
    // mini units
    let p0 = cfb::plan(&paths, &lens, &l);
    l.free_minis = nmini_m * sc.mu - p0.mini_units.len();
    if nmini_m > 0 {
        l.extra_minifat = nmf_m - (nmini_m * sc.mu + eps - 1) / eps;
    }
    let p1 = cfb::plan(&paths, &lens, &l);
    l.free_sectors = total - p1.units.len();
    let p = cfb::plan(&paths, &lens, &l);
    if p.n_fat != nfat_m || p.n_dir != ndir || p.n_minifat != nmf_m || p.total_sectors != total {
        return Err(format!("plan mismatch {:?} vs model nfat={} ndir={} nmf={}", (p.n_fat, p.n_dir, p.n_minifat, p.total_sectors), nfat_m, ndir, nmf_m));
    }
    // model unit -> model sector
    let mut at: HashMap<(String, String, usize), usize> = HashMap::new();
    for u in b["units"].as_array().unwrap() {
        at.insert(
            (u["k"].as_str().unwrap().to_string(), u["o"].as_str().unwrap().to_string(), u["i"].as_u64().unwrap() as usize),
            u["at"].as_u64().unwrap() as usize,
        );
    }
    let find = |k: &str, o: &str, i: usize| -> Result<usize, String> {
        at.get(&(k.to_string(), o.to_string(), i)).copied().ok_or_else(|| format!("model has no unit {} {} {}", k, o, i))
    };
    let mut placement = Vec::new();
    let mut used_in_run: HashMap<usize, usize> = HashMap::new();
    for u in &p.units {
        let (msec, j) = match u {
            Unit::Fat(k) => (find("fat", "", *k)?, 0),
            Unit::Difat(_) => return Err("difat".into()),
            Unit::Dir(k) => (find("dir", "", *k)?, 0),
            Unit::MiniFat(k) => (find("minifat", "", *k)?, 0),
            Unit::Mini(q) => (find("ms", "", q / sc.r)?, q % sc.r),
            Unit::Stream(si, q) => (find("s", paths[*si], q / sc.r)?, q % sc.r),
        };
        *used_in_run.entry(msec).or_insert(0) += 1;
        placement.push((msec * sc.r + j) as u32);
    }
    if at.len() != used_in_run.len() {
        return Err(format!("model units {} but real file uses {} model sectors", at.len(), used_in_run.len()));
    }
    l.placement = Some(placement.clone());
    // minis
    let mslot: Vec<usize> = b["mslot"].as_array().map(|a| a.iter().map(|x| x.as_u64().unwrap() as usize).collect()).unwrap_or_default();
    // model mini units are stream-major in stream order, like the real ones
    let mut mbase: HashMap<usize, usize> = HashMap::new(); // stream idx -> index of its first model mini unit
    let mut acc = 0usize;
    let msz = g["msz"].as_u64().unwrap();
    let cut = g["cut"].as_u64().unwrap();
    for (i, s) in ms.iter().enumerate() {
        let lm = s["len"].as_u64().unwrap();
        if lm > 0 && lm < cut {
            mbase.insert(i, acc);
            acc += ((lm + msz - 1) / msz) as usize;
        }
    }
    let mut mp = Vec::new();
    for (si, q) in &p.mini_units {
        let mi = mbase[si] + q / sc.mu;
        mp.push((mslot[mi] * sc.mu + q % sc.mu) as u32);
    }
    l.mini_placement = Some(mp);
    l.trailing_pad = [0usize, 0, 1, 100, 511, 4000][(mix(seed, idx) % 6) as usize];
    l.fill_seed = mix(seed, idx + 17);
    let trivial = placement.windows(2).all(|w| w[0] < w[1]) && acc == 0;
    let file = cfb::build_cfb(&refs, &l);
    Ok(Mat { file, streams, trivial })
}

pub fn replay(args: &Args) -> i32 {
    let mut rep = Report::new();
    let seed = args.seed();
    let mut skipped: HashMap<String, u64> = HashMap::new();
    let mut canon_cache: HashMap<usize, Value> = HashMap::new();
    let mut idx = 0u64;
    let mut sizes = (0usize, 0usize);
    for b in read_ndjson(args.req("in")) {
        idx += 1;
        let m = match catch(|| materialise(&b, seed, idx)) {
            Ok(Ok(m)) => m,
            Ok(Err(why)) if why == "difat" || why == "dps" => {
                *skipped.entry(why).or_insert(0) += 1;
                continue;
            }
            Ok(Err(why)) => {
                eprintln!("harness: cannot materialise behaviour {}: {}", idx, why);
                return 2;
            }
            Err(p) => {
                eprintln!("harness: materialiser panicked on behaviour {}: {}", idx, p);
                return 2;
            }
        };
        rep.case(&json!([b["ver"], b["streams"], b["dir"], b["mslot"], b["nmini"], b["nmf"], b["units"]]), !m.trivial);
        sizes = (sizes.0.max(m.file.len()), sizes.1 + m.file.len());
        let ideal_streams: Vec<Value> = m.streams.iter().map(|_| json!("ok")).collect();
        let mut ideal = json!({ "streams": ideal_streams });
        let (mut obs, _) = read_streams(&m.file, &m.streams);
        // the same workbook through the public reader
        if let Some((_, wbytes)) = m.streams.iter().find(|s| s.0 == "Workbook") {
            // the read of the canonical layout (cached per length) and of this layout must both be
            // the workbook that was written
            let canon = canon_cache
                .entry(wbytes.len())
                .or_insert_with(|| read_xls(&cfb::simple_cfb(&[("Workbook", wbytes.as_slice())])))
                .clone();
            ideal["canonical"] = wb_expected();
            obs["canonical"] = canon;
            ideal["xls"] = wb_expected();
            obs["xls"] = read_xls(&m.file);
        }
        if obs != ideal {
            // does the as-is model predict exactly this outcome?
            let asis = &b["asis"];
            let first_err = asis.as_array().and_then(|a| a.iter().find(|x| x.as_str() != Some("ok")).cloned());
            let is_asis = match (&first_err, obs.get("new")) {
                (Some(e), Some(n)) => e.as_str() == Some("EmptyRootDir") && n.as_str().map_or(false, |s| s.contains("Empty Root")),
                _ => false,
            };
            let key = mismatch_key(&b["dev"], is_asis);
            let mut bb = b.clone();
            bb["replay_index"] = json!(idx);
            rep.fail(&key, &bb, ideal, obs);
        }
        if rep.evaluated % 4999 == 1 {
            rep.sample(json!({"ver": b["ver"], "streams": b["streams"], "units": b["units"], "file_bytes": m.file.len()}));
        }
    }
    rep.extra.insert("skipped_not_materialisable".into(), json!(skipped));
    rep.extra.insert("max_file_bytes".into(), json!(sizes.0));
    rep.extra.insert("total_file_bytes".into(), json!(sizes.1));
    rep.write(args.req("out"));
    0
}

// ------------------------------------------------------------------ drive
fn word(v: u32) -> u64 {
    if v >= 0xFFFF_FF00 {
        1_000_000 + (v & 0xFF) as u64
    } else {
        v as u64
    }
}

fn desc_json(d: &CfbDesc, names: &[String]) -> Value {
    let leaf = |i: usize| names[i].rsplit('/').next().unwrap().to_string();
    let sec: Vec<Value> = d
        .sec
        .iter()
        .enumerate()
        .map(|(id, u)| match u {
            None => json!({"t": "free"}),
            Some(Unit::Fat(_)) => json!({"t": "fat", "w": d.words[&(id as u32)].iter().map(|x| word(*x)).collect::<Vec<_>>()}),
            Some(Unit::Difat(_)) => json!({"t": "difat", "w": d.words[&(id as u32)].iter().map(|x| word(*x)).collect::<Vec<_>>()}),
            Some(Unit::MiniFat(_)) => json!({"t": "minifat", "w": d.words[&(id as u32)].iter().map(|x| word(*x)).collect::<Vec<_>>()}),
            Some(Unit::Dir(k)) => {
                let dps = d.ssz / 128;
                json!({"t": "dir", "d": d.dir[k * dps..(k + 1) * dps].iter().map(|e| json!({"name": e.name, "start": word(e.start), "len": e.len})).collect::<Vec<_>>()})
            }
            Some(Unit::Mini(k)) => json!({"t": "data", "o": "$mini", "i": k}),
            Some(Unit::Stream(i, k)) => json!({"t": "data", "o": leaf(*i), "i": k}),
        })
        .collect();
    let mini: Vec<Value> = d
        .mini
        .iter()
        .map(|m| match m {
            None => json!({"o": "", "i": 0}),
            Some((i, k)) => json!({"o": leaf(*i), "i": k}),
        })
        .collect();
    json!({
        "ver": if d.v4 { 4 } else { 3 },
        "hdr": {"dirLen": d.dir_len, "fatLen": d.fat_len, "dirStart": word(d.dir_start),
                "miniFatStart": word(d.minifat_start), "miniFatLen": d.minifat_len,
                "difatStart": word(d.difat_start), "difatLen": d.difat_len,
                "difat": d.header_difat.iter().map(|x| word(*x)).collect::<Vec<_>>()},
        "sec": sec, "mini": mini,
    })
}

fn fnv(b: &[u8]) -> u64 {
    b.iter().fold(0xcbf2_9ce4_8422_2325u64, |h, x| (h ^ *x as u64).wrapping_mul(0x100_0000_01b3))
}

/// decode returned bytes into block descriptors by content
fn decode_blocks(got: &[u8], bs: usize, index: &HashMap<(usize, u64), (String, usize)>, want_name: &str, want: &[u8]) -> Vec<Value> {
    let mut out = Vec::new();
    for (k, blk) in got.chunks(bs).enumerate() {
        if blk.len() == bs {
            match index.get(&(bs, fnv(blk))) {
                Some((n, i)) => out.push(json!({"o": n, "i": i})),
                None => out.push(json!({"o": "?", "i": 0})),
            }
        } else {
            // partial last block: identified by comparison with the logical block at that position
            let a = k * bs;
            let ok = want.len() >= a + blk.len() && &want[a..a + blk.len()] == blk;
            out.push(if ok { json!({"o": want_name, "i": k}) } else { json!({"o": "?", "i": 0}) });
        }
    }
    out
}

pub fn drive(args: &Args) -> i32 {
    let n = args.num("n", 40);
    let big = args.num("big", 0); // number of multi-MB layouts
    let huge = args.num("huge", 0); // number of > 6.9 MB layouts (real DIFAT need)
    // number of sparse layouts: small streams, mostly free 512-byte sectors, the streams' sectors at
    // the highest ids.  The i-th one needs 1 + i % 3 DIFAT sectors: > 13952 sectors (6.9 MB) for one,
    // > 30208 (15.4 MB) for two, > 46464 (23.8 MB) for three, so that FAT sectors listed in the
    // last DIFAT sector of the chain describe the streams.
    // streams' sectors at the highest ids, i.e. described by FAT sectors listed in a DIFAT sector
    let sparse = args.num("sparse", 0);
    let mut rng = StdRng::seed_from_u64(args.seed());
    let mut out = std::io::BufWriter::new(std::fs::File::create(args.req("out")).unwrap());
    let mut rep = Report::new();
    let boundary = [0usize, 1, 63, 64, 65, 127, 128, 511, 512, 513, 4031, 4032, 4033, 4095, 4096, 4097, 4607, 4608, 8191, 8192, 8193];
    let mut stats = json!({"v3": 0, "v4": 0, "difat_files": 0, "multi_fat_files": 0, "max_bytes": 0, "streams": 0});
    for run in 0..(n + big + huge + sparse) {
        let is_sparse = run >= n + big + huge;
        // the > 6.9 MB layouts use 512-byte sectors: > 109 FAT sectors, i.e. a DIFAT sector is needed
        let v4 = rng.gen_bool(0.5) && run < n + big;
        let run_kind_huge = run >= n + big && !is_sparse;
        let ssz = if v4 { 4096 } else { 512 };
        let ns = rng.gen_range(1..=5usize);
        let mut names: Vec<String> = Vec::new();
        let mut data: Vec<Vec<u8>> = Vec::new();
        let seed = rng.gen::<u64>();
        for i in 0..ns {
            let name = if i == 0 && rng.gen_bool(0.7) {
                "Workbook".to_string()
            } else if rng.gen_bool(0.25) {
                format!("Stor{}/Inner/S{}", i % 2, i)
            } else {
                format!("S{}", i)
            };
            let mut len = match rng.gen_range(0..10) {
                0..=4 => boundary[rng.gen_range(0..boundary.len())],
                5..=6 => rng.gen_range(0..20_000),
                7 => ssz * rng.gen_range(1..40) + [0usize, 1, ssz - 1][rng.gen_range(0..3)],
                8 => rng.gen_range(60_000..400_000),
                _ => rng.gen_range(0..4096),
            };
            if i == 0 && run >= n && run < n + big {
                len = rng.gen_range(1_000_000..3_000_000);
            }
            if i == 0 && run_kind_huge {
                len = 7_000_000 + rng.gen_range(0..600_000);
            }
            if name == "Workbook" {
                if len < MIN_WORKBOOK {
                    len += MIN_WORKBOOK;
                }
                data.push(workbook_bytes(seed, len));
            } else {
                data.push(stream_bytes(seed, &name, len));
            }
            names.push(name);
        }
        let refs: Vec<(&str, &[u8])> = names.iter().zip(data.iter()).map(|(a, b)| (a.as_str(), b.as_slice())).collect();
        let paths: Vec<&str> = refs.iter().map(|s| s.0).collect();
        let lens: Vec<usize> = refs.iter().map(|s| s.1.len()).collect();
        let mut l = CfbLayout { v4, ..Default::default() };
        // directory order with unused entries
        let ne = cfb::entries(&paths).len();
        let mut order: Vec<Option<usize>> = (0..ne).map(Some).collect();
        for _ in 0..rng.gen_range(0..6) {
            order.push(None);
        }
        if rng.gen_bool(0.8) {
            order.shuffle(&mut rng);
        }
        l.dir_order = order;
        l.extra_fat = match rng.gen_range(0..12) {
            0..=5 => 0,
            6..=8 => rng.gen_range(1..4),
            9 => 109,                      // forces a DIFAT sector
            10 => 108 + rng.gen_range(0..3),
            _ => if v4 { 0 } else { 109 + 127 + rng.gen_range(0..3) }, // two DIFAT sectors (v3)
        };
        if run >= n {
            l.extra_fat = rng.gen_range(0..2);
        }
        l.extra_minifat = [0, 0, 0, 1, 2][rng.gen_range(0..5)];
        l.free_minis = [0, 0, 1, 3, 17][rng.gen_range(0..5)];
        l.free_sectors = [0, 0, 1, 2, 9, 40][rng.gen_range(0..6)];
        l.trailing_pad = [0, 0, 1, 511, 512, 3000][rng.gen_range(0..6)];
        l.fill_seed = rng.gen();
        if is_sparse {
            l.extra_fat = 0;
            let ndifat = 1 + ((run - (n + big + huge)) % 3) as usize;
            // just past the point where the ndifat-th DIFAT sector becomes necessary (FAT sector count
            // 109 + 127 * (ndifat - 1) + 1 exactly: 110, 237, 364), every fourth one further beyond
            let k = run - (n + big + huge);
            l.free_sectors = (109 + 127 * (ndifat - 1)) * 128 + if k % 4 == 3 { rng.gen_range(20..300) } else { rng.gen_range(1..20) };
            if k % 4 != 3 {
                // exactly the smallest FAT that needs the ndifat-th DIFAT sector: 110, 237, 364 FAT sectors
                let target = 109 + 127 * (ndifat - 1) + 1;
                l.free_sectors = (target - 1) * 128;
                for _ in 0..4000 {
                    let nf = cfb::plan(&paths, &lens, &l).n_fat;
                    if nf == target { break; }
                    if nf > target { l.free_sectors -= 1; } else { l.free_sectors += 1; }
                }
            }
        }
        let p = cfb::plan(&paths, &lens, &l);
        let mut ids: Vec<u32> = (0..p.total_sectors as u32).collect();
        match if is_sparse { 1 } else { rng.gen_range(0..5) } {
            0 => {}
            1 => ids.reverse(),
            _ => ids.shuffle(&mut rng),
        }
        ids.truncate(p.units.len());
        l.placement = Some(ids);
        let mut mids: Vec<u32> = (0..p.total_minis as u32).collect();
        match rng.gen_range(0..4) {
            0 => {}
            1 => mids.reverse(),
            _ => mids.shuffle(&mut rng),
        }
        mids.truncate(p.mini_units.len());
        l.mini_placement = Some(mids);
        let (file, d) = cfb::build_cfb_described(&refs, &l);
        *stats.get_mut(if v4 { "v4" } else { "v3" }).unwrap() = json!(stats[if v4 { "v4" } else { "v3" }].as_u64().unwrap() + 1);
        if p.n_difat > 0 {
            stats["difat_files"] = json!(stats["difat_files"].as_u64().unwrap() + 1);
        }
        if p.n_fat > 1 && p.total_sectors > ssz / 4 {
            stats["multi_fat_files"] = json!(stats["multi_fat_files"].as_u64().unwrap() + 1);
        }
        stats["max_bytes"] = json!(stats["max_bytes"].as_u64().unwrap().max(file.len() as u64));
        stats["streams"] = json!(stats["streams"].as_u64().unwrap() + ns as u64);

        // index of logical blocks
        let mut index: HashMap<(usize, u64), (String, usize)> = HashMap::new();
        for (name, bytes) in names.iter().zip(data.iter()) {
            let bs = if bytes.len() < 4096 { 64 } else { ssz };
            let leaf = name.rsplit('/').next().unwrap().to_string();
            for (k, blk) in bytes.chunks(bs).enumerate() {
                if blk.len() == bs {
                    index.insert((bs, fnv(blk)), (leaf.clone(), k));
                }
            }
        }
        let streams: Vec<(String, Vec<u8>)> = names.iter().cloned().zip(data.iter().cloned()).collect();
        let (summary, got) = read_streams(&file, &streams);
        let mut fj = desc_json(&d, &names);
        fj["e"] = json!("file");
        fj["run"] = json!(run);
        fj["geo"] = json!({"ssz": ssz, "msz": 64, "cut": 4096, "eps": ssz / 4, "dps": ssz / 128});
        fj["streams"] = json!(names.iter().zip(lens.iter()).map(|(n, l)| json!({"n": n.rsplit('/').next().unwrap(), "len": l})).collect::<Vec<_>>());
        fj["new"] = match (summary.get("new"), summary.get("panic")) {
            (Some(e), _) => e.clone(),
            (_, Some(p)) => json!(format!("panic: {}", p)),
            _ => json!("ok"),
        };
        writeln!(out, "{}", fj).unwrap();
        let beh = json!({"run": run, "seed": args.seed(), "ver": fj["ver"], "streams": fj["streams"], "hdr": fj["hdr"],
                         "layout": {"extra_fat": l.extra_fat, "free_sectors": l.free_sectors, "n_fat": p.n_fat, "n_difat": p.n_difat}});
        rep.case(&beh, true);
        let ideal = json!({"streams": streams.iter().map(|_| json!("ok")).collect::<Vec<_>>()});
        if summary != ideal {
            rep.fail("unexplained", &beh, ideal, summary.clone());
        }
        for (i, g) in got.iter().enumerate().take(names.len()) {
            let leaf = names[i].rsplit('/').next().unwrap();
            let bs = if lens[i] < 4096 { 64 } else { ssz };
            let ev = match g {
                Err(e) => json!({"e": "get", "name": leaf, "res": e}),
                Ok(bytes) => json!({"e": "get", "name": leaf, "res": "ok", "len": bytes.len(), "hash": format!("{:016x}", fnv(bytes)),
                                    "exact": bytes == &data[i],
                                    "blocks": decode_blocks(bytes, bs, &index, leaf, &data[i])}),
            };
            writeln!(out, "{}", ev).unwrap();
        }
        // the workbook through the public reader as well
        if let Some(i) = names.iter().position(|n| n == "Workbook") {
            let x = read_xls(&file);
            if x != wb_expected() {
                rep.fail("unexplained", &beh, wb_expected(), json!({"xls": x, "len": lens[i]}));
            }
        }
    }
    rep.extra.insert("stats".into(), stats);
    if let Some(r) = args.get("report") {
        rep.write(r);
    }
    0
}
