//! X03 -- the cell-value algebra (tla/dt/DataType.tla): every (operation, argument, value) triple
//! of the specification evaluated on the real `Data` and on a borrowed `DataRef`.
use crate::common::*;
use calamine::{CellErrorType, Data, DataRef, DataType, ExcelDateTime, ExcelDateTimeType};
use serde_json::json;

fn data(code: &str) -> Option<Data> {
    Some(match code {
        "E" => Data::Empty,
        "I7" => Data::Int(7),
        "Im3" => Data::Int(-3),
        "F1.5" => Data::Float(1.5),
        "F2" => Data::Float(2.0),
        "Fm2.7" => Data::Float(-2.7),
        "B1" => Data::Bool(true),
        "B0" => Data::Bool(false),
        "S12" => Data::String("12".into()),
        "S1.5" => Data::String("1.5".into()),
        "Sx" => Data::String("x".into()),
        "S0" => Data::String(String::new()),
        "DT" => Data::DateTime(ExcelDateTime::new(45000.5, ExcelDateTimeType::DateTime, false)),
        "TD" => Data::DateTime(ExcelDateTime::new(1.5, ExcelDateTimeType::TimeDelta, false)),
        "DI" => Data::DateTimeIso("2020-01-02T03:04:05".into()),
        "DU" => Data::DurationIso("PT1H2M3S".into()),
        "XNA" => Data::Error(CellErrorType::NA),
        "XDiv0" => Data::Error(CellErrorType::Div0),
        _ => return None, // DataRef-only codes
    })
}

fn fnum(f: f64) -> String {
    format!("f:{}", f)
}

/// one operation on any DataType implementor; `own` converts to the code of the owned value
fn eval<T: DataType + PartialEq<str> + for<'a> PartialEq<&'a str> + PartialEq<f64> + PartialEq<i64> + PartialEq<bool>>(v: &T, op: &str, arg: &str) -> String {
    // string equality exists against `str` and against `&str`: both must answer alike
    let streq = |t: &str| -> String { let (a, c) = (*v == *t, *v == t); if a == c { format!("b:{}", a) } else { "b:str-and-&str-disagree".to_string() } };
    let b = |x: bool| format!("b:{}", x);
    match op {
        "is" => b(match arg {
            "empty" => v.is_empty(), "int" => v.is_int(), "float" => v.is_float(), "bool" => v.is_bool(), "string" => v.is_string(),
            "datetime" => v.is_datetime(), "datetime_iso" => v.is_datetime_iso(), "duration_iso" => v.is_duration_iso(), "error" => v.is_error(),
            o => panic!("harness: kind {}", o),
        }),
        "get" => match arg {
            "empty" => "none".into(),
            "int" => v.get_int().map_or("none".into(), |i| format!("i:{}", i)),
            "float" => v.get_float().map_or("none".into(), fnum),
            "bool" => v.get_bool().map_or("none".into(), |x| b(x)),
            "string" => v.get_string().map_or("none".into(), |s| format!("s:{}", s)),
            "datetime" => v.get_datetime().map_or("none".into(), |d| format!("dt:{}", d.as_f64())),
            "datetime_iso" => v.get_datetime_iso().map_or("none".into(), |s| format!("s:{}", s)),
            "duration_iso" => v.get_duration_iso().map_or("none".into(), |s| format!("s:{}", s)),
            "error" => v.get_error().map_or("none".into(), |e| format!("e:{:?}", e)),
            o => panic!("harness: kind {}", o),
        },
        "as_i64" => v.as_i64().map_or("none".into(), |i| format!("i:{}", i)),
        "as_f64" => v.as_f64().map_or("none".into(), fnum),
        "as_string" => v.as_string().map_or("none".into(), |s| format!("s:{}", s)),
        "display" => "n/a".into(),
        "eq" if arg == "s:12" => streq("12"),
        "eq" if arg == "s:x" => streq("x"),
        "eq" => b(match arg {
            "f:2" => *v == 2.0f64, "f:1.5" => *v == 1.5f64,
            "i:7" => *v == 7i64, "i:12" => *v == 12i64,
            "b:true" => *v == true, "b:false" => *v == false,
            o => panic!("harness: prim {}", o),
        }),
        o => panic!("harness: op {}", o),
    }
}

/// code of an owned Data value (inverse of `data` on the generated codes)
fn code_of(d: &Data) -> String {
    for c in ["E", "I7", "Im3", "F1.5", "F2", "Fm2.7", "B1", "B0", "S12", "S1.5", "Sx", "S0", "DT", "TD", "DI", "DU", "XNA", "XDiv0"] {
        if data(c).as_ref() == Some(d) { return c.to_string(); }
    }
    format!("?{:?}", d)
}

pub fn replay(args: &Args) -> i32 {
    let mut rep = Report::new();
    for b in read_ndjson(args.req("in")) {
        let (op, arg, code, want) = (b["op"].as_str().unwrap(), b["arg"].as_str().unwrap(), b["code"].as_str().unwrap(), b["want"].as_str().unwrap());
        rep.case(&b, true);
        let shared12 = String::from("12");
        let sharedx = String::from("x");
        let r = catch(|| {
            let owned = data(code);
            let mut got: Vec<(String, String)> = Vec::new();
            // the borrowed side: DataRef built from the owned value, or a SharedString
            let dref: DataRef = match code {
                "SS12" => DataRef::SharedString(&shared12),
                "SSx" => DataRef::SharedString(&sharedx),
                _ => match owned.clone().unwrap() {
                    Data::Empty => DataRef::Empty, Data::Int(i) => DataRef::Int(i), Data::Float(f) => DataRef::Float(f), Data::Bool(x) => DataRef::Bool(x),
                    Data::String(s) => DataRef::String(s), Data::DateTime(d) => DataRef::DateTime(d), Data::DateTimeIso(s) => DataRef::DateTimeIso(s),
                    Data::DurationIso(s) => DataRef::DurationIso(s), Data::Error(e) => DataRef::Error(e),
                },
            };
            if op == "display" {
                // Display exists for the owned value only
                if let Some(d) = &owned { got.push(("Data".into(), format!("s:{}", d))); }
                else { got.push(("Data".into(), format!("s:{}", Data::from(dref)))); }
            } else if op == "owned" {
                got.push(("DataRef->Data".into(), code_of(&Data::from(dref))));
            } else {
                if let Some(d) = &owned { got.push(("Data".into(), eval(d, op, arg))); }
                got.push(("DataRef".into(), eval(&dref, op, arg)));
            }
            got
        });
        match r {
            Ok(got) => {
                for (side, g) in &got {
                    if g != want {
                        // named deviation: PartialEq<str> of DataRef ignores the SharedString variant
                        let key = if op == "eq" && code.starts_with("SS") && arg.starts_with("s:") && g == "b:false" { "dev:SharedStringEqStr" } else { "datatype" };
                        rep.fail(key, &b, json!(want), json!({"side": side, "got": g}));
                    }
                }
                if rep.evaluated % 97 == 1 { rep.sample(json!({"behaviour": b, "observed": got})); }
            }
            Err(p) => rep.fail("datatype:panic", &b, json!(want), json!(p)),
        }
    }
    rep.write(args.req("out"));
    0
}

/// `cvh replay dims`: Dimensions::contains / len against tla/dt/Dims.tla
pub fn replay_dims(args: &Args) -> i32 {
    let mut rep = Report::new();
    for b in read_ndjson(args.req("in")) {
        rep.case(&b, true);
        let g = |k: &str, i: usize| b[k][i].as_u64().unwrap() as u32;
        let d = calamine::Dimensions::new((g("a", 0), g("a", 1)), (g("b", 0), g("b", 1)));
        let got = catch(|| (d.contains(g("p", 0), g("p", 1)), d.len()));
        match got {
            Ok((c, l)) => {
                if json!(c) != b["contains"] || json!(l) != b["len"] {
                    rep.fail("dims", &b, json!({"contains": b["contains"], "len": b["len"]}), json!({"contains": c, "len": l}));
                }
            }
            Err(p) => rep.fail("dims:panic", &b, json!("no panic"), json!(p)),
        }
    }
    rep.write(args.req("out"));
    0
}
