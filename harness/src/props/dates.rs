//! C11 — serial date-times -> calendar. The real conversions are swept (windows in the quick
//! tier, every whole day 0..=2958465 in both systems in the thorough tier) and logged as events
//! for Trace_ExcelDate.tla; several access paths are required to agree before an event is logged.
use crate::common::*;
use calamine::{Data, DataRef, DataType, ExcelDateTime, ExcelDateTimeType, Range};
use serde::Deserialize;
use chrono::{Datelike, NaiveDateTime, Timelike};
use rand::rngs::StdRng;
use rand::{Rng, SeedableRng};
use serde_json::{json, Value};
use std::io::Write;

const DAY_MS: f64 = 86_400_000.0;

#[derive(Deserialize)]
struct HelperRow {
    #[serde(deserialize_with = "calamine::deserialize_as_datetime_or_none")]
    dt: Option<NaiveDateTime>,
    #[serde(deserialize_with = "calamine::deserialize_as_date_or_none")]
    d: Option<chrono::NaiveDate>,
    #[serde(deserialize_with = "calamine::deserialize_as_time_or_none")]
    t: Option<chrono::NaiveTime>,
    #[serde(deserialize_with = "calamine::deserialize_as_datetime_or_string")]
    dts: Result<NaiveDateTime, String>,
    #[serde(deserialize_with = "calamine::deserialize_as_duration_or_none")]
    dur: Option<chrono::Duration>,
}

/// the serde fallback helpers on one cell (the same cell under five headers)
fn helpers(cell: Data) -> Result<HelperRow, String> {
    let mut r: Range<Data> = Range::new((0, 0), (1, 4));
    for (i, h) in ["dt", "d", "t", "dts", "dur"].iter().enumerate() {
        r.set_value((0, i as u32), Data::String(h.to_string()));
        r.set_value((1, i as u32), cell.clone());
    }
    let mut it = r.deserialize::<HelperRow>().map_err(|e| e.to_string())?;
    it.next().ok_or("no record")?.map_err(|e| e.to_string())
}


fn ymd(dt: &NaiveDateTime) -> Value {
    json!([dt.year(), dt.month(), dt.day()])
}
fn hms(dt: &NaiveDateTime) -> Value {
    json!([dt.hour(), dt.minute(), dt.second(), dt.nanosecond() / 1_000_000])
}

/// all access paths for one value; Ok(datetime) when they agree
fn convert(value: f64, is_1904: bool, whole: Option<i64>) -> Result<Option<NaiveDateTime>, String> {
    let r = catch(|| {
        let edt = ExcelDateTime::new(value, ExcelDateTimeType::DateTime, is_1904);
        let a = edt.as_datetime();
        let cell = Data::DateTime(edt);
        // (the calendar reading of a serial does not depend on whether its format is a date or an elapsed-time one)
        let as_delta = ExcelDateTime::new(value, ExcelDateTimeType::TimeDelta, is_1904);
        let mut paths = vec![("Data::DateTime", cell.as_datetime()), ("DataRef::DateTime", DataRef::DateTime(edt).as_datetime()),
                             ("ExcelDateTime(TimeDelta)", as_delta.as_datetime()), ("Data::DateTime(TimeDelta)", Data::DateTime(as_delta).as_datetime())];
        if !is_1904 {
            paths.push(("Data::Float", Data::Float(value).as_datetime()));
            paths.push(("DataRef::Float", DataRef::Float(value).as_datetime()));
            if let Some(i) = whole {
                paths.push(("Data::Int", Data::Int(i).as_datetime()));
            }
        }
        for (n, p) in &paths {
            if *p != a {
                return Err(format!("{} gives {:?}, ExcelDateTime::as_datetime gives {:?}", n, p, a));
            }
        }
        // as_date / as_time are the components of as_datetime
        if cell.as_date() != a.map(|d| d.date()) || cell.as_time() != a.map(|d| d.time()) {
            return Err("as_date/as_time are not the components of as_datetime".to_string());
        }
        if !is_1904 && (Data::Float(value).as_date() != a.map(|d| d.date()) || Data::Float(value).as_time() != a.map(|d| d.time())) {
            return Err("Float as_date/as_time are not the components of as_datetime".to_string());
        }
        // serde helpers (1900 system: they see the cell as a plain number)
        if !is_1904 {
            for c in [Data::Float(value), Data::DateTime(edt)] {
                let h = helpers(c)?;
                if h.dt != a || h.d != a.map(|d| d.date()) || h.t != a.map(|d| d.time()) || h.dts.ok() != a {
                    return Err("deserialize_as_date/time/datetime helpers disagree with as_datetime".to_string());
                }
            }
        }
        Ok(a)
    });
    match r {
        Ok(x) => x,
        Err(p) => Err(format!("panic: {}", p)),
    }
}

fn day_event(sys: u32, serial: i64) -> Value {
    match convert(serial as f64, sys == 1904, Some(serial)) {
        Ok(Some(dt)) => json!({"e": "day", "sys": sys, "serial": serial, "ymd": ymd(&dt), "t": hms(&dt)}),
        Ok(None) => json!({"e": "day", "sys": sys, "serial": serial, "ymd": [], "t": [], "none": true}),
        Err(m) => json!({"e": "day", "sys": sys, "serial": serial, "ymd": [], "t": [], "problem": m}),
    }
}

fn frac_event(sys: u32, serial: i64, k: i64, delta: f64) -> Value {
    let f = serial as f64 + (k as f64 + delta) / DAY_MS;
    match convert(f, sys == 1904, None) {
        Ok(Some(dt)) => json!({"e": "frac", "sys": sys, "serial": serial, "k": k, "delta": delta.to_string(), "ymd": ymd(&dt), "t": hms(&dt)}),
        Ok(None) => json!({"e": "frac", "sys": sys, "serial": serial, "k": k, "ymd": [], "t": [], "none": true}),
        Err(m) => json!({"e": "frac", "sys": sys, "serial": serial, "k": k, "ymd": [], "t": [], "problem": m}),
    }
}

fn dur_event(serial: i64, k: i64, delta: f64) -> Value {
    let f = serial as f64 + (k as f64 + delta) / DAY_MS;
    let r = catch(|| {
        let edt = ExcelDateTime::new(f, ExcelDateTimeType::TimeDelta, false);
        let a = edt.as_duration();
        let b = Data::DateTime(edt).as_duration();
        (a, b)
    });
    match r {
        Ok((Some(a), Some(b))) if a == b => {
            let days = a.num_days();
            let rem = (a - chrono::Duration::days(days)).num_milliseconds();
            json!({"e": "dur", "serial": serial, "k": k, "days": days, "ms": rem})
        }
        Ok(x) => json!({"e": "dur", "serial": serial, "k": k, "days": -1, "ms": -1, "problem": format!("{:?}", x)}),
        Err(p) => json!({"e": "dur", "serial": serial, "k": k, "days": -1, "ms": -1, "problem": p}),
    }
}

pub fn drive(args: &Args) -> i32 {
    let prefix = args.req("out");
    let full = args.get("mode") == Some("full");
    let chunks = args.num("chunks", 1) as usize;
    let mut rng = StdRng::seed_from_u64(args.seed() ^ 0xC11);
    let max: i64 = 2_958_465;
    let mut outs: Vec<std::io::BufWriter<std::fs::File>> = (0..chunks)
        .map(|i| std::io::BufWriter::new(std::fs::File::create(format!("{}.{}.ndjson", prefix, i)).unwrap()))
        .collect();
    // whole days
    let mut ranges: Vec<(i64, i64)> = Vec::new();
    if full {
        ranges.push((0, max));
    } else {
        for s in [0i64, 36_400, 73_000, 109_500, 146_000, 693_000, 1_000_000, 2_000_000, max - 1500] {
            ranges.push((s, (s + 1500).min(max)));
        }
        for _ in 0..6 {
            let s = rng.gen_range(0..max - 700);
            ranges.push((s, s + 700));
        }
    }
    let total: i64 = ranges.iter().map(|r| r.1 - r.0 + 1).sum::<i64>() * 2;
    let per = (total as usize + chunks - 1) / chunks;
    let mut count = 0usize;
    for sys in [1900u32, 1904] {
        for (a, b) in &ranges {
            for serial in *a..=*b {
                let hi = if sys == 1904 { max - 1462 } else { max };
                if serial > hi {
                    continue;
                }
                writeln!(outs[(count / per).min(chunks - 1)], "{}", day_event(sys, serial)).unwrap();
                count += 1;
            }
        }
    }
    // fractions: on and +-0.4 ms around second / minute / hour / day boundaries, plus random
    let o = &mut outs[0];
    let ks: [i64; 12] = [0, 1, 999, 1000, 59_999, 60_000, 3_599_999, 3_600_000, 43_200_000, 86_399_000, 86_399_998, 86_399_999];
    // the special serials in BOTH date systems (a time of day on 1900-02-28 = serial 59.x, on 1900-03-01,
    // around the 1904 offset ...), with every boundary fraction
    for sys in [1900u32, 1904] {
        for serial in [0i64, 1, 2, 58, 59, 61, 62, 1461, 1462, 1463, 25_569, 44_000] {
            for k in ks.iter() {
                for delta in [0.0, 0.4, -0.4] {
                    if *k == 0 && delta < 0.0 || *k == 86_399_999 && delta > 0.0 { continue; }
                    writeln!(o, "{}", frac_event(sys, serial, *k, delta)).unwrap();
                }
            }
            // less than half a millisecond below midnight rounds UP to the next day, 00:00:00.000 --
            // for the date, the time and the date-time alike (not across the fictitious 1900-02-29)
            if !(sys == 1900 && (serial == 59 || serial == 58)) {
                let f = serial as f64 + 86_399_999.6 / DAY_MS;
                let ev = match convert(f, sys == 1904, None) {
                    Ok(Some(dt)) => json!({"e": "frac", "sys": sys, "serial": serial + 1, "k": 0, "delta": "-0.4 (built below midnight)", "ymd": ymd(&dt), "t": hms(&dt)}),
                    Ok(None) => json!({"e": "frac", "sys": sys, "serial": serial + 1, "k": 0, "ymd": [], "t": [], "none": true}),
                    Err(m) => json!({"e": "frac", "sys": sys, "serial": serial + 1, "k": 0, "ymd": [], "t": [], "problem": m}),
                };
                writeln!(o, "{}", ev).unwrap();
            }
        }
    }
    // "conversions are monotone": ascending chains of serials across every special point (the fictitious
    // 1900-02-29 above all: less than half a millisecond below serial 60 rounds to the instant of serial
    // 60 and must not fall back before 59.x), one event per consecutive pair, both results logged
    for sys in [1900u32, 1904] {
        for day in [0i64, 1, 58, 59, 60, 61, 1461, 1462, 25_569, 44_000] {
            let d = day as f64;
            let chain = [d - 1.0 + 0.5, d - 1.0 + 86_399_000.0 / DAY_MS, d - 1.0 + 86_399_999.4 / DAY_MS, d - 1.0 + 86_399_999.6 / DAY_MS,
                         d - 1e-9, d - 1e-11, d, d + 0.4 / DAY_MS, d + 0.6 / DAY_MS, d + 1e-9, d + 0.5, d + 1.0];
            // serials in [60, 61) of the 1900 system name the fictitious day: the statement fixes no calendar
            // value for them (see the assumptions), so they are left out and their neighbours compared directly
            let chain: Vec<f64> = chain.iter().copied().filter(|f| !(sys == 1900 && *f >= 60.0 && *f < 61.0)).collect();
            for w in chain.windows(2) {
                if w[0] < 0.0 || w[0] > w[1] { continue; }
                let side = |f: f64| match convert(f, sys == 1904, None) {
                    Ok(Some(dt)) => json!({"ymd": ymd(&dt), "t": hms(&dt)}),
                    Ok(None) => json!({"ymd": [], "t": [], "none": true}),
                    Err(m) => json!({"ymd": [], "t": [], "problem": m}),
                };
                writeln!(o, "{}", json!({"e": "mono", "sys": sys, "lo_serial": format!("{:.12}", w[0]), "hi_serial": format!("{:.12}", w[1]), "lo": side(w[0]), "hi": side(w[1])})).unwrap();
            }
        }
    }
    let nfrac = if full { 4000 } else { 250 };
    for i in 0..nfrac {
        let sys = if i % 2 == 0 { 1900 } else { 1904 };
        let serial = match i % 5 {
            0 => [0i64, 1, 58, 59, 61, 62, 1461, 1462, 25_569, 44_000][(i / 5) % 10],
            _ => rng.gen_range(61..max - 1500),
        };
        if sys == 1900 && serial == 60 {
            continue;
        }
        for k in ks.iter() {
            for delta in [0.0, 0.4, -0.4] {
                if *k == 0 && delta < 0.0 || *k == 86_399_999 && delta > 0.0 {
                    continue; // would move to the neighbouring day: that case is the next line's business
                }
                writeln!(o, "{}", frac_event(sys, serial, *k, delta)).unwrap();
            }
        }
        for _ in 0..6 {
            writeln!(o, "{}", frac_event(sys, serial, rng.gen_range(0..86_400_000), 0.0)).unwrap();
        }
        if i % 3 == 0 {
            let k = rng.gen_range(0..86_400_000);
            writeln!(o, "{}", dur_event(serial, k, 0.0)).unwrap();
            writeln!(o, "{}", dur_event(serial, k, 0.4)).unwrap();
            writeln!(o, "{}", dur_event(0, k, -0.4 * ((k > 0) as i64 as f64))).unwrap();
        }
    }
    // serde helpers on cells that carry more than a number: the 1904 flag and the duration flavour
    {
        let cell = Data::DateTime(ExcelDateTime::new(44000.25, ExcelDateTimeType::DateTime, true));
        let want = cell.as_datetime();
        let got = catch(|| helpers(cell.clone())).ok().and_then(|r| r.ok()).and_then(|h| h.dt);
        writeln!(o, "{}", json!({"e": "helper", "key": "dev:Helper1904Lost", "what": "1904 DateTime cell through deserialize_as_datetime_or_none", "agree": got == want, "got": format!("{:?}", got), "want": format!("{:?}", want)})).unwrap();
        let cell = Data::DateTime(ExcelDateTime::new(1.5, ExcelDateTimeType::TimeDelta, false));
        let want = cell.as_duration();
        let got = catch(|| helpers(cell.clone())).ok().and_then(|r| r.ok()).and_then(|h| h.dur);
        writeln!(o, "{}", json!({"e": "helper", "key": "dev:HelperDurationNone", "what": "duration cell through deserialize_as_duration_or_none", "agree": got == want, "got": format!("{:?}", got), "want": format!("{:?}", want)})).unwrap();
    }
    // beyond the representable calendar -> None (never a panic, never a wrong date)
    for (what, v) in [("1e15", 1e15), ("1e20", 1e20), ("+inf", f64::INFINITY), ("-1e20", -1e20), ("-inf", f64::NEG_INFINITY), ("f64::MAX", f64::MAX), ("f64::MIN", f64::MIN)] {
        for is_1904 in [false, true] {
            let res = match convert(v, is_1904, None) {
                Ok(None) => "None".to_string(),
                Ok(Some(d)) => format!("Some({})", d),
                Err(m) => m,
            };
            writeln!(o, "{}", json!({"e": "none", "what": what, "is_1904": is_1904, "result": res})).unwrap();
        }
    }
    0
}
