//! C09 — serde deserialisation of a Range.
//! replay: scenarios enumerated by MC_De (logical typed table + physical presentation + header
//!         configuration + record shape) are built as real Range<Data>, deserialised through the
//!         public API with real serde impls (String/f64/i64/bool/Option/Data/HashMap/derived struct)
//!         and the observation sequence (build, hint, next, ...) compared with the ideal one.
//! drive : random larger scenarios; every call is logged as an event for Trace_De.tla.
use crate::common::*;
use calamine::{CellErrorType, Data, DeError, Range, RangeDeserializer, RangeDeserializerBuilder};
use rand::rngs::StdRng;
use rand::seq::SliceRandom;
use rand::{Rng, SeedableRng};
use serde::de::{DeserializeSeed, IgnoredAny, MapAccess, SeqAccess, Visitor};
use serde::{Deserialize, Deserializer};
use serde_json::{json, Value};
use std::cell::RefCell;
use std::collections::HashMap;
use std::io::Write;

#[derive(Clone, Debug)]
enum Shape {
    Tuple(Vec<String>),
    Struct(Vec<(String, String)>),
}
thread_local! { static SHAPE: RefCell<Shape> = RefCell::new(Shape::Tuple(vec![])); }

fn data_code(d: &Data) -> String {
    match d {
        Data::Empty => "d:E".into(),
        Data::Int(7) => "d:I7".into(),
        Data::Float(f) if *f == 1.5 => "d:F1.5".into(),
        Data::String(s) if s == "x" => "d:Sx".into(),
        Data::String(s) if s.is_empty() => "d:S0".into(),
        Data::Bool(true) => "d:B1".into(),
        o => format!("d:?{:?}", o),
    }
}

struct TySeed<'a>(&'a str);
impl<'de, 'a> DeserializeSeed<'de> for TySeed<'a> {
    type Value = String;
    fn deserialize<D: Deserializer<'de>>(self, d: D) -> Result<String, D::Error> {
        Ok(match self.0 {
            "String" => format!("s:{}", String::deserialize(d)?),
            "f64" => format!("f:{:?}", f64::deserialize(d)?),
            "i64" => format!("i:{}", i64::deserialize(d)?),
            "bool" => format!("b:{}", bool::deserialize(d)?),
            "Data" => data_code(&Data::deserialize(d)?),
            "OptString" => Option::<String>::deserialize(d)?.map_or("none".into(), |v| format!("s:{}", v)),
            "Optf64" => Option::<f64>::deserialize(d)?.map_or("none".into(), |v| format!("f:{:?}", v)),
            "Opti64" => Option::<i64>::deserialize(d)?.map_or("none".into(), |v| format!("i:{}", v)),
            "Optbool" => Option::<bool>::deserialize(d)?.map_or("none".into(), |v| format!("b:{}", v)),
            "I64OrNone" => calamine::deserialize_as_i64_or_none(d)?.map_or("none".into(), |v| format!("i:{}", v)),
            "F64OrNone" => calamine::deserialize_as_f64_or_none(d)?.map_or("none".into(), |v| format!("f:{:?}", v)),
            "I64OrString" => match calamine::deserialize_as_i64_or_string(d)? { Ok(v) => format!("i:{}", v), Err(t) => format!("es:{}", t) },
            "F64OrString" => match calamine::deserialize_as_f64_or_string(d)? { Ok(v) => format!("f:{:?}", v), Err(t) => format!("es:{}", t) },
            t => panic!("harness: unknown type {}", t),
        })
    }
}

/// a record whose shape is chosen at run time (thread-local SHAPE)
struct Dyn(Value);
static F1: [&str; 1] = ["a"];
static F2: [&str; 2] = ["a", "b"];
static F3: [&str; 3] = ["a", "b", "c"];

impl<'de> Deserialize<'de> for Dyn {
    fn deserialize<D: Deserializer<'de>>(d: D) -> Result<Dyn, D::Error> {
        struct V(Shape);
        impl<'de> Visitor<'de> for V {
            type Value = Dyn;
            fn expecting(&self, f: &mut std::fmt::Formatter<'_>) -> std::fmt::Result {
                f.write_str("a record")
            }
            fn visit_seq<A: SeqAccess<'de>>(self, mut seq: A) -> Result<Dyn, A::Error> {
                let types: Vec<String> = match &self.0 {
                    Shape::Tuple(t) => t.clone(),
                    Shape::Struct(f) => f.iter().map(|x| x.1.clone()).collect(),
                };
                let mut out = Vec::new();
                for (i, t) in types.iter().enumerate() {
                    match seq.next_element_seed(TySeed(t))? {
                        Some(v) => out.push(json!(v)),
                        None => return Err(serde::de::Error::invalid_length(i, &"more cells")),
                    }
                }
                Ok(Dyn(json!(out)))
            }
            fn visit_map<A: MapAccess<'de>>(self, mut map: A) -> Result<Dyn, A::Error> {
                let fields = match &self.0 {
                    Shape::Struct(f) => f.clone(),
                    _ => vec![],
                };
                let mut out = serde_json::Map::new();
                while let Some(k) = map.next_key::<String>()? {
                    if let Some((_, t)) = fields.iter().find(|f| f.0 == k) {
                        let v = map.next_value_seed(TySeed(t))?;
                        out.insert(k, json!(v));
                    } else {
                        map.next_value::<IgnoredAny>()?;
                    }
                }
                Ok(Dyn(Value::Object(out)))
            }
        }
        let shape = SHAPE.with(|s| s.borrow().clone());
        match &shape {
            Shape::Tuple(t) => d.deserialize_tuple(t.len(), V(shape.clone())),
            Shape::Struct(f) => {
                let names: &'static [&'static str] = match f.len() {
                    1 => &F1,
                    2 => &F2,
                    _ => &F3,
                };
                d.deserialize_struct("Dyn", names, V(shape.clone()))
            }
        }
    }
}

#[derive(Deserialize, Debug)]
struct RecAB {
    a: Option<String>,
    b: Option<f64>,
}

fn code_data(c: &str) -> Data {
    match c {
        "E" => Data::Empty,
        "S0" => Data::String(String::new()),
        "Sx" => Data::String("x".into()),
        "S12" => Data::String("12".into()),
        "Spad" => Data::String(" a ".into()),
        "S1.5" => Data::String("1.5".into()),
        "STRUE" => Data::String("TRUE".into()),
        "Sfalse" => Data::String("false".into()),
        "Strue" => Data::String("true".into()),
        "STrue" => Data::String("True".into()),
        "SFALSE" => Data::String("FALSE".into()),
        "SFalse" => Data::String("False".into()),
        "I7" => Data::Int(7),
        "I0" => Data::Int(0),
        "F0" => Data::Float(0.0),
        "F0.5" => Data::Float(0.5),
        "Ibig" => Data::Int(9007199254740993),
        "F1.5" => Data::Float(1.5),
        "F2" => Data::Float(2.0),
        "B1" => Data::Bool(true),
        "B0" => Data::Bool(false),
        "XDiv0" => Data::Error(CellErrorType::Div0),
        "XNA" => Data::Error(CellErrorType::NA),
        o => panic!("harness: unknown code {}", o),
    }
}

fn names() -> [&'static str; 3] {
    ["a", "b", "c"]
}

fn hdr_text(sc: &Value, j: usize) -> String {
    let f = sc["colf"][j].as_u64().unwrap() as usize - 1;
    if sc["pad"][j].as_bool().unwrap_or(false) {
        format!(" {} ", names()[f])
    } else {
        names()[f].to_string()
    }
}

pub fn build_range(sc: &Value) -> Range<Data> {
    let w = sc["w"].as_u64().unwrap() as usize;
    let hdr = sc["hdrrow"].as_bool().unwrap();
    let rows = sc["rows"].as_array().unwrap();
    let total = rows.len() + hdr as usize;
    if total == 0 {
        return Range::empty();
    }
    let o = (sc["origin"][0].as_u64().unwrap() as u32, sc["origin"][1].as_u64().unwrap() as u32);
    let mut r = Range::new(o, (o.0 + total as u32 - 1, o.1 + w as u32 - 1));
    let mut ri = o.0;
    if hdr {
        for j in 0..w {
            r.set_value((ri, o.1 + j as u32), Data::String(hdr_text(sc, j)));
        }
        ri += 1;
    }
    for row in rows {
        for j in 0..w {
            let f = sc["colf"][j].as_u64().unwrap() as usize - 1;
            let d = code_data(row[f].as_str().unwrap());
            if d != Data::Empty {
                r.set_value((ri, o.1 + j as u32), d);
            }
        }
        ri += 1;
    }
    r
}

fn err_json(e: &DeError) -> Value {
    match e {
        DeError::CellError { err, pos } => json!(["cellerr", crate::observe::err_name(err), pos.0, pos.1]),
        DeError::HeaderNotFound(h) => json!(["HeaderNotFound", h]),
        _ => json!(["custom"]),
    }
}

enum It<'a> {
    Dyn(RangeDeserializer<'a, Data, Dyn>),
    Map(RangeDeserializer<'a, Data, HashMap<String, Data>>),
    Rec(RangeDeserializer<'a, Data, RecAB>),
}

impl<'a> It<'a> {
    fn hint(&self) -> (usize, Option<usize>) {
        match self {
            It::Dyn(i) => i.size_hint(),
            It::Map(i) => i.size_hint(),
            It::Rec(i) => i.size_hint(),
        }
    }
    fn next(&mut self) -> Option<Value> {
        let norm = |m: serde_json::Map<String, Value>| if m.is_empty() { json!([]) } else { Value::Object(m) };
        match self {
            It::Dyn(i) => i.next().map(|r| match r {
                Ok(Dyn(Value::Object(m))) => json!(["ok", norm(m)]),
                Ok(Dyn(v)) => json!(["ok", v]),
                Err(e) => err_json(&e),
            }),
            It::Map(i) => i.next().map(|r| match r {
                Ok(m) => {
                    let mut o = serde_json::Map::new();
                    for (k, v) in m {
                        o.insert(k, json!(data_code(&v)));
                    }
                    json!(["ok", norm(o)])
                }
                Err(e) => err_json(&e),
            }),
            It::Rec(i) => i.next().map(|r| match r {
                Ok(rec) => {
                    let mut o = serde_json::Map::new();
                    if let Some(a) = rec.a {
                        o.insert("a".into(), json!(format!("s:{}", a)));
                    }
                    if let Some(b) = rec.b {
                        o.insert("b".into(), json!(format!("f:{:?}", b)));
                    }
                    json!(["ok", norm(o)])
                }
                Err(e) => err_json(&e),
            }),
        }
    }
}

fn set_shape(sc: &Value) {
    let w = sc["w"].as_u64().unwrap() as usize;
    let ft: Vec<String> = sc["ft"].as_array().unwrap().iter().map(|x| x.as_str().unwrap().to_string()).collect();
    let shape = match sc["shape"].as_str().unwrap() {
        "tuple" => {
            // element types follow the selected physical columns
            let kind = sc["cfg"]["kind"].as_str().unwrap();
            let types = if kind == "custom" {
                sc["cfg"]["sel"].as_array().unwrap().iter().filter_map(|n| {
                    let n = n.as_str().unwrap().trim();
                    names().iter().position(|x| *x == n).and_then(|f| ft.get(f).cloned())
                }).collect()
            } else {
                (0..w).map(|j| ft[sc["colf"][j].as_u64().unwrap() as usize - 1].clone()).collect()
            };
            Shape::Tuple(types)
        }
        _ => Shape::Struct((0..w).map(|f| (names()[f].to_string(), ft[f].clone())).collect()),
    };
    SHAPE.with(|s| *s.borrow_mut() = shape);
}

fn make_iter<'a>(sc: &Value, range: &'a Range<Data>, sel: &'a [String]) -> Result<It<'a>, DeError> {
    let kind = sc["cfg"]["kind"].as_str().unwrap();
    let shape = sc["shape"].as_str().unwrap();
    macro_rules! mk {
        ($variant:ident) => {
            match kind {
                "none" => RangeDeserializerBuilder::new().has_headers(false).from_range(range).map(It::$variant),
                "all" => {
                    if sc["origin"][0].as_u64() == Some(0) {
                        range.deserialize().map(It::$variant) // the shorthand must be the same thing
                    } else {
                        RangeDeserializerBuilder::new().from_range(range).map(It::$variant)
                    }
                }
                _ => RangeDeserializerBuilder::with_headers(sel).from_range(range).map(It::$variant),
            }
        };
    }
    match (shape, kind) {
        ("recab", "recab") => RangeDeserializerBuilder::with_deserialize_headers::<RecAB>().from_range(range).map(It::Rec),
        ("recab", _) => mk!(Rec),
        ("map", _) => mk!(Map),
        _ => mk!(Dyn),
    }
}

/// run the whole observation schedule: build, then (hint, next)* until exhausted, twice past the end
fn observe(sc: &Value, mut log: impl FnMut(Value)) -> Value {
    set_shape(sc);
    let range = build_range(sc);
    let sel: Vec<String> = sc["cfg"]["sel"].as_array().map(|a| a.iter().map(|x| x.as_str().unwrap().to_string()).collect()).unwrap_or_default();
    let mut obs = Vec::new();
    let mut it = match make_iter(sc, &range, &sel) {
        Ok(it) => {
            obs.push(json!(["ok"]));
            log(json!({"e": "build", "res": ["ok"]}));
            it
        }
        Err(e) => {
            log(json!({"e": "build", "res": err_json(&e)}));
            return json!([err_json(&e)]);
        }
    };
    let mut ends = 0;
    while ends < 2 {
        let (lo, hi) = it.hint();
        obs.push(json!(["hint", lo, hi]));
        log(json!({"e": "hint", "lo": lo, "hi": hi.map(|h| h as i64).unwrap_or(-1)}));
        match it.next() {
            Some(v) => {
                log(json!({"e": "next", "item": v}));
                obs.push(json!(["item", v]));
            }
            None => {
                log(json!({"e": "next", "item": ["end"]}));
                obs.push(json!(["end"]));
                ends += 1;
            }
        }
    }
    json!(obs)
}

/// hints are compared as brackets (the statement: size_hint always brackets what is to come)
fn normalise(obs: &Value, ideal: &Value) -> Value {
    let mut out = Vec::new();
    for (i, o) in obs.as_array().unwrap().iter().enumerate() {
        if o[0] == "hint" {
            if let Some(n) = ideal.get(i).and_then(|x| x.get(1)).and_then(|x| x.as_u64()) {
                let lo = o[1].as_u64().unwrap();
                let hi = o[2].as_u64();
                if lo <= n && hi.map_or(true, |h| n <= h) {
                    out.push(json!(["hint", n]));
                    continue;
                }
            }
        }
        out.push(o.clone());
    }
    json!(out)
}

pub fn replay(args: &Args) -> i32 {
    let mut rep = Report::new();
    for b in read_ndjson(args.req("in")) {
        let sc = &b["sc"];
        let ideal = &b["ideal"];
        let nontrivial = sc["rows"].as_array().map_or(false, |r| !r.is_empty()) || sc["cfg"]["kind"] == "custom";
        rep.case(sc, nontrivial);
        let obs = match catch(|| observe(sc, |_| ())) {
            Ok(o) => normalise(&o, ideal),
            Err(m) => json!({ "panic": m }),
        };
        if &obs != ideal {
            rep.fail("unexplained", &b, ideal.clone(), obs);
        } else if rep.evaluated % 4999 == 1 {
            rep.sample(json!({"scenario": sc, "observed": obs}));
        }
    }
    rep.write(args.req("out"));
    0
}

pub fn drive(args: &Args) -> i32 {
    let n = args.num("n", 100);
    let maxh = args.num("maxh", 20) as usize;
    let mut rng = StdRng::seed_from_u64(args.seed() ^ 0x0909);
    let mut out = std::io::BufWriter::new(std::fs::File::create(args.req("out")).unwrap());
    let types = ["String", "f64", "i64", "bool", "Data", "OptString", "Optf64", "Opti64", "Optbool", "I64OrNone", "F64OrNone", "I64OrString", "F64OrString"];
    let ok = |t: &str| -> Vec<&'static str> {
        let base = t.trim_start_matches("Opt");
        let mut v: Vec<&'static str> = match base {
            "String" => vec!["E", "S0", "Sx", "S12", "Spad"],
            "f64" => vec!["I7", "F1.5", "F2", "S12", "S1.5", "Sx"],
            "i64" => vec!["I7", "Ibig", "F2", "F1.5", "S12", "Sx"],
            "bool" => vec!["I7", "I0", "F1.5", "F0", "F0.5", "B1", "B0", "STRUE", "Sfalse", "Strue", "STrue", "SFALSE", "SFalse", "E", "Sx"],
            "I64OrNone" | "F64OrNone" | "I64OrString" | "F64OrString" => vec!["E", "I7", "F2", "F1.5", "S12", "S1.5", "Sx", "B1", "B0", "STRUE"],
            _ => vec!["E", "S0", "I7", "F1.5", "Sx", "B1"],
        };
        if t.starts_with("Opt") {
            v.push("E");
        }
        v
    };
    for run in 0..n {
        let w = rng.gen_range(1..=3usize);
        let shape = ["tuple", "tuple", "struct", "map", "recab"][rng.gen_range(0..5)];
        let (w, ft): (usize, Vec<String>) = match shape {
            "map" => (w, vec!["Data".to_string(); w]),
            "recab" => (2, vec!["OptString".into(), "Optf64".into()]),
            "struct" => (w, (0..w).map(|_| types[5 + rng.gen_range(0..4)].to_string()).collect()),
            _ => (w, (0..w).map(|_| types[rng.gen_range(0..11)].to_string()).collect()),
        };
        let byname = shape != "tuple";
        let kind = match shape {
            "recab" => ["recab", "all"][rng.gen_range(0..2)],
            "tuple" => ["none", "all", "custom"][rng.gen_range(0..3)],
            _ => ["all", "custom"][rng.gen_range(0..2)],
        };
        let mut colf: Vec<usize> = (1..=w).collect();
        colf.shuffle(&mut rng);
        let hdrrow = kind != "none";
        let pad: Vec<bool> = (0..w).map(|_| hdrrow && !byname && rng.gen_bool(0.3)).collect();
        let sel: Vec<String> = if kind == "custom" {
            let mut all: Vec<String> = (0..w).map(|f| names()[f].to_string()).collect();
            all.shuffle(&mut rng);
            all.truncate(rng.gen_range(1..=w));
            if rng.gen_bool(0.1) {
                all[0] = "zz".into();
            }
            all
        } else if kind == "recab" {
            vec!["a".into(), "b".into()]
        } else {
            vec![]
        };
        let h = rng.gen_range(0..=maxh);
        let rows: Vec<Vec<&str>> = (0..h)
            .map(|_| (0..w).map(|f| {
                if rng.gen_bool(0.06) { ["XDiv0", "XNA"][rng.gen_range(0..2)] } else { *ok(&ft[f]).choose(&mut rng).unwrap() }
            }).collect())
            .collect();
        let origin = [rng.gen_range(0..3u32) * 524_285, rng.gen_range(0..3u32) * 8_190];
        let sc = json!({"origin": origin, "w": w, "ft": ft, "colf": colf, "pad": pad,
                        "cfg": {"kind": kind, "sel": sel}, "shape": shape, "rows": rows, "hdrrow": hdrrow});
        writeln!(out, "{}", json!({"e": "scenario", "run": run, "sc": sc})).unwrap();
        let mut evs = Vec::new();
        let r = catch(|| observe(&sc, |e| evs.push(e)));
        for e in evs {
            writeln!(out, "{}", e).unwrap();
        }
        if let Err(m) = r {
            writeln!(out, "{}", json!({"e": "panic", "msg": m})).unwrap();
        }
    }
    0
}
