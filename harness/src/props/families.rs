//! Fixture families: /repo/tests holds several workbooks saved by a spreadsheet application in more
//! than one format under the same stem (issues.{xlsx,xlsb,xls,ods}, date.*, any_sheets.*, ...).
//! One logical document, several physical encodings written by an independent, real writer: the
//! abstract content read through each format's reader must agree (tla/api/CrossFormat.tla).
//! `cvh drive families --out T [--dir /repo/tests]` logs one event per non-empty cell and format.
use crate::common::*;
use calamine::{open_workbook_auto, Data, Reader, SheetType};
use serde_json::json;
use std::collections::BTreeMap;
use std::io::Write;

fn num(f: f64) -> String {
    // stored text differs in its last digits between formats (15 vs 17 significant digits)
    format!("{:.11e}", f)
}

/// (class, canonical value) of a cell; ods keeps dates/durations as ISO text, which has no
/// counterpart in the serial-number formats: class only
fn canon(v: &Data) -> (String, String) {
    match v {
        Data::Empty => ("empty".into(), String::new()),
        Data::Int(i) => ("num".into(), num(*i as f64)),
        Data::Float(f) => ("num".into(), num(*f)),
        Data::Bool(b) => ("bool".into(), b.to_string()),
        Data::String(s) => ("str".into(), s.clone()),
        Data::Error(e) => ("err".into(), format!("{:?}", e)),
        Data::DateTime(d) => (if d.is_duration() { "dur".into() } else { "date".into() }, format!("{}|{}", num(d.as_f64()), format!("{:?}", d).contains("is_1904: true"))),
        Data::DateTimeIso(_) => ("date".into(), "iso".into()),
        Data::DurationIso(_) => ("dur".into(), "iso".into()),
    }
}

pub fn drive(args: &Args) -> i32 {
    let dir = args.get("dir").unwrap_or("/repo/tests").to_string();
    let mut stems: BTreeMap<String, Vec<String>> = BTreeMap::new();
    let mut names: Vec<_> = std::fs::read_dir(&dir).map(|d| d.filter_map(|e| e.ok()).map(|e| e.path()).collect()).unwrap_or_else(|_| Vec::new());
    names.sort();
    for p in names {
        let ext = p.extension().and_then(|x| x.to_str()).unwrap_or("").to_string();
        if ["xlsx", "xlsb", "xls", "ods"].contains(&ext.as_str()) {
            stems.entry(p.file_stem().unwrap().to_string_lossy().to_string()).or_default().push(ext);
        }
    }
    let mut out = std::io::BufWriter::new(std::fs::File::create(args.req("out")).unwrap());
    // aspect: all | fmla (formula text of xls/xlsb/xlsx only) | text (string cells only)
    let aspect = args.get("aspect").unwrap_or("all").to_string();
    let (mut nfam, mut ncell) = (0u64, 0u64);
    for (stem, exts) in stems {
        if exts.len() < 2 { continue; }
        let mut opened = 0;
        let mut evs = Vec::new();
        for ext in &exts {
            let path = format!("{}/{}.{}", dir, stem, ext);
            let r = catch(|| -> Result<Vec<serde_json::Value>, String> {
                let mut wb = open_workbook_auto(&path).map_err(|e| e.to_string())?;
                let mut v = Vec::new();
                for m in wb.sheets_metadata().to_vec() {
                    if m.typ != SheetType::WorkSheet { continue; }
                    let range = wb.worksheet_range(&m.name).map_err(|e| e.to_string())?;
                    let fm = wb.worksheet_formula(&m.name).map_err(|e| e.to_string())?;
                    let s = range.start().unwrap_or((0, 0));
                    for (i, j, d) in range.used_cells() {
                        let (cls, val) = canon(d);
                        let pos = (s.0 + i as u32, s.1 + j as u32);
                        let f = fm.get_value(pos).cloned().unwrap_or_default();
                        v.push(json!({"e": "cell", "family": stem, "fmt": ext, "sheet": m.name, "r": pos.0, "c": pos.1, "cls": cls, "val": val, "fmla": f}));
                    }
                    v.push(json!({"e": "sheet", "family": stem, "fmt": ext, "sheet": m.name, "cells": range.used_cells().count()}));
                }
                Ok(v)
            });
            match r {
                Ok(Ok(v)) => { opened += 1; evs.extend(v); }
                // a protected or deliberately broken member of a family is not a document
                Ok(Err(_)) => {}
                Err(p) => evs.push(json!({"e": "panic", "family": stem, "fmt": ext, "msg": p})),
            }
        }
        if opened >= 2 {
            nfam += 1;
            writeln!(out, "{}", json!({"e": "family", "family": stem})).unwrap();
            for mut e in evs {
                match aspect.as_str() {
                    "fmla" => {
                        if e["fmt"] == "ods" || e["e"] == "sheet" { continue; }
                        if e["e"] == "cell" { e["cls"] = json!("any"); e["val"] = json!(""); }
                    }
                    "text" => {
                        if e["e"] == "sheet" || (e["e"] == "cell" && e["cls"] != "str") { continue; }
                        if e["e"] == "cell" { e["fmla"] = json!(""); }
                    }
                    _ => {}
                }
                if e["e"] == "cell" { ncell += 1; }
                writeln!(out, "{}", e).unwrap();
            }
        }
    }
    if let Some(p) = args.get("report") {
        std::fs::write(p, json!({"families": nfam, "cells": ncell}).to_string()).unwrap();
    }
    0
}
