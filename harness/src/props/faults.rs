//! C06 — hostile files. Seeds (well-formed workbooks of all formats built by the materialisers,
//! plus the repository fixtures in the thorough tier) are scanned for declared lengths / counts /
//! offsets / indices ("fields"); MC_Faults enumerates fault scripts over the field map; every
//! script is applied and every entry point of the readers is exercised in a worker process with a
//! capped allocator and a per-script deadline.  Outcome per script: ok | err | panic | abort | hang.
use crate::build::simple::{build, SSheet, SVal};
use crate::build::{biff, cfb, ods, xlsb, xlsx};
use crate::common::*;
use calamine::{open_workbook_auto_from_rs, Ods, Reader, ReaderRef, Xls, Xlsb, Xlsx};
use serde_json::{json, Value};
use std::io::{BufRead, BufReader, Cursor, Read, Write};
use std::process::{Command, Stdio};

#[derive(Clone)]
pub enum Body {
    Zip(Vec<(String, Vec<u8>)>),
    Cfb(Vec<(String, Vec<u8>)>),
}
#[derive(Clone)]
pub struct Seed {
    pub name: String,
    pub fmt: String,
    pub body: Body,
}
impl Seed {
    pub fn bytes(&self) -> Vec<u8> {
        match &self.body {
            Body::Zip(parts) => crate::build::zipw::zip_bytes(parts, false),
            Body::Cfb(streams) => {
                let s: Vec<(&str, &[u8])> = streams.iter().map(|(n, b)| (n.as_str(), b.as_slice())).collect();
                cfb::simple_cfb(&s)
            }
        }
    }
}

fn unzip(bytes: &[u8]) -> Option<Vec<(String, Vec<u8>)>> {
    let mut z = zip::ZipArchive::new(Cursor::new(bytes.to_vec())).ok()?;
    let mut parts = Vec::new();
    for i in 0..z.len() {
        let mut f = z.by_index(i).ok()?;
        let mut b = Vec::new();
        f.read_to_end(&mut b).ok()?;
        parts.push((f.name().to_string(), b));
    }
    Some(parts)
}

pub fn seeds(with_fixtures: bool) -> Vec<Seed> {
    let mut out = Vec::new();
    let min = vec![SSheet::new("S1", vec![((0, 0), SVal::Num(1.5)), ((1, 1), SVal::Str("x".into())), ((2, 0), SVal::Bool(true))])];
    for fmt in ["xlsx", "xlsb", "ods"] {
        out.push(Seed { name: format!("{}_min", fmt), fmt: fmt.into(), body: Body::Zip(unzip(&build(fmt, &min)).unwrap()) });
    }
    // xlsx rich: shared strings, styles with a date format, shared formula, merges, table, defined name, dimension
    let table = "<table xmlns=\"http://schemas.openxmlformats.org/spreadsheetml/2006/main\" id=\"1\" name=\"T1\" displayName=\"T1\" ref=\"A1:B3\" totalsRowCount=\"1\"><tableColumns count=\"2\"><tableColumn id=\"1\" name=\"a\"/><tableColumn id=\"2\" name=\"b\"/></tableColumns></table>";
    let rich = xlsx::build_xlsx(&json!({"date1904": false, "sst": [{"text": "alpha"}, {"raw": "<si><r><t>be</t></r><r><t>ta</t></r></si>"}],
        "styles": {"numFmts": [[164, "yyyy-mm-dd"]], "cellStyleXfs": [0], "cellXfs": [0, 164, 14]}, "defined_names": [["N1", "S1!$A$1"]],
        "sheets": [{"name": "S1", "file": "sheet1.xml", "merge": ["A1:B2"], "tables": [{"file": "table1.xml", "xml": table}],
            "tokens": [{"k": "dim", "ref": "A1:C4"}, {"k": "row", "r": 0}, {"k": "c", "r": [0, 0], "t": "s", "v": "0"}, {"k": "c", "r": [0, 1], "t": "s", "v": "1", "s": 1}, {"k": "rowend"},
                       {"k": "row", "r": 1}, {"k": "c", "r": [1, 0], "s": 1, "v": "44000"}, {"k": "c", "r": [1, 1], "f": "A2+1", "fattrs": {"t": "shared", "ref": "B2:B3", "si": "0"}, "v": "44001"}, {"k": "rowend"},
                       {"k": "row", "r": 2}, {"k": "c", "r": [2, 0], "t": "b", "v": "1"}, {"k": "c", "r": [2, 1], "f": "", "fattrs": {"t": "shared", "si": "0"}, "v": "3"}, {"k": "c", "r": [2, 2], "t": "e", "v": "#N/A"}, {"k": "rowend"}]},
                   {"name": "S2", "file": "sheet2.xml", "tokens": [{"k": "row"}, {"k": "c", "t": "inlineStr", "is": "in"}, {"k": "rowend"}]}]}));
    out.push(Seed { name: "xlsx_rich".into(), fmt: "xlsx".into(), body: Body::Zip(unzip(&rich).unwrap()) });
    // xlsb rich: shared strings, styles, formula cells, RK, two sheets
    {
        let mut book = xlsb::XlsbBook::default();
        book.strings = vec!["alpha".into(), "beta".into()];
        book.xfs = vec![0, 14, 164];
        book.custom_fmts = vec![(164, "[h]:mm".into())];
        let body = vec![xlsb::row_hdr(0, 0, 3), xlsb::cell_record(0, 0, &xlsb::CellVal::Isst(1), &xlsb::PTG_INT_1), xlsb::cell_record(1, 1, &xlsb::CellVal::Real(44000.5), &xlsb::PTG_INT_1),
                        xlsb::cell_record(2, 0, &xlsb::CellVal::Rk(xlsb::rk_int(7, false)), &xlsb::PTG_INT_1), xlsb::cell_record(3, 2, &xlsb::CellVal::FmlaNum(2.0), &[0x1E, 1, 0, 0x1E, 2, 0, 0x22, 2, 4, 0, 0x17, 2, 0, b'a', 0, b'b', 0, 0x08]),
                        xlsb::row_hdr(2, 0, 1), xlsb::cell_record(0, 0, &xlsb::CellVal::St("inline".into()), &xlsb::PTG_INT_1), xlsb::cell_record(1, 0, &xlsb::CellVal::FmlaString("fs".into()), &xlsb::PTG_INT_1)];
        let pre = xlsb::Preamble { ws_prop: true, views: true, fmt_info: true, col_infos: 1 };
        book.sheets.push(xlsb::XlsbSheet { name: "S1".into(), state: 0, stream: xlsb::sheet_stream(&pre, (0, 2, 0, 3), &body) });
        book.sheets.push(xlsb::XlsbSheet { name: "S2".into(), state: 1, stream: xlsb::sheet_stream(&xlsb::Preamble::default(), (0, 0, 0, 0), &[xlsb::row_hdr(0, 0, 0), xlsb::cell_record(0, 0, &xlsb::CellVal::Bool(true), &xlsb::PTG_INT_1)]) });
        out.push(Seed { name: "xlsb_rich".into(), fmt: "xlsb".into(), body: Body::Zip(book.parts()) });
    }
    // xls: minimal and rich (SST, RK, MULRK, FORMULA+STRING, LABEL, BOOLERR, formats)
    {
        let mut wb = biff::Workbook::default();
        wb.sheets.push(biff::Sheet { name: biff::XlStr::new("S1"), dims: Some((0, 2, 0, 2)), recs: vec![biff::Rec::Number { r: 0, c: 0, xf: 0, v: 1.5 }, biff::Rec::Label { r: 1, c: 1, xf: 0, s: biff::XlStr::new("x") }] });
        out.push(Seed { name: "xls_min".into(), fmt: "xls".into(), body: Body::Cfb(vec![("Workbook".into(), biff::workbook_stream(&wb))]) });
        let mut wb = biff::Workbook::default();
        wb.date1904 = Some(false);
        wb.formats = vec![(164, "yyyy-mm-dd".into())];
        wb.xfs = vec![0, 14, 164];
        wb.sst = biff::Sst::Strings(vec![biff::XlStr::new("alpha"), biff::XlStr::with_storage("béta", true)]);
        wb.sheets.push(biff::Sheet { name: biff::XlStr::new("S1"), dims: Some((0, 4, 0, 4)), recs: vec![
            biff::Rec::Row { r: 0, c0: 0, c1: 4 },
            biff::Rec::LabelSst { r: 0, c: 0, xf: 0, isst: 1 }, biff::Rec::Rk { r: 0, c: 1, xf: 1, rk: xlsb::rk_int(44000, false) },
            biff::Rec::MulRk { r: 1, c0: 0, items: vec![(0, xlsb::rk_int(1, false)), (0, xlsb::rk_int(250, true))] },
            biff::Rec::Formula { r: 2, c: 0, xf: 0, res: biff::FRes::Str, shared: false }, biff::Rec::StringRec { s: biff::XlStr::new("fs") },
            biff::Rec::Formula { r: 2, c: 1, xf: 0, res: biff::FRes::Num(3.0), shared: false },
            // SUM(1,2)  |  SIN(A1)&"ab"  |  SUM(A1:B2)*2
            biff::Rec::FormulaRgce { r: 2, c: 2, xf: 0, res: biff::FRes::Num(3.0), rgce: vec![0x1E, 1, 0, 0x1E, 2, 0, 0x22, 2, 4, 0] },
            biff::Rec::FormulaRgce { r: 2, c: 3, xf: 0, res: biff::FRes::Num(0.0), rgce: vec![0x44, 0, 0, 0, 0xC0, 0x21, 15, 0, 0x17, 2, 0, b'a', b'b', 0x08] },
            biff::Rec::FormulaRgce { r: 3, c: 1, xf: 0, res: biff::FRes::Num(0.0), rgce: vec![0x25, 0, 0, 1, 0, 0, 0xC0, 1, 0xC0, 0x22, 1, 4, 0, 0x1E, 2, 0, 0x05] },
            biff::Rec::BoolErr { r: 3, c: 0, xf: 0, v: 7, is_err: true }, biff::Rec::DbCell ] });
        wb.sheets.push(biff::Sheet { name: biff::XlStr::with_storage("数据", true), dims: None, recs: vec![biff::Rec::Number { r: 0, c: 0, xf: 2, v: 44000.0 }] });
        out.push(Seed { name: "xls_rich".into(), fmt: "xls".into(), body: Body::Cfb(vec![("Workbook".into(), biff::workbook_stream(&wb))]) });
    }
    // xls with every shared-string header shape: plain, rich-text runs, phonetic (ExtRst) block, both
    {
        let u = |t: &str| t.encode_utf16().collect::<Vec<u16>>();
        // (the richest headers first: the cut positions of "reccut" cover the first 48 payload bytes)
        let strs = vec![biff::RichStr { units: u("both"), crun: 1, cb: 6, hi0: false }, biff::RichStr { units: u("ext"), crun: 0, cb: 8, hi0: true },
                        biff::RichStr { units: u("rich"), crun: 2, cb: 0, hi0: false }, biff::RichStr { units: u("plain"), crun: 0, cb: 0, hi0: false },
                        biff::RichStr { units: u("last"), crun: 0, cb: 0, hi0: false }];
        let mut wb = biff::Workbook::default();
        wb.sst = biff::Sst::Frags(biff::sst_frags(&strs, &[], 8224));
        wb.sheets.push(biff::Sheet { name: biff::XlStr::new("S1"), dims: None, recs: (0..5).map(|i| biff::Rec::LabelSst { r: i, c: 0, xf: 0, isst: i as u32 }).collect() });
        out.push(Seed { name: "xls_sst".into(), fmt: "xls".into(), body: Body::Cfb(vec![("Workbook".into(), biff::workbook_stream(&wb))]) });
    }
    // ods rich: repeats, types, formula, two tables
    {
        let mut doc = ods::OdsDoc::default();
        let c = |v: ods::OdsVal, n: u32| ods::OdsCell::value(v, n);
        doc.tables.push(ods::OdsTable::new("S1", vec![
            ods::OdsRow { repeat: 1, explicit_repeat: false, cells: vec![c(ods::OdsVal::Float("1.5".into()), 2), ods::OdsCell::empty(3), c(ods::OdsVal::Str { text: "x y".into(), attr: false }, 1)] },
            ods::OdsRow { repeat: 3, explicit_repeat: true, cells: vec![ods::OdsCell::empty(16384)] },
            ods::OdsRow { repeat: 2, explicit_repeat: true, cells: vec![c(ods::OdsVal::Bool(true), 1), c(ods::OdsVal::Date("2020-01-02".into()), 1), c(ods::OdsVal::Time("PT1H".into()), 1).with_formula("of:=1+1")] },
            ods::OdsRow { repeat: 1048570, explicit_repeat: true, cells: vec![ods::OdsCell::empty(16384)] }]));
        doc.tables.push(ods::OdsTable::new("S2", vec![ods::OdsRow { repeat: 1, explicit_repeat: false, cells: vec![c(ods::OdsVal::Percentage("0.5".into()), 1)] }]));
        doc.named.push(("N1".into(), "$S1.$A$1".into(), true));
        out.push(Seed { name: "ods_rich".into(), fmt: "ods".into(), body: Body::Zip(doc.parts()) });
    }
    if with_fixtures {
        let mut names: Vec<_> = std::fs::read_dir("/repo/tests").map(|d| d.filter_map(|e| e.ok()).map(|e| e.path()).collect()).unwrap_or_else(|_| Vec::new());
        names.sort();
        for p in names {
            let ext = p.extension().and_then(|e| e.to_str()).unwrap_or("").to_string();
            let fmt = match ext.as_str() { "xlsx" | "xlsm" => "xlsx", "xlsb" => "xlsb", "xls" => "xls", "ods" => "ods", _ => continue };
            let bytes = match std::fs::read(&p) { Ok(b) if !b.is_empty() && b.len() < 400_000 => b, _ => continue };
            let name = format!("fixture:{}", p.file_name().unwrap().to_string_lossy());
            if fmt == "xls" {
                let mut c = Cursor::new(bytes.clone());
                if let Ok(mut w) = calamine::verif::CfbWindow::new(&mut c, bytes.len()) {
                    let mut streams = Vec::new();
                    for n in ["Workbook", "Book"] {
                        if w.has_directory(n) {
                            if let Ok(s) = w.get_stream(n, &mut c) {
                                streams.push((n.to_string(), s));
                            }
                        }
                    }
                    if !streams.is_empty() {
                        out.push(Seed { name, fmt: fmt.into(), body: Body::Cfb(streams) });
                    }
                }
            } else if let Some(parts) = unzip(&bytes) {
                out.push(Seed { name, fmt: fmt.into(), body: Body::Zip(parts) });
            }
        }
    }
    out
}

#[derive(Clone, Debug)]
pub struct Field {
    pub part: String,   // "zip:<name>" | "stream:<name>" | "container" ; "whole:<part>" for part-level faults
    pub off: usize,
    pub width: usize,
    pub kind: &'static str, // "num" | "xmlnum" | "xmlref" | "part"
    /// what the field is, independent of its position: element@attribute, record type + payload offset ...
    /// (names the call site of a finding: "abort:alloc:<fmt>:<part class>:<desc>")
    pub desc: String,
}

/// "xl/worksheets/sheet12.xml" -> "sheet#.xml"
fn part_class(part: &str) -> String {
    let base = part.rsplit('/').next().unwrap_or(part).rsplit(':').next().unwrap_or(part);
    let mut out = String::new();
    let mut last_hash = false;
    for c in base.chars() {
        if c.is_ascii_digit() { if !last_hash { out.push('#'); last_hash = true; } } else { out.push(c); last_hash = false; }
    }
    out
}

/// element and attribute name in front of the '=' at `eq`
fn xml_attr_desc(b: &[u8], eq: usize) -> String {
    let mut a = eq;
    while a > 0 && !(b[a - 1] == b' ' || b[a - 1] == b'\n' || b[a - 1] == b'<') { a -= 1; }
    let attr = String::from_utf8_lossy(&b[a..eq]).to_string();
    let mut e = a;
    while e > 0 && b[e - 1] != b'<' { e -= 1; }
    let mut e2 = e;
    while e2 < b.len() && !(b[e2] == b' ' || b[e2] == b'>' || b[e2] == b'/') { e2 += 1; }
    format!("{}@{}", String::from_utf8_lossy(&b[e..e2]), attr)
}

const NUM_CLASSES: [&str; 9] = ["zero", "one", "minus1", "plus1", "maxm1", "max", "signbit", "double", "half"];
const XMLNUM_CLASSES: [&str; 12] = ["0", "1", "minus1", "plus1", "2147483647", "4294967295", "4294967296", "18446744073709551616", "-1", "", "abc", "3000000"];
// the last two are VALID references that declare far more cells than the file holds (2.6 M and 9 M): a
// reader that reserves for the declared area is out of proportion to the input without aborting
const XMLREF_CLASSES: [&str; 13] = ["A0", "XFE1", "A1048577", "A", "1", "ZZZZZZZZZZ1", "A1:", "A99999999999", "", "C9:A1", "A9:C1", "A1:Z100000", "B2:B9000000"];
const PART_CLASSES: [&str; 6] = ["trunc0", "trunc1", "trunc_q", "trunc_h", "trunc_m1", "drop"];
/// structural faults on one record of a BIFF / BIFF12 stream, with the length field kept consistent:
/// stray bytes at the end / before the last two payload bytes, missing bytes, duplicated / dropped record
const REC_CLASSES: [&str; 8] = ["grow1_end", "grow5_end", "grow1_mid", "grow5_mid", "shrink1_end", "shrink2_mid", "dup", "droprec"];
/// "reccut": one BIFF record truncated to its first k payload bytes (length field consistent), k = class
/// index: every cut position of the first RECCUT bytes -- a record that ends inside any of its header fields
const RECCUT: usize = 48;
/// "xmltag": one XML tag (start, end or empty-element tag at the field's offset) deleted / written twice
/// ... or the whole part cut right after / in the middle of the tag (end of input in whatever state the
/// reader is in at that tag: inside a cell, a string item, a row, a table ...)
const XMLTAG_CLASSES: [&str; 4] = ["delete", "twice", "cut_after", "cut_inside"];

pub fn nclasses(kind: &str) -> usize {
    match kind { "num" => NUM_CLASSES.len(), "xmlnum" => XMLNUM_CLASSES.len(), "xmlref" => XMLREF_CLASSES.len(), "rec" | "rec12" => REC_CLASSES.len(),
        "reccut" => RECCUT, "xmltag" => XMLTAG_CLASSES.len(), _ => PART_CLASSES.len() }
}

fn scan_xml(part: &str, b: &[u8], out: &mut Vec<Field>) {
    // tags (not the XML declaration, comments or CDATA): <name ...>, </name>, <name .../>
    let mut ntag = 0;
    let mut j = 0;
    while j + 1 < b.len() && ntag < 150 {
        if b[j] == b'<' && (b[j + 1].is_ascii_alphabetic() || b[j + 1] == b'/') {
            let mut e = j + 1;
            let mut quote = 0u8;
            while e < b.len() && (quote != 0 || b[e] != b'>') {
                if quote == 0 && (b[e] == b'"' || b[e] == b'\'') { quote = b[e]; } else if quote != 0 && b[e] == quote { quote = 0; }
                e += 1;
            }
            if e < b.len() {
                let mut ne = j + 1;
                while ne < e && !(b[ne] == b' ' || b[ne] == b'>' || (b[ne] == b'/' && ne > j + 1)) { ne += 1; }
                out.push(Field { part: part.into(), off: j, width: e + 1 - j, kind: "xmltag", desc: format!("<{}>", String::from_utf8_lossy(&b[j + 1..ne])) });
                ntag += 1;
            }
            j = e;
        }
        j += 1;
    }
    let mut i = 0;
    let mut count = 0;
    while i + 2 < b.len() && count < 400 {
        if b[i] == b'=' && b[i + 1] == b'"' {
            let s = i + 2;
            let mut e = s;
            while e < b.len() && b[e] != b'"' { e += 1; }
            let v = &b[s..e];
            if !v.is_empty() && v.len() <= 12 && v.iter().all(|c| c.is_ascii_digit()) {
                out.push(Field { part: part.into(), off: s, width: e - s, kind: "xmlnum", desc: xml_attr_desc(b, i) });
                count += 1;
            } else if !v.is_empty() && v.len() <= 20 && v[0].is_ascii_uppercase() && v.iter().all(|c| c.is_ascii_uppercase() || c.is_ascii_digit() || *c == b':' || *c == b'$') && v.iter().any(|c| c.is_ascii_digit()) {
                out.push(Field { part: part.into(), off: s, width: e - s, kind: "xmlref", desc: xml_attr_desc(b, i) });
                count += 1;
            }
            i = e;
        } else if b[i] == b'>' && b[i + 1].is_ascii_digit() {
            // element text that is a plain number followed by '<' (e.g. <v>1</v>)
            let s = i + 1;
            let mut e = s;
            while e < b.len() && b[e].is_ascii_digit() { e += 1; }
            if e < b.len() && b[e] == b'<' && e - s <= 12 {
                let mut t = i;
                while t > 0 && b[t - 1] != b'<' { t -= 1; }
                let mut t2 = t;
                while t2 < i && b[t2] != b' ' { t2 += 1; }
                out.push(Field { part: part.into(), off: s, width: e - s, kind: "xmlnum", desc: format!("{}#text", String::from_utf8_lossy(&b[t..t2])) });
                count += 1;
            }
            i = e;
        } else {
            i += 1;
        }
    }
}

fn scan_biff(part: &str, b: &[u8], out: &mut Vec<Field>) {
    let mut pos = 0;
    let mut nrec = 0;
    while pos + 4 <= b.len() && nrec < 300 {
        let len = u16::from_le_bytes([b[pos + 2], b[pos + 3]]) as usize;
        let rt = u16::from_le_bytes([b[pos], b[pos + 1]]);
        out.push(Field { part: part.into(), off: pos, width: 2, kind: "num", desc: format!("rec{:04X}.type", rt) });      // record type
        out.push(Field { part: part.into(), off: pos + 2, width: 2, kind: "num", desc: format!("rec{:04X}.len", rt) });  // record length
        if pos + 4 + len <= b.len() {
            out.push(Field { part: part.into(), off: pos, width: 4 + len, kind: "rec", desc: format!("rec{:04X}", rt) });
            if len > 0 && nrec < 120 {
                out.push(Field { part: part.into(), off: pos, width: 4 + len, kind: "reccut", desc: format!("rec{:04X}", rt) });
            }
        }
        let pl = len.min(b.len().saturating_sub(pos + 4));
        for o in (0..pl.min(14)).step_by(2) {
            if o + 2 <= pl { out.push(Field { part: part.into(), off: pos + 4 + o, width: 2, kind: "num", desc: format!("rec{:04X}@{}w2", rt, o) }); }
        }
        for o in (0..pl.min(16)).step_by(4) {
            if o + 4 <= pl { out.push(Field { part: part.into(), off: pos + 4 + o, width: 4, kind: "num", desc: format!("rec{:04X}@{}w4", rt, o) }); }
        }
        // records that carry a parsed expression (FORMULA, NAME, SHRFMLA, ARRAY): every byte of its first 40 --
        // token ids, argument counts, function indices, string lengths, extern-sheet indices
        if [0x0006u16, 0x0018, 0x04BC, 0x0221].contains(&rt) {
            for o in 14..pl.min(62) {
                out.push(Field { part: part.into(), off: pos + 4 + o, width: 1, kind: "num", desc: format!("rec{:04X}@{}b1", rt, o) });
            }
        }
        pos += 4 + len;
        nrec += 1;
    }
}

fn scan_xlsb(part: &str, b: &[u8], out: &mut Vec<Field>) {
    let mut pos = 0;
    let mut nrec = 0;
    while pos < b.len() && nrec < 300 {
        let start = pos;
        let idlen = if b[pos] & 0x80 != 0 { 2 } else { 1 };
        let rt: u16 = if idlen == 2 && pos + 1 < b.len() { (b[pos] & 0x7F) as u16 | ((b[pos + 1] as u16) << 7) } else { b[pos] as u16 };
        pos += idlen;
        let mut len = 0usize;
        let mut lenbytes = 0;
        for i in 0..4 {
            if pos >= b.len() { break; }
            let c = b[pos];
            pos += 1;
            lenbytes += 1;
            len |= ((c & 0x7F) as usize) << (7 * i);
            if c & 0x80 == 0 { break; }
        }
        if pos + len <= b.len() && lenbytes == 1 && len < 120 {
            out.push(Field { part: part.into(), off: start, width: pos - start + len, kind: "rec12", desc: format!("brt{:04X}", rt) });
        }
        out.push(Field { part: part.into(), off: start, width: 1, kind: "num", desc: format!("brt{:04X}.id", rt) });                 // id byte
        out.push(Field { part: part.into(), off: start + idlen, width: 1, kind: "num", desc: format!("brt{:04X}.len", rt) });         // first length byte
        let _ = lenbytes;
        let pl = len.min(b.len().saturating_sub(pos));
        for o in (0..pl.min(16)).step_by(4) {
            if o + 4 <= pl { out.push(Field { part: part.into(), off: pos + o, width: 4, kind: "num", desc: format!("brt{:04X}@{}w4", rt, o) }); }
        }
        for o in (0..pl.min(8)).step_by(2) {
            if o + 2 <= pl { out.push(Field { part: part.into(), off: pos + o, width: 2, kind: "num", desc: format!("brt{:04X}@{}w2", rt, o) }); }
        }
        // BrtFmlaString / Num / Bool / Error and BrtName: the bytes of the parsed expression
        if [0x0008u16, 0x0009, 0x000A, 0x000B, 0x0027].contains(&rt) {
            for o in 8..pl.min(56) {
                out.push(Field { part: part.into(), off: pos + o, width: 1, kind: "num", desc: format!("brt{:04X}@{}b1", rt, o) });
            }
        }
        pos += len;
        nrec += 1;
    }
}

fn scan_cfb_container(b: &[u8], out: &mut Vec<Field>) {
    for (off, w) in [(0x18usize, 2usize), (0x1A, 2), (0x1E, 2), (0x20, 2), (0x28, 4), (0x2C, 4), (0x30, 4), (0x38, 4), (0x3C, 4), (0x40, 4), (0x44, 4), (0x48, 4), (0x4C, 4), (0x50, 4)] {
        out.push(Field { part: "container".into(), off, width: w, kind: "num", desc: format!("hdr@0x{:X}", off) });
    }
    let ssz = 512usize;
    // first FAT sector (header DIFAT[0]) and the directory sector(s)
    let fat0 = u32::from_le_bytes([b[0x4C], b[0x4D], b[0x4E], b[0x4F]]) as usize;
    let dir0 = u32::from_le_bytes([b[0x30], b[0x31], b[0x32], b[0x33]]) as usize;
    let nsect = (b.len() - 512) / ssz;
    if fat0 < nsect {
        for i in 0..nsect.min(48) {
            out.push(Field { part: "container".into(), off: 512 + fat0 * ssz + 4 * i, width: 4, kind: "num", desc: "fat".to_string() });
        }
    }
    if dir0 < nsect {
        for e in 0..4 {
            let base = 512 + dir0 * ssz + 128 * e;
            for (o, w) in [(0x40usize, 2usize), (0x42, 1), (0x44, 4), (0x48, 4), (0x4C, 4), (0x74, 4), (0x78, 4)] {
                out.push(Field { part: "container".into(), off: base + o, width: w, kind: "num", desc: format!("dir@0x{:X}", o) });
            }
        }
    }
}

pub fn fields(seed: &Seed) -> Vec<Field> {
    let mut out = Vec::new();
    match &seed.body {
        Body::Zip(parts) => {
            for (n, b) in parts {
                let part = format!("zip:{}", n);
                if n.ends_with(".xml") || n.ends_with(".rels") {
                    scan_xml(&part, b, &mut out);
                } else if n.ends_with(".bin") && !n.contains("vbaProject") {
                    scan_xlsb(&part, b, &mut out);
                }
                out.push(Field { part: format!("whole:{}", part), off: 0, width: b.len(), kind: "part", desc: "whole".to_string() });
            }
        }
        Body::Cfb(streams) => {
            for (n, b) in streams {
                let part = format!("stream:{}", n);
                scan_biff(&part, b, &mut out);
                out.push(Field { part: format!("whole:{}", part), off: 0, width: b.len(), kind: "part", desc: "whole".to_string() });
            }
            scan_cfb_container(&seed.bytes(), &mut out);
        }
    }
    out
}

fn num_value(cls: &str, actual: u64, w: usize) -> u64 {
    let max = if w >= 8 { u64::MAX } else { (1u64 << (8 * w)) - 1 };
    (match cls { "zero" => 0, "one" => 1, "minus1" => actual.wrapping_sub(1), "plus1" => actual.wrapping_add(1), "maxm1" => max - 1, "max" => max,
        "signbit" => 1u64 << (8 * w - 1), "double" => actual.wrapping_mul(2), _ => actual / 2 }) & max
}

fn patch(buf: &mut Vec<u8>, f: &Field, cls: usize) {
    match f.kind {
        "num" => {
            if f.off + f.width > buf.len() { return; }
            let mut a = [0u8; 8];
            a[..f.width].copy_from_slice(&buf[f.off..f.off + f.width]);
            let v = num_value(NUM_CLASSES[cls], u64::from_le_bytes(a), f.width);
            buf[f.off..f.off + f.width].copy_from_slice(&v.to_le_bytes()[..f.width]);
        }
        "rec" | "rec12" => {
            if f.off + f.width > buf.len() { return; }
            // (an earlier fault of the same script may have rewritten this record's own header bytes: the
            // structural fault is then not applicable any more and is skipped)
            let hdr = if f.kind == "rec" { 4 } else { // BIFF12: id (1-2 bytes) + 1 length byte
                let idlen = if buf[f.off] & 0x80 != 0 { 2 } else { 1 };
                if f.off + idlen >= buf.len() { return; }
                match f.width.checked_sub(buf[f.off + idlen] as usize) { Some(h) if h == idlen + 1 => h, _ => return }
            };
            if hdr > f.width || f.width < hdr { return; }
            let rec: Vec<u8> = buf[f.off..f.off + f.width].to_vec();
            let payload = rec[hdr..].to_vec();
            let mut newp = payload.clone();
            let mid = payload.len().saturating_sub(2);
            let mut copies = 1;
            match REC_CLASSES[cls] {
                "grow1_end" => newp.push(0x01),
                "grow5_end" => newp.extend_from_slice(&[1, 2, 3, 4, 5]),
                "grow1_mid" => newp.insert(mid, 0x01),
                "grow5_mid" => { for (i, x) in [1u8, 2, 3, 4, 5].iter().enumerate() { newp.insert(mid + i, *x); } }
                "shrink1_end" => { newp.pop(); }
                "shrink2_mid" => { if newp.len() >= 4 { newp.drain(mid - 2..mid); } }
                "dup" => copies = 2,
                _ => copies = 0,
            }
            let mut newrec = rec[..hdr].to_vec();
            if f.kind == "rec" {
                newrec[2..4].copy_from_slice(&(newp.len() as u16).to_le_bytes());
            } else {
                if newp.len() > 127 { return; }
                let last = newrec.len() - 1;
                newrec[last] = newp.len() as u8;
            }
            newrec.extend_from_slice(&newp);
            let mut all = Vec::new();
            for _ in 0..copies { all.extend_from_slice(&newrec); }
            buf.splice(f.off..f.off + f.width, all);
        }
        "reccut" => {
            if f.off + f.width > buf.len() || f.width < 4 { return; }
            let len = f.width - 4;
            if cls >= len { return; }        // not a truncation of this record
            let mut newrec = buf[f.off..f.off + 4 + cls].to_vec();
            newrec[2..4].copy_from_slice(&(cls as u16).to_le_bytes());
            buf.splice(f.off..f.off + f.width, newrec);
        }
        "xmltag" => {
            if f.off + f.width > buf.len() || buf[f.off] != b'<' || buf[f.off + f.width - 1] != b'>' { return; }
            let tag = buf[f.off..f.off + f.width].to_vec();
            match XMLTAG_CLASSES[cls] {
                "delete" => { buf.splice(f.off..f.off + f.width, Vec::new()); }
                "twice" => { buf.splice(f.off..f.off, tag); }
                "cut_after" => buf.truncate(f.off + f.width),
                _ => buf.truncate(f.off + f.width / 2),
            }
        }
        "xmlnum" | "xmlref" => {
            if f.off + f.width > buf.len() { return; }
            let cur = String::from_utf8_lossy(&buf[f.off..f.off + f.width]).to_string();
            let new = if f.kind == "xmlnum" {
                let a: u64 = cur.parse().unwrap_or(0);
                match XMLNUM_CLASSES[cls] { "minus1" => a.wrapping_sub(1).to_string(), "plus1" => (a + 1).to_string(), s => s.to_string() }
            } else {
                XMLREF_CLASSES[cls].to_string()
            };
            buf.splice(f.off..f.off + f.width, new.bytes());
        }
        _ => {}
    }
}

/// apply a script (list of [field index, class index]) to a seed -> file bytes
pub fn apply(seed: &Seed, fl: &[Field], faults: &[(usize, usize)]) -> Vec<u8> {
    let mut s = seed.clone();
    let mut container: Vec<(usize, usize)> = Vec::new();
    // apply faults of one part from the highest offset down so that xml splices do not shift the others
    let mut fs: Vec<(usize, usize)> = faults.to_vec();
    fs.sort_by_key(|(fi, _)| std::cmp::Reverse(fl[*fi].off));
    for (fi, cls) in fs {
        let f = &fl[fi];
        if f.part == "container" {
            container.push((fi, cls));
            continue;
        }
        let (whole, pname) = match f.part.strip_prefix("whole:") { Some(p) => (true, p.to_string()), None => (false, f.part.clone()) };
        let key = pname.split_once(':').map(|x| x.1.to_string()).unwrap_or_default();
        let parts = match &mut s.body { Body::Zip(p) => p, Body::Cfb(p) => p };
        if let Some(idx) = parts.iter().position(|p| p.0 == key) {
            if whole {
                let len = parts[idx].1.len();
                match PART_CLASSES[cls] {
                    "drop" => { parts.remove(idx); }
                    "trunc0" => parts[idx].1.truncate(0),
                    "trunc1" => parts[idx].1.truncate(1),
                    "trunc_q" => parts[idx].1.truncate(len / 4),
                    "trunc_h" => parts[idx].1.truncate(len / 2),
                    _ => parts[idx].1.truncate(len.saturating_sub(1)),
                }
            } else {
                patch(&mut parts[idx].1, f, cls);
            }
        }
    }
    if let Body::Cfb(p) = &s.body {
        if p.is_empty() {
            // a compound file without the workbook stream
            return cfb::simple_cfb(&[("Other", &[1u8, 2, 3][..])]);
        }
    }
    let mut bytes = s.bytes();
    for (fi, cls) in container {
        patch(&mut bytes, &fl[fi], cls);
    }
    bytes
}

fn exercise_reader<R: Reader<Cursor<Vec<u8>>>>(wb: &mut R) {
    let names = wb.sheet_names();
    let _ = wb.sheets_metadata().len();
    let _ = wb.defined_names().len();
    for n in names.iter().take(4) {
        let _ = wb.worksheet_range(n);
        let _ = wb.worksheet_formula(n);
    }
    let _ = wb.worksheet_range_at(0);
    let _ = wb.worksheets();
    if let Some(Ok(v)) = wb.vba_project() {
        let v = v.into_owned();
        for m in v.get_module_names() {
            let _ = v.get_module(m);
        }
        let _ = v.get_references().len();
    }
    wb.with_header_row(calamine::HeaderRow::Row(1));
    for n in names.iter().take(2) {
        let _ = wb.worksheet_range(n);
    }
}

/// every entry point of the format's reader and of auto-detection; Ok/Err are both fine
pub fn exercise(fmt: &str, bytes: &[u8]) {
    let c = || Cursor::new(bytes.to_vec());
    match fmt {
        "xlsx" => {
            if let Ok(mut wb) = Xlsx::new(c()) {
                exercise_reader(&mut wb);
                let names = wb.sheet_names();
                for n in names.iter().take(4) {
                    let _ = wb.worksheet_range_ref(n).map(|r| r.get_size());
                    let _ = wb.worksheet_merge_cells(n);
                }
                let _ = wb.worksheet_merge_cells_at(0);
                if wb.load_tables().is_ok() {
                    let t: Vec<String> = wb.table_names().into_iter().cloned().collect();
                    for n in t {
                        let _ = wb.table_by_name(&n);
                        let _ = wb.table_by_name_ref(&n).map(|t| t.data().get_size());
                    }
                }
                if wb.load_merged_regions().is_ok() {
                    let _ = wb.merged_regions().len();
                }
            }
        }
        "xlsb" => {
            if let Ok(mut wb) = Xlsb::new(c()) {
                exercise_reader(&mut wb);
                let names = wb.sheet_names();
                for n in names.iter().take(4) {
                    let _ = wb.worksheet_range_ref(n).map(|r| r.get_size());
                }
            }
        }
        "xls" => {
            if let Ok(mut wb) = Xls::new(c()) {
                exercise_reader(&mut wb);
                let names = wb.sheet_names();
                for n in names.iter().take(4) {
                    let _ = wb.worksheet_merge_cells(n);
                }
            }
        }
        _ => {
            if let Ok(mut wb) = Ods::new(c()) {
                exercise_reader(&mut wb);
            }
        }
    }
    if let Ok(mut wb) = open_workbook_auto_from_rs(c()) {
        let names = wb.sheet_names();
        for n in names.iter().take(2) {
            let _ = wb.worksheet_range(n);
        }
    }
}

/// `cvh faults fields --out F [--fixtures 1]`: the field map TLC enumerates over
/// `cvh faults dump --script '{"seed":3,"faults":[[36,1]]}' --out F`: the file a script denotes
pub fn dump(args: &Args) -> i32 {
    let v: Value = serde_json::from_str(args.req("script")).expect("script json");
    let sd = seeds(args.get("fixtures").is_some());
    let si = v["seed"].as_u64().unwrap() as usize - 1;
    let fl = fields(&sd[si]);
    let faults: Vec<(usize, usize)> = v["faults"].as_array().unwrap().iter().map(|x| (x[0].as_u64().unwrap() as usize - 1, x[1].as_u64().unwrap() as usize - 1)).collect();
    for (f, c) in &faults { eprintln!("field {:?} class {}", fl[*f], c); }
    std::fs::write(args.req("out"), apply(&sd[si], &fl, &faults)).unwrap();
    0
}

pub fn write_fields(args: &Args) -> i32 {
    let mut out = std::io::BufWriter::new(std::fs::File::create(args.req("out")).unwrap());
    for (si, s) in seeds(args.get("fixtures").is_some()).iter().enumerate() {
        let fl = fields(s);
        // fixtures: an evenly spread sample of at most 500 fields, single faults only
        let fixture = s.name.starts_with("fixture:");
        let step = if fixture && fl.len() > 500 { fl.len() / 500 + 1 } else { 1 };
        for (fi, f) in fl.iter().enumerate() {
            if fi % step != 0 && f.kind != "part" {
                continue;
            }
            writeln!(out, "{}", json!({"seed": si + 1, "name": s.name, "f": fi + 1, "kind": f.kind, "ncls": nclasses(f.kind), "part": f.part, "pairs": !fixture})).unwrap();
        }
    }
    0
}

/// CPU time (user + system) of this process in ms, from /proc/self/stat (10 ms ticks): the time
/// criterion must not depend on how loaded the machine is
fn cpu_ms() -> u64 {
    let s = std::fs::read_to_string("/proc/self/stat").unwrap_or_default();
    // fields after the parenthesised command name; utime and stime are the 14th and 15th overall
    let rest = s.rsplit_once(')').map(|x| x.1).unwrap_or("");
    let f: Vec<&str> = rest.split_whitespace().collect();
    let t = |i: usize| f.get(i).and_then(|x| x.parse::<u64>().ok()).unwrap_or(0);
    (t(11) + t(12)) * 10
}

/// child: reads scripts {"seed":si,"faults":[[f,cls],..]} (1-based, as TLC prints them) on stdin
pub fn child(args: &Args) -> i32 {
    crate::alloc::set_cap(args.num("cap_mb", 768) as usize * 1024 * 1024);
    let sd = seeds(args.get("fixtures").is_some());
    let fl: Vec<Vec<Field>> = sd.iter().map(fields).collect();
    let stdin = std::io::stdin();
    let stdout = std::io::stdout();
    for line in stdin.lock().lines() {
        let line = match line { Ok(l) => l, Err(_) => break };
        if line.trim().is_empty() { continue; }
        let v: Value = match serde_json::from_str(&line) { Ok(v) => v, Err(_) => continue };
        let id = v["id"].as_u64().unwrap_or(0);
        { let mut o = stdout.lock(); writeln!(o, "START {}", id).unwrap(); o.flush().unwrap(); }
        let si = v["seed"].as_u64().unwrap() as usize - 1;
        let faults: Vec<(usize, usize)> = v["faults"].as_array().unwrap().iter().map(|x| (x[0].as_u64().unwrap() as usize - 1, x[1].as_u64().unwrap() as usize - 1)).collect();
        // a panic of the fault applicator is a harness error, never an outcome of the code under test
        let bytes = match catch(|| apply(&sd[si], &fl[si], &faults)) {
            Ok(b) => b,
            Err(p) => {
                let mut o = stdout.lock();
                writeln!(o, "DONE {}", json!({"id": id, "outcome": "harness", "msg": p})).unwrap();
                o.flush().unwrap();
                continue;
            }
        };
        crate::alloc::reset_peak();
        let base = crate::alloc::live();
        let t0 = std::time::Instant::now();
        let c0 = cpu_ms();
        let r = catch(|| exercise(&sd[si].fmt, &bytes));
        let ms = t0.elapsed().as_millis() as u64;
        let cpu = cpu_ms().saturating_sub(c0);
        let peak = crate::alloc::peak().saturating_sub(base);
        let res = match r {
            Ok(()) => json!({"id": id, "outcome": "ok", "ms": ms, "cpu_ms": cpu, "peak": peak, "size": bytes.len()}),
            Err(p) => json!({"id": id, "outcome": "panic", "msg": p, "ms": ms, "cpu_ms": cpu, "peak": peak, "size": bytes.len()}),
        };
        let mut o = stdout.lock();
        writeln!(o, "DONE {}", res).unwrap();
        o.flush().unwrap();
    }
    0
}

fn panic_key(msg: &str) -> String {
    // "message @ file:line in function" -> "panic:<function>:<message class>" (robust to line shifts)
    let (rest, func) = match msg.rsplit_once(" in ") { Some((a, b)) if b.starts_with("calamine::") => (a, b.to_string()), _ => (msg, String::new()) };
    let (m, loc) = rest.rsplit_once(" @ ").unwrap_or((rest, ""));
    let file = loc.rsplit_once(':').map(|x| x.0).unwrap_or(loc);
    let rel = file.rsplit_once("/src/").map(|x| x.1).unwrap_or(file);
    let mut class: String = m.chars().map(|c| if c.is_ascii_digit() { '#' } else { c }).collect();
    while class.contains("##") { class = class.replace("##", "#"); }
    let func = func.replace("<", "").replace(">", "").replace(" as ", "-as-");
    format!("panic:{}:{}", if func.is_empty() { rel.to_string() } else { func }, class)
}

fn seed_fmt(sc: &Value) -> String {
    sc["fmt"].as_str().unwrap_or("?").to_string()
}

/// parent: worker pool over the scripts; one result line per script in the output ndjson
pub fn run(args: &Args) -> i32 {
    let sd = seeds(args.get("fixtures").is_some());
    let scripts: Vec<Value> = read_ndjson(args.req("in")).collect();
    let nworkers = args.num("workers", 8) as usize;
    let deadline = std::time::Duration::from_secs(args.num("deadline_s", 20));
    let exe = std::env::current_exe().unwrap();
    let chunks: Vec<Vec<(usize, Value)>> = {
        let mut c: Vec<Vec<(usize, Value)>> = vec![Vec::new(); nworkers];
        for (i, mut s) in scripts.into_iter().enumerate() {
            let si = s["seed"].as_u64().unwrap_or(1) as usize - 1;
            s["fmt"] = json!(sd[si].fmt);
            s["seed_name"] = json!(sd[si].name);
            c[i % nworkers].push((i, s));
        }
        c
    };
    let fixtures = args.get("fixtures").is_some();
    let cap = args.num("cap_mb", 768);
    let handles: Vec<std::thread::JoinHandle<Vec<Value>>> = chunks.into_iter().map(|chunk| {
        let exe = exe.clone();
        std::thread::spawn(move || {
            let mut results: Vec<Value> = Vec::new();
            let mut next = 0usize;
            while next < chunk.len() {
                let mut cmd = Command::new(&exe);
                cmd.arg("faults").arg("child").arg("--cap_mb").arg(cap.to_string()).env("CVH_PANIC_FRAMES", "1");
                if fixtures { cmd.arg("--fixtures").arg("1"); }
                let mut ch = cmd.stdin(Stdio::piped()).stdout(Stdio::piped()).stderr(Stdio::piped()).spawn().expect("spawn child");
                let mut cin = ch.stdin.take().unwrap();
                let cout = ch.stdout.take().unwrap();
                let (tx, rx) = std::sync::mpsc::channel::<String>();
                std::thread::spawn(move || { for l in BufReader::new(cout).lines().flatten() { if tx.send(l).is_err() { break; } } });
                // feed scripts one at a time so that a dead child tells us exactly which script killed it
                let mut alive = true;
                while alive && next < chunk.len() {
                    let (gid, sc) = &chunk[next];
                    let mut s2 = sc.clone();
                    s2["id"] = json!(gid);
                    if writeln!(cin, "{}", s2).is_err() || cin.flush().is_err() { alive = false; }
                    let mut done = false;
                    let t0 = std::time::Instant::now();
                    while alive && !done {
                        match rx.recv_timeout(std::time::Duration::from_millis(200)) {
                            Ok(l) => {
                                if let Some(j) = l.strip_prefix("DONE ") {
                                    let mut r: Value = serde_json::from_str(j).unwrap_or(json!({}));
                                    r["script"] = sc.clone();
                                    results.push(r);
                                    done = true;
                                }
                            }
                            Err(std::sync::mpsc::RecvTimeoutError::Timeout) => {
                                if t0.elapsed() > deadline {
                                    let _ = ch.kill();
                                    results.push(json!({"id": gid, "outcome": "hang", "script": sc, "ms": t0.elapsed().as_millis() as u64}));
                                    alive = false;
                                    done = true;
                                }
                            }
                            Err(_) => {
                                // child died while processing this script
                                let mut err = String::new();
                                if let Some(mut e) = ch.stderr.take() { let _ = e.read_to_string(&mut err); }
                                let st = ch.wait().ok();
                                results.push(json!({"id": gid, "outcome": "abort", "script": sc, "msg": format!("{:?} {}", st, err.lines().next().unwrap_or(""))}));
                                alive = false;
                                done = true;
                            }
                        }
                    }
                    next += 1;
                }
                drop(cin);
                let _ = ch.kill();
                let _ = ch.wait();
            }
            results
        })
    }).collect();
    let mut all: Vec<Value> = handles.into_iter().flat_map(|h| h.join().unwrap()).collect();
    all.sort_by_key(|r| r["id"].as_u64().unwrap_or(0));
    let mut out = std::io::BufWriter::new(std::fs::File::create(args.req("out")).unwrap());
    let mut rep = Report::new();
    // the site of a resource finding: which field(s) of which kind of part were faulted
    let fl_all: Vec<Vec<Field>> = sd.iter().map(fields).collect();
    let site_of = |sc: &Value| -> String {
        let si = sc["seed"].as_u64().unwrap_or(1) as usize - 1;
        let mut v: Vec<String> = sc["faults"].as_array().map(|a| a.iter().map(|x| {
            let fi = x[0].as_u64().unwrap_or(1) as usize - 1;
            match fl_all.get(si).and_then(|f| f.get(fi)) { Some(f) => format!("{}:{}", part_class(&f.part), f.desc), None => "?".to_string() }
        }).collect()).unwrap_or_default();
        v.sort();
        v.dedup();
        v.join(" & ")
    };
    if let Some(h) = all.iter().find(|r| r["outcome"] == "harness") {
        eprintln!("harness error while applying a fault script: {}", h);
        return 2;
    }
    for r in &all {
        let sc = &r["script"];
        rep.case(sc, true);
        let outcome = r["outcome"].as_str().unwrap_or("?");
        let key = match outcome {
            "ok" => {
                // resource proportionality: memory <= 64 x size + 64 MB, CPU time <= 3 s + 1 ms / KB
                let size = r["size"].as_u64().unwrap_or(1);
                if r["peak"].as_u64().unwrap_or(0) > 64 * size + 64 * 1024 * 1024 { Some(format!("memory:out-of-proportion:{}:{}", seed_fmt(sc), site_of(sc))) }
                else if r["cpu_ms"].as_u64().unwrap_or(0) > 3000 + size / 1024 { Some("time:out-of-proportion".to_string()) }
                else { None }
            }
            "panic" => Some(panic_key(r["msg"].as_str().unwrap_or(""))),
            "abort" => {
                let m = r["msg"].as_str().unwrap_or("");
                Some(format!("abort:{}:{}:{}", if m.contains("memory allocation") { "alloc" } else { "other" }, seed_fmt(sc), site_of(sc)))
            }
            o => Some(o.to_string()),
        };
        let ev = json!({"e": "script", "id": r["id"], "seed": sc["seed"], "faults": sc["faults"], "outcome": if key.is_none() { "safe" } else { outcome }, "key": key.clone().unwrap_or_default()});
        writeln!(out, "{}", ev).unwrap();
        if let Some(k) = key {
            rep.fail(&k, sc, json!("Ok or Err"), r.clone());
        } else if rep.evaluated % 1499 == 1 {
            rep.sample(json!({"script": sc, "result": {"outcome": outcome, "ms": r["ms"], "peak_alloc": r["peak"]}}));
        }
    }
    rep.write(args.req("report"));
    0
}
