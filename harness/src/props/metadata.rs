//! C16 — workbook descriptors from MC_Metadata are materialised in their format and
//! sheet_names / sheets_metadata / defined_names / the date-system flag are compared with the ideal.
use crate::build::simple::{xlsx_tokens, SSheet, SVal};
use crate::build::xlsx::build_xlsx;
use crate::build::{biff, ods, xlsb};
use crate::common::*;
use calamine::{Data, Ods, Reader, SheetType, SheetVisible, Xls, Xlsb, Xlsx};
use rand::rngs::StdRng;
use rand::{Rng, SeedableRng};
use serde_json::{json, Value};
use std::io::{Cursor, Write};

pub fn name_of(id: &str) -> String {
    match id {
        "plain" => "Data".into(),
        "special" => "A&B <1>".into(),
        "apos" => "It's \"q\"".into(),
        "cjk" => "数据表".into(),
        "astral" => "😀x".into(),
        "blank" => " x ".into(),
        "long" => "ABCDEFGHIJKLMNOPQRSTUVWXYZ01234".into(), // 31 characters
        o => o.to_string(),
    }
}
pub fn defname_of(id: &str, fmt: &str) -> (String, String) {
    match (id, fmt) {
        ("ref", "ods") => ("MyRef".into(), "$Data.$A$1".into()),
        ("ref", _) => ("MyRef".into(), "Data!$A$1".into()),
        ("text", _) => ("Tx_1".into(), "\"a&b <c>\"".into()),
        (_, _) => ("Expr".into(), "1+2*3".into()),
    }
}

fn vis_name(v: &SheetVisible) -> u64 {
    match v { SheetVisible::Visible => 0, SheetVisible::Hidden => 1, SheetVisible::VeryHidden => 2 }
}
fn kind_name(t: &SheetType) -> &'static str {
    match t { SheetType::WorkSheet => "work", SheetType::ChartSheet => "chart", SheetType::DialogSheet => "dialog", SheetType::MacroSheet => "macro", SheetType::Vba => "vba" }
}

fn observe<R: Reader<Cursor<Vec<u8>>>>(wb: &mut R, date_sheets: &[String], serial: f64) -> Value
where R::Error: std::fmt::Display {
    let meta: Vec<Value> = wb.sheets_metadata().iter().map(|s| json!({"name": s.name, "vis": vis_name(&s.visible), "kind": kind_name(&s.typ)})).collect();
    let names = wb.sheet_names();
    let dn: Vec<Value> = wb.defined_names().iter().map(|(n, v)| json!([n, v])).collect();
    // the date-system flag must reach the date cell of every worksheet
    let mut flags = Vec::new();
    for s in date_sheets {
        match wb.worksheet_range(s) {
            Ok(r) => match r.get_value((0, 0)) {
                Some(Data::DateTime(e)) if e.as_f64() == serial => flags.push(json!(crate::observe::is_1904(e))),
                other => flags.push(json!(format!("{:?}", other))),
            },
            Err(e) => flags.push(json!(format!("error {}", e))),
        }
    }
    json!({"meta": meta, "sheet_names": names, "defined_names": dn, "d1904_seen": flags})
}

fn patch_boundsheets(stream: &mut [u8], sheets: &[(u8, u8)]) {
    let mut pos = 0;
    let mut i = 0;
    while pos + 4 <= stream.len() && i < sheets.len() {
        let typ = u16::from_le_bytes([stream[pos], stream[pos + 1]]);
        let len = u16::from_le_bytes([stream[pos + 2], stream[pos + 3]]) as usize;
        if typ == 0x0085 {
            stream[pos + 8] = sheets[i].0;
            stream[pos + 9] = sheets[i].1;
            i += 1;
        }
        if typ == 0x000A { break; }
        pos += 4 + len;
    }
}

pub fn run_one(w: &Value) -> Result<Value, String> {
    let fmt = w["fmt"].as_str().unwrap();
    let sheets = w["sheets"].as_array().unwrap();
    let d1904 = w["d1904"].as_bool().unwrap();
    let serial = 44000.0;
    let work_names: Vec<String> = sheets.iter().filter(|s| s["kind"] == "work").map(|s| name_of(s["name"].as_str().unwrap())).collect();
    let bytes: Vec<u8> = match fmt {
        "xlsx" => {
            let nz = &w["noise"];
            let sh: Vec<Value> = sheets.iter().enumerate().map(|(i, s)| {
                let (dir, raw) = match s["kind"].as_str().unwrap() {
                    "chart" => ("chartsheets", Some("<chartsheet xmlns=\"http://schemas.openxmlformats.org/spreadsheetml/2006/main\"><sheetViews><sheetView workbookViewId=\"0\"/></sheetViews></chartsheet>")),
                    "dialog" => ("dialogsheets", Some("<dialogsheet xmlns=\"http://schemas.openxmlformats.org/spreadsheetml/2006/main\"><sheetViews><sheetView workbookViewId=\"0\"/></sheetViews></dialogsheet>")),
                    "macro" => ("macrosheets", Some("<xm:macrosheet xmlns:xm=\"http://schemas.microsoft.com/office/excel/2006/main\" xmlns=\"http://schemas.openxmlformats.org/spreadsheetml/2006/main\"><sheetData/></xm:macrosheet>")),
                    _ => ("worksheets", None),
                };
                let state = match s["vis"].as_u64().unwrap() { 1 => json!("hidden"), 2 => json!("veryHidden"), _ => Value::Null };
                json!({"name": name_of(s["name"].as_str().unwrap()), "file": format!("sheet{}.xml", i + 1), "dir": dir, "raw": raw, "state": state,
                       "attr_order": nz["order"], "tokens": [{"k": "row", "r": 0}, if i % 2 == 0 { json!({"k": "c", "r": [0, 0], "s": 1, "v": "44000"}) } else { json!({"k": "c", "r": [0, 0], "s": 1, "f": "A2+1", "v": "44000"}) }, {"k": "rowend"}]})
            }).collect();
            let dn: Vec<Value> = w["names"].as_array().unwrap().iter().map(|d| { let (n, v) = defname_of(d.as_str().unwrap(), fmt); json!([n, v]) }).collect();
            build_xlsx(&json!({"prefix": nz["prefix"], "rel_prefix": nz["relp"], "date1904": d1904, "ext_workbookpr": nz["order"] == "rev", "defined_name_split": nz["prefix"] == "x", "styles": {"cellStyleXfs": [0], "cellXfs": [0, 14]}, "sheets": sh, "defined_names": dn}))
        }
        "xlsb" => {
            let mut book = xlsb::XlsbBook::default();
            book.is_1904 = d1904;
            book.xfs = vec![0, 14];
            for (i, s) in sheets.iter().enumerate() {
                // the date cell in every numeric encoding, sheet after sheet: real, cached formula result, RK integer
                let cv = match i % 3 { 0 => xlsb::CellVal::Real(serial), 1 => xlsb::CellVal::FmlaNum(serial), _ => xlsb::CellVal::Rk(xlsb::rk_int(serial as i32, false)) };
                let body = vec![xlsb::row_hdr(0, 0, 0), xlsb::cell_record(0, 1, &cv, &xlsb::PTG_INT_1)];
                book.sheets.push(xlsb::XlsbSheet { name: name_of(s["name"].as_str().unwrap()), state: s["vis"].as_u64().unwrap() as u32, stream: xlsb::sheet_stream(&xlsb::Preamble::default(), (0, 0, 0, 0), &body) });
            }
            // kinds are expressed by the part folder in the relationships: rewrite the parts
            let mut parts = book.parts();
            // ignorable records whose payload aliases record ids
            let alias = w["noise"]["alias"].as_str().unwrap_or("none");
            if alias != "none" {
                let mut view = Vec::new();
                for v in [0i32, 0, 412, 0x9C] { view.extend_from_slice(&v.to_le_bytes()); }  // dxWn = 412 -> 9C 01 00 00
                view.extend_from_slice(&600u32.to_le_bytes());
                view.extend_from_slice(&0u32.to_le_bytes());
                view.extend_from_slice(&0u32.to_le_bytes());
                view.push(0x78);
                let bookviews = xlsb::stream(&[xlsb::Rec::new(0x0087, vec![]), xlsb::Rec::new(0x009E, view.clone()), xlsb::Rec::new(0x0088, vec![])]);
                for p in parts.iter_mut() {
                    if p.0 == "xl/workbook.bin" {
                        // splice before BrtBeginBundleShs (8F 01 00) or between the BrtBundleSh records
                        let marker: &[u8] = if alias == "bookview" { &[0x8F, 0x01, 0x00] } else { &[0x90, 0x01, 0x00] };
                        if let Some(pos) = p.1.windows(3).position(|w| w == marker) {
                            let ins: Vec<u8> = if alias == "bookview" { bookviews.clone() } else { xlsb::stream(&[xlsb::Rec::new(0x0817, view.clone())]) };
                            let tail = p.1.split_off(pos);
                            p.1.extend_from_slice(&ins);
                            p.1.extend_from_slice(&tail);
                        }
                    }
                }
            }
            for (i, s) in sheets.iter().enumerate() {
                let dir = match s["kind"].as_str().unwrap() { "chart" => "chartsheets", "dialog" => "dialogsheets", "macro" => "macrosheets", _ => "worksheets" };
                if dir != "worksheets" {
                    let old = format!("worksheets/sheet{}.bin", i + 1);
                    let new = format!("{}/sheet{}.bin", dir, i + 1);
                    for p in parts.iter_mut() {
                        if p.0 == "xl/_rels/workbook.bin.rels" || p.0 == "[Content_Types].xml" {
                            p.1 = String::from_utf8(p.1.clone()).unwrap().replace(&old, &new).into_bytes();
                        }
                        if p.0 == format!("xl/{}", old) {
                            p.0 = format!("xl/{}", new);
                        }
                    }
                }
            }
            crate::build::zipw::zip_bytes(&parts, false)
        }
        "xls" => {
            let mut wb = biff::Workbook::default();
            wb.date1904 = Some(d1904);
            wb.xfs = vec![0, 14];
            let high = w["noise"]["high"].as_bool().unwrap_or(false);
            for (i, s) in sheets.iter().enumerate() {
                let n = name_of(s["name"].as_str().unwrap());
                let xs = if high { biff::XlStr::with_storage(&n, true) } else { biff::XlStr::new(&n) };
                // the date cell in every numeric encoding, sheet after sheet
                let rk = crate::build::xlsb::rk_int(serial as i32, false);
                let rec = match i % 4 {
                    0 => biff::Rec::Number { r: 0, c: 0, xf: 1, v: serial },
                    1 => biff::Rec::Formula { r: 0, c: 0, xf: 1, res: biff::FRes::Num(serial), shared: false },
                    2 => biff::Rec::Rk { r: 0, c: 0, xf: 1, rk },
                    _ => biff::Rec::MulRk { r: 0, c0: 0, items: vec![(1, rk), (1, rk)] },
                };
                wb.sheets.push(biff::Sheet { name: xs, dims: None, recs: vec![rec] });
            }
            let mut s = biff::workbook_stream(&wb);
            // hsState is the low two bits of the state byte; the unused high bits (set when `high`) must be ignored
            let st: Vec<(u8, u8)> = sheets.iter().enumerate().map(|(i, s)| (s["vis"].as_u64().unwrap() as u8 | if high { [0x40u8, 0xC0, 0x80][i % 3] } else { 0 }, match s["kind"].as_str().unwrap() { "macro" => 1, "chart" => 2, "vba" => 6, _ => 0 })).collect();
            patch_boundsheets(&mut s, &st);
            crate::build::cfb::simple_cfb(&[("Workbook", &s)])
        }
        _ => {
            let mut doc = ods::OdsDoc::default();
            for s in sheets {
                let mut t = ods::OdsTable::new(&name_of(s["name"].as_str().unwrap()), vec![ods::OdsRow { repeat: 1, explicit_repeat: false, cells: vec![ods::OdsCell::value(ods::OdsVal::Float("1".into()), 1)] }]);
                if s["vis"].as_u64().unwrap() == 1 { t.display = Some(false); }
                doc.tables.push(t);
            }
            for d in w["names"].as_array().unwrap() {
                let (n, v) = defname_of(d.as_str().unwrap(), fmt);
                doc.named.push((n, v.clone(), d == "ref"));
            }
            doc.to_bytes(false)
        }
    };
    let date_sheets: Vec<String> = if fmt == "ods" { vec![] } else { work_names };
    let c = Cursor::new(bytes);
    match fmt {
        "xlsx" => Xlsx::new(c).map_err(|e| format!("open: {}", e)).map(|mut wb| observe(&mut wb, &date_sheets, serial)),
        "xlsb" => Xlsb::new(c).map_err(|e| format!("open: {}", e)).map(|mut wb| observe(&mut wb, &date_sheets, serial)),
        "xls" => Xls::new(c).map_err(|e| format!("open: {}", e)).map(|mut wb| observe(&mut wb, &date_sheets, serial)),
        _ => Ods::new(c).map_err(|e| format!("open: {}", e)).map(|mut wb| observe(&mut wb, &date_sheets, serial)),
    }
}

pub fn expected(w: &Value, ideal: &Value) -> Value {
    let fmt = w["fmt"].as_str().unwrap();
    let sheets = ideal["sheets"].as_array().unwrap();
    let meta: Vec<Value> = sheets.iter().map(|s| json!({"name": name_of(s["name"].as_str().unwrap()), "vis": s["vis"], "kind": s["kind"]})).collect();
    let names: Vec<String> = sheets.iter().map(|s| name_of(s["name"].as_str().unwrap())).collect();
    let dn: Vec<Value> = ideal["names"].as_array().unwrap().iter().map(|d| { let (n, v) = defname_of(d.as_str().unwrap(), fmt); json!([n, v]) }).collect();
    let nwork = if fmt == "ods" { 0 } else { sheets.iter().filter(|s| s["kind"] == "work").count() };
    json!({"meta": meta, "sheet_names": names, "defined_names": dn, "d1904_seen": vec![ideal["d1904"].clone(); nwork]})
}

pub fn replay(args: &Args) -> i32 {
    let mut rep = Report::new();
    for b in read_ndjson(args.req("in")) {
        let w = &b["w"];
        rep.case(w, !w["sheets"].as_array().unwrap().is_empty());
        let exp = expected(w, &b["ideal"]);
        let got = match catch(|| run_one(w)) {
            Ok(Ok(v)) => v,
            Ok(Err(e)) => json!({ "error": e }),
            Err(p) => json!({ "panic": p }),
        };
        if got != exp {
            let s = w.to_string();
            let key = if w["noise"]["alias"].is_string() && w["noise"]["alias"] != "none" { "feature:xlsb-payload-alias" } else { "unexplained" };
            rep.fail(key, &b, exp, got);
        } else if rep.evaluated % 1999 == 1 {
            rep.sample(json!({"workbook": w, "observed": got}));
        }
    }
    rep.write(args.req("out"));
    0
}

/// leg 2: random workbooks with up to 12 sheets and random Unicode names (1..31 characters)
pub fn drive(args: &Args) -> i32 {
    let n = args.num("n", 80);
    let mut rng = StdRng::seed_from_u64(args.seed() ^ 0xC16);
    let mut out = std::io::BufWriter::new(std::fs::File::create(args.req("out")).unwrap());
    let alphabet: Vec<char> = "abcXYZ 019&<>\"'éß漢字😀_-.()".chars().collect();
    for run in 0..n {
        let fmt = ["xlsx", "xlsb", "xls", "ods"][rng.gen_range(0..4)];
        let ns = rng.gen_range(0..=12usize);
        let mut sheets = Vec::new();
        let mut used: Vec<String> = Vec::new();
        while sheets.len() < ns {
            let len = rng.gen_range(1..=31usize);
            let mut name: String = (0..len).map(|_| alphabet[rng.gen_range(0..alphabet.len())]).collect();
            // sheet names are unique case-insensitively and 31 UTF-16 units at most
            while name.encode_utf16().count() > 31 { name.pop(); }
            if name.trim().is_empty() || used.iter().any(|u| u.to_lowercase() == name.to_lowercase()) || ["plain", "special", "apos", "cjk", "astral", "blank", "long"].contains(&name.as_str()) {
                continue;
            }
            used.push(name.clone());
            let kinds: &[&str] = match fmt { "xls" => &["work", "macro", "chart", "vba"], "ods" => &["work"], _ => &["work", "chart", "dialog", "macro"] };
            let vis = if fmt == "ods" { rng.gen_range(0..2) } else { rng.gen_range(0..3) };
            let kind = kinds[if rng.gen_bool(0.7) { 0 } else { rng.gen_range(0..kinds.len()) }];
            sheets.push(json!({"name": name, "vis": vis, "kind": kind}));
        }
        let noise = match fmt {
            "xlsx" => { let (o, r, p) = (["fwd", "rev"][rng.gen_range(0..2)], ["r", "relationships"][rng.gen_range(0..2)], ["", "x"][rng.gen_range(0..2)]); json!({"order": o, "relp": r, "prefix": p}) }
            "xls" => json!({"high": rng.gen_bool(0.5)}),
            "xlsb" => { let a = ["none", "bookview", "between"][rng.gen_range(0..3)]; json!({"alias": a}) }
            _ => json!({"none": true}),
        };
        let w = json!({"fmt": fmt, "sheets": sheets, "names": [], "d1904": fmt != "ods" && rng.gen_bool(0.5), "noise": noise});
        let got = match catch(|| run_one(&w)) { Ok(Ok(v)) => v, Ok(Err(e)) => json!({"error": e}), Err(p) => json!({"panic": p}) };
        let exp = expected(&w, &json!({"sheets": w["sheets"], "names": [], "d1904": w["d1904"]}));
        writeln!(out, "{}", json!({"e": "workbook", "run": run, "fmt": fmt, "declared": exp, "reported": got})).unwrap();
    }
    0
}
