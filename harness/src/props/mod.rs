pub mod range;
