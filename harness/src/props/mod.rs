pub mod range;
pub mod cfb;
pub mod biff;
pub mod sst;
