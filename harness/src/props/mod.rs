pub mod range;
pub mod de;
pub mod xlsx_sheet;
pub mod xlsx_strings;
pub mod shared_formula;
pub mod numfmt;
pub mod dates;
pub mod xlsx_tables;
