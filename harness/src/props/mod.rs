pub mod range;
pub mod ods;
pub mod xlsb;
