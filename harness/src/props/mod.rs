pub mod range;
pub mod de;
