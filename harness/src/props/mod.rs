pub mod range;
pub mod cfb;
