pub mod range;
pub mod ods;
