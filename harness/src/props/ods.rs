//! C04 — ODS tables: cells at their position, repeat counts expanded faithfully.
//! replay: every physical table printed by MC_OdsTable is materialised into a real .ods
//!         (build/ods.rs), opened with calamine::Ods, and `worksheet_range` /
//!         `worksheet_formula` / `get_value` are compared with the ideal computed by the
//!         specification; the reader state predicted by the model (`rd`) is also fed to the
//!         internal `get_range` through the verification window.
//! drive : seeded random large tables (hundreds of row elements, random groupings, huge empty
//!         runs, first used row/column anywhere); one ndjson event per table with the physical
//!         tokens and what the public API returned; Trace_OdsTable.tla validates the log.
use crate::build::ods::*;
use crate::common::*;
use calamine::{Data, Ods, Range, Reader};
use rand::rngs::StdRng;
use rand::{Rng, SeedableRng};
use serde_json::{json, Value};
use std::io::{Cursor, Write};

/// [tag, text] of a cell value, the shape the specification uses
fn val_json(d: &Data) -> Value {
    match d {
        Data::Empty => json!([]),
        Data::Float(f) => json!(["f", format!("{:?}", f)]),
        Data::Int(i) => json!(["i", i.to_string()]),
        Data::String(s) => json!(["s", s]),
        Data::Bool(b) => json!(["b", if *b { "true" } else { "false" }]),
        Data::DateTimeIso(s) => json!(["iso", s]),
        Data::DurationIso(s) => json!(["dur", s]),
        Data::DateTime(dt) => json!(["dt", format!("{:?}", dt.as_f64())]),
        Data::Error(e) => json!(["e", format!("{:?}", e)]),
    }
}

/// same value? floats are compared as numbers (the ideal carries a decimal numeral)
fn same_val(ideal: &Value, obs: &Value) -> bool {
    if ideal == obs {
        return true;
    }
    if ideal[0] == "f" && obs[0] == "f" {
        let a = ideal[1].as_str().and_then(|s| s.parse::<f64>().ok());
        let b = obs[1].as_str().and_then(|s| s.parse::<f64>().ok());
        return a.is_some() && a == b;
    }
    false
}

/// {"start","end","cells":[[r,c,x]..],"shape":bool}: absolute positions of the non-default
/// cells as rows() shows them, row-major; shape = rows()/get_size() consistent
fn proj<T: calamine::CellType>(r: &Range<T>, f: impl Fn(&T) -> Value) -> Value {
    let p2 = |p: Option<(u32, u32)>| match p {
        Some((a, b)) => json!([a, b]),
        None => json!([]),
    };
    let (h, w) = r.get_size();
    let d = T::default();
    let mut shape = r.rows().count() == h;
    let mut cells = Vec::new();
    if let Some(s) = r.start() {
        for (ri, row) in r.rows().enumerate() {
            if row.len() != w {
                shape = false;
            }
            for (ci, v) in row.iter().enumerate() {
                if *v != d {
                    cells.push(json!([s.0 as u64 + ri as u64, s.1 as u64 + ci as u64, f(v)]));
                }
            }
        }
    }
    json!({"start": p2(r.start()), "end": p2(r.end()), "cells": cells, "shape": shape})
}

fn same_range(ideal: &Value, obs: &Value) -> bool {
    if ideal["start"] != obs["start"] || ideal["end"] != obs["end"] || ideal["shape"] != obs["shape"] {
        return false;
    }
    let (a, b) = (ideal["cells"].as_array().unwrap(), obs["cells"].as_array().unwrap());
    a.len() == b.len()
        && a.iter().zip(b.iter()).all(|(x, y)| x[0] == y[0] && x[1] == y[1] && same_val(&x[2], &y[2]))
}

pub struct Observed {
    pub v: Value,
    pub f: Value,
    /// first disagreement between get_value / rows() / ideal positions, if any
    pub access: Option<String>,
}

/// open the bytes with the real reader and project sheet `name`
pub fn observe(bytes: Vec<u8>, name: &str, ideal_cells: Option<&Value>) -> Result<Observed, String> {
    let r = catch(|| -> Result<Observed, String> {
        let mut ods: Ods<_> = Ods::new(Cursor::new(bytes)).map_err(|e| format!("open: {}", e))?;
        let rg = ods.worksheet_range(name).map_err(|e| format!("worksheet_range: {}", e))?;
        let fr = ods.worksheet_formula(name).map_err(|e| format!("worksheet_formula: {}", e))?;
        let mut access = None;
        if let Some(cells) = ideal_cells.and_then(|c| c.as_array()) {
            // "the value at every absolute position": get_value at every ideal cell and at the
            // neighbours that the ideal leaves empty
            let mut occupied = std::collections::HashSet::new();
            for c in cells {
                occupied.insert((c[0].as_u64().unwrap(), c[1].as_u64().unwrap()));
            }
            for c in cells {
                let (r0, c0) = (c[0].as_u64().unwrap(), c[1].as_u64().unwrap());
                let got = rg.get_value((r0 as u32, c0 as u32)).map(val_json).unwrap_or(json!(["none"]));
                if !same_val(&c[2], &got) && access.is_none() {
                    access = Some(format!("get_value(({},{})) = {} expected {}", r0, c0, got, c[2]));
                }
                for (dr, dc) in [(0i64, 1i64), (1, 0), (0, -1), (-1, 0)] {
                    let (nr, nc) = (r0 as i64 + dr, c0 as i64 + dc);
                    if nr < 0 || nc < 0 || occupied.contains(&(nr as u64, nc as u64)) {
                        continue;
                    }
                    match rg.get_value((nr as u32, nc as u32)) {
                        None | Some(Data::Empty) => {}
                        Some(x) => {
                            if access.is_none() {
                                access = Some(format!("get_value(({},{})) = {} expected empty", nr, nc, val_json(x)));
                            }
                        }
                    }
                }
            }
        }
        Ok(Observed { v: proj(&rg, val_json), f: proj(&fr, |s: &String| json!([s])), access })
    });
    match r {
        Ok(x) => x,
        Err(p) => Err(format!("panic: {}", p)),
    }
}

fn decoy(name: &str) -> OdsTable {
    // a small table that itself has an interior blank row and starts in column C
    let v = |s: &str| OdsCell::value(OdsVal::Str { text: s.to_string(), attr: false }, 1);
    OdsTable::new(
        name,
        vec![
            OdsRow { repeat: 2, explicit_repeat: false, cells: vec![OdsCell::empty(16384)] },
            OdsRow { repeat: 1, explicit_repeat: false, cells: vec![OdsCell::empty(2), v("d1"), OdsCell::empty(16381)] },
            OdsRow { repeat: 3, explicit_repeat: false, cells: vec![OdsCell::covered(5)] },
            OdsRow { repeat: 1, explicit_repeat: false, cells: vec![OdsCell::empty(3), v("d2")] },
            OdsRow { repeat: 1048570, explicit_repeat: false, cells: vec![OdsCell::empty(16384)] },
        ],
    )
}

fn decoy_expected() -> Value {
    json!({"start": [2, 2], "end": [6, 3], "cells": [[2, 2, ["s", "d1"]], [6, 3, ["s", "d2"]]], "shape": true})
}

/// the model's predicted reader state -> the internal get_range (verification window)
fn window(rd: &Value) -> Result<Value, String> {
    let mut ids: Vec<Value> = Vec::new();
    let mut cells: Vec<usize> = Vec::new();
    let mut cols = vec![0usize];
    for row in rd["rows"].as_array().unwrap() {
        for run in row.as_array().unwrap() {
            let n = run[0].as_u64().unwrap();
            let x = &run[1];
            let id = if x.as_array().map_or(false, |a| a.is_empty()) {
                0
            } else {
                match ids.iter().position(|y| y == x) {
                    Some(p) => p + 1,
                    None => {
                        ids.push(x.clone());
                        ids.len()
                    }
                }
            };
            for _ in 0..n {
                cells.push(id);
            }
        }
        cols.push(cells.len());
    }
    let reps: Vec<usize> = rd["reps"].as_array().unwrap().iter().map(|x| x.as_u64().unwrap() as usize).collect();
    catch(|| {
        let r = calamine::verif::ods_get_range(cells, &cols, &reps);
        proj(&r, |id: &usize| ids[*id - 1].clone())
    })
}

fn replay_one(rep: &mut Report, k: u64, b: &Value) {
    let ideal = &b["ideal"];
    let ncells = ideal["v"]["cells"].as_array().map_or(0, |a| a.len());
    // non-trivial: at least one value and at least one repeated or empty element
    let nontrivial = ncells > 0
        && b["tokens"].as_array().unwrap().iter().any(|r| {
            r["rr"].as_u64() != Some(1)
                || r["cells"].as_array().unwrap().iter().any(|c| c["n"].as_u64() != Some(1) || c["vt"] == "")
        });
    rep.case(&b["tokens"], nontrivial);
    let table = table_from_tokens(&b["tokens"], "T");
    // every 5th file carries decoy tables before and after and is deflated
    let with_decoys = k % 5 == 0;
    let doc = if with_decoys {
        OdsDoc { tables: vec![decoy("A"), table, decoy("Z")], ..OdsDoc::default() }
    } else {
        OdsDoc::single(table)
    };
    let bytes = doc.to_bytes(with_decoys);
    match observe(bytes.clone(), "T", Some(&ideal["v"]["cells"])) {
        Err(m) => {
            let key = if m.starts_with("panic") { "unexplained:panic" } else { "unexplained:error" };
            rep.fail(key, b, ideal.clone(), json!({ "error": m }));
        }
        Ok(o) => {
            if !same_range(&ideal["v"], &o.v) {
                rep.fail("unexplained:range", b, ideal["v"].clone(), o.v.clone());
            } else if !same_range(&ideal["f"], &o.f) {
                rep.fail("unexplained:formula", b, ideal["f"].clone(), o.f.clone());
            } else if let Some(a) = o.access {
                rep.fail("unexplained:get_value", b, ideal["v"].clone(), json!({ "access": a }));
            }
        }
    }
    if with_decoys {
        for name in ["A", "Z"] {
            match observe(bytes.clone(), name, None) {
                Ok(o) if same_range(&decoy_expected(), &o.v) => {}
                Ok(o) => rep.fail("unexplained:neighbour-table", b, decoy_expected(), o.v),
                Err(m) => rep.fail("unexplained:neighbour-table", b, decoy_expected(), json!({ "error": m })),
            }
        }
    }
    if let Some(rd) = b.get("rd") {
        match window(rd) {
            Ok(w) if same_range(&ideal["v"], &w) => {}
            Ok(w) => rep.fail("unexplained:get_range-window", b, ideal["v"].clone(), w),
            Err(m) => rep.fail("unexplained:get_range-window", b, ideal["v"].clone(), json!({ "panic": m })),
        }
    }
    if k % 9973 == 1 {
        rep.sample(json!({"tokens": b["tokens"], "expected": ideal}));
    }
}

pub fn replay(args: &Args) -> i32 {
    let rep = crate::par::par_replay(args.req("in"), replay_one);
    rep.write(args.req("out"));
    0
}

// ------------------------------------------------------------------------------- leg 2

struct ValPick {
    vt: &'static str,
    lex: String,
    form: &'static str,
    fm: String,
}

fn pick_value(rng: &mut StdRng) -> ValPick {
    let pv = |vt, lex: String, form| ValPick { vt, lex, form, fm: String::new() };
    match rng.gen_range(0..12) {
        0 | 1 => pv("float", format!("{:?}", (rng.gen_range(-4000..4000) as f64) / 8.0), "attr"),
        2 => pv("float", "0.0".into(), "attr"),
        3 => pv("percentage", format!("{:?}", rng.gen_range(0..100) as f64 / 64.0), "attr"),
        4 => pv("currency", format!("{:?}", rng.gen_range(0..100000) as f64 / 4.0), "attr"),
        5 => pv("string", format!("s{}", rng.gen_range(0..50)), "attr"),
        6 => pv("string", format!("t{}<&>{}", rng.gen_range(0..50), rng.gen_range(0..9)), "text"),
        7 => pv("boolean", if rng.gen() { "true".into() } else { "false".into() }, "attr"),
        8 => pv("date", format!("20{:02}-{:02}-{:02}", rng.gen_range(0..40), rng.gen_range(1..13), rng.gen_range(1..29)), "attr"),
        9 => pv("time", format!("PT{:02}H{:02}M{:02}S", rng.gen_range(0..24), rng.gen_range(0..60), rng.gen_range(0..60)), "attr"),
        10 => ValPick { vt: "float", lex: format!("{:?}", rng.gen_range(0..1000) as f64), form: "attr", fm: format!("of:=[.A{}]*2", rng.gen_range(1..99)) },
        _ => pv("string", format!("u{}", rng.gen_range(0..5)), "text"),
    }
}

fn cell_tok(k: &str, n: u64, x: bool, v: Option<&ValPick>) -> Value {
    match v {
        None => json!({"k": k, "n": n, "x": x, "vt": "", "lex": "", "canon": "", "form": "", "fm": ""}),
        Some(v) => {
            // the logical value the lexical form denotes (floats: shortest round-trip numeral)
            let canon = match v.vt {
                "float" | "percentage" | "currency" => format!("{:?}", v.lex.parse::<f64>().unwrap()),
                _ => v.lex.clone(),
            };
            json!({"k": "c", "n": n, "x": x, "vt": v.vt, "lex": v.lex, "canon": canon, "form": v.form, "fm": v.fm})
        }
    }
}

/// one random physical table; returns (rows, bounding-box height, width) of what it denotes
fn gen_table(rng: &mut StdRng, nrows: usize) -> (Vec<Value>, u64, u64) {
    let empty_runs: [u64; 10] = [1, 1, 2, 3, 5, 17, 200, 1000, 1024, 16384];
    let blank_rows: [u64; 9] = [1, 1, 2, 3, 7, 50, 1000, 65536, 1040000];
    let first_col: u64 = [0u64, 0, 1, 2, 3, 26, 700, 16000][rng.gen_range(0..8)];
    let mut rows = Vec::new();
    let (mut rmin, mut rmax, mut cmin, mut cmax) = (u64::MAX, 0u64, u64::MAX, 0u64);
    let mut r_abs = 0u64;
    if rng.gen_bool(0.6) {
        // leading blank rows: the first used row is anywhere
        let n = blank_rows[rng.gen_range(0..blank_rows.len())];
        rows.push(json!({"rr": n, "rx": false, "cells": [cell_tok(if rng.gen_bool(0.2) { "v" } else { "c" }, 16384, false, None)]}));
        r_abs += n;
    }
    let mut interior_budget: u64 = 3000; // interior blank rows are materialised by the reader
    for _ in 0..nrows {
        if rng.gen_bool(0.25) {
            let mut n = blank_rows[rng.gen_range(0..7)];
            if n > interior_budget {
                n = 1 + rng.gen_range(0..3);
            }
            interior_budget = interior_budget.saturating_sub(n);
            let mut cells = Vec::new();
            for _ in 0..rng.gen_range(1..4) {
                let k = if rng.gen_bool(0.2) { "v" } else { "c" };
                cells.push(cell_tok(k, empty_runs[rng.gen_range(0..empty_runs.len())], rng.gen_bool(0.1), None));
            }
            rows.push(json!({"rr": n, "rx": n == 1 && rng.gen_bool(0.1), "cells": cells}));
            r_abs += n;
            continue;
        }
        let mut cells = Vec::new();
        let mut c = 0u64;
        let mut lead = first_col + [0u64, 0, 0, 1, 2, 5][rng.gen_range(0..6)];
        // leading empties, possibly split into several elements / covered cells
        while lead > 0 {
            let n = if rng.gen_bool(0.7) { lead } else { rng.gen_range(1..=lead) };
            cells.push(cell_tok(if rng.gen_bool(0.15) { "v" } else { "c" }, n, n == 1 && rng.gen_bool(0.2), None));
            lead -= n;
            c += n;
        }
        let nruns = rng.gen_range(1..7);
        let mut any = false;
        for i in 0..nruns {
            if i > 0 && rng.gen_bool(0.35) {
                let n = [1u64, 1, 2, 3, 9][rng.gen_range(0..5)];
                cells.push(cell_tok(if rng.gen_bool(0.15) { "v" } else { "c" }, n, n == 1 && rng.gen_bool(0.2), None));
                c += n;
            } else {
                let v = pick_value(rng);
                let n = [1u64, 1, 1, 2, 3, 4][rng.gen_range(0..6)];
                // explicit copies instead of one repeated element, in any mixture
                if n > 1 && rng.gen_bool(0.4) {
                    let split = rng.gen_range(1..n);
                    cells.push(cell_tok("c", split, split == 1 && rng.gen_bool(0.2), Some(&v)));
                    cells.push(cell_tok("c", n - split, n - split == 1 && rng.gen_bool(0.2), Some(&v)));
                } else {
                    cells.push(cell_tok("c", n, n == 1 && rng.gen_bool(0.2), Some(&v)));
                }
                cmin = cmin.min(c);
                c += n;
                cmax = cmax.max(c - 1);
                any = true;
            }
        }
        debug_assert!(any);
        // trailing empties as real files carry them
        match rng.gen_range(0..4) {
            0 => {}
            1 => cells.push(cell_tok("c", 16384u64.saturating_sub(c).max(1), false, None)),
            2 => {
                cells.push(cell_tok("c", rng.gen_range(1..4), false, None));
                cells.push(cell_tok("v", 1000, false, None));
            }
            _ => cells.push(cell_tok("c", 1048576, false, None)),
        }
        let rr = [1u64, 1, 1, 1, 2, 3, 12][rng.gen_range(0..7)];
        rows.push(json!({"rr": rr, "rx": rr == 1 && rng.gen_bool(0.1), "cells": cells}));
        rmin = rmin.min(r_abs);
        r_abs += rr;
        rmax = r_abs - 1;
    }
    if rng.gen_bool(0.7) {
        let n = 1048576u64.saturating_sub(r_abs).max(1);
        rows.push(json!({"rr": n, "rx": false, "cells": [cell_tok("c", 16384, false, None)]}));
    }
    let (h, w) = if rmin == u64::MAX { (0, 0) } else { (rmax - rmin + 1, cmax - cmin + 1) };
    (rows, h, w)
}

pub fn drive(args: &Args) -> i32 {
    let n = args.num("n", 10);
    let nrows = args.num("rows", 200) as usize;
    let mut rng = StdRng::seed_from_u64(args.seed() ^ 0xC04);
    let mut out = std::io::BufWriter::new(std::fs::File::create(args.req("out")).unwrap());
    let mut run = 0;
    while run < n {
        let nr = rng.gen_range(nrows / 2..=nrows);
        let (rows, h, w) = gen_table(&mut rng, nr);
        if h.saturating_mul(w) > 3_000_000 {
            continue; // the reader materialises the dense rectangle: resource bound of the driver
        }
        let tokens = Value::Array(rows);
        let doc = OdsDoc::single(table_from_tokens(&tokens, "T"));
        let ev = match observe(doc.to_bytes(run % 2 == 0), "T", None) {
            Ok(o) => json!({"e": "table", "run": run, "tokens": tokens, "v": o.v, "f": o.f}),
            Err(m) => json!({"e": "table", "run": run, "tokens": tokens, "error": m}),
        };
        writeln!(out, "{}", ev).unwrap();
        run += 1;
    }
    0
}

/// `cvh drive odsfile --in x.ods [--sheet T]`: project one sheet of an arbitrary file (debug aid)
pub fn file(args: &Args) -> i32 {
    let bytes = std::fs::read(args.req("in")).expect("read file");
    match observe(bytes, args.get("sheet").unwrap_or("T"), None) {
        Ok(o) => println!("{}", json!({"v": o.v, "f": o.f})),
        Err(m) => println!("{}", json!({ "error": m })),
    }
    0
}
