//! C19 (ods) — cell text in element form (text:p / text:s / text:tab / text:line-break / text:span,
//! annotations) or attribute form, read through Ods::worksheet_range.
use crate::build::ods::{OdsCell, OdsDoc, OdsRow, OdsTable, OdsVal};
use crate::common::*;
use crate::props::xlsx_strings::{class_char, ideal_string};
use calamine::{Data, Ods, Reader};
use serde_json::{json, Value};
use std::io::Cursor;

fn esc_char(c: char, form: &str) -> String {
    match form {
        "lit" | "span" => match c { '&' => "&amp;".into(), '<' => "&lt;".into(), o => o.to_string() },
        "named" => match c { '&' => "&amp;", '<' => "&lt;", '>' => "&gt;", '"' => "&quot;", _ => "&apos;" }.to_string(),
        "dec" => format!("&#{};", c as u32),
        "hex" => format!("&#x{:X};", c as u32),
        "cdata" => format!("<![CDATA[{}]]>", c),
        o => panic!("harness: form {}", o),
    }
}

pub fn render_paragraphs(chars: &[Value]) -> String {
    let mut x = String::from("<text:p>");
    let mut i = 0;
    while i < chars.len() {
        let c = chars[i]["c"].as_str().unwrap();
        let e = chars[i]["e"].as_str().unwrap();
        match (c, e) {
            ("sp", "lit") => x.push(' '),
            ("sp", "s1") => x.push_str("<text:s/>"),
            ("sp", "sc") => {
                let mut n = 1;
                while i + n < chars.len() && chars[i + n]["c"] == "sp" && chars[i + n]["e"] == "scn" { n += 1; }
                x.push_str(&format!("<text:s text:c=\"{}\"/>", n));
                i += n - 1;
            }
            ("sp", _) => {}
            ("tab", _) => x.push_str("<text:tab/>"),
            ("nl", "para") => x.push_str("</text:p><text:p>"),
            ("nl", _) => x.push_str("<text:line-break/>"),
            (_, "span") => x.push_str(&format!("<text:span text:style-name=\"T1\">{}</text:span>", esc_char(class_char(c), "lit"))),
            (_, f) => x.push_str(&esc_char(class_char(c), f)),
        }
        i += 1;
    }
    x.push_str("</text:p>");
    x
}

pub fn workbook(chars: &[Value], store: &str, annot: bool) -> Vec<u8> {
    let ideal: String = chars.iter().map(|c| class_char(c["c"].as_str().unwrap())).collect();
    let mut cell = if store == "attr" {
        let mut c = OdsCell::value(OdsVal::Str { text: ideal.clone(), attr: true }, 1);
        c.raw_children = Some("<text:p>shown text</text:p>".into());
        c
    } else {
        let mut c = OdsCell::value(OdsVal::Str { text: String::new(), attr: false }, 1);
        let mut kids = String::new();
        if annot {
            kids.push_str("<office:annotation office:display=\"false\"><dc:date xmlns:dc=\"http://purl.org/dc/elements/1.1/\">2020-01-01T00:00:00</dc:date><text:p>a note</text:p></office:annotation>");
        }
        kids.push_str(&render_paragraphs(chars));
        c.raw_children = Some(kids);
        c
    };
    cell.repeat = 1;
    let mut doc = OdsDoc::default();
    doc.tables.push(OdsTable::new("S1", vec![OdsRow { repeat: 1, explicit_repeat: false, cells: vec![cell, OdsCell::value(OdsVal::Float("7".into()), 1)] }]));
    doc.to_bytes(false)
}

pub fn replay(args: &Args) -> i32 {
    let mut rep = Report::new();
    for b in read_ndjson(args.req("in")) {
        let chars = b["chars"].as_array().unwrap();
        rep.case(&b, chars.len() > 1 || chars[0]["e"] != "lit");
        let want = ideal_string(&b["ideal"]);
        let bytes = workbook(chars, b["store"].as_str().unwrap(), b["annot"].as_bool().unwrap_or(false));
        let got = catch(|| -> Result<(Data, Data), String> {
            let mut wb: Ods<_> = Ods::new(Cursor::new(bytes)).map_err(|e| format!("open: {}", e))?;
            let r = wb.worksheet_range("S1").map_err(|e| e.to_string())?;
            Ok((r.get_value((0, 0)).cloned().unwrap_or(Data::Empty), r.get_value((0, 1)).cloned().unwrap_or(Data::Empty)))
        });
        match got {
            Ok(Ok((Data::String(s), Data::Float(f)))) if s == want && f == 7.0 => {
                if rep.evaluated % 2999 == 1 { rep.sample(json!({"chars": b["chars"], "store": b["store"], "text": want})); }
            }
            other => {
                let s = b.to_string();
                let key = if s.contains("\"c\":\"tab\"") { "feature:ods-text-tab" }
                    else if s.contains("\"e\":\"br\"") { "feature:ods-line-break" }
                    else if s.contains("\"e\":\"cdata\"") { "feature:ods-cdata" }
                    else { "unexplained" };
                rep.fail(key, &b, json!(want), json!(format!("{:?}", other)));
            }
        }
    }
    rep.write(args.req("out"));
    0
}
