//! X06 -- Reader::pictures() (tla/media/Pictures.tla).  Leg 1 builds every document of MC_Pictures into a
//! real workbook (zip formats: a minimal workbook plus the document's parts, in order; xls: the exported
//! MsoDrawingGroup / CONTINUE record bodies inside the globals substream) and compares pictures() with the
//! specification; leg 2 reads the repository's picture.* family (written by spreadsheet applications) and
//! random larger stores.
use crate::build::{biff, simple, zipw};
use crate::common::*;
use calamine::{Ods, Reader, Xls, Xlsb, Xlsx};
use rand::rngs::StdRng;
use rand::{Rng, SeedableRng};
use serde_json::{json, Value};
use std::io::{Cursor, Read, Write};

fn base_parts(fmt: &str) -> Vec<(String, Vec<u8>)> {
    let sheet = simple::SSheet::new("S1", vec![((0, 0), simple::SVal::Num(1.0))]);
    let bytes = simple::build(fmt, &[sheet]);
    let mut z = zip::ZipArchive::new(Cursor::new(bytes)).expect("harness: own zip");
    (0..z.len()).map(|i| { let mut f = z.by_index(i).unwrap(); let mut b = Vec::new(); f.read_to_end(&mut b).unwrap(); (f.name().to_string(), b) }).collect()
}

fn u8s(v: &Value) -> Vec<u8> { v.as_array().unwrap().iter().map(|x| x.as_u64().unwrap() as u8).collect() }

/// pictures() of any reader as the specification's value: ["none"] | ["some", [[ext, bytes]..]] | ["err", text]
fn observe(fmt: &str, bytes: Vec<u8>) -> Value {
    fn pics<R: Reader<Cursor<Vec<u8>>>>(r: Result<R, R::Error>) -> Value where R::Error: std::fmt::Display {
        match r {
            Err(e) => json!(["err", e.to_string()]),
            Ok(wb) => match wb.pictures() { None => json!(["none"]), Some(p) => json!(["some", p.iter().map(|(e, b)| json!([e, b])).collect::<Vec<_>>()]) },
        }
    }
    match catch(|| match fmt {
        "xlsx" => pics(Xlsx::new(Cursor::new(bytes))),
        "xlsb" => pics(Xlsb::new(Cursor::new(bytes))),
        "ods" => pics(Ods::new(Cursor::new(bytes))),
        "xls" => pics(Xls::new(Cursor::new(bytes))),
        f => panic!("harness: format {}", f),
    }) { Ok(v) => v, Err(p) => json!(["panic", p]) }
}

fn xls_with(recs: &Value) -> Vec<u8> {
    let sheet = simple::SSheet::new("S1", vec![((0, 0), simple::SVal::Num(1.0))]);
    let mut wb = simple::xls_workbook(&[sheet]);
    // <<"eb", body>> opens a MsoDrawingGroup record, <<"cont", body>> is a CONTINUE record of the one before
    let mut cur: Option<Vec<Vec<u8>>> = None;
    for r in recs.as_array().unwrap() {
        if r[0] == "eb" {
            if let Some(f) = cur.take() { wb.after_sheets.push(biff::Rec::Frags { typ: 0x00EB, frags: f }); }
            cur = Some(vec![u8s(&r[1])]);
        } else {
            cur.as_mut().expect("harness: CONTINUE first").push(u8s(&r[1]));
        }
    }
    if let Some(f) = cur.take() { wb.after_sheets.push(biff::Rec::Frags { typ: 0x00EB, frags: f }); }
    biff::xls_bytes(&wb)
}

/// the as-is error classes of the model are compared by class only: any error is an error
fn class(v: &Value) -> Value { if v[0] == "err" { json!(["err"]) } else { v.clone() } }

pub fn replay(args: &Args) -> i32 {
    let mut rep = Report::new();
    let bases: std::collections::HashMap<&str, Vec<(String, Vec<u8>)>> = ["xlsx", "xlsb", "ods"].iter().map(|f| (*f, base_parts(f))).collect();
    for b in read_ndjson(args.req("in")) {
        let doc = &b["doc"];
        rep.case(doc, true);
        let (fmt, bytes) = if doc["k"] == "zip" {
            let fmt = doc["fmt"].as_str().unwrap();
            let mut parts = bases[fmt].clone();
            for (i, p) in doc["parts"].as_array().unwrap().iter().enumerate() {
                let name = format!("{}{}", p["dir"].as_str().unwrap(), p["segs"].as_array().unwrap().iter().map(|s| s.as_str().unwrap()).collect::<Vec<_>>().join("."));
                // the first extra part right after the first part of the package, the others at the end
                if i == 0 { parts.insert(1, (name, u8s(&p["bytes"]))); } else { parts.push((name, u8s(&p["bytes"]))); }
            }
            (fmt, zipw::zip_bytes(&parts, i_deflate(&b)))
        } else {
            ("xls", xls_with(&b["recs"]))
        };
        let obs = observe(fmt, bytes);
        if args.num("only_panics", 0) == 1 {
            // C06's leg: a malformed drawing group may be read any way but must not panic
            if obs[0] == "panic" { rep.fail(&format!("panic:xls-art:{}", b["doc"]["h"].as_str().unwrap_or("")), doc, json!(["err"]), obs); }
            continue;
        }
        let (asis, ideal) = (class(&b["asis"]), class(&b["ideal"]));
        let o = class(&obs);
        if o == ideal {
            if rep.evaluated % 1999 == 1 { rep.sample(json!({"doc": doc, "observed": obs})); }
        } else if obs[0] == "panic" {
            // the model names the site it expects the pinned code to panic at
            let site = b["asis"][1].as_str().unwrap_or("").to_string();
            let key = if site.starts_with("panic:") { format!("dev:XlsArt:{}", &site[6..]) } else { "panic:unmodelled".to_string() };
            rep.fail(&key, doc, ideal, obs);
        } else if o == asis {
            let mut names: Vec<String> = b["dev"].as_array().unwrap().iter().map(|d| d.as_str().unwrap().to_string()).collect();
            names.sort();
            let key = if names.is_empty() { "asis-without-deviation".to_string() } else { format!("dev:{}", names.join("+")) };
            rep.fail(&key, doc, ideal, obs);
        } else {
            rep.fail("unexplained", doc, ideal, obs);
        }
    }
    rep.write(args.req("out"));
    0
}
fn i_deflate(b: &Value) -> bool { b["doc"]["parts"].as_array().map_or(0, |p| p.len()) % 2 == 1 }

/// leg 2: (a) the repository's picture.{xlsx,xlsb,xls,ods} against picture.jpg / picture.png; (b) random
/// stores of 0..6 blips with payloads of up to 20 000 bytes, written as an OfficeArt stream cut at random
/// places into MsoDrawingGroup / CONTINUE records
pub fn drive(args: &Args) -> i32 {
    let n = args.num("n", 60);
    let mut rng = StdRng::seed_from_u64(args.seed() ^ 0x06);
    let mut out = std::io::BufWriter::new(std::fs::File::create(args.req("out")).unwrap());
    let src = std::env::var("CALAMINE_SRC").unwrap_or_else(|_| "/repo".into());
    let refs: Vec<(String, Vec<u8>)> = ["jpg", "png"].iter().filter_map(|e| std::fs::read(format!("{}/tests/picture.{}", src, e)).ok().map(|b| (e.to_string(), b))).collect();
    let sum = |b: &[u8]| -> u64 { b.iter().fold(1469598103934665603u64, |h, x| (h ^ *x as u64).wrapping_mul(1099511628211)) };
    for fmt in ["xlsx", "xlsb", "xls", "ods"] {
        let Ok(bytes) = std::fs::read(format!("{}/tests/picture.{}", src, fmt)) else { continue };
        let obs = observe(fmt, bytes);
        let pics: Vec<Value> = obs[1].as_array().map_or(vec![], |v| v.iter().map(|p| json!({"ext": p[0], "len": p[1].as_array().unwrap().len(), "sum": sum(&u8s(&p[1])).to_string()})).collect());
        writeln!(out, "{}", json!({"e": "fixture", "fmt": fmt, "kind": obs[0], "pics": pics,
            "refs": refs.iter().map(|(e, b)| json!({"ext": e, "len": b.len(), "sum": sum(b).to_string()})).collect::<Vec<_>>()})).unwrap();
    }
    let kinds: [(&str, u16, u16, &str, bool); 8] = [("emf", 0xF01A, 0x3D4, "emf", true), ("wmf", 0xF01B, 0x216, "wmf", true), ("pict", 0xF01C, 0x542, "pict", true),
        ("jpeg", 0xF01D, 0x46A, "jpg", false), ("cmyk", 0xF02A, 0x6E2, "jpg", false), ("png", 0xF01E, 0x6E0, "png", false), ("dib", 0xF01F, 0x7A8, "dib", false), ("tiff", 0xF029, 0x6E4, "tiff", false)];
    let art = |ver: u16, inst: u16, typ: u16, data: &[u8]| -> Vec<u8> { let mut v = (ver | inst << 4).to_le_bytes().to_vec(); v.extend(typ.to_le_bytes()); v.extend((data.len() as u32).to_le_bytes()); v.extend(data); v };
    for run in 0..n {
        let nb = rng.gen_range(0..7);
        let mut store = Vec::new();
        let mut want: Vec<Value> = Vec::new();
        for _ in 0..nb {
            let (_, typ, inst, ext, meta) = kinds[rng.gen_range(0..8)];
            let two = rng.gen_bool(0.4);
            let len = [0usize, 1, 7, 300, 9000, 20000][rng.gen_range(0..6)];
            let payload: Vec<u8> = (0..len).map(|_| rng.gen()).collect();
            let refer_only = rng.gen_bool(0.15);
            let mut data = vec![0xAAu8; 16];
            if two { data.extend([0xBB; 16]); }
            if meta { data.extend([0xCC; 34]); } else { data.push(0xFF); }
            data.extend(&payload);
            let name = rng.gen_range(0..4usize) * 3;
            let mut fb = vec![1u8; 33]; fb.push(name as u8); fb.extend([0, 0]); fb.extend(vec![78u8; name]);
            if !refer_only { fb.extend(art(0, inst + two as u16, typ, &data)); want.push(json!({"ext": ext, "len": payload.len(), "sum": sum(&payload).to_string()})); }
            store.extend(art(2, 6, 0xF007, &fb));
        }
        let mut body = art(0, 0, 0xF006, &[0; 16]);
        if nb > 0 { body.extend(art(15, nb as u16, 0xF001, &store)); }
        body.extend(art(3, 1, 0xF00B, &[0; 6]));
        let st = art(15, 0, 0xF000, &body);
        // cut: records of at most 8224 bytes, the first of each group a MsoDrawingGroup, the rest CONTINUE or again MsoDrawingGroup
        let mut recs: Vec<Value> = Vec::new();
        let mut at = 0;
        while at < st.len() {
            let l = rng.gen_range(1..=8224usize).min(st.len() - at);
            let kind = if recs.is_empty() || rng.gen_bool(0.3) { "eb" } else { "cont" };
            recs.push(json!([kind, st[at..at + l].to_vec()]));
            at += l;
        }
        let obs = observe("xls", xls_with(&json!(recs)));
        let got: Vec<Value> = obs[1].as_array().map_or(vec![], |v| v.iter().filter(|_| obs[0] == "some").map(|p| json!({"ext": p[0], "len": p[1].as_array().unwrap().len(), "sum": sum(&u8s(&p[1])).to_string()})).collect());
        // the same records damaged: bytes overwritten, a length field changed, the tail dropped
        for _ in 0..4 {
            let mut bad = st.clone();
            match rng.gen_range(0..4) {
                0 => { for _ in 0..rng.gen_range(1..6) { let i = rng.gen_range(0..bad.len()); bad[i] = rng.gen(); } }
                1 => { let i = rng.gen_range(0..bad.len().min(200)); bad[i] = [0u8, 1, 0x20, 0x7F, 0xFF][rng.gen_range(0..5)]; }
                2 => { let l = rng.gen_range(0..bad.len()); bad.truncate(l); }
                _ => { if bad.len() > 70 { let i = rng.gen_range(8..60); bad.drain(i..i + rng.gen_range(1..9)); } }
            }
            let obs = if bad.is_empty() { json!(["none"]) } else {
                let recs: Vec<Value> = bad.chunks(8000).enumerate().map(|(k, c)| json!([if k == 0 { "eb" } else { "cont" }, c.to_vec()])).collect();
                observe("xls", xls_with(&json!(recs)))
            };
            writeln!(out, "{}", json!({"e": "hostile", "run": run, "kind": obs[0], "detail": if obs[0] == "panic" { obs[1].clone() } else { json!("") }})).unwrap();
        }
        writeln!(out, "{}", json!({"e": "store", "run": run, "nrecs": recs.len(), "kind": obs[0], "got": got, "want": want,
            "detail": if obs[0] == "err" || obs[0] == "panic" { obs[1].clone() } else { json!("") }})).unwrap();
    }
    0
}
