//! C20 — container descriptors enumerated by MC_Protected are materialised (compound files in
//! several physical layouts, BIFF8 streams with FILEPASS, ods manifests) and opened with the
//! reader(s) of their format; the error variant is compared with the ideal outcome.
use crate::build::cfb::{build_cfb, plan, CfbLayout};
use crate::build::simple::{build, SSheet, SVal};
use crate::build::{biff, ods};
use crate::common::*;
use calamine::{Ods, OdsError, Reader, Xls, XlsError, Xlsb, XlsbError, Xlsx, XlsxError};
use rand::rngs::StdRng;
use rand::seq::SliceRandom;
use rand::{Rng, SeedableRng};
use serde_json::{json, Value};
use std::io::{Cursor, Write};

fn filler(n: usize, seed: u64) -> Vec<u8> {
    let mut x = seed | 1;
    (0..n).map(|_| { x ^= x << 13; x ^= x >> 7; x ^= x << 17; (x >> 24) as u8 }).collect()
}

pub fn layout(name: &str, paths: &[&str], lens: &[usize]) -> CfbLayout {
    let mut l = CfbLayout::default();
    l.fill_seed = 7;
    if let Some(seed) = name.strip_prefix("random:") {
        // random sector permutation, random version, free sectors
        let mut rng = StdRng::seed_from_u64(seed.parse().unwrap());
        l.v4 = rng.gen_bool(0.5);
        l.free_sectors = rng.gen_range(0..4);
        l.extra_fat = rng.gen_range(0..2);
        let p = plan(paths, lens, &l);
        let mut ids: Vec<u32> = (0..p.total_sectors as u32).collect();
        ids.shuffle(&mut rng);
        ids.truncate(p.units.len());
        l.placement = Some(ids);
        let mut ms: Vec<u32> = (0..p.total_minis as u32).collect();
        ms.shuffle(&mut rng);
        ms.truncate(p.mini_units.len());
        if !ms.is_empty() {
            l.mini_placement = Some(ms);
        }
        return l;
    }
    if name.starts_with("v4") {
        l.v4 = true;
    }
    if name.ends_with("rev") && name != "dirrev" {
        let p = plan(paths, lens, &l);
        let n = p.units.len() as u32;
        l.placement = Some((0..n).rev().collect());
        let m = p.mini_units.len() as u32;
        if m > 0 {
            l.mini_placement = Some((0..m).rev().collect());
        }
    }
    if name == "dirgap" {
        // a free (unused) directory slot directly after the root entry, in front of every stream entry
        let n = crate::build::cfb::entries(paths).len();
        let mut order: Vec<Option<usize>> = (0..n).map(Some).collect();
        order.insert(0, None);
        l.dir_order = order;
    }
    if name == "dirrev" {
        let n = crate::build::cfb::entries(paths).len();
        let mut order: Vec<Option<usize>> = (0..n).rev().map(Some).collect();
        order.insert(1.min(order.len()), None);
        l.dir_order = order;
    }
    if name.ends_with("free") {
        l.free_sectors = 3;
        l.extra_fat = 1;
        l.trailing_pad = 100;
    }
    l
}

fn sample_sheets() -> Vec<SSheet> {
    vec![SSheet::new("S1", vec![((0, 0), SVal::Num(1.0)), ((1, 1), SVal::Str("x".into()))])]
}

/// returns (reader name, outcome) pairs: "password" | "ok" | "error:<text>" | "panic:<text>"
fn materialise_and_open(k: &Value) -> Vec<(String, String)> {
    let kind = k["kind"].as_str().unwrap();
    let mut out = Vec::new();
    let oc_xlsx = |b: &[u8]| match catch(|| Xlsx::new(Cursor::new(b.to_vec())).map(|_| ())) {
        Ok(Ok(())) => "ok".to_string(), Ok(Err(XlsxError::Password)) => "password".into(), Ok(Err(e)) => format!("error:{}", e), Err(p) => format!("panic:{}", p) };
    let oc_xlsb = |b: &[u8]| match catch(|| Xlsb::new(Cursor::new(b.to_vec())).map(|_| ())) {
        Ok(Ok(())) => "ok".to_string(), Ok(Err(XlsbError::Password)) => "password".into(), Ok(Err(e)) => format!("error:{}", e), Err(p) => format!("panic:{}", p) };
    let oc_xls = |b: &[u8]| match catch(|| Xls::new(Cursor::new(b.to_vec())).map(|_| ())) {
        Ok(Ok(())) => "ok".to_string(), Ok(Err(XlsError::Password)) => "password".into(), Ok(Err(e)) => format!("error:{}", e), Err(p) => format!("panic:{}", p) };
    let oc_ods = |b: &[u8]| match catch(|| Ods::new(Cursor::new(b.to_vec())).map(|_| ())) {
        Ok(Ok(())) => "ok".to_string(), Ok(Err(OdsError::Password)) => "password".into(), Ok(Err(e)) => format!("error:{}", e), Err(p) => format!("panic:{}", p) };
    match kind {
        "ooxml" => {
            let size = k["size"].as_u64().unwrap() as usize;
            let info: Vec<u8> = if k["info"] == "agile" {
                let mut v = vec![4, 0, 4, 0, 0x40, 0, 0, 0];
                v.extend_from_slice(b"<?xml version=\"1.0\" encoding=\"UTF-8\" standalone=\"yes\"?><encryption xmlns=\"http://schemas.microsoft.com/office/2006/encryption\"><keyData saltSize=\"16\"/></encryption>");
                v
            } else {
                let mut v = vec![3, 0, 2, 0, 0x24, 0, 0, 0];
                v.extend_from_slice(&filler(240, 3));
                v
            };
            let mut pkg = (size as u64).to_le_bytes().to_vec();
            pkg.extend_from_slice(&filler(size, 11));
            let ds_ver = filler(76, 5);
            let ds_map = filler(112, 6);
            let mut streams: Vec<(&str, &[u8])> = vec![("EncryptionInfo", &info), ("EncryptedPackage", &pkg)];
            if k["dataspaces"].as_bool().unwrap_or(false) {
                streams.insert(0, ("\u{6}DataSpaces/Version", &ds_ver));
                streams.insert(1, ("\u{6}DataSpaces/DataSpaceMap", &ds_map));
            }
            let paths: Vec<&str> = streams.iter().map(|s| s.0).collect();
            let lens: Vec<usize> = streams.iter().map(|s| s.1.len()).collect();
            let l = layout(k["layout"].as_str().unwrap(), &paths, &lens);
            let bytes = build_cfb(&streams, &l);
            out.push(("Xlsx".into(), oc_xlsx(&bytes)));
            out.push(("Xlsb".into(), oc_xlsb(&bytes)));
        }
        "plaincfb" => {
            let wbs = biff::workbook_stream(&{ let mut wb = biff::Workbook::default(); wb.sheets.push(biff::Sheet { name: biff::XlStr::new("S1"), dims: None, recs: vec![biff::Rec::Number { r: 0, c: 0, xf: 0, v: 1.0 }] }); wb });
            let dir = filler(600, 9);
            let streams: Vec<(&str, &[u8])> = if k["content"] == "xls" { vec![("Workbook", &wbs)] } else { vec![("VBA/dir", &dir), ("PROJECT", &dir)] };
            let paths: Vec<&str> = streams.iter().map(|s| s.0).collect();
            let lens: Vec<usize> = streams.iter().map(|s| s.1.len()).collect();
            let l = layout(k["layout"].as_str().unwrap(), &paths, &lens);
            let bytes = build_cfb(&streams, &l);
            out.push(("Xlsx".into(), oc_xlsx(&bytes)));
            out.push(("Xlsb".into(), oc_xlsb(&bytes)));
            if k["content"] == "xls" {
                out.push(("Xls".into(), oc_xls(&bytes)));
            }
        }
        "biff" => {
            let mut wb = biff::Workbook::default();
            for i in 0..k["sheets"].as_u64().unwrap() {
                wb.sheets.push(biff::Sheet { name: biff::XlStr::new(&format!("S{}", i + 1)), dims: None, recs: vec![biff::Rec::Number { r: 0, c: 0, xf: 0, v: 1.0 }] });
            }
            if k["protect"].as_bool().unwrap_or(false) {
                // workbook structure / window protection with a password verifier: not encryption
                wb.globals_extra.push(biff::Rec::Raw { typ: 0x0012, data: vec![1, 0] });
                wb.globals_extra.push(biff::Rec::Raw { typ: 0x0013, data: vec![0x34, 0x12] });
                wb.globals_extra.push(biff::Rec::Raw { typ: 0x0019, data: vec![1, 0] });
            }
            let mut s = biff::workbook_stream(&wb);
            let fp = k["filepass"].as_str().unwrap();
            if fp != "none" {
                // records are spliced in directly after the globals BOF (4 + 16 bytes)
                let mut ins: Vec<u8> = Vec::new();
                if k["after_writeprotect"].as_bool().unwrap() {
                    ins.extend_from_slice(&[0x86, 0x00, 0x00, 0x00]);
                }
                let payload: Vec<u8> = match fp {
                    "xor" => vec![0, 0, 0x34, 0x12, 0x78, 0x56],
                    // BIFF5 / BIFF7: the record is just key + hash (4 bytes), the stream is named "Book"
                    "xor5" => vec![0x34, 0x12, 0x78, 0x56],
                    "rc4" => { let mut v = vec![1, 0, 1, 0, 1, 0]; v.extend_from_slice(&filler(48, 21)); v }
                    _ => { let mut v = vec![1, 0, 2, 0, 2, 0]; v.extend_from_slice(&filler(180, 22)); v }
                };
                ins.extend_from_slice(&0x002Fu16.to_le_bytes());
                ins.extend_from_slice(&(payload.len() as u16).to_le_bytes());
                ins.extend_from_slice(&payload);
                // obfuscate the payload of every later record (headers stay in clear, as in BIFF encryption)
                let mut pos = 20;
                let mut tail = s.split_off(pos);
                pos = 0;
                while pos + 4 <= tail.len() {
                    let typ = u16::from_le_bytes([tail[pos], tail[pos + 1]]);
                    let len = u16::from_le_bytes([tail[pos + 2], tail[pos + 3]]) as usize;
                    if typ != 0x0809 && typ != 0x000A {
                        for b in &mut tail[pos + 4..pos + 4 + len] {
                            *b ^= 0xA5;
                        }
                    }
                    pos += 4 + len;
                }
                if fp == "xor5" {
                    // globals BOF of a BIFF5 workbook: vers = 0x0500
                    s[4] = 0x00;
                    s[5] = 0x05;
                }
                s.extend_from_slice(&ins);
                s.extend_from_slice(&tail);
            } else if k["after_writeprotect"].as_bool().unwrap() {
                let tail = s.split_off(20);
                s.extend_from_slice(&[0x86, 0x00, 0x00, 0x00]);
                s.extend_from_slice(&tail);
            }
            // keep the stream out of the mini stream like real files (>= 4096 bytes)
            let bytes = crate::build::cfb::simple_cfb(&[(if fp == "xor5" { "Book" } else { "Workbook" }, &s)]);
            out.push(("Xls".into(), oc_xls(&bytes)));
        }
        "ods" => {
            let entries: Vec<bool> = k["entries"].as_array().unwrap().iter().map(|x| x.as_bool().unwrap()).collect();
            let mut doc = ods::OdsDoc::default();
            doc.tables.push(ods::OdsTable::new("S1", vec![ods::OdsRow { repeat: 1, explicit_repeat: false, cells: vec![ods::OdsCell::value(ods::OdsVal::Float("1".into()), 1)] }]));
            let mut parts = doc.parts();
            let names = ["content.xml", "styles.xml", "meta.xml"];
            let mut m = String::from("<?xml version=\"1.0\" encoding=\"UTF-8\"?>\n<manifest:manifest xmlns:manifest=\"urn:oasis:names:tc:opendocument:xmlns:manifest:1.0\" manifest:version=\"1.2\">");
            m.push_str(&format!("<manifest:file-entry manifest:full-path=\"/\" manifest:version=\"1.2\" manifest:media-type=\"{}\"/>", ods::MIMETYPE));
            for (i, enc) in entries.iter().enumerate() {
                if *enc {
                    m.push_str(&format!("<manifest:file-entry manifest:full-path=\"{}\" manifest:media-type=\"text/xml\" manifest:size=\"1000\"><manifest:encryption-data manifest:checksum-type=\"SHA1/1K\" manifest:checksum=\"AAAA\"><manifest:algorithm manifest:algorithm-name=\"Blowfish CFB\" manifest:initialisation-vector=\"AAAA\"/><manifest:key-derivation manifest:key-derivation-name=\"PBKDF2\" manifest:iteration-count=\"1024\" manifest:salt=\"AAAA\"/></manifest:encryption-data></manifest:file-entry>", names[i]));
                } else {
                    m.push_str(&format!("<manifest:file-entry manifest:full-path=\"{}\" manifest:media-type=\"text/xml\"/>", names[i]));
                }
            }
            m.push_str("</manifest:manifest>");
            for p in parts.iter_mut() {
                if p.0 == "META-INF/manifest.xml" {
                    p.1 = m.clone().into_bytes();
                }
                if p.0 == "content.xml" && entries[0] {
                    p.1 = filler(900, 33); // encrypted content is not XML
                }
            }
            let bytes = crate::build::zipw::zip_bytes(&parts, true);
            out.push(("Ods".into(), oc_ods(&bytes)));
        }
        _ => {}
    }
    out
}

pub fn replay(args: &Args) -> i32 {
    let mut rep = Report::new();
    for b in read_ndjson(args.req("in")) {
        let k = &b["k"];
        rep.case(k, true);
        let want = b["ideal"].as_str().unwrap();
        for (reader, got) in materialise_and_open(k) {
            let ok = if want == "password" { got == "password" } else { got != "password" && !got.starts_with("panic") && (k["kind"] != "biff" && k["kind"] != "ods" || got == "ok") };
            if !ok {
                rep.fail("unexplained", &b, json!(want), json!({"reader": reader, "outcome": got}));
            }
        }
        if rep.evaluated % 97 == 1 {
            rep.sample(json!({"container": k, "ideal": want}));
        }
    }
    // converse on the generators of the other properties: plain workbooks in all four formats
    for fmt in crate::build::simple::FORMATS {
        let bytes = build(fmt, &sample_sheets());
        let got = match fmt {
            "xlsx" => Xlsx::new(Cursor::new(bytes)).map(|_| ()).map_err(|e| e.to_string()),
            "xlsb" => Xlsb::new(Cursor::new(bytes)).map(|_| ()).map_err(|e| e.to_string()),
            "xls" => Xls::new(Cursor::new(bytes)).map(|_| ()).map_err(|e| e.to_string()),
            _ => Ods::new(Cursor::new(bytes)).map(|_| ()).map_err(|e| e.to_string()),
        };
        let b = json!({"plain": fmt});
        rep.case(&b, true);
        if let Err(e) = got {
            rep.fail("unexplained", &b, json!("opens"), json!(e));
        }
    }
    rep.write(args.req("out"));
    0
}

/// leg 2: random descriptors (random sizes, random sector permutations) -> outcome events
pub fn drive(args: &Args) -> i32 {
    let n = args.num("n", 120);
    let mut rng = StdRng::seed_from_u64(args.seed() ^ 0xC20);
    let mut out = std::io::BufWriter::new(std::fs::File::create(args.req("out")).unwrap());
    for run in 0..n {
        let lay = format!("random:{}", rng.gen::<u32>());
        let size = [0usize, 1, 63, 64, 65, 4087, 4088, 4089, 5000, 70000][rng.gen_range(0..10)] + rng.gen_range(0..3);
        // now and then a package large enough for 109+ FAT sectors (header DIFAT full, DIFAT sectors in use)
        let size = if run % 40 == 7 { [7_000_000usize, 7_300_000, 14_000_000][(run / 40) as usize % 3] } else { size };
        let info = ["standard", "agile"][rng.gen_range(0..2)];
        let content = ["xls", "vba"][rng.gen_range(0..2)];
        let fp = ["none", "xor", "xor5", "rc4", "cryptoapi"][rng.gen_range(0..5)];
        // the large packages: reversed placement, so that the directory sits at the highest sector ids
        // (mapped by the last FAT sectors)
        let big = size >= 7_000_000;
        let k = match if big { 0 } else { rng.gen_range(0..4) } {
            0 => json!({"kind": "ooxml", "size": size, "info": info, "layout": if big { "rev".to_string() } else { lay.clone() }, "dataspaces": rng.gen_bool(0.5)}),
            1 => json!({"kind": "plaincfb", "content": content, "layout": lay}),
            2 => json!({"kind": "biff", "filepass": fp, "after_writeprotect": rng.gen_bool(0.5), "protect": rng.gen_bool(0.5), "sheets": rng.gen_range(1..3)}),
            _ => json!({"kind": "ods", "entries": (0..rng.gen_range(1..4)).map(|_| rng.gen_bool(0.4)).collect::<Vec<_>>()}),
        };
        for (reader, got) in materialise_and_open(&k) {
            let outcome = if got == "password" { "password" } else if got.starts_with("panic") { "panic" } else { "not-password" };
            writeln!(out, "{}", json!({"e": "open", "run": run, "k": k, "reader": reader, "outcome": outcome, "detail": got})).unwrap();
        }
    }
    0
}
