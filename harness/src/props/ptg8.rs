//! C14 (xls) — BIFF8 formula tokens -> A1 text; C16 (xls) — token-defined names.
//! replay ptg8 : token lists printed by MC_PtgBiff8 become the rgce of a FORMULA record (ptg class
//!               bits, cached value and cell position chosen per behaviour) in a real workbook
//!               with three sheets, an XTI table that is not in sheet order and two defined
//!               names; Xls::worksheet_formula must return the tight bounding box of the formula
//!               cells with the expected text at the formula's position and "" elsewhere.  The
//!               expected text is rendered from the model's symbols by this file's own column
//!               lettering, operator and function tables ([MS-XLS] 2.5.198), independent of calamine.
//! replay lbl8 : name definitions printed by MC_Lbl8 become Lbl records; Xls::defined_names must
//!               name the sheet the XTI entry designates.
use crate::build::biff::{self, FRes, Rec, Sheet, Workbook, XlStr};
use crate::common::*;
use crate::observe;
use calamine::{Reader, Xls};
use serde_json::{json, Value};
use std::io::Cursor;

const SHEETS: [&str; 3] = ["Sheet1", "Beta", "Gamma3"];
const NAMES: [&str; 2] = ["MyName", "Other_2"];
const STRS: [&str; 3] = ["abc", "caf\u{e9}", "\u{65e5}\u{672c}"];
const FLTS: [f64; 3] = [1.5, 0.25, 100.5];

/// spreadsheet column letters, bijective base 26 (A..Z, AA..)
pub fn col_letters(mut n: u64) -> String {
    let mut v = Vec::new();
    n += 1;
    while n > 0 {
        let d = (n - 1) % 26;
        v.push((b'A' + d as u8) as char);
        n = (n - 1) / 26;
    }
    v.iter().rev().collect()
}

fn fn_name(iftab: u64) -> &'static str {
    match iftab {
        1 => "IF",
        4 => "SUM",
        7 => "MAX",
        10 => "NA",
        19 => "PI",
        24 => "ABS",
        27 => "ROUND",
        36 => "AND",
        38 => "NOT",
        _ => "?FN",
    }
}

/// text of a symbol sequence; blanks (PtgAttrSpace) are dropped when `spaces` is false
pub fn render(syms: &Value, spaces: bool) -> String {
    let mut s = String::new();
    for y in syms.as_array().map(|a| a.as_slice()).unwrap_or(&[]) {
        let v = &y["v"];
        match y["k"].as_str().unwrap_or("") {
            "p" => s.push_str(v.as_str().unwrap()),
            "col" => s.push_str(&col_letters(v.as_u64().unwrap())),
            "num" => s.push_str(&v.as_u64().unwrap().to_string()),
            "sheet" => s.push_str(match v.as_i64().unwrap() {
                i if i >= 0 => SHEETS[i as usize],
                _ => "#REF",
            }),
            "name" => s.push_str(match v.as_u64().unwrap() {
                0 => "#REF!",
                i => NAMES[i as usize - 1],
            }),
            "str" => s.push_str(STRS[v.as_u64().unwrap() as usize]),
            "flt" => s.push_str(&format!("{}", FLTS[v.as_u64().unwrap() as usize])),
            "fn" => s.push_str(fn_name(v.as_u64().unwrap())),
            "sp" => {
                if spaces {
                    s.push(if v.as_u64().unwrap() % 2 == 1 { '\r' } else { ' ' })
                }
            }
            other => s.push_str(&format!("?{}", other)),
        }
    }
    s
}

fn colfield(c: &Value, rr: &Value, cr: &Value) -> u16 {
    (c.as_u64().unwrap() as u16) | if cr.as_bool().unwrap() { 0x4000 } else { 0 } | if rr.as_bool().unwrap() { 0x8000 } else { 0 }
}

/// one token -> rgce bytes ([MS-XLS] 2.5.198); `cls` selects the ptg class bits of operand tokens
pub fn token_bytes(t: &Value, cls: u8) -> Result<Vec<u8>, String> {
    let mut d = Vec::new();
    let class = [0x20u8, 0x40, 0x60][cls as usize % 3];
    let u = |v: &Value| v.as_u64().unwrap();
    let p16 = |d: &mut Vec<u8>, x: u16| d.extend_from_slice(&x.to_le_bytes());
    match t["t"].as_str().unwrap() {
        "ref" => {
            d.push(0x04 | class);
            p16(&mut d, u(&t["r"]) as u16);
            p16(&mut d, colfield(&t["c"], &t["rr"], &t["cr"]));
        }
        "area" => {
            d.push(0x05 | class);
            p16(&mut d, u(&t["r1"]) as u16);
            p16(&mut d, u(&t["r2"]) as u16);
            p16(&mut d, colfield(&t["c1"], &t["rr1"], &t["cr1"]));
            p16(&mut d, colfield(&t["c2"], &t["rr2"], &t["cr2"]));
        }
        "ref3d" => {
            d.push(0x1A | class);
            p16(&mut d, u(&t["ixti"]) as u16);
            p16(&mut d, u(&t["r"]) as u16);
            p16(&mut d, colfield(&t["c"], &t["rr"], &t["cr"]));
        }
        "area3d" => {
            d.push(0x1B | class);
            p16(&mut d, u(&t["ixti"]) as u16);
            p16(&mut d, u(&t["r1"]) as u16);
            p16(&mut d, u(&t["r2"]) as u16);
            p16(&mut d, colfield(&t["c1"], &t["rr1"], &t["cr1"]));
            p16(&mut d, colfield(&t["c2"], &t["rr2"], &t["cr2"]));
        }
        "referr" => {
            d.push(0x0A | class);
            d.extend_from_slice(&[0; 4]);
        }
        "areaerr" => {
            d.push(0x0B | class);
            d.extend_from_slice(&[0; 8]);
        }
        "referr3d" => {
            d.push(0x1C | class);
            p16(&mut d, u(&t["ixti"]) as u16);
            d.extend_from_slice(&[0; 4]);
        }
        "areaerr3d" => {
            d.push(0x1D | class);
            p16(&mut d, u(&t["ixti"]) as u16);
            d.extend_from_slice(&[0; 8]);
        }
        "name" => {
            d.push(0x03 | class);
            d.extend_from_slice(&(u(&t["i"]) as u32).to_le_bytes());
        }
        "int" => {
            d.push(0x1E);
            p16(&mut d, u(&t["n"]) as u16);
        }
        "num" => {
            d.push(0x1F);
            d.extend_from_slice(&FLTS[u(&t["id"]) as usize].to_le_bytes());
        }
        "str" => {
            let s = XlStr::with_storage(STRS[u(&t["id"]) as usize], t["hi"].as_bool().unwrap());
            d.push(0x17);
            d.extend_from_slice(&s.short());
        }
        "bool" => {
            d.push(0x1D);
            d.push(t["b"].as_bool().unwrap() as u8);
        }
        "err" => {
            d.push(0x1C);
            d.push(u(&t["code"]) as u8);
        }
        "miss" => d.push(0x16),
        "bin" => d.push(match t["op"].as_str().unwrap() {
            "+" => 0x03,
            "-" => 0x04,
            "*" => 0x05,
            "/" => 0x06,
            "^" => 0x07,
            "&" => 0x08,
            "<" => 0x09,
            "<=" => 0x0A,
            "=" => 0x0B,
            ">=" => 0x0C,
            ">" => 0x0D,
            "<>" => 0x0E,
            " " => 0x0F,
            "," => 0x10,
            ":" => 0x11,
            o => return Err(format!("unknown operator {}", o)),
        }),
        "un" => d.push(match t["op"].as_str().unwrap() {
            "uplus" => 0x12,
            "uminus" => 0x13,
            "percent" => 0x14,
            o => return Err(format!("unknown unary {}", o)),
        }),
        "paren" => d.push(0x15),
        "func" => {
            d.push(0x01 | class);
            p16(&mut d, u(&t["iftab"]) as u16);
        }
        "funcvar" => {
            d.push(0x02 | class);
            d.push(u(&t["argc"]) as u8);
            p16(&mut d, u(&t["iftab"]) as u16);
        }
        "attrsum" => d.extend_from_slice(&[0x19, 0x10, 0, 0]),
        "attrspace" => d.extend_from_slice(&[0x19, 0x40, u(&t["ty"]) as u8, u(&t["n"]) as u8]),
        "attrif" => d.extend_from_slice(&[0x19, 0x02, 4, 0]),
        "attrgoto" => d.extend_from_slice(&[0x19, 0x08, 3, 0]),
        "attrvolatile" => d.extend_from_slice(&[0x19, 0x01, 0, 0]),
        o => return Err(format!("unknown token {}", o)),
    }
    Ok(d)
}

fn base_workbook(b: &Value) -> Workbook {
    let mut wb = Workbook::default();
    let ns = b["nsheets"].as_u64().unwrap_or(3) as u16;
    let xtis: Vec<i16> = b["xtis"].as_array().map(|a| a.iter().map(|x| x.as_i64().unwrap() as i16).collect()).unwrap_or_default();
    wb.after_sheets = biff::extern_sheet_recs(ns, &xtis);
    wb
}

fn name_rgce(ixti: u16, r: u16, c: u16) -> Vec<u8> {
    let mut d = vec![0x3A];
    d.extend_from_slice(&ixti.to_le_bytes());
    d.extend_from_slice(&r.to_le_bytes());
    d.extend_from_slice(&c.to_le_bytes());
    d
}

pub fn replay_ptg8(args: &Args) -> i32 {
    let mut rep = Report::new();
    let mut idx = 0u64;
    // formula positions: (main formula, auxiliary formula); number cells lie outside the box
    let places: [((u16, u16), (u16, u16)); 5] = [((2, 1), (4, 3)), ((5, 6), (3, 2)), ((3, 3), (3, 5)), ((9, 1), (2, 1)), ((65535, 255), (65534, 253))];
    for b in read_ndjson(args.req("in")) {
        idx += 1;
        let toks = b["tokens"].as_array().unwrap();
        let mut rgce = Vec::new();
        for (k, t) in toks.iter().enumerate() {
            match token_bytes(t, ((idx + k as u64) % 3) as u8) {
                Ok(x) => rgce.extend_from_slice(&x),
                Err(e) => {
                    eprintln!("harness: {}", e);
                    return 2;
                }
            }
        }
        let has_space = toks.iter().any(|t| t["t"] == "attrspace");
        let ((r1, c1), (r2, c2)) = places[if idx % 41 == 0 { 4 } else { (idx % 4) as usize }];
        let res = match idx % 4 {
            0 => FRes::Num(2.5),
            1 => FRes::Bool(true),
            2 => FRes::Err(7),
            _ => FRes::Str,
        };
        let shared = b["shared"] == json!(true);
        let mut shr: Option<Rec> = None;
        if shared {
            // FORMULA holds PtgExp(row, col of the range's first cell); the expression is in SHRFMLA
            let mut d = Vec::new();
            d.extend_from_slice(&r1.to_le_bytes());
            d.extend_from_slice(&r1.to_le_bytes());
            d.push(c1 as u8);
            d.push(c1 as u8);
            d.push(0);
            d.push(1);
            d.extend_from_slice(&(rgce.len() as u16).to_le_bytes());
            d.extend_from_slice(&rgce);
            shr = Some(Rec::Raw { typ: 0x04BC, data: d });
            rgce = vec![0x01];
            rgce.extend_from_slice(&r1.to_le_bytes());
            rgce.extend_from_slice(&c1.to_le_bytes());
        }
        let mut cells = vec![(r1, c1, Rec::FormulaRgce { r: r1, c: c1, xf: 0, res: res.clone(), rgce }), (r2, c2, Rec::FormulaRgce { r: r2, c: c2, xf: 0, res: FRes::Num(1.0), rgce: vec![0x1E, 7, 0] })];
        // value cells that are not formulas: before, between and after
        if r1 < 60000 {
            cells.push((0, 0, Rec::Number { r: 0, c: 0, xf: 0, v: 3.0 }));
            cells.push((r1.min(r2) + 1, 0, Rec::Number { r: r1.min(r2) + 1, c: 0, xf: 0, v: 4.0 }));
            cells.push((12, 9, Rec::Number { r: 12, c: 9, xf: 0, v: 5.0 }));
        }
        cells.sort_by_key(|c| (c.0, c.1));
        let mut recs = Vec::new();
        for (_, _, r) in cells {
            let is_str = matches!(&r, Rec::FormulaRgce { res: FRes::Str, .. });
            let is_main = matches!(&r, Rec::FormulaRgce { r: rr, c: cc, .. } if *rr == r1 && *cc == c1);
            recs.push(r);
            if is_main {
                if let Some(s) = shr.take() {
                    recs.push(s);
                }
            }
            if is_str {
                recs.push(Rec::StringRec { s: XlStr::new("cached") });
            }
        }
        let mut wb = base_workbook(&b);
        wb.after_sheets.push(biff::lbl_rec(&XlStr::new(NAMES[0]), &name_rgce(1, 0, 0)));
        wb.after_sheets.push(biff::lbl_rec(&XlStr::new(NAMES[1]), &name_rgce(0, 1, 1)));
        wb.sheets.push(Sheet { name: XlStr::new(SHEETS[0]), dims: None, recs });
        for s in &SHEETS[1..] {
            wb.sheets.push(Sheet { name: XlStr::new(s), dims: None, recs: vec![Rec::Number { r: 0, c: 0, xf: 0, v: 1.0 }] });
        }
        let file = biff::xls_bytes(&wb);
        let obs = match catch(|| match Xls::new(Cursor::new(file.clone())) {
            Err(e) => json!({"err": e.to_string()}),
            Ok(mut x) => match x.worksheet_formula(SHEETS[0]) {
                Ok(r) => observe::string_range_json(&r),
                Err(e) => json!({"err": e.to_string()}),
            },
        }) {
            Ok(v) => v,
            Err(p) => json!({ "panic": p }),
        };
        let want_text = render(&b["ideal"], true);
        let mut exp_cells = vec![(r1, c1, want_text.clone()), (r2, c2, "7".to_string())];
        exp_cells.sort();
        let ideal = json!({"start": [r1.min(r2), c1.min(c2)], "end": [r1.max(r2), c1.max(c2)],
                           "cells": exp_cells.iter().map(|c| json!([c.0, c.1, c.2])).collect::<Vec<_>>()});
        rep.case(&b["tokens"], toks.len() > 1 || toks[0]["t"] != "int");
        // blanks are not promised: compare without them when the formula carries PtgAttrSpace
        let strip = |v: &Value| -> Value {
            if !has_space {
                return v.clone();
            }
            let mut v = v.clone();
            if let Some(cs) = v.get_mut("cells").and_then(|c| c.as_array_mut()) {
                for c in cs {
                    if let Some(t) = c[2].as_str() {
                        c[2] = json!(t.replace([' ', '\r'], ""));
                    }
                }
            }
            v
        };
        if strip(&obs) != strip(&ideal) {
            // the pinned code's prediction
            let asis = &b["asis"];
            let got_main = obs["cells"].as_array().and_then(|cs| cs.iter().find(|c| c[0] == json!(r1) && c[1] == json!(c1))).and_then(|c| c[2].as_str().map(String::from));
            let is_asis = match (asis.get("text"), asis.get("err"), &got_main) {
                (Some(t), _, Some(g)) => {
                    let a = render(t, true);
                    if has_space { a.replace([' ', '\r'], "") == g.replace([' ', '\r'], "") } else { &a == g }
                }
                (_, Some(_), Some(g)) => g.starts_with("Unrecognised formula"),
                // the as-is text is empty: the cell shows no formula
                (Some(t), _, None) => render(t, true).is_empty(),
                _ => false,
            };
            let key = mismatch_key(&b["dev"], is_asis);
            rep.fail(&key, &b, ideal, obs);
        }
        if rep.evaluated % 2999 == 1 {
            rep.sample(json!({"tokens": b["tokens"], "text": want_text}));
        }
    }
    rep.write(args.req("out"));
    0
}

pub fn replay_lbl8(args: &Args) -> i32 {
    let mut rep = Report::new();
    let mut idx = 0u64;
    for b in read_ndjson(args.req("in")) {
        idx += 1;
        let mut wb = base_workbook(&b);
        let defs = b["names"].as_array().unwrap();
        let mut want = Vec::new();
        for (k, t) in defs.iter().enumerate() {
            let rg = match token_bytes(t, ((idx + k as u64) % 3) as u8) {
                Ok(x) => x,
                Err(e) => {
                    eprintln!("harness: {}", e);
                    return 2;
                }
            };
            // 8-bit and 16-bit name storage alternate
            let nm = if (idx + k as u64) % 2 == 0 { XlStr::with_storage(NAMES[k], false) } else { XlStr::with_storage(NAMES[k], true) };
            wb.after_sheets.push(biff::lbl_rec(&nm, &rg));
            want.push(json!([NAMES[k], render(&b["ideal"][k], true)]));
        }
        for s in SHEETS {
            wb.sheets.push(Sheet { name: XlStr::new(s), dims: None, recs: vec![Rec::Number { r: 0, c: 0, xf: 0, v: 1.0 }] });
        }
        let file = biff::xls_bytes(&wb);
        let obs = match catch(|| match Xls::new(Cursor::new(file.clone())) {
            Err(e) => json!({"err": e.to_string()}),
            Ok(x) => json!(x.defined_names().iter().map(|(n, f)| json!([n, f])).collect::<Vec<_>>()),
        }) {
            Ok(v) => v,
            Err(p) => json!({ "panic": p }),
        };
        rep.case(&b["names"], true);
        let ideal = json!(want);
        if obs != ideal {
            rep.fail("unexplained", &b, ideal, obs);
        }
        if rep.evaluated % 999 == 1 {
            rep.sample(json!({"names": b["names"], "expected": want}));
        }
    }
    rep.write(args.req("out"));
    0
}
