//! C05 — calamine::Range stepped through operation histories.
//! replay: every (prefix, act) transition printed by MC_Range is executed on real
//!         Range<usize> and Range<Data>; the projection after the last step is compared with
//!         the ideal projection computed by the specification.
//! drive : seeded random histories with large coordinates; every step logs the operation and
//!         the projection of the real object; Trace_Range.tla validates the log.
use crate::common::*;
use calamine::{Cell, CellType, Data, Range};
use rand::rngs::StdRng;
use rand::{Rng, SeedableRng};
use serde_json::{json, Value};
use std::io::Write;

pub trait ModelVal: CellType + std::fmt::Debug {
    fn from_model(v: u64) -> Self;
    fn to_model(&self) -> Value;
}
impl ModelVal for usize {
    fn from_model(v: u64) -> Self {
        v as usize
    }
    fn to_model(&self) -> Value {
        json!(*self)
    }
}
impl ModelVal for Data {
    fn from_model(v: u64) -> Self {
        if v == 0 {
            Data::Empty
        } else {
            Data::Int(v as i64)
        }
    }
    fn to_model(&self) -> Value {
        match self {
            Data::Empty => json!(0),
            Data::Int(i) => json!(*i),
            other => json!(format!("{:?}", other)),
        }
    }
}

fn pos(v: &Value) -> (u32, u32) {
    (v[0].as_u64().unwrap() as u32, v[1].as_u64().unwrap() as u32)
}

pub struct St<T: ModelVal> {
    pub main: Range<T>,
    pub sub: Option<Range<T>>,
}

pub fn apply<T: ModelVal>(st: &mut St<T>, op: &Value) {
    match op["op"].as_str().unwrap() {
        "new" => {
            st.main = Range::new(pos(&op["a"]), pos(&op["b"]));
            st.sub = None;
        }
        "empty" => {
            st.main = Range::empty();
            st.sub = None;
        }
        "sparse" => {
            let cells: Vec<Cell<T>> = op["cells"]
                .as_array()
                .unwrap()
                .iter()
                .map(|c| Cell::new(pos(&c["p"]), T::from_model(c["v"].as_u64().unwrap())))
                .collect();
            st.main = Range::from_sparse(cells);
            st.sub = None;
        }
        "set" => st
            .main
            .set_value(pos(&op["p"]), T::from_model(op["v"].as_u64().unwrap())),
        "sub" => st.sub = Some(st.main.range(pos(&op["a"]), pos(&op["b"]))),
        "adopt" => {
            st.main = st.main.range(pos(&op["a"]), pos(&op["b"]));
            st.sub = None;
        }
        o => panic!("harness: unknown op {}", o),
    }
}

/// What the public API shows. `rows` is the baseline view; every other accessor is checked
/// against it and a disagreement is reported in the `accessor` field (absent when consistent).
pub fn proj<T: ModelVal>(r: &Range<T>) -> Value {
    let rows: Vec<Vec<&T>> = r.rows().map(|row| row.iter().collect()).collect();
    let p2 = |p: Option<(u32, u32)>| match p {
        Some((a, b)) => json!([a, b]),
        None => json!([]),
    };
    let mut o = json!({
        "start": p2(r.start()), "end": p2(r.end()),
        "h": r.height(), "w": r.width(),
        "rows": rows.iter().map(|row| row.iter().map(|v| v.to_model()).collect::<Vec<_>>()).collect::<Vec<_>>(),
    });
    if let Some(msg) = accessors(r, &rows) {
        o["accessor"] = json!(msg);
    }
    o
}

fn accessors<T: ModelVal>(r: &Range<T>, rows: &[Vec<&T>]) -> Option<String> {
    let (h, w) = r.get_size();
    if (h, w) != (r.height(), r.width()) {
        return Some("get_size != (height,width)".into());
    }
    if r.is_empty() != r.start().is_none() || r.is_empty() != r.end().is_none() {
        return Some("is_empty disagrees with start/end".into());
    }
    if r.is_empty() != (h == 0 && w == 0) {
        return Some("is_empty disagrees with size".into());
    }
    if r.rows().len() != rows.len() {
        return Some(format!("rows().len() {} != rows yielded {}", r.rows().len(), rows.len()));
    }
    let back: Vec<Vec<&T>> = r.rows().rev().map(|row| row.iter().collect()).collect();
    if back.iter().rev().cloned().collect::<Vec<_>>() != rows {
        return Some("rows().rev() disagrees with rows()".into());
    }
    // cells(): row-major, relative coordinates
    let mut exp = Vec::new();
    for (ri, row) in rows.iter().enumerate() {
        for (ci, v) in row.iter().enumerate() {
            exp.push((ri, ci, *v));
        }
    }
    let got: Vec<(usize, usize, &T)> = r.cells().collect();
    if got != exp {
        return Some(format!("cells() {:?} != rows-derived {:?}", got, exp));
    }
    if r.cells().len() != exp.len() {
        return Some("cells().len() wrong".into());
    }
    let mut gotb: Vec<(usize, usize, &T)> = r.cells().rev().collect();
    gotb.reverse();
    if gotb != exp {
        return Some("cells().rev() disagrees".into());
    }
    let d = T::default();
    let expu: Vec<(usize, usize, &T)> = exp.iter().filter(|c| *c.2 != d).cloned().collect();
    let gotu: Vec<(usize, usize, &T)> = r.used_cells().collect();
    if gotu != expu {
        return Some(format!("used_cells() {:?} != {:?}", gotu, expu));
    }
    let mut gotub: Vec<(usize, usize, &T)> = r.used_cells().rev().collect();
    gotub.reverse();
    if gotub != expu {
        return Some("used_cells().rev() disagrees".into());
    }
    let (lo, up) = r.used_cells().size_hint();
    if lo > expu.len() || up.map_or(false, |u| u < expu.len()) {
        return Some("used_cells size_hint does not bracket".into());
    }
    // get / Index / get_value inside and just outside the rectangle
    for ri in 0..=h {
        for ci in 0..=w {
            let e = if ri < h && ci < w { rows.get(ri).and_then(|x| x.get(ci)).cloned() } else { None };
            if r.get((ri, ci)) != e {
                return Some(format!("get(({},{})) = {:?}, rows say {:?}", ri, ci, r.get((ri, ci)), e));
            }
            if ri < h && ci < w {
                if Some(&r[(ri, ci)]) != e {
                    return Some(format!("Index[({},{})] disagrees", ri, ci));
                }
                if r[ri].get(ci) != e {
                    return Some(format!("Index[{}][{}] disagrees", ri, ci));
                }
            }
        }
    }
    if let (Some(s), Some(e)) = (r.start(), r.end()) {
        let r0 = s.0.saturating_sub(1);
        let c0 = s.1.saturating_sub(1);
        for ar in r0..=e.0.saturating_add(1).min(r0 + 64) {
            for ac in c0..=e.1.saturating_add(1).min(c0 + 64) {
                let inside = ar >= s.0 && ar <= e.0 && ac >= s.1 && ac <= e.1;
                let ex = if inside {
                    rows.get((ar - s.0) as usize).and_then(|x| x.get((ac - s.1) as usize)).cloned()
                } else {
                    None
                };
                if r.get_value((ar, ac)) != ex {
                    return Some(format!("get_value(({},{})) = {:?}, expected {:?}", ar, ac, r.get_value((ar, ac)), ex));
                }
            }
        }
    } else if r.get_value((0, 0)).is_some() {
        return Some("get_value on empty range is Some".into());
    }
    None
}

pub fn proj_state<T: ModelVal>(st: &St<T>) -> Value {
    json!({
        "main": proj(&st.main),
        "sub": match &st.sub { Some(s) => proj(s), None => json!({"none": true}) },
    })
}

fn run_history<T: ModelVal>(ops: &[&Value]) -> Value {
    let r = catch(|| {
        let mut st: St<T> = St { main: Range::empty(), sub: None };
        let n = ops.len();
        for (i, op) in ops.iter().enumerate() {
            let before = if i + 1 == n { Some(proj(&st.main)) } else { None };
            apply(&mut st, op);
            // range() must leave its receiver untouched
            if let (Some(b), Some("sub")) = (before, op["op"].as_str()) {
                if proj(&st.main) != b {
                    let mut o = proj_state(&st);
                    o["accessor"] = json!("range() modified its receiver");
                    return o;
                }
            }
        }
        proj_state(&st)
    });
    match r {
        Ok(v) => v,
        Err(m) => json!({ "panic": m }),
    }
}

pub fn replay(args: &Args) -> i32 {
    let mut rep = Report::new();
    for b in read_ndjson(args.req("in")) {
        let mut ops: Vec<&Value> = b["prefix"].as_array().map(|a| a.iter().collect()).unwrap_or_default();
        ops.push(&b["act"]);
        let nontrivial = ops.iter().any(|o| matches!(o["op"].as_str(), Some("set") | Some("sub") | Some("adopt")))
            || b["act"]["op"] == "sparse";
        rep.case(&json!([b["prefix"], b["act"]]), nontrivial);
        let ideal = &b["ideal"];
        for ty in ["usize", "Data"] {
            let obs = if ty == "usize" { run_history::<usize>(&ops) } else { run_history::<Data>(&ops) };
            if &obs != ideal {
                let asis = &b["asis"];
                let is_asis = &obs == asis || (obs.get("panic").is_some() && asis.get("panic").is_some());
                let key = mismatch_key(&b["dev"], is_asis);
                let mut o = obs.clone();
                o["type"] = json!(ty);
                rep.fail(&key, &b, ideal.clone(), o);
                break;
            }
        }
        if rep.evaluated % 9973 == 1 {
            rep.sample(json!({"ops": ops, "expected": ideal}));
        }
    }
    rep.write(args.req("out"));
    0
}

/// Random histories far outside the model's bounds (coordinates up to 2^20, rectangles kept
/// small so that TLC can evaluate them).  One ndjson event per step.
pub fn drive(args: &Args) -> i32 {
    let n = args.num("n", 50);
    let steps = args.num("steps", 60);
    let maxdim = args.num("maxdim", 9) as u32;
    let mut rng = StdRng::seed_from_u64(args.seed());
    let mut out = std::io::BufWriter::new(std::fs::File::create(args.req("out")).unwrap());
    for run in 0..n {
        writeln!(out, "{}", json!({"e": "reset", "run": run})).unwrap();
        let base = (rng.gen_range(0..4u32) * 349_525 + rng.gen_range(0..3), rng.gen_range(0..4u32) * 5_461 + rng.gen_range(0..3));
        let rp = |rng: &mut StdRng| (base.0 + rng.gen_range(0..maxdim), base.1 + rng.gen_range(0..maxdim));
        let mut st: St<usize> = St { main: Range::empty(), sub: None };
        let mut started = false;
        for _ in 0..steps {
            let choice = if !started {
                [0, 0, 0, 2, 2, 2, 2, 1][rng.gen_range(0..8)]
            } else if st.main.is_empty() {
                // set_value on an empty range is outside the checked language
                9 + rng.gen_range(0..4)
            } else {
                3 + rng.gen_range(0..10)
            };
            let op = match choice {
                0 => {
                    let (a, b) = (rp(&mut rng), rp(&mut rng));
                    let s = (a.0.min(b.0), a.1.min(b.1));
                    let e = (a.0.max(b.0), a.1.max(b.1));
                    json!({"op": "new", "a": [s.0, s.1], "b": [e.0, e.1]})
                }
                1 => json!({"op": "empty"}),
                2 => {
                    let k = rng.gen_range(0..6);
                    let mut cells: Vec<((u32, u32), u64)> = Vec::new();
                    for _ in 0..k {
                        let p = rp(&mut rng);
                        if !cells.iter().any(|c| c.0 == p) {
                            cells.push((p, rng.gen_range(0..4)));
                        }
                    }
                    cells.sort_by_key(|c| (c.0).0); // row-sorted, columns in random order
                    json!({"op": "sparse", "cells": cells.iter().map(|c| json!({"p": [(c.0).0, (c.0).1], "v": c.1})).collect::<Vec<_>>()})
                }
                3..=8 => {
                    // set_value at or beyond the start corner
                    let s = st.main.start().unwrap_or(base);
                    let p = (s.0 + rng.gen_range(0..maxdim), s.1 + rng.gen_range(0..maxdim));
                    json!({"op": "set", "p": [p.0, p.1], "v": rng.gen_range(0..4u64)})
                }
                9..=10 => {
                    let (a, b) = (rp(&mut rng), rp(&mut rng));
                    json!({"op": "sub", "a": [a.0.min(b.0), a.1.min(b.1)], "b": [a.0.max(b.0), a.1.max(b.1)]})
                }
                _ => {
                    let (a, b) = (rp(&mut rng), rp(&mut rng));
                    json!({"op": "adopt", "a": [a.0.min(b.0), a.1.min(b.1)], "b": [a.0.max(b.0), a.1.max(b.1)]})
                }
            };
            started = true;
            let res = catch(|| {
                apply(&mut st, &op);
                proj_state(&st)
            });
            let mut ev = op.clone();
            ev["e"] = op["op"].clone();
            match res {
                Ok(p) => {
                    ev["post"] = p;
                    writeln!(out, "{}", ev).unwrap();
                }
                Err(m) => {
                    ev["panic"] = json!(m);
                    writeln!(out, "{}", ev).unwrap();
                    break; // the object may be in any state after a panic
                }
            }
        }
    }
    0
}
