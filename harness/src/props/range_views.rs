//! X05 -- the read side of calamine::Range (tla/range/RangeViews.tla): rows() / cells() / used_cells() as
//! double-ended cursors, headers(), Index, get.  Leg 1 plays every behaviour of MC_RangeViews on a real
//! Range<Data>; leg 2 logs random larger ranges and interleavings for Trace_RangeViews.
use crate::common::*;
use calamine::{Cell, Data, Range};
use rand::rngs::StdRng;
use rand::{Rng, SeedableRng};
use serde_json::{json, Value};
use std::io::Write;

fn data(code: u64) -> Data {
    match code { 0 => Data::Empty, 1 => Data::Int(1), 2 => Data::String("a".into()), o => panic!("harness: value code {}", o) }
}
fn code(d: &Data) -> Value {
    match d { Data::Empty => json!(0), Data::Int(1) => json!(1), Data::String(s) if s == "a" => json!(2), o => json!(format!("?{:?}", o)) }
}

/// the specification's range record -> a real Range (built cell by cell: the write side is C05's)
fn build(r: &Value) -> Range<Data> {
    if r["empty"].as_bool().unwrap() { return Range::empty(); }
    let (s0, s1) = (r["s"][0].as_u64().unwrap() as u32, r["s"][1].as_u64().unwrap() as u32);
    let (h, w) = (r["h"].as_u64().unwrap() as u32, r["w"].as_u64().unwrap() as u32);
    let mut rg = Range::new((s0, s1), (s0 + h - 1, s1 + w - 1));
    for (k, v) in r["cell"].as_array().unwrap().iter().enumerate() {
        let (i, j) = (k as u32 / w, k as u32 % w);
        let d = data(v.as_u64().unwrap());
        if d != Data::Empty { rg.set_value((s0 + i, s1 + j), d); }
    }
    rg
}

enum Cur<'a> { Rows(calamine::Rows<'a, Data>), Cells(calamine::Cells<'a, Data>), Used(calamine::UsedCells<'a, Data>) }
fn tup(x: Option<(usize, usize, &Data)>) -> Value { x.map_or(json!(["none"]), |(r, c, v)| json!(["some", [r, c, code(v)]])) }
fn row(x: Option<&[Data]>) -> Value { x.map_or(json!(["none"]), |r| json!(["some", r.iter().map(code).collect::<Vec<_>>()])) }
fn hint(h: (usize, Option<usize>)) -> Value { json!([h.0, h.1.map_or(-1i64, |u| u as i64)]) }
impl<'a> Cur<'a> {
    fn open(rg: &'a Range<Data>, kind: &str) -> Cur<'a> {
        match kind { "rows" => Cur::Rows(rg.rows()), "cells" => Cur::Cells(rg.cells()), "used" => Cur::Used(rg.used_cells()), o => panic!("harness: kind {}", o) }
    }
    fn op(&mut self, op: &str) -> Value {
        match (self, op) {
            (Cur::Rows(it), "next") => row(it.next()), (Cur::Rows(it), "back") => row(it.next_back()),
            // ExactSizeIterator::len must agree with size_hint (it asserts so itself)
            (Cur::Rows(it), "hint") => { let h = it.size_hint(); if it.len() != h.0 { return json!("len-and-size_hint-disagree"); } hint(h) }
            (Cur::Cells(it), "next") => tup(it.next()), (Cur::Cells(it), "back") => tup(it.next_back()),
            (Cur::Cells(it), "hint") => { let h = it.size_hint(); if it.len() != h.0 { return json!("len-and-size_hint-disagree"); } hint(h) }
            (Cur::Used(it), "next") => tup(it.next()), (Cur::Used(it), "back") => tup(it.next_back()),
            (Cur::Used(it), "hint") => hint(it.size_hint()),
            (_, o) => panic!("harness: op {}", o),
        }
    }
}

pub fn replay(args: &Args) -> i32 {
    let mut rep = Report::new();
    let mut seen_static = std::collections::HashSet::new();
    for b in read_ndjson(args.req("in")) {
        rep.case(&b, true);
        let kind = b["kind"].as_str().unwrap();
        let got = catch(|| {
            let rg = build(&b["range"]);
            let mut cur = Cur::open(&rg, kind);
            b["ops"].as_array().unwrap().iter().map(|o| cur.op(o["op"].as_str().unwrap())).collect::<Vec<_>>()
        });
        let want: Vec<Value> = b["ops"].as_array().unwrap().iter().map(|o| o["ret"].clone()).collect();
        match got {
            Ok(g) if g == want => { if rep.evaluated % 9973 == 1 { rep.sample(json!({"behaviour": b, "observed": g})); } }
            Ok(g) => rep.fail(&format!("cursor:{}", kind), &b, json!(want), json!(g)),
            Err(p) => rep.fail(&format!("cursor:{}:panic", kind), &b, json!(want), json!(p)),
        }
        // the one-shot reads depend on the range only: once per range
        if !seen_static.insert(b["range"].to_string()) { continue; }
        let rg = build(&b["range"]);
        let hd = rg.headers().map_or(json!(["none"]), |h| json!(["some", h]));
        if hd != b["headers"] { rep.fail("headers", &b, b["headers"].clone(), hd); }
        let (h, w) = (b["range"]["h"].as_u64().unwrap() as usize, b["range"]["w"].as_u64().unwrap() as usize);
        for i in 0..=h {
            let r = catch(|| rg[i].iter().map(code).collect::<Vec<_>>()).map_or(json!(["panic"]), |v| json!(["some", v]));
            if r != b["rowidx"][i] { rep.fail("index-row", &b, b["rowidx"][i].clone(), json!({"i": i, "got": r})); }
            for j in 0..=w {
                let x = catch(|| code(&rg[(i, j)])).map_or(json!(["panic"]), |v| json!(["some", v]));
                if x != b["index"][i][j] { rep.fail("index-rc", &b, b["index"][i][j].clone(), json!({"at": [i, j], "got": x})); }
                let g = rg.get((i, j)).map_or(json!(["none"]), |v| json!(["some", code(v)]));
                if g != b["get"][i][j] { rep.fail("get", &b, b["get"][i][j].clone(), json!({"at": [i, j], "got": g})); }
            }
        }
    }
    rep.write(args.req("out"));
    0
}

/// leg 2: random ranges up to 6 x 5 (built through from_sparse, half of the cells empty on average) at random
/// origins, a random view, and a random interleaving of next / next_back / size_hint run past exhaustion
pub fn drive(args: &Args) -> i32 {
    let n = args.num("n", 300);
    let mut rng = StdRng::seed_from_u64(args.seed() ^ 0x05);
    let mut out = std::io::BufWriter::new(std::fs::File::create(args.req("out")).unwrap());
    for run in 0..n {
        let (h, w) = (rng.gen_range(1..7u32), rng.gen_range(1..6u32));
        let s = (rng.gen_range(0..4u32) * 5, rng.gen_range(0..3u32) * 7);
        let empty = run % 17 == 3;
        // the corners are always present so that the bounding box is the intended one
        let cells: Vec<u64> = (0..h * w).map(|k| if k == 0 || k == h * w - 1 { 1 + (k as u64 % 2) } else { [0, 0, 1, 2][rng.gen_range(0..4)] }).collect();
        let rg: Range<Data> = if empty { Range::empty() } else {
            Range::from_sparse(cells.iter().enumerate().filter(|(_, v)| **v != 0)
                .map(|(k, v)| Cell::new((s.0 + k as u32 / w, s.1 + k as u32 % w), data(*v))).collect())
        };
        let kind = ["rows", "cells", "used"][rng.gen_range(0..3)];
        let spec_range = if empty { json!({"empty": true, "s": [0, 0], "h": 0, "w": 0, "cell": []}) } else { json!({"empty": false, "s": [s.0, s.1], "h": h, "w": w, "cell": cells}) };
        writeln!(out, "{}", json!({"e": "open", "run": run, "range": spec_range, "kind": kind,
            "size": [rg.height(), rg.width()], "headers": rg.headers().map_or(json!(["none"]), |x| json!(["some", x]))})).unwrap();
        let mut cur = Cur::open(&rg, kind);
        let items = match kind { "rows" => h, _ => h * w } as usize;
        let bias = rng.gen_range(1..10);
        for _ in 0..rng.gen_range(1..items + 4) {
            let op = match rng.gen_range(0..10) { x if x < bias => "next", 9 => "hint", _ => "back" };
            let ret = match catch(|| cur.op(op)) { Ok(v) => v, Err(p) => json!(["panic", p]) };
            writeln!(out, "{}", json!({"e": op, "run": run, "ret": ret})).unwrap();
        }
    }
    0
}
