//! C15 — xlsx shared formulas: (master formula, group) behaviours from MC_SharedFormula are
//! materialised as a sheet with a shared-formula group and read through worksheet_formula; the
//! text reported for every member is compared with the ideal translation (and with the as-is
//! model's prediction when the behaviour exhibits a named deviation).
use crate::build::xlsx::{build_xlsx, cell_ref};
use crate::common::*;
use calamine::{Reader, Xlsx};
use rand::rngs::StdRng;
use rand::{Rng, SeedableRng};
use serde_json::{json, Value};
use std::io::{Cursor, Write};

fn text(v: &Value) -> String {
    v.as_array().map(|a| a.iter().map(|c| match c.as_str().unwrap() { "e'" => "é", "L'" => "Ł", "c'" => "с", "t'" => "т", o => o }).collect::<String>()).unwrap_or_default()
}

pub fn workbook(b: &Value) -> (Value, Vec<((u32, u32), String, String)>) {
    let m = (b["master"][0].as_u64().unwrap() as u32, b["master"][1].as_u64().unwrap() as u32);
    let (h, w) = (b["shape"]["h"].as_u64().unwrap() as u32, b["shape"]["w"].as_u64().unwrap() as u32);
    let master = text(&b["text"]);
    let gref = format!("{}:{}", cell_ref(m.0, m.1), cell_ref(m.0 + h - 1, m.1 + w - 1));
    // expected (pos, ideal, asis)
    let mut exp = vec![(m, master.clone(), master.clone())];
    for mem in b["members"].as_array().unwrap() {
        let d = (mem["d"][0].as_u64().unwrap() as u32, mem["d"][1].as_u64().unwrap() as u32);
        exp.push(((m.0 + d.0, m.1 + d.1), text(&mem["ideal"]), text(&mem["asis"])));
    }
    // an ordinary formula cell outside the group must be reported verbatim
    let other = (m.0 + h + 1, m.1);
    exp.push((other, "Z9*2".to_string(), "Z9*2".to_string()));
    let mut toks = Vec::new();
    // every other workbook in the lax reference style: r on no <row>, on every <c> (the reader's running
    // row counter then differs from the cells' rows)
    let lax = (b["si"][0].as_u64().unwrap_or(0) + b["master"][0].as_u64().unwrap_or(0)) % 2 == 1;
    for r in m.0..m.0 + h {
        toks.push(if lax { json!({"k": "row"}) } else { json!({"k": "row", "r": r}) });
        for c in m.1..m.1 + w {
            if (r, c) == m {
                toks.push(json!({"k": "c", "r": [r, c], "f": master, "fattrs": {"t": "shared", "ref": gref, "si": "0"}, "v": "0"}));
            } else {
                toks.push(json!({"k": "c", "r": [r, c], "f": "", "fattrs": {"t": "shared", "si": "0"}, "v": "0"}));
            }
        }
        if r == m.0 {
            // a plain value cell next to the group (no formula): must not get one
            toks.push(json!({"k": "c", "r": [r, m.1 + w], "v": "5"}));
        }
        toks.push(json!({"k": "rowend"}));
    }
    toks.push(if lax { json!({"k": "row"}) } else { json!({"k": "row", "r": other.0}) });
    toks.push(json!({"k": "c", "r": [other.0, other.1], "f": "Z9*2", "v": "0"}));
    toks.push(json!({"k": "rowend"}));
    // second group (column of two cells) with the shared indices chosen by the model
    let (si1, si2) = (b["si"][0].as_u64().unwrap_or(0), b["si"][1].as_u64().unwrap_or(1));
    let g2 = (other.0 + 2, m.1);
    for t in toks.iter_mut() {
        if t["fattrs"]["si"].is_string() {
            t["fattrs"]["si"] = json!(si1.to_string());
        }
    }
    toks.push(if lax { json!({"k": "row"}) } else { json!({"k": "row", "r": g2.0}) });
    toks.push(json!({"k": "c", "r": [g2.0, g2.1], "f": "C3*2", "fattrs": {"t": "shared", "ref": format!("{}:{}", cell_ref(g2.0, g2.1), cell_ref(g2.0 + 1, g2.1)), "si": si2.to_string()}, "v": "0"}));
    toks.push(json!({"k": "rowend"}));
    toks.push(if lax { json!({"k": "row"}) } else { json!({"k": "row", "r": g2.0 + 1}) });
    toks.push(json!({"k": "c", "r": [g2.0 + 1, g2.1], "f": "", "fattrs": {"t": "shared", "si": si2.to_string()}, "v": "0"}));
    toks.push(json!({"k": "rowend"}));
    exp.push((g2, "C3*2".to_string(), "C3*2".to_string()));
    exp.push(((g2.0 + 1, g2.1), text(&b["second"]["ideal"]), text(&b["second"]["asis"])));
    (json!({"sheets": [{"name": "S1", "file": "sheet1.xml", "tokens": toks}]}), exp)
}

/// observed formula text per expected position ("" when absent), or the error
fn observe(bytes: &[u8], exp: &[((u32, u32), String, String)]) -> Result<Vec<String>, String> {
    match catch(|| -> Result<Vec<String>, String> {
        let mut wb: Xlsx<_> = Xlsx::new(Cursor::new(bytes.to_vec())).map_err(|e| format!("open: {}", e))?;
        let f = wb.worksheet_formula("S1").map_err(|e| format!("ERROR {}", e))?;
        let got: Vec<String> = exp.iter().map(|(p, _, _)| f.get_value(*p).cloned().unwrap_or_default()).collect();
        let n = f.used_cells().count();
        let want = got.iter().filter(|s| !s.is_empty()).count();
        if n != want {
            return Err(format!("{} formula cells reported, {} expected positions are non-empty", n, want));
        }
        Ok(got)
    }) {
        Ok(r) => r,
        Err(p) => Err(format!("panic: {}", p)),
    }
}

/// is `obs` the "+"-join of one choice (ideal or as-is) per atom?
fn atomwise(obs: &str, parts: &[(String, String)]) -> bool {
    let n = parts.len();
    (0..(1u32 << n)).any(|mask| {
        let joined: Vec<&str> = parts.iter().enumerate().map(|(i, p)| if mask >> i & 1 == 0 { p.0.as_str() } else { p.1.as_str() }).collect();
        joined.join("+") == obs
    })
}

pub fn replay(args: &Args) -> i32 {
    let mut rep = Report::new();
    for b in read_ndjson(args.req("in")) {
        let (spec, exp) = workbook(&b);
        rep.case(&json!([b["master"], b["shape"], b["text"], b["si"]]), true);
        let bytes = build_xlsx(&spec);
        let got = observe(&bytes, &exp);
        let ideal: Vec<String> = exp.iter().map(|e| e.1.clone()).collect();
        let asis: Vec<String> = exp.iter().map(|e| e.2.clone()).collect();
        let ok = matches!(&got, Ok(g) if *g == ideal);
        if ok {
            if rep.evaluated % 2999 == 1 {
                rep.sample(json!({"master": b["master"], "shape": b["shape"], "formula": text(&b["text"]), "members": ideal}));
            }
            continue;
        }
        // explained by the listed deviations: every reported formula is either the ideal one or the one the
        // as-is model predicts (a behaviour that exhibits several deviations may have some of them repaired:
        // then part of the positions read ideal, the rest as-is; a third reading is never explained)
        // per expected position, the per-atom (ideal, as-is) texts the model exported for it (members only)
        let mut parts_of: Vec<Option<Vec<(String, String)>>> = vec![None];
        for mem in b["members"].as_array().unwrap() {
            parts_of.push(mem["parts"].as_array().map(|a| a.iter().map(|p| (text(&p["ideal"]), text(&p["asis"]))).collect()));
        }
        let is_asis = match &got {
            Ok(g) => g.len() == asis.len() && g.iter().enumerate().all(|(k, o)| {
                *o == asis[k] || *o == ideal[k]
                    // a member whose formula is, atom by atom, the ideal or the as-is text (some of the listed
                    // deviations repaired); "" (no formula at all) only when the as-is model says so
                    || (!o.is_empty() && parts_of.get(k).and_then(|p| p.as_ref()).map_or(false, |p| atomwise(o, p)))
            }),
            Err(e) => e.starts_with("ERROR") && asis.iter().any(|a| a == "ERROR"),
        };
        let key = mismatch_key(&b["dev"], is_asis);
        let obs = match got { Ok(g) => json!(g), Err(e) => json!({ "error": e }) };
        rep.fail(&key, &b, json!(ideal), obs);
    }
    rep.write(args.req("out"));
    0
}

/// leg 2: random master formulas built from lexical atoms (so that the ideal translation is known)
/// with references anywhere in the grid and random offsets, through the window
/// calamine::verif::replace_cell_names; logged as (text, offset, result, ideal, features)
pub fn drive(args: &Args) -> i32 {
    let n = args.num("n", 300);
    let mut rng = StdRng::seed_from_u64(args.seed() ^ 0xC15);
    let mut out = std::io::BufWriter::new(std::fs::File::create(args.req("out")).unwrap());
    // (text, feature) atoms without references
    let plain: [(&str, &str); 19] = [("SUM(", ""), (")", ""), ("+", ""), ("*", ""), (",", ""), ("\"x\"", ""), ("\"A3\"", ""), ("\"it's\"", ""), ("10", ""), ("1.5", ""),
        ("Rate", ""), ("TRUE", ""), ("ZŁ1", ""), ("été", ""), ("Q1Sales", ""), ("A1B", ""), ("LOG10(", "FuncDigits"), ("TAX2020", "NameCellLike"), ("1E5", "SciNumber")];
    let sheets: [(&str, &str); 4] = [("Data!", ""), ("'My Sheet'!", ""), ("AB1!", "SheetCellLike"), ("ст1!", "")];
    for run in 0..n {
        let off = (rng.gen_range(0..5i64), rng.gen_range(0..5i64));
        let k = rng.gen_range(1..7);
        let mut s = String::new();
        let mut ideal = String::new();
        let mut feats: Vec<&str> = Vec::new();
        let mut last_alnum = false;
        // the lexical atoms (master text, ideal translation) the formula is the concatenation of: the trace
        // spec explains a result atom by atom (ideal, or as-is when the atom exhibits a listed deviation)
        let mut atoms: Vec<(String, String)> = Vec::new();
        for _ in 0..k {
            let (s0, i0) = (s.len(), ideal.len());
            // keep identifiers apart: two alphanumeric atoms in a row would form a different lexeme
            if last_alnum { s.push('+'); ideal.push('+'); atoms.push(("+".into(), "+".into())); }
            let (s0, i0) = if last_alnum { (s.len(), ideal.len()) } else { (s0, i0) };
            if rng.gen_bool(0.55) {
                if rng.gen_bool(0.25) {
                    let (t, f) = sheets[rng.gen_range(0..sheets.len())];
                    s.push_str(t); ideal.push_str(t);
                    if !f.is_empty() { feats.push(f); }
                    // the sheet prefix is an atom of its own: a scanner that repairs one of SheetCellLike /
                    // MixedRef and not the other reads the prefix one way and the reference the other way
                    atoms.push((s[s0..].to_string(), ideal[i0..].to_string()));
                }
                let (cabs, rabs) = (rng.gen_bool(0.3), rng.gen_bool(0.3));
                let col = [0u32, 1, 25, 26, 27, 701, 702, 16370][rng.gen_range(0..8)] + rng.gen_range(0..3);
                let row = [0u32, 8, 9, 98, 99, 1048560][rng.gen_range(0..6)] + rng.gen_range(0..3);
                let txt = |c: u32, r: u32| format!("{}{}{}{}", if cabs { "$" } else { "" }, crate::build::xlsx::col_name(c), if rabs { "$" } else { "" }, r + 1);
                s.push_str(&txt(col, row));
                ideal.push_str(&txt(if cabs { col } else { col + off.1 as u32 }, if rabs { row } else { row + off.0 as u32 }));
                if cabs != rabs { feats.push("MixedRef"); }
                last_alnum = true;
            } else {
                let (t, f) = plain[rng.gen_range(0..plain.len())];
                s.push_str(t); ideal.push_str(t);
                if !f.is_empty() { feats.push(f); }
                last_alnum = t.chars().last().map_or(false, |c| c.is_alphanumeric());
            }
            // (the atoms cover the text so far: the new one starts where they end)
            let (s0, i0) = (s0.max(atoms.iter().map(|a| a.0.len()).sum::<usize>()), i0.max(atoms.iter().map(|a| a.1.len()).sum::<usize>()));
            atoms.push((s[s0..].to_string(), ideal[i0..].to_string()));
        }
        feats.sort();
        feats.dedup();
        let res = catch(|| calamine::verif::replace_cell_names(&s, off).map_err(|e| e.to_string()));
        let chars = |x: &str| x.chars().map(|c| c.to_string()).collect::<Vec<_>>();
        let atoms_j: Vec<Value> = atoms.iter().map(|(a, i)| json!({"s": chars(a), "ideal": chars(i)})).collect();
        let ev = match res {
            Ok(Ok(r)) => json!({"e": "replace", "run": run, "s": chars(&s), "dr": off.0, "dc": off.1, "res": chars(&r), "ideal": chars(&ideal), "feats": feats, "atoms": atoms_j}),
            Ok(Err(e)) => json!({"e": "replace", "run": run, "s": chars(&s), "dr": off.0, "dc": off.1, "error": e, "ideal": chars(&ideal), "feats": feats}),
            Err(p) => json!({"e": "replace", "run": run, "s": chars(&s), "dr": off.0, "dc": off.1, "error": p, "ideal": chars(&ideal), "feats": feats}),
        };
        writeln!(out, "{}", ev).unwrap();
    }
    // groups spanning more than 16 384 rows / reaching the last columns, with only a few member cells present:
    // every member gets the master translated by ITS offset, however far it is
    for (kind, master, gref, members) in [
        ("col", (0u32, 1u32), "B1:B20000".to_string(), vec![(1u32, 1u32), (16383, 1), (16384, 1), (16385, 1), (19998, 1), (19999, 1)]),
        ("col", (1_000_000, 3), "D1000001:D1048576".to_string(), vec![(1_000_001, 3), (1_048_575, 3)]),
        ("row", (4, 0), "A5:XFC5".to_string(), vec![(4, 1), (4, 255), (4, 256), (4, 16_000), (4, 16_378)]),
    ] {
        let mtext = "A1+$B$2";   // relative part moves with the member, absolute part stays
        let want: Vec<String> = members.iter().map(|(r, c)| {
            let (dr, dc) = (r - master.0, c - master.1);
            format!("{}{}+$B$2", crate::build::xlsx::col_name(dc), 1 + dr)
        }).collect();
        let mut toks = vec![json!({"k": "row", "r": master.0}), json!({"k": "c", "r": [master.0, master.1], "f": mtext, "fattrs": {"t": "shared", "ref": gref, "si": "0"}, "v": "0"})];
        let mut cur = master.0;
        for (r, c) in &members {
            if *r != cur { toks.push(json!({"k": "rowend"})); toks.push(json!({"k": "row", "r": r})); cur = *r; }
            toks.push(json!({"k": "c", "r": [r, c], "f": "", "fattrs": {"t": "shared", "si": "0"}, "v": "0"}));
        }
        toks.push(json!({"k": "rowend"}));
        let bytes = build_xlsx(&json!({"sheets": [{"name": "S1", "file": "sheet1.xml", "tokens": toks}]}));
        let got = catch(|| -> Result<Vec<String>, String> {
            let mut wb: Xlsx<_> = Xlsx::new(Cursor::new(bytes)).map_err(|e| format!("open: {}", e))?;
            let f = wb.worksheet_formula("S1").map_err(|e| format!("ERROR {}", e))?;
            Ok(members.iter().map(|p| f.get_value(*p).cloned().unwrap_or_default()).collect())
        });
        let ev = match got {
            Ok(Ok(g)) => json!({"e": "tall", "kind": kind, "ref": gref, "want": want, "got": g}),
            Ok(Err(e)) => json!({"e": "tall", "kind": kind, "ref": gref, "want": want, "got": [], "error": e}),
            Err(p) => json!({"e": "tall", "kind": kind, "ref": gref, "want": want, "got": [], "error": p}),
        };
        writeln!(out, "{}", ev).unwrap();
    }
    0
}
