//! C12 — XLS strings across CONTINUE splits.
//! replay: fragment lists printed by MC_BiffSst (byte values) become the SST + CONTINUE records of
//!         a real BIFF8 workbook; every string is observed through a LABELSST cell; the same
//!         strings are also written as LABEL values (both storages where legal), as FORMULA+STRING
//!         values and as a sheet name (BoundSheet8, both storages).  With --inflate K every model
//!         unit / run / ExtRst byte stands for K real ones: the table is re-serialised by
//!         build::biff::sst_frags with the model's cuts (for K = 1 the bytes must equal the model's)
//!         and real 8224-byte record limits are crossed.
//! drive : random tables (thousands of strings, random cuts and storage switches); logs the
//!         fragments and the strings observed; Trace_BiffSst.tla re-runs the reader model.
use crate::build::biff::{self, Cut, FRes, Rec, RichStr, Sheet, Sst, Workbook, XlStr};
use crate::common::*;
use crate::observe;
use calamine::{Data, Reader, Xls};
use rand::rngs::StdRng;
use rand::{Rng, SeedableRng};
use serde_json::{json, Value};
use std::io::{Cursor, Write};

fn text_of(cps: &Value) -> String {
    cps.as_array().unwrap().iter().map(|c| char::from_u32(c.as_u64().unwrap() as u32).unwrap_or('\u{FFFD}')).collect()
}

fn frag_bytes(f: &Value) -> Vec<u8> {
    f.as_array().unwrap().iter().map(|b| b.as_u64().unwrap() as u8).collect()
}

/// inflate a unit sequence: every unit becomes K units of its kind; a high surrogate becomes
/// (K-1 pairs, H), a low surrogate (Lo, K-1 pairs), so the text stays well-formed and a cut
/// between the two blocks still falls between the halves of a pair
fn inflate_units(us: &[u16], k: usize) -> Vec<u16> {
    let mut out = Vec::new();
    for (i, u) in us.iter().enumerate() {
        let is_hi = (0xD800..0xDC00).contains(u);
        let is_lo = (0xDC00..0xE000).contains(u);
        if is_hi {
            let lo = us.get(i + 1).copied().unwrap_or(0xDE00);
            for _ in 0..k - 1 {
                out.push(*u);
                out.push(lo);
            }
            out.push(*u);
        } else if is_lo {
            let hi = if i > 0 { us[i - 1] } else { 0xD83D };
            out.push(*u);
            for _ in 0..k - 1 {
                out.push(hi);
                out.push(*u);
            }
        } else {
            for j in 0..k {
                // vary within the block but stay in the unit's class (<= 0xFF or > 0xFF)
                out.push(if *u <= 0xFF { if *u >= 0xE0 { 0xE0 + ((*u as usize - 0xE0 + j) % 0x1F) as u16 } else { 0x41 + ((*u as usize - 0x41 + j) % 26) as u16 } } else { 0x4E00 + ((*u as usize - 0x4E00 + j) % 2000) as u16 });
            }
        }
    }
    out
}
fn block_len(us: &[u16], upto: usize, k: usize) -> usize {
    // number of real units the first `upto` model units inflate to
    us[..upto].iter().map(|u| if (0xD800..0xE000).contains(u) { 2 * (k - 1) + 1 } else { k }).sum()
}

struct Case {
    frags: Vec<Vec<u8>>,
    texts: Vec<String>,
}

fn case_of(b: &Value, k: usize) -> Result<Case, String> {
    let n = b["n"].as_u64().unwrap() as usize;
    let munits: Vec<Vec<u16>> = b["units"].as_array().unwrap().iter().map(|a| a.as_array().unwrap().iter().map(|u| u.as_u64().unwrap() as u16).collect()).collect();
    let model_frags: Vec<Vec<u8>> = b["frags"].as_array().unwrap().iter().map(frag_bytes).collect();
    // structure -> serialiser input
    let mut strs: Vec<RichStr> = (0..n)
        .map(|s| RichStr {
            units: inflate_units(&munits[s], k),
            crun: b["strs"][s]["crun"].as_u64().unwrap() as usize * k,
            cb: b["strs"][s]["cb"].as_u64().unwrap() as usize * k,
            hi0: false,
        })
        .collect();
    let mut cuts = Vec::new();
    for c in b["cuts"].as_array().unwrap() {
        let s = c["s"].as_u64().unwrap() as usize - 1;
        let at = c["at"].as_u64().unwrap() as usize;
        let hi = c["hi"].as_bool().unwrap();
        match c["k"].as_str().unwrap() {
            "begin" => strs[s].hi0 = hi,
            "rgb" => cuts.push(Cut::Rgb { s, at: block_len(&munits[s], at, k), hi }),
            "run" => cuts.push(Cut::Run { s, at: at * k }),
            "ext" => cuts.push(Cut::Ext { s, at: at * k }),
            "between" => cuts.push(Cut::Between { s }),
            o => return Err(format!("unknown cut kind {}", o)),
        }
    }
    let frags = biff::sst_frags(&strs, &cuts, biff::MAX_REC);
    if k == 1 {
        // the Rust serialiser and the model's writer must agree byte for byte
        let mut mf = model_frags.clone();
        let mut head = (n as u32).to_le_bytes().to_vec();
        head.extend_from_slice(&(n as u32).to_le_bytes());
        head.extend_from_slice(&mf[0]);
        mf[0] = head;
        if mf != frags {
            return Err(format!("serialiser disagrees with the model: {:?} vs {:?}", frags, mf));
        }
    }
    let texts = if k == 1 { b["ideal"].as_array().unwrap().iter().map(text_of).collect() } else { strs.iter().map(|s| String::from_utf16_lossy(&s.units)).collect() };
    Ok(Case { frags, texts })
}

/// workbook: Sheet1 has for string i (row i): col 0 LABELSST, col 1 LABEL 16-bit, col 2 LABEL 8-bit
/// (latin-1 strings only), col 3 FORMULA + STRING; the first non-empty string also names sheet 2
fn workbook(c: &Case, variant: u64) -> (Workbook, Value, Option<String>) {
    let mut recs = Vec::new();
    let mut cells = Vec::new();
    let mut rmax = 0u64;
    let mut cmax = 0u64;
    let mut rmin = u64::MAX;
    for (i, t) in c.texts.iter().enumerate() {
        if t.is_empty() {
            continue;
        }
        let r = i as u16;
        rmin = rmin.min(i as u64);
        rmax = rmax.max(i as u64);
        recs.push(Rec::LabelSst { r, c: 0, xf: 0, isst: i as u32 });
        cells.push(json!([i, 0, ["s", t]]));
        let units: Vec<u16> = t.encode_utf16().collect();
        if units.len() <= 2000 {
            // inline strings must fit one record
            recs.push(Rec::Label { r, c: 1, xf: 0, s: XlStr { units: units.clone(), high: true } });
            cells.push(json!([i, 1, ["s", t]]));
            cmax = cmax.max(1);
            let latin = units.iter().all(|u| *u <= 0xFF);
            if latin {
                recs.push(Rec::Label { r, c: 2, xf: 0, s: XlStr { units: units.clone(), high: false } });
                cells.push(json!([i, 2, ["s", t]]));
                cmax = cmax.max(2);
            }
            let hi = !latin || (variant + i as u64) % 2 == 0;
            recs.push(Rec::Formula { r, c: 3, xf: 0, res: FRes::Str, shared: false });
            recs.push(Rec::StringRec { s: XlStr { units, high: hi } });
            cells.push(json!([i, 3, ["s", t]]));
            cmax = cmax.max(3);
        }
    }
    let expected = if cells.is_empty() { json!({"start": [], "end": [], "cells": []}) } else { json!({"start": [rmin, 0], "end": [rmax, cmax], "cells": cells}) };
    let mut wb = Workbook::default();
    // the CODEPAGE record does not govern BIFF8 strings: 1200 (what Excel writes), 1252, absent
    wb.codepage = match variant % 3 { 0 => Some(1200), 1 => Some(1252), _ => None };
    wb.sst = Sst::Frags(c.frags.clone());
    wb.sheets.push(Sheet { name: XlStr::new("Sheet1"), dims: None, recs });
    let mut second = None;
    if let Some(t) = c.texts.iter().find(|t| !t.is_empty() && t.encode_utf16().count() <= 31) {
        let units: Vec<u16> = t.encode_utf16().collect();
        let latin = units.iter().all(|u| *u <= 0xFF);
        let name = XlStr { units, high: !latin || variant % 2 == 0 };
        wb.sheets.push(Sheet { name, dims: None, recs: vec![Rec::Number { r: 0, c: 0, xf: 0, v: 1.0 }] });
        second = Some(t.clone());
    }
    (wb, expected, second)
}

fn observe_wb(file: &[u8]) -> Value {
    match catch(|| match Xls::new(Cursor::new(file.to_vec())) {
        Err(e) => json!({"err": e.to_string()}),
        Ok(mut x) => {
            let names = x.sheet_names();
            match x.worksheet_range("Sheet1") {
                Ok(r) => json!({"range": observe::range_json(&r), "sheets": names}),
                Err(e) => json!({"err": e.to_string()}),
            }
        }
    }) {
        Ok(v) => v,
        Err(p) => json!({ "panic": p }),
    }
}

pub fn replay(args: &Args) -> i32 {
    let mut rep = Report::new();
    let k = args.num("inflate", 1) as usize;
    let mut idx = 0u64;
    let mut maxfrag = 0usize;
    for b in read_ndjson(args.req("in")) {
        idx += 1;
        let c = match catch(|| case_of(&b, k)) {
            Ok(Ok(c)) => c,
            Ok(Err(e)) | Err(e) => {
                eprintln!("harness: behaviour {}: {}", idx, e);
                return 2;
            }
        };
        maxfrag = maxfrag.max(c.frags.iter().map(|f| f.len()).max().unwrap_or(0));
        let ncuts = b["cuts"].as_array().unwrap().iter().filter(|c| c["k"] != "begin").count();
        rep.case(&json!([b["frags"], k]), ncuts > 0);
        let (wb, expected, second) = workbook(&c, idx);
        let file = biff::xls_bytes(&wb);
        let obs = observe_wb(&file);
        let mut sheets = vec![json!("Sheet1")];
        if let Some(s) = &second {
            sheets.push(json!(s));
        }
        let ideal = json!({"range": expected, "sheets": sheets});
        if obs != ideal {
            // as-is prediction of the model (K = 1 only): the LABELSST column shows asis.sst
            let mut is_asis = false;
            if k == 1 {
                if let Some(a) = b["asis"].get("sst").and_then(|x| x.as_array()) {
                    let at: Vec<String> = a.iter().map(text_of).collect();
                    let c2 = Case { frags: c.frags.clone(), texts: c.texts.clone() };
                    let (_, mut e2, _) = workbook(&c2, idx);
                    // replace the LABELSST cells by the as-is strings
                    if let Some(cells) = e2["cells"].as_array_mut() {
                        for cell in cells.iter_mut() {
                            if cell[1] == json!(0) {
                                let i = cell[0].as_u64().unwrap() as usize;
                                cell[2] = json!(["s", at[i]]);
                            }
                        }
                    }
                    is_asis = obs["range"] == e2 && obs["sheets"] == ideal["sheets"];
                }
            } else {
                // inflated: the as-is reader turns a surrogate pair cut apart into two U+FFFD
                is_asis = b["dev"].as_array().map_or(false, |d| !d.is_empty()) && obs.get("range").is_some() && obs["sheets"] == ideal["sheets"];
            }
            let key = if b["headercut"] == json!(true) && b["dev"].as_array().map_or(true, |d| d.is_empty()) { "headercut".to_string() } else { mismatch_key(&b["dev"], is_asis) };
            let mut bb = b.clone();
            bb["inflate"] = json!(k);
            rep.fail(&key, &bb, ideal, obs);
        }
        if rep.evaluated % 2999 == 1 {
            rep.sample(json!({"frags": b["frags"], "ideal": b["ideal"], "inflate": k}));
        }
    }
    rep.extra.insert("max_fragment_bytes".into(), json!(maxfrag));
    rep.write(args.req("out"));
    0
}

// ------------------------------------------------------------------ drive
pub fn drive(args: &Args) -> i32 {
    let n = args.num("n", 10);
    let max_strings = args.num("strings", 500) as usize;
    let mut rng = StdRng::seed_from_u64(args.seed());
    let mut out = std::io::BufWriter::new(std::fs::File::create(args.req("out")).unwrap());
    let mut rep = Report::new();
    let mut total = 0u64;
    for run in 0..n {
        let ns = rng.gen_range(1..=max_strings);
        let limit = [40usize, 100, 700, biff::MAX_REC][rng.gen_range(0..4)];
        let mut strs = Vec::new();
        let mut cuts = Vec::new();
        for s in 0..ns {
            let cch = match rng.gen_range(0..12) {
                0 => 0,
                1..=7 => rng.gen_range(1..12),
                8..=10 => rng.gen_range(12..80),
                _ => rng.gen_range(80..600),
            };
            let mut units: Vec<u16> = Vec::new();
            let kind = rng.gen_range(0..4); // 0 ascii, 1 latin-1, 2 mixed BMP, 3 with astral
            while units.len() < cch {
                match (kind, rng.gen_range(0..6)) {
                    (0, _) => units.push(rng.gen_range(0x20..0x7F)),
                    (1, _) => units.push(rng.gen_range(0x20..0x100)),
                    (3, 0) if units.len() + 2 <= cch => {
                        units.push(0xD800 + rng.gen_range(0..0x400));
                        units.push(0xDC00 + rng.gen_range(0..0x400));
                    }
                    (_, 1) => units.push(rng.gen_range(0x20..0x100)),
                    _ => units.push(rng.gen_range(0x100..0xD800)),
                }
            }
            units.iter_mut().for_each(|u| {
                if *u == 0x7F || (*u >= 0x80 && *u < 0xA0) {
                    *u = 0x41
                }
            });
            let crun = [0usize, 0, 0, 1, 2, 7][rng.gen_range(0..6)];
            let cb = [0usize, 0, 0, 1, 5, 30][rng.gen_range(0..6)];
            // cut points: segments of rgb with legal storage
            let latin_from = |a: usize, b: usize, u: &Vec<u16>| u[a..b].iter().all(|x| *x <= 0xFF);
            let mut points: Vec<usize> = Vec::new();
            if units.len() > 1 {
                for _ in 0..[0, 0, 1, 2, 3][rng.gen_range(0..5)] {
                    points.push(rng.gen_range(1..units.len()));
                }
                points.sort();
                points.dedup();
            }
            let mut bounds = vec![0usize];
            bounds.extend(points.iter());
            bounds.push(units.len());
            let mut hi0 = true;
            for w in 0..bounds.len() - 1 {
                let latin = latin_from(bounds[w], bounds[w + 1], &units);
                let hi = !latin || rng.gen_bool(0.4);
                if w == 0 {
                    hi0 = hi;
                } else {
                    cuts.push(Cut::Rgb { s, at: bounds[w], hi });
                }
            }
            if rng.gen_bool(0.1) {
                cuts.push(Cut::Between { s });
            }
            if crun > 0 && rng.gen_bool(0.3) {
                cuts.push(Cut::Run { s, at: rng.gen_range(0..4 * crun) });
            }
            if cb > 0 && rng.gen_bool(0.3) {
                cuts.push(Cut::Ext { s, at: rng.gen_range(0..cb) });
            }
            strs.push(RichStr { units, crun, cb, hi0 });
        }
        // automatic cuts keep the storage of the running segment, which is legal only if the rest of
        // the segment is compressible; with 8-bit segments chosen for latin-1 stretches it is
        let frags = biff::sst_frags(&strs, &cuts, limit);
        total += ns as u64;
        let texts: Vec<String> = strs.iter().map(|s| String::from_utf16_lossy(&s.units)).collect();
        let mut recs = Vec::new();
        for (i, t) in texts.iter().enumerate() {
            if !t.is_empty() {
                recs.push(Rec::LabelSst { r: i as u16, c: 0, xf: 0, isst: i as u32 });
            }
        }
        let mut wb = Workbook::default();
        wb.codepage = match frags.len() % 3 { 0 => Some(1200), 1 => Some(1252), _ => None };
        wb.sst = Sst::Frags(frags.clone());
        wb.sheets.push(Sheet { name: XlStr::new("Sheet1"), dims: None, recs });
        let file = biff::xls_bytes(&wb);
        let mut f0 = frags.clone();
        f0[0] = f0[0][8..].to_vec();
        writeln!(out, "{}", json!({"e": "sst", "run": run, "n": ns, "frags": f0})).unwrap();
        let beh = json!({"run": run, "seed": args.seed(), "strings": ns, "fragments": frags.len(), "limit": limit});
        rep.case(&beh, frags.len() > 1);
        let res = catch(|| match Xls::new(Cursor::new(file.clone())) {
            Err(e) => Err(e.to_string()),
            Ok(mut x) => x.worksheet_range("Sheet1").map_err(|e| e.to_string()),
        });
        match res {
            Ok(Ok(range)) => {
                let mut got: Vec<Vec<u32>> = vec![Vec::new(); ns];
                let mut odd = Vec::new();
                if let Some(st) = range.start() {
                    for (ri, row) in range.rows().enumerate() {
                        for (ci, v) in row.iter().enumerate() {
                            let (r, c) = (st.0 as usize + ri, st.1 as usize + ci);
                            match v {
                                Data::Empty => {}
                                Data::String(s) if c == 0 && r < ns => got[r] = s.chars().map(|ch| ch as u32).collect(),
                                other => odd.push(json!([r, c, observe::data_json(other)])),
                            }
                        }
                    }
                }
                let want: Vec<Vec<u32>> = texts.iter().map(|t| t.chars().map(|c| c as u32).collect()).collect();
                if got != want || !odd.is_empty() {
                    let first = got.iter().zip(want.iter()).position(|(a, b)| a != b);
                    rep.fail("unexplained", &beh, json!({"first_wrong_string": null}), json!({"first_wrong_string": first, "unexpected_cells": odd}));
                }
                writeln!(out, "{}", json!({"e": "strings", "texts": got, "odd": odd.len()})).unwrap();
            }
            Ok(Err(e)) => {
                rep.fail("unexplained", &beh, json!("strings"), json!({ "err": e }));
                writeln!(out, "{}", json!({"e": "strings", "err": e})).unwrap();
            }
            Err(p) => {
                rep.fail("unexplained", &beh, json!("strings"), json!({ "panic": p }));
                writeln!(out, "{}", json!({"e": "strings", "panic": p})).unwrap();
            }
        }
    }
    rep.extra.insert("strings_written".into(), json!(total));
    if let Some(r) = args.get("report") {
        rep.write(r);
    }
    0
}
