//! C14 (stored-text formats): worksheet_formula of xlsx and ods against tla/fmla/StoredFormula.tla.
//! leg 1 (replay): every document TLC enumerated becomes a real .xlsx / .ods; the formula range is
//!   compared with the ideal BY ABSOLUTE POSITION (text at every formula cell, "" everywhere else in
//!   and around the returned range).
//! leg 2 (drive): random larger documents with formula texts drawn from realistic formulas; one
//!   event per document with the observed non-empty cells, validated by Trace_StoredFormula.
use crate::build::ods::{OdsCell, OdsDoc, OdsRow, OdsTable, OdsVal};
use crate::build::xlsx::build_xlsx;
use crate::common::*;
use calamine::{Ods, Range, Reader, Xlsx};
use rand::rngs::StdRng;
use rand::{Rng, SeedableRng};
use serde_json::{json, Value};
use std::collections::BTreeMap;
use std::io::{Cursor, Write};

fn class_char(c: &str) -> char {
    match c {
        "a" => 'A', "plus" => '+', "amp" => '&', "lt" => '<', "gt" => '>', "quot" => '"', "apos" => '\'', "sp" => ' ', "cjk" => '漢',
        o => panic!("harness: class {}", o),
    }
}
fn render_char(c: char, form: &str) -> String {
    match form {
        "lit" => c.to_string(),
        "named" => match c { '&' => "&amp;", '<' => "&lt;", '>' => "&gt;", '"' => "&quot;", '\'' => "&apos;", _ => panic!("harness: no named entity") }.to_string(),
        "dec" => format!("&#{};", c as u32),
        "hex" => format!("&#x{:X};", c as u32),
        "cdata" => format!("<![CDATA[{}]]>", c),
        o => panic!("harness: form {}", o),
    }
}
/// escape a plain string in the default way of the format (literal where XML allows it)
fn default_escape(s: &str, attr: bool) -> String {
    s.chars().map(|c| match c { '&' => "&amp;".to_string(), '<' => "&lt;".to_string(), '"' if attr => "&quot;".to_string(), o => o.to_string() }).collect()
}

/// cells: (pos, kind, physical formula text); builds one workbook with sheet S1
/// `implicit` (xlsx): leave the r attribute off every row / cell that sits at the implicit position
/// (previous + 1, first = 0), as the ECMA cursor rule allows
fn build(fmt: &str, cells: &[((u32, u32), String, String)], implicit: bool) -> Vec<u8> {
    let mut sorted: Vec<_> = cells.to_vec();
    sorted.sort_by_key(|c| c.0);
    if fmt == "xlsx" {
        let mut toks = Vec::new();
        let mut cur: Option<u32> = None;
        let mut next_col = 0u32;
        for (i, ((r, c), kind, raw)) in sorted.iter().enumerate() {
            if cur != Some(*r) {
                if cur.is_some() { toks.push(json!({"k": "rowend"})); }
                let next_row = cur.map_or(0, |x| x + 1);
                toks.push(if implicit && *r == next_row { json!({"k": "row"}) } else { json!({"k": "row", "r": r}) });
                cur = Some(*r);
                next_col = 0;
            }
            let mut t = if implicit && *c == next_col { json!({"k": "c"}) } else { json!({"k": "c", "r": [r, c]}) };
            next_col = c + 1;
            if kind != "val" { t["f_raw"] = json!(raw); }
            if kind != "fmlonly" {
                // cached values of different types: number, string (t="str" for a formula), boolean
                match i % 3 {
                    0 => { t["v"] = json!("7.5"); }
                    1 => { if kind == "val" { t["t"] = json!("inlineStr"); t["is"] = json!("x"); } else { t["t"] = json!("str"); t["v"] = json!("x"); } }
                    _ => { t["t"] = json!("b"); t["v"] = json!("1"); }
                }
            }
            toks.push(t);
        }
        if cur.is_some() { toks.push(json!({"k": "rowend"})); }
        build_xlsx(&json!({"styles": {"cellStyleXfs": [0], "cellXfs": [0]}, "sheets": [{"name": "S1", "file": "sheet1.xml", "tokens": toks}]}))
    } else {
        // rows / columns up to the last position, gaps as repeated empty cells / rows
        let mut rows: Vec<OdsRow> = Vec::new();
        let mut by_row: BTreeMap<u32, Vec<&((u32, u32), String, String)>> = BTreeMap::new();
        for c in &sorted { by_row.entry(c.0 .0).or_default().push(c); }
        let mut next_row = 0u32;
        for (r, cs) in by_row {
            if r > next_row { rows.push(OdsRow { repeat: r - next_row, explicit_repeat: false, cells: vec![OdsCell::empty(1)] }); }
            let mut cells_out = Vec::new();
            let mut next_col = 0u32;
            for (i, ((_, c), kind, raw)) in cs.iter().enumerate() {
                if *c > next_col { cells_out.push(OdsCell::empty(c - next_col)); }
                let val = if kind == "fmlonly" { OdsVal::None } else { match (i + r as usize) % 3 { 0 => OdsVal::Float("7.5".into()), 1 => OdsVal::Str { text: "x".into(), attr: false }, _ => OdsVal::Bool(true) } };
                let mut cell = OdsCell::value(val, 1);
                if kind != "val" { cell.formula_raw = Some(raw.clone()); }
                cells_out.push(cell);
                next_col = c + 1;
            }
            rows.push(OdsRow { repeat: 1, explicit_repeat: false, cells: cells_out });
            next_row = r + 1;
        }
        let mut doc = OdsDoc::default();
        doc.tables.push(OdsTable::new("S1", rows));
        doc.to_bytes(false)
    }
}

fn read(fmt: &str, bytes: Vec<u8>) -> Result<Range<String>, String> {
    if fmt == "xlsx" {
        let mut wb: Xlsx<_> = Xlsx::new(Cursor::new(bytes)).map_err(|e| format!("open: {}", e))?;
        wb.worksheet_formula("S1").map_err(|e| e.to_string())
    } else {
        let mut wb: Ods<_> = Ods::new(Cursor::new(bytes)).map_err(|e| format!("open: {}", e))?;
        wb.worksheet_formula("S1").map_err(|e| e.to_string())
    }
}

/// non-empty cells of the formula range by absolute position
fn observed(r: &Range<String>) -> BTreeMap<(u32, u32), String> {
    let s = r.start().unwrap_or((0, 0));
    r.used_cells().map(|(i, j, v)| ((s.0 + i as u32, s.1 + j as u32), v.clone())).collect()
}

pub fn replay(args: &Args) -> i32 {
    let mut rep = Report::new();
    for b in read_ndjson(args.req("in")) {
        let fmt = b["fmt"].as_str().unwrap();
        let mut cells = Vec::new();
        let mut want: BTreeMap<(u32, u32), String> = BTreeMap::new();
        let mut rich = false;
        for c in b["cells"].as_array().unwrap() {
            let pos = (c["p"][0].as_u64().unwrap() as u32, c["p"][1].as_u64().unwrap() as u32);
            let kind = c["kind"].as_str().unwrap().to_string();
            let chars = c["text"].as_array().cloned().unwrap_or_default();
            let raw: String = chars.iter().map(|ch| render_char(class_char(ch["c"].as_str().unwrap()), ch["e"].as_str().unwrap())).collect();
            if kind != "val" {
                want.insert(pos, chars.iter().map(|ch| class_char(ch["c"].as_str().unwrap())).collect());
                rich |= chars.iter().any(|ch| ch["e"] != "lit");
            }
            cells.push((pos, kind, raw));
        }
        rep.case(&b, rich || cells.len() > 1);
        // xlsx: every document in both reference styles (explicit everywhere / implicit where allowed)
        let implicit = fmt == "xlsx" && rep.evaluated % 2 == 0;
        match catch(|| read(fmt, build(fmt, &cells, implicit))) {
            Ok(Ok(r)) => {
                let got = observed(&r);
                if got != want {
                    rep.fail("unexplained", &b, json!(want.iter().map(|(k, v)| json!([k.0, k.1, v])).collect::<Vec<_>>()), json!(got.iter().map(|(k, v)| json!([k.0, k.1, v])).collect::<Vec<_>>()));
                } else if rep.evaluated % 4999 == 1 {
                    rep.sample(json!({"behaviour": b, "observed": got.iter().map(|(k, v)| json!([k.0, k.1, v])).collect::<Vec<_>>()}));
                }
            }
            Ok(Err(e)) => rep.fail("unexplained", &b, json!("readable"), json!({ "error": e })),
            Err(p) => rep.fail("unexplained", &b, json!("no panic"), json!({ "panic": p })),
        }
    }
    rep.write(args.req("out"));
    0
}

const XLSX_FORMULAS: [&str; 10] = ["A1+1", "SUM(A1:B2)", "A1&B1", "IF(A1<B1,\"x\",\"y\")", "IF(A1<>B1,\"a&b\",\"<>\")", "\"it's\"&A1", " A1 + 2 ", "CONCATENATE(\"漢\",\"é\")", "Sheet2!A1*2", "A1>=B1"];
const ODS_FORMULAS: [&str; 8] = ["of:=[.A1]+1", "of:=SUM([.A1:.B2])", "of:=[.A1]&[.B1]", "of:=IF([.A1]<[.B1];\"x\";\"y\")", "of:=IF([.A1]<>[.B1];\"a&b\";\"<>\")", "of:=\"it's\"&[.A1]", "of:=[$Sheet2.A1]*2", "of:=[.A1]>=[.B1]"];

pub fn drive(args: &Args) -> i32 {
    let n = args.num("n", 100);
    let mut rng = StdRng::seed_from_u64(args.seed() ^ 0xC14F);
    let mut out = std::io::BufWriter::new(std::fs::File::create(args.req("out")).unwrap());
    for run in 0..n {
        let fmt = if rng.gen_bool(0.5) { "xlsx" } else { "ods" };
        // a third of the documents start at A1, where implicit references apply
        let (r0, c0) = if rng.gen_bool(0.33) { (0, 0) } else { (rng.gen_range(0..300u32), rng.gen_range(0..40u32)) };
        let ncell = rng.gen_range(1..16usize);
        let mut all: Vec<(u32, u32)> = (0..10).flat_map(|r| (0..8).map(move |c| (r0 + r, c0 + c))).collect();
        for i in 0..ncell { let j = rng.gen_range(i..all.len()); all.swap(i, j); }
        let mut cells = Vec::new();
        let mut logged = Vec::new();
        for &pos in &all[..ncell] {
            let kind = ["val", "fml", "fml", "fmlonly"][rng.gen_range(0..4)];
            let text = if fmt == "xlsx" { XLSX_FORMULAS[rng.gen_range(0..XLSX_FORMULAS.len())] } else { ODS_FORMULAS[rng.gen_range(0..ODS_FORMULAS.len())] };
            cells.push((pos, kind.to_string(), default_escape(text, fmt == "ods")));
            logged.push(json!({"p": [pos.0, pos.1], "kind": kind, "text": if kind == "val" { "" } else { text }}));
        }
        let implicit = rng.gen_bool(0.5);
        let ev = match catch(|| read(fmt, build(fmt, &cells, implicit))) {
            Ok(Ok(r)) => json!({"e": "formulas", "run": run, "fmt": fmt, "cells": logged, "got": observed(&r).iter().map(|(k, v)| json!([k.0, k.1, v])).collect::<Vec<_>>()}),
            Ok(Err(e)) => json!({"e": "formulas", "run": run, "fmt": fmt, "cells": logged, "error": e}),
            Err(p) => json!({"e": "formulas", "run": run, "fmt": fmt, "cells": logged, "panic": p}),
        };
        writeln!(out, "{}", ev).unwrap();
    }
    0
}
