//! Streaming cell readers (XlsxCellReader, XlsbCellsReader) against tla/stream/CellStream.tla.
//! leg 1 (replay): every (format, document, call interleaving) TLC enumerated is played through
//! the real reader and each call's result compared with the model cursor.
//! leg 2 (drive): random larger documents and interleavings, one event per call, validated by
//! Trace_CellStream; plus the whole-read binding: from_sparse of the streamed cells equals
//! worksheet_range / worksheet_formula.
use crate::build::{xlsb, xlsx};
use crate::common::*;
use calamine::{Data, DataRef, Range, Reader, Xlsb, Xlsx};
use rand::rngs::StdRng;
use rand::{Rng, SeedableRng};
use serde_json::{json, Value};
use std::io::{Cursor, Write};

/// value of document cell k (1-based): type varies with k so that every cell kind is exercised
fn val_of(k: usize) -> Data {
    match k % 3 {
        0 => Data::Float(k as f64 + 0.25),
        1 => Data::String(format!("s{}", k)),
        _ => Data::Bool(k % 2 == 0),
    }
}
fn fml_text(k: usize) -> String {
    format!("{}+1", k)
}

pub fn build(fmt: &str, kinds: &[String], pos: &[(u32, u32)]) -> Vec<u8> {
    match fmt {
        "xlsx" => {
            let mut toks = Vec::new();
            let mut cur: Option<u32> = None;
            for (i, k) in kinds.iter().enumerate() {
                let (r, c) = pos[i];
                if cur != Some(r) {
                    if cur.is_some() { toks.push(json!({"k": "rowend"})); }
                    toks.push(json!({"k": "row", "r": r}));
                    cur = Some(r);
                }
                let mut t = json!({"k": "c", "r": [r, c]});
                if k != "blank" {
                    match val_of(i + 1) {
                        Data::Float(f) => { t["v"] = json!(format!("{}", f)); }
                        Data::String(s) => { if k == "fml" { t["t"] = json!("str"); t["v"] = json!(s); } else { t["t"] = json!("inlineStr"); t["is"] = json!(s); } }
                        Data::Bool(b) => { t["t"] = json!("b"); t["v"] = json!(if b { "1" } else { "0" }); }
                        _ => unreachable!(),
                    }
                }
                if k == "fml" { t["f"] = json!(fml_text(i + 1)); }
                toks.push(t);
            }
            if cur.is_some() { toks.push(json!({"k": "rowend"})); }
            xlsx::build_xlsx(&json!({"styles": {"cellStyleXfs": [0], "cellXfs": [0]}, "sheets": [{"name": "S1", "file": "sheet1.xml", "tokens": toks}]}))
        }
        "xlsb" => {
            let mut body = Vec::new();
            let mut cur: Option<u32> = None;
            let (mut r0, mut r1, mut c0, mut c1) = (u32::MAX, 0, u32::MAX, 0);
            for (r, c) in pos { r0 = r0.min(*r); r1 = r1.max(*r); c0 = c0.min(*c); c1 = c1.max(*c); }
            if pos.is_empty() { r0 = 0; c0 = 0; }
            for (i, k) in kinds.iter().enumerate() {
                let (r, c) = pos[i];
                if cur != Some(r) { body.push(xlsb::row_hdr(r, c0, c1)); cur = Some(r); }
                let n = (i + 1) as u16;
                // rgce: PtgInt k, PtgInt 1, PtgAdd  ->  "k+1"
                let rgce = [0x1E, n as u8, (n >> 8) as u8, 0x1E, 1, 0, 0x03];
                let cv = match (k.as_str(), val_of(i + 1)) {
                    ("blank", _) => xlsb::CellVal::Blank,
                    ("val", Data::Float(f)) => xlsb::CellVal::Real(f),
                    ("val", Data::String(s)) => xlsb::CellVal::St(s),
                    ("val", Data::Bool(b)) => xlsb::CellVal::Bool(b),
                    ("fml", Data::Float(f)) => xlsb::CellVal::FmlaNum(f),
                    ("fml", Data::String(s)) => xlsb::CellVal::FmlaString(s),
                    ("fml", Data::Bool(b)) => xlsb::CellVal::FmlaBool(b),
                    _ => unreachable!(),
                };
                body.push(xlsb::cell_record(c, 0, &cv, &rgce));
            }
            let mut book = xlsb::XlsbBook::default();
            book.sheets.push(xlsb::XlsbSheet { name: "S1".into(), state: 0, stream: xlsb::sheet_stream(&xlsb::Preamble::default(), (r0, r1, c0, c1), &body) });
            book.to_bytes(false)
        }
        f => panic!("harness: stream format {}", f),
    }
}

/// result of one call, projected onto the model's vocabulary:
/// ["none"] | ["err", msg] | ["cell", k, shown] with k the 1-based document index of the returned
/// position (0: a position the document does not have) and shown = "Empty" | "nofmla" | id | "other"
fn project_cell(pos: (u32, u32), v: &DataRef, kinds: &[String], poss: &[(u32, u32)]) -> Value {
    let k = poss.iter().position(|p| *p == pos).map_or(0, |i| i + 1);
    let d: Data = v.clone().into();
    let shown = if d == Data::Empty { "Empty".to_string() }
        else if k > 0 && kinds[k - 1] != "blank" && d == val_of(k) { k.to_string() }
        else { "other".to_string() };
    json!(["cell", k, shown])
}
fn project_formula(pos: (u32, u32), f: &str, kinds: &[String], poss: &[(u32, u32)]) -> Value {
    let k = poss.iter().position(|p| *p == pos).map_or(0, |i| i + 1);
    let shown = if f.is_empty() { "nofmla".to_string() }
        else if k > 0 && kinds[k - 1] == "fml" && f == fml_text(k) { k.to_string() }
        else { "other".to_string() };
    json!(["cell", k, shown])
}

/// plays `calls` on a fresh reader over the document; returns one projected result per call
pub fn play(fmt: &str, kinds: &[String], poss: &[(u32, u32)], calls: &[String]) -> Result<Vec<Value>, String> {
    let bytes = build(fmt, kinds, poss);
    let mut out = Vec::new();
    macro_rules! go {
        ($wb:expr) => {{
            let mut rd = $wb.worksheet_cells_reader("S1").map_err(|e| format!("reader: {}", e))?;
            for c in calls {
                let r = if c == "cell" {
                    match rd.next_cell() { Ok(None) => json!(["none"]), Ok(Some(cell)) => project_cell(cell.get_position(), cell.get_value(), kinds, poss), Err(e) => json!(["err", e.to_string()]) }
                } else {
                    match rd.next_formula() { Ok(None) => json!(["none"]), Ok(Some(cell)) => project_formula(cell.get_position(), cell.get_value(), kinds, poss), Err(e) => json!(["err", e.to_string()]) }
                };
                out.push(r);
            }
        }};
    }
    if fmt == "xlsx" {
        let mut wb: Xlsx<_> = Xlsx::new(Cursor::new(bytes)).map_err(|e| format!("open: {}", e))?;
        go!(wb);
    } else {
        let mut wb: Xlsb<_> = Xlsb::new(Cursor::new(bytes)).map_err(|e| format!("open: {}", e))?;
        go!(wb);
    }
    Ok(out)
}

fn grid_positions(n: usize) -> Vec<(u32, u32)> {
    // 3 columns, consecutive: rows change, so row headers / <row> elements take part
    (0..n).map(|i| ((i / 3) as u32 * 2 + 1, (i % 3) as u32 + 1)).collect()
}

pub fn replay(args: &Args) -> i32 {
    let mut rep = Report::new();
    for b in read_ndjson(args.req("in")) {
        let fmt = b["fmt"].as_str().unwrap();
        let kinds: Vec<String> = b["doc"].as_array().unwrap().iter().map(|x| x.as_str().unwrap().to_string()).collect();
        // calls: [{call, res, post}] -- res is what the specification's cursor returns, post marks
        // calls after the end of data, where None and an error are both allowed
        let steps = b["calls"].as_array().unwrap();
        let calls: Vec<String> = steps.iter().map(|x| x["call"].as_str().unwrap().to_string()).collect();
        rep.case(&b, !kinds.is_empty());
        let poss = grid_positions(kinds.len());
        let want: Vec<Value> = steps.iter().map(|x| if x["post"] == true { json!(["post-end"]) } else { x["res"].clone() }).collect();
        match catch(|| play(fmt, &kinds, &poss, &calls)) {
            Ok(Ok(got)) => {
                let ok = got.len() == want.len() && got.iter().zip(&want).all(|(g, w)| if w[0] == "post-end" { g[0] == "none" || g[0] == "err" } else { g == w });
                if !ok { rep.fail("stream", &b, json!(want), json!(got)); }
                else if rep.evaluated % 997 == 1 { rep.sample(json!({"behaviour": b, "observed": got})); }
            }
            Ok(Err(e)) => rep.fail("stream:error", &b, json!(want), json!(e)),
            Err(p) => rep.fail("stream:panic", &b, json!(want), json!(p)),
        }
    }
    rep.write(args.req("out"));
    0
}

pub fn drive(args: &Args) -> i32 {
    let n = args.num("n", 150);
    let mut rng = StdRng::seed_from_u64(args.seed() ^ 0x57E4);
    let mut out = std::io::BufWriter::new(std::fs::File::create(args.req("out")).unwrap());
    for run in 0..n {
        let fmt = if rng.gen_bool(0.5) { "xlsx" } else { "xlsb" };
        let ncell = rng.gen_range(0..14usize);
        let kinds: Vec<String> = (0..ncell).map(|_| ["blank", "val", "fml"][rng.gen_range(0..3)].to_string()).collect();
        // sorted distinct positions in a 12 x 6 box anywhere in the first 200 rows
        let (r0, c0) = (rng.gen_range(0..200u32), rng.gen_range(0..20u32));
        let mut all: Vec<(u32, u32)> = (0..12).flat_map(|r| (0..6).map(move |c| (r0 + r, c0 + c))).collect();
        for i in 0..ncell { let j = rng.gen_range(i..all.len()); all.swap(i, j); }
        let mut poss: Vec<(u32, u32)> = all[..ncell].to_vec();
        poss.sort();
        let ncalls = rng.gen_range(1..ncell + 4);
        let style = rng.gen_range(0..4);
        let calls: Vec<String> = (0..ncalls).map(|_| match style { 0 => "cell", 1 => "formula", _ => if rng.gen_bool(0.5) { "cell" } else { "formula" } }.to_string()).collect();
        writeln!(out, "{}", json!({"e": "open", "run": run, "fmt": fmt, "doc": kinds})).unwrap();
        match catch(|| play(fmt, &kinds, &poss, &calls)) {
            Ok(Ok(got)) => {
                for (c, g) in calls.iter().zip(&got) {
                    writeln!(out, "{}", json!({"e": "call", "run": run, "call": c, "res": g[0], "k": g.get(1).cloned().unwrap_or(json!(0)), "shown": g.get(2).cloned().unwrap_or(json!(""))})).unwrap();
                }
            }
            Ok(Err(e)) => writeln!(out, "{}", json!({"e": "call", "run": run, "call": "open", "res": "fail", "k": 0, "shown": e})).unwrap(),
            Err(p) => writeln!(out, "{}", json!({"e": "call", "run": run, "call": "open", "res": "panic", "k": 0, "shown": p})).unwrap(),
        }
        // whole-read binding: the public whole-sheet reads are the stream run to its end
        let whole = catch(|| whole_agrees(fmt, &kinds, &poss));
        let (ok, detail) = match whole { Ok(Ok(())) => (true, String::new()), Ok(Err(e)) => (false, e), Err(p) => (false, p) };
        writeln!(out, "{}", json!({"e": "whole", "run": run, "ok": ok, "detail": detail})).unwrap();
    }
    0
}

fn whole_agrees(fmt: &str, kinds: &[String], poss: &[(u32, u32)]) -> Result<(), String> {
    let bytes = build(fmt, kinds, poss);
    let (range, formulas): (Range<Data>, Range<String>) = if fmt == "xlsx" {
        let mut wb: Xlsx<_> = Xlsx::new(Cursor::new(bytes)).map_err(|e| e.to_string())?;
        (wb.worksheet_range("S1").map_err(|e| e.to_string())?, wb.worksheet_formula("S1").map_err(|e| e.to_string())?)
    } else {
        let mut wb: Xlsb<_> = Xlsb::new(Cursor::new(bytes)).map_err(|e| e.to_string())?;
        (wb.worksheet_range("S1").map_err(|e| e.to_string())?, wb.worksheet_formula("S1").map_err(|e| e.to_string())?)
    };
    // expected from the document itself
    let vals: Vec<((u32, u32), Data)> = kinds.iter().enumerate().filter(|(_, k)| *k != "blank").map(|(i, _)| (poss[i], val_of(i + 1))).collect();
    let fmls: Vec<((u32, u32), String)> = kinds.iter().enumerate().filter(|(_, k)| *k == "fml").map(|(i, _)| (poss[i], fml_text(i + 1))).collect();
    let got_vals: Vec<((u32, u32), Data)> = range.used_cells().map(|(r, c, v)| { let s = range.start().unwrap(); ((s.0 + r as u32, s.1 + c as u32), v.clone()) }).collect();
    let got_fmls: Vec<((u32, u32), String)> = formulas.used_cells().map(|(r, c, v)| { let s = formulas.start().unwrap(); ((s.0 + r as u32, s.1 + c as u32), v.clone()) }).collect();
    if got_vals != vals { return Err(format!("worksheet_range cells {:?} != document {:?}", got_vals, vals)); }
    if got_fmls != fmls { return Err(format!("worksheet_formula cells {:?} != document {:?}", got_fmls, fmls)); }
    Ok(())
}
