//! C18 — VBA modules byte-exact.
//!  replay ovba     : containers (token lists per chunk) from MC_Ovba -> compress -> window
//!                    decompress_stream (and as the single module of a project) = the periodic source
//!  replay vbadir   : project descriptors from MC_VbaDir -> dir stream + module streams in a compound
//!                    file, bare / inside xlsm / xlsb / xls -> vba_project(): names, raw, text, references
//!  drive  ovba     : greedy / random tokenisations of larger sources, logged for Trace_Ovba
use crate::build::vba::*;
use crate::build::{biff, cfb, xlsb};
use crate::common::*;
use calamine::vba::VbaProject;
use calamine::{Reader, Xls, Xlsb, Xlsx};
use rand::rngs::StdRng;
use rand::{Rng, SeedableRng};
use serde_json::{json, Value};
use std::io::{Cursor, Write};

fn expected_source(period: usize, chunks: &[Value]) -> Vec<u8> {
    let mut v = Vec::new();
    for c in chunks {
        v.extend_from_slice(&chunk_source(period, c["len"].as_u64().unwrap() as usize));
    }
    v
}

pub fn replay_ovba(args: &Args) -> i32 {
    let mut rep = Report::new();
    for b in read_ndjson(args.req("in")) {
        let period = b["period"].as_u64().unwrap() as usize;
        let chunks = b["chunks"].as_array().unwrap();
        rep.case(&b["chunks"], chunks.len() > 1 || b["chunks"].to_string().contains("copy"));
        let want = expected_source(period, chunks);
        let comp = compress_chunks(period, chunks);
        let got = catch(|| calamine::verif::decompress_stream(&comp));
        let ok = matches!(&got, Ok(Ok(v)) if *v == want);
        if !ok {
            let key = if b["pinned_deviates"] == json!(true) { "feature:flag-group-complete-at-chunk-end" } else { "unexplained" };
            let obs = match got { Ok(Ok(v)) => json!({"len": v.len(), "first_diff": v.iter().zip(want.iter()).position(|(a, b)| a != b)}), Ok(Err(e)) => json!({"error": e}), Err(p) => json!({"panic": p}) };
            rep.fail(key, &b, json!({"len": want.len()}), obs);
            continue;
        }
        // every 7th container also travels as the module of a real project
        if rep.evaluated % 7 == 0 {
            let p = ProjectDesc { compat: false, codepage: 1252, refs: vec![], modules: vec![ModuleDesc { name: b"Module1".to_vec(), name_unicode: "Module1".into(), stream: "Module1".into(), offset: 0, class: false, readonly: false, private: false }] };
            let bytes = project_cfb(&p, &[comp.clone()]);
            let r = catch(|| -> Result<Vec<u8>, String> {
                let v = VbaProject::new(&mut Cursor::new(bytes.clone()), bytes.len()).map_err(|e| e.to_string())?;
                v.get_module_raw("Module1").map(|x| x.to_vec()).map_err(|e| e.to_string())
            });
            if !matches!(&r, Ok(Ok(v)) if *v == want) {
                rep.fail("unexplained", &b, json!({"len": want.len()}), json!({"via": "VbaProject", "result": format!("{:?}", r.map(|x| x.map(|v| v.len())))}));
            }
        }
        if rep.evaluated % 997 == 1 { rep.sample(json!({"chunks": b["chunks"], "decompressed_len": want.len()})); }
    }
    rep.write(args.req("out"));
    0
}

fn local_name(cp: u64) -> (&'static str, Vec<u8>) {
    match cp {
        1251 => ("Модуль", encoding_rs::WINDOWS_1251.encode("Модуль").0.to_vec()),
        932 => ("モジュール", encoding_rs::SHIFT_JIS.encode("モジュール").0.to_vec()),
        _ => ("Modé", encoding_rs::WINDOWS_1252.encode("Modé").0.to_vec()),
    }
}

fn host_project(host: &str, streams: &[(String, Vec<u8>)]) -> Result<VbaProject, String> {
    let as_slices = |prefix: &str| -> Vec<(String, Vec<u8>)> { streams.iter().map(|(n, b)| (format!("{}{}", prefix, n), b.clone())).collect() };
    match host {
        "bin" => {
            let s = as_slices("");
            let v: Vec<(&str, &[u8])> = s.iter().map(|(n, b)| (n.as_str(), b.as_slice())).collect();
            let bytes = cfb::simple_cfb(&v);
            VbaProject::new(&mut Cursor::new(bytes.clone()), bytes.len()).map_err(|e| e.to_string())
        }
        "xlsm" | "xlsb" => {
            let s = as_slices("");
            let v: Vec<(&str, &[u8])> = s.iter().map(|(n, b)| (n.as_str(), b.as_slice())).collect();
            let bin = cfb::simple_cfb(&v);
            let sheets = vec![crate::build::simple::SSheet::new("S1", vec![((0, 0), crate::build::simple::SVal::Num(1.0))])];
            let base = crate::build::simple::build(if host == "xlsm" { "xlsx" } else { "xlsb" }, &sheets);
            let mut z = zip::ZipArchive::new(Cursor::new(base)).map_err(|e| e.to_string())?;
            let mut parts = Vec::new();
            for i in 0..z.len() {
                use std::io::Read;
                let mut f = z.by_index(i).map_err(|e| e.to_string())?;
                let mut b = Vec::new();
                f.read_to_end(&mut b).map_err(|e| e.to_string())?;
                parts.push((f.name().to_string(), b));
            }
            parts.push(("xl/vbaProject.bin".to_string(), bin));
            let bytes = crate::build::zipw::zip_bytes(&parts, true);
            let r = if host == "xlsm" {
                let mut wb: Xlsx<_> = Xlsx::new(Cursor::new(bytes)).map_err(|e| e.to_string())?;
                wb.vba_project().map(|r| r.map(|c| c.into_owned()).map_err(|e| e.to_string()))
            } else {
                let mut wb: Xlsb<_> = Xlsb::new(Cursor::new(bytes)).map_err(|e| e.to_string())?;
                wb.vba_project().map(|r| r.map(|c| c.into_owned()).map_err(|e| e.to_string()))
            };
            r.unwrap_or_else(|| Err("vba_project() = None".into()))
        }
        _ => {
            let mut wb = biff::Workbook::default();
            wb.sheets.push(biff::Sheet { name: biff::XlStr::new("S1"), dims: None, recs: vec![biff::Rec::Number { r: 0, c: 0, xf: 0, v: 1.0 }] });
            let wbs = biff::workbook_stream(&wb);
            let mut s = vec![("Workbook".to_string(), wbs)];
            s.extend(as_slices("_VBA_PROJECT_CUR/"));
            let v: Vec<(&str, &[u8])> = s.iter().map(|(n, b)| (n.as_str(), b.as_slice())).collect();
            let bytes = cfb::simple_cfb(&v);
            let mut x: Xls<_> = Xls::new(Cursor::new(bytes)).map_err(|e| e.to_string())?;
            let r = x.vba_project().map(|r| r.map(|c| c.into_owned()).map_err(|e| e.to_string()));
            r.unwrap_or_else(|| Err("vba_project() = None".into()))
        }
    }
}

/// module sources that begin like a byte-order mark (EF BB BF, FF FE, FE FF): in a code-page project they
/// are ordinary characters -- the text is the content decoded with the project's code page, no sniffing
fn bom_like_sources(rep: &mut Report) {
    for (cp, enc) in [(1252u16, encoding_rs::WINDOWS_1252), (1251, encoding_rs::WINDOWS_1251)] {
        for head in [&[0xEFu8, 0xBB, 0xBF][..], &[0xFF, 0xFE][..], &[0xFE, 0xFF][..]] {
            let mut src = head.to_vec();
            src.extend_from_slice(b"Sub A()\r\nEnd Sub\r\n");
            let b = json!({"case": "bom-like module source", "cp": cp, "head": head});
            rep.case(&b, true);
            let desc = ProjectDesc { compat: false, codepage: cp, refs: vec![], modules: vec![ModuleDesc { name: b"Module1".to_vec(), name_unicode: "Module1".into(), stream: "Mod1".into(), offset: 0, class: false, readonly: false, private: false }] };
            let streams = project_streams(&desc, &[compress_literal(&src)]);
            let want = enc.decode_without_bom_handling(&src).0.to_string();
            let got = catch(|| -> Result<(Vec<u8>, String), String> {
                let v = host_project("bin", &streams)?;
                Ok((v.get_module_raw("Module1").map_err(|e| e.to_string())?.to_vec(), v.get_module("Module1").map_err(|e| e.to_string())?))
            });
            match got {
                Ok(Ok((raw, text))) if raw == src && text == want => {}
                other => rep.fail("unexplained", &b, json!({"raw": src, "text": want}), json!(format!("{:?}", other))),
            }
        }
    }
}

/// the LIBIDs of tla/vba/VbaDir.tla (X07)
fn libid_of(id: &str) -> Vec<u8> {
    match id {
        "std" => crate::build::vba::STD_LIBID.to_vec(),
        "other" => b"*\\G{11111111-2222-3333-4444-555555555555}#1.0#0#D:\\lib\\other.dll#Other Lib".to_vec(),
        "nopath" => b"*\\G{00020430-0000-0000-C000-000000000046}#2.0#0##Desc Only".to_vec(),
        "hashhash" => b"*\\G{00020430-0000-0000-C000-000000000046}#2.0#0##".to_vec(),
        "empty" => Vec::new(),
        o => panic!("harness: libid {}", o),
    }
}

pub fn replay_vbadir(args: &Args) -> i32 {
    let refs_detail = args.num("refs_detail", 0) == 1;
    let mut rep = Report::new();
    let _ = xlsb::PTG_INT_1;
    bom_like_sources(&mut rep);
    for b in read_ndjson(args.req("in")) {
        let d = &b["d"];
        rep.case(d, !d["modules"].as_array().unwrap().is_empty());
        let cp = d["cp"].as_u64().unwrap();
        let mods = d["modules"].as_array().unwrap();
        let mut desc = ProjectDesc { compat: d["compat"].as_bool().unwrap(), codepage: cp as u16, refs: vec![], modules: vec![] };
        for r in d["refs"].as_array().unwrap() {
            let n = r["name"].as_str().unwrap();
            let libs: Vec<Vec<u8>> = r["libs"].as_array().map_or(vec![], |l| l.iter().map(|x| libid_of(x.as_str().unwrap())).collect());
            desc.refs.push(RefDesc { kind: r["kind"].as_str().unwrap().into(), name: n.as_bytes().to_vec(), name_unicode: n.into(), libs });
        }
        let mut containers = Vec::new();
        let mut want_names: Vec<String> = Vec::new();
        let mut want_raw: Vec<Vec<u8>> = Vec::new();
        for (i, m) in mods.iter().enumerate() {
            let (uni, enc): (String, Vec<u8>) = if m["name"] == "local" { let (u, e) = local_name(cp); (u.to_string(), e) } else { let n = m["name"].as_str().unwrap(); (n.to_string(), n.as_bytes().to_vec()) };
            desc.modules.push(ModuleDesc { name: enc, name_unicode: uni.clone(), stream: format!("Mod{}", i + 1), offset: m["offset"].as_u64().unwrap() as u32,
                class: m["class"].as_bool().unwrap(), readonly: m["readonly"].as_bool().unwrap(), private: m["private"].as_bool().unwrap() });
            let chunks = b["chunks"][i].as_array().unwrap();
            containers.push(compress_chunks(3, chunks));
            want_names.push(uni);
            want_raw.push(expected_source(3, chunks));
        }
        let streams = project_streams(&desc, &containers);
        let res = catch(|| -> Result<(), String> {
            let v = host_project(d["host"].as_str().unwrap(), &streams)?;
            let mut got: Vec<String> = v.get_module_names().iter().map(|s| s.to_string()).collect();
            got.sort();
            let mut want = want_names.clone();
            want.sort();
            if got != want { return Err(format!("module names {:?}, expected {:?}", got, want)); }
            for (n, raw) in want_names.iter().zip(want_raw.iter()) {
                let r = v.get_module_raw(n).map_err(|e| e.to_string())?;
                if r != &raw[..] { return Err(format!("raw content of {} differs (len {} vs {})", n, r.len(), raw.len())); }
                let t = v.get_module(n).map_err(|e| e.to_string())?;
                // the text is the raw content decoded with the project's code page
                let enc = match cp { 1251 => encoding_rs::WINDOWS_1251, 932 => encoding_rs::SHIFT_JIS, _ => encoding_rs::WINDOWS_1252 };
                let want_text = enc.decode_without_bom_handling(raw).0;
                if t != want_text { return Err(format!("text of {} differs from its content decoded with code page {}", n, cp)); }
            }
            if v.get_module_raw("nope").is_ok() { return Err("unknown module found".into()); }
            let refs: Vec<String> = v.get_references().iter().map(|r| r.name.clone()).collect();
            let want_refs: Vec<String> = b["refs"].as_array().unwrap().iter().map(|x| x.as_str().unwrap().to_string()).collect();
            if refs != want_refs { return Err(format!("references {:?}, expected {:?}", refs, want_refs)); }
            // X07 (`--refs_detail 1`): description and path of every reference
            if refs_detail {
                let got: Vec<Value> = v.get_references().iter().map(|r| json!({"name": r.name, "desc": r.description, "path": r.path.to_string_lossy()})).collect();
                if json!(got) != b["refdetail"] { return Err(format!("refs-detail: {} expected {}", json!(got), b["refdetail"])); }
            }
            Ok(())
        });
        match res {
            Ok(Ok(())) => { if rep.evaluated % 997 == 1 { rep.sample(json!({"project": d})); } }
            Ok(Err(m)) => {
                let key = if m.starts_with("refs-detail") { "refs-detail" } else if b.to_string().contains("grp8") && m.contains("raw content") || m.contains("Invalid") { "feature:flag-group-complete-at-chunk-end" } else { "unexplained" };
                rep.fail(key, &b, json!({"modules": want_names, "lens": b["lens"]}), json!({ "mismatch": m }))
            }
            Err(p) => rep.fail("unexplained", &b, json!({"modules": want_names}), json!({ "panic": p })),
        }
    }
    rep.write(args.req("out"));
    0
}

/// greedy / random tokenisation of a periodic source of `total` bytes (several chunks)
pub fn drive(args: &Args) -> i32 {
    let n = args.num("n", 60);
    let mut rng = StdRng::seed_from_u64(args.seed() ^ 0xC18);
    let mut out = std::io::BufWriter::new(std::fs::File::create(args.req("out")).unwrap());
    for run in 0..n {
        let period = [1usize, 2, 3][rng.gen_range(0..3)];
        let nch = rng.gen_range(1..=5usize);
        let mut chunks: Vec<Value> = Vec::new();
        for ci in 0..nch {
            let len = if ci + 1 < nch { 4096 } else { [1usize, 2, 17, 4095, 4096][rng.gen_range(0..5)].max(1) };
            if len == 4096 && rng.gen_bool(0.15) {
                chunks.push(json!({"raw": true, "toks": [], "len": 4096}));
                continue;
            }
            // 0 literal-only (only for chunks whose literals + flag bytes fit the 12-bit size field), 1 greedy, 2 random
            let style = if len > 3500 { rng.gen_range(1..3) } else { rng.gen_range(0..3) };
            let mut toks: Vec<Value> = Vec::new();
            let mut pos = 0usize;
            while pos < len {
                let rem = len - pos;
                let can_copy = pos >= period && rem >= 3 && style != 0;
                if can_copy && (style == 1 || rng.gen_bool(0.5)) {
                    let maxlen = ((0xFFFFusize >> bit_count(pos)) + 3).min(rem);
                    let maxmult = (pos / period) * period;
                    let off = if style == 1 || rng.gen_bool(0.5) { period } else { period * rng.gen_range(1..=(maxmult / period)) };
                    let l = if style == 1 { maxlen } else { rng.gen_range(3..=maxlen) };
                    toks.push(json!({"k": "copy", "off": off, "len": l}));
                    pos += l;
                } else {
                    let k = if style == 0 { rem } else { rng.gen_range(1..=rem.min(20)) };
                    toks.push(json!({"k": "lit", "n": k}));
                    pos += k;
                }
            }
            chunks.push(json!({"raw": false, "toks": toks, "len": len}));
        }
        let comp = compress_chunks(period, &chunks);
        let want = expected_source(period, &chunks);
        let got = catch(|| calamine::verif::decompress_stream(&comp));
        let (olen, same) = match &got { Ok(Ok(v)) => (v.len() as i64, *v == want), _ => (-1, false) };
        // compact event: per chunk the numbers Trace_Ovba needs
        let cs: Vec<Value> = chunks.iter().map(|c| {
            let toks = c["toks"].as_array().unwrap();
            let ntok: u64 = toks.iter().map(|t| if t["k"] == "lit" { t["n"].as_u64().unwrap() } else { 1 }).sum();
            let tb: u64 = toks.iter().map(|t| if t["k"] == "lit" { t["n"].as_u64().unwrap() } else { 2 }).sum();
            let ol: u64 = toks.iter().map(|t| if t["k"] == "lit" { t["n"].as_u64().unwrap() } else { t["len"].as_u64().unwrap() }).sum();
            json!({"raw": c["raw"], "ntok": ntok, "tokbytes": tb, "outlen": ol, "len": c["len"]})
        }).collect();
        writeln!(out, "{}", json!({"e": "container", "run": run, "period": period, "chunks": cs, "compressed_len": comp.len(), "out_len": olen, "bytes_equal_source": same})).unwrap();
    }
    0
}
