//! C17 (xls) — MERGECELLS records -> Xls::worksheet_merge_cells(_at).
use crate::build::biff;
use crate::common::*;
use calamine::{Reader, Xls};
use serde_json::{json, Value};
use std::io::Cursor;

fn region(k: &str) -> [u16; 4] {
    match k { "cell" => [1, 1, 1, 1], "area" => [0, 2, 0, 2], "row" => [5, 5, 0, 255], "col" => [0, 65535, 26, 27], _ => [65534, 65535, 254, 255] }
}

fn sheet(name: &str, recs: &Value) -> biff::Sheet {
    let mut out = vec![biff::Rec::Number { r: 0, c: 0, xf: 0, v: 1.0 }];
    for (i, rec) in recs.as_array().unwrap().iter().enumerate() {
        let ks = rec.as_array().unwrap();
        let mut d = (ks.len() as u16).to_le_bytes().to_vec();
        for k in ks {
            for v in region(k.as_str().unwrap()) { d.extend_from_slice(&v.to_le_bytes()); }
        }
        out.push(biff::Rec::Raw { typ: 0x00E5, data: d });
        if i % 2 == 0 {
            out.push(biff::Rec::Unknown { typ: 0x0099, len: 2 }); // an unrelated record between two MERGECELLS records
        }
    }
    biff::Sheet { name: biff::XlStr::new(name), dims: None, recs: out }
}

pub fn replay(args: &Args) -> i32 {
    let mut rep = Report::new();
    for b in read_ndjson(args.req("in")) {
        rep.case(&json!([b["s1"], b["s2"]]), b["s1"].as_array().unwrap().len() + b["s2"].as_array().unwrap().len() > 0);
        let mut wb = biff::Workbook::default();
        // workbook order differs from alphabetical order
        wb.sheets.push(sheet("Zulu", &b["s1"]));
        wb.sheets.push(sheet("Alpha", &b["s2"]));
        let bytes = biff::xls_bytes(&wb);
        let got = catch(|| -> Result<Value, String> {
            let mut x: Xls<_> = Xls::new(Cursor::new(bytes)).map_err(|e| format!("open: {}", e))?;
            let f = |v: Option<Vec<calamine::Dimensions>>| v.map(|v| json!(v.iter().map(|d| json!([d.start.0, d.end.0, d.start.1, d.end.1])).collect::<Vec<_>>()));
            let a1 = f(x.worksheet_merge_cells("Zulu"));
            let a2 = f(x.worksheet_merge_cells("Alpha"));
            let b1 = x.worksheet_merge_cells_at(0).map(|v| json!(v.iter().map(|d| json!([d.start.0, d.end.0, d.start.1, d.end.1])).collect::<Vec<_>>()));
            let b2 = x.worksheet_merge_cells_at(1).map(|v| json!(v.iter().map(|d| json!([d.start.0, d.end.0, d.start.1, d.end.1])).collect::<Vec<_>>()));
            if a1 != b1 || a2 != b2 { return Err("worksheet_merge_cells_at differs from worksheet_merge_cells".into()); }
            if x.worksheet_merge_cells("nope").is_some() { return Err("merge cells for an unknown sheet".into()); }
            Ok(json!([a1, a2]))
        });
        let want = json!([b["ideal1"], b["ideal2"]]);
        match got {
            Ok(Ok(v)) if v == want => { if rep.evaluated % 499 == 1 { rep.sample(json!({"s1": b["s1"], "s2": b["s2"], "reported": v})); } }
            other => rep.fail("unexplained", &b, want, json!(format!("{:?}", other))),
        }
    }
    rep.write(args.req("out"));
    0
}
