//! C03 — XLSB cell records under the current BrtRowHdr.
//! replay : every cell table printed by MC_XlsbSheet is materialised into a real .xlsb
//!          (build/xlsb.rs), opened with calamine::Xlsb, and `worksheet_range` and
//!          `worksheet_range_ref` are compared with the ideal computed by the specification.
//! frames : every (id, len, header bytes) triple printed by MC_XlsbFraming is compared with the
//!          record writer of the materialiser and embedded (inside an FRT bracket) between two
//!          cells of a real sheet that must still read back.
//! drive  : seeded random big sheets (rows to 1048575, columns to 16383, every record kind,
//!          fillers with boundary lengths); one ndjson event per sheet with the tokens and what
//!          the public API returned; Trace_XlsbSheet.tla validates the log.
use crate::build::xlsb::*;
use crate::common::*;
use crate::observe::err_name;
use calamine::{Data, Range, Reader, ReaderRef, Xlsb};
use rand::rngs::StdRng;
use rand::{Rng, SeedableRng};
use serde_json::{json, Value};
use std::io::{Cursor, Write};

/// [tag, text]: numbers as ["n", shortest round-trip numeral of the f64]
fn val_json(d: &Data) -> Value {
    match d {
        Data::Empty => json!([]),
        Data::Float(f) => json!(["n", format!("{:?}", f)]),
        Data::Int(i) => json!(["n", format!("{:?}", *i as f64)]),
        Data::String(s) => json!(["s", s]),
        Data::Bool(b) => json!(["b", if *b { "true" } else { "false" }]),
        Data::Error(e) => json!(["e", err_name(e)]),
        Data::DateTime(dt) => json!(["dt", format!("{:?}", dt.as_f64())]),
        Data::DateTimeIso(s) => json!(["iso", s]),
        Data::DurationIso(s) => json!(["dur", s]),
    }
}

fn same_val(ideal: &Value, obs: &Value) -> bool {
    if ideal == obs {
        return true;
    }
    if ideal[0] == "n" && obs[0] == "n" {
        let a = ideal[1].as_str().and_then(|s| s.parse::<f64>().ok());
        let b = obs[1].as_str().and_then(|s| s.parse::<f64>().ok());
        return a.is_some() && a == b;
    }
    false
}

fn same_range(ideal: &Value, obs: &Value) -> bool {
    if ideal["start"] != obs["start"] || ideal["end"] != obs["end"] {
        return false;
    }
    let (a, b) = (ideal["cells"].as_array().unwrap(), obs["cells"].as_array().unwrap());
    a.len() == b.len()
        && a.iter().zip(b.iter()).all(|(x, y)| x[0] == y[0] && x[1] == y[1] && same_val(&x[2], &y[2]))
}

/// sparse projection through used_cells() (the rectangle can be 1048576 x 16384)
fn proj(r: &Range<Data>) -> Value {
    let p2 = |p: Option<(u32, u32)>| match p {
        Some((a, b)) => json!([a, b]),
        None => json!([]),
    };
    let mut cells = Vec::new();
    if let Some(s) = r.start() {
        for (ri, ci, v) in r.used_cells() {
            cells.push(json!([s.0 as u64 + ri as u64, s.1 as u64 + ci as u64, val_json(v)]));
        }
    }
    json!({"start": p2(r.start()), "end": p2(r.end()), "cells": cells})
}

pub struct Observed {
    pub range: Value,
    pub range_ref: Value,
    pub access: Option<String>,
}

fn book(pre: &Preamble, toks: &[Value], sst: &[String], second_sheet: bool) -> Vec<u8> {
    let (body, dim) = body_from_tokens(toks);
    let mut sheets = Vec::new();
    if second_sheet {
        let (b2, d2) = body_from_tokens(&[
            json!({"t": "row", "r": 3}),
            json!({"t": "cell", "c": 2, "v": {"k": "st", "s": "decoy"}}),
        ]);
        sheets.push(XlsbSheet { name: "D".into(), state: 0, stream: sheet_stream(&Preamble::default(), d2, &b2) });
    }
    sheets.push(XlsbSheet { name: "S".into(), state: 0, stream: sheet_stream(pre, dim, &body) });
    XlsbBook { sheets, strings: sst.to_vec(), ..XlsbBook::default() }.to_bytes(second_sheet)
}

pub fn observe(bytes: Vec<u8>, ideal_cells: Option<&Value>) -> Result<Observed, String> {
    let r = catch(|| -> Result<Observed, String> {
        let mut wb: Xlsb<_> = Xlsb::new(Cursor::new(bytes)).map_err(|e| format!("open: {}", e))?;
        let rg = wb.worksheet_range("S").map_err(|e| format!("worksheet_range: {}", e))?;
        let range_ref = {
            let rr = wb.worksheet_range_ref("S").map_err(|e| format!("worksheet_range_ref: {}", e))?;
            // project through the owned conversion of every used cell
            let p2 = |p: Option<(u32, u32)>| match p {
                Some((a, b)) => json!([a, b]),
                None => json!([]),
            };
            let mut cells = Vec::new();
            if let Some(s) = rr.start() {
                for (ri, ci, v) in rr.used_cells() {
                    cells.push(json!([s.0 as u64 + ri as u64, s.1 as u64 + ci as u64, val_json(&Data::from(v.clone()))]));
                }
            }
            json!({"start": p2(rr.start()), "end": p2(rr.end()), "cells": cells})
        };
        let mut access = None;
        if let Some(cells) = ideal_cells.and_then(|c| c.as_array()) {
            for c in cells {
                let pos = (c[0].as_u64().unwrap() as u32, c[1].as_u64().unwrap() as u32);
                let got = rg.get_value(pos).map(val_json).unwrap_or(json!(["none"]));
                if !same_val(&c[2], &got) && access.is_none() {
                    access = Some(format!("get_value({:?}) = {} expected {}", pos, got, c[2]));
                }
            }
        }
        Ok(Observed { range: proj(&rg), range_ref, access })
    });
    match r {
        Ok(x) => x,
        Err(p) => Err(format!("panic: {}", p)),
    }
}

fn pre_from(v: &Value) -> Preamble {
    Preamble {
        ws_prop: v["ws_prop"].as_bool().unwrap_or(false),
        views: v["views"].as_bool().unwrap_or(false),
        fmt_info: v["fmt_info"].as_bool().unwrap_or(false),
        col_infos: v["col_infos"].as_u64().unwrap_or(0) as u32,
    }
}

fn sst_from(v: &Value) -> Vec<String> {
    v.as_array().map(|a| a.iter().map(|s| s.as_str().unwrap().to_string()).collect()).unwrap_or_default()
}

/// harness self-check: `canon` of an RK token is what its bit pattern denotes in BIFF8
fn rk_canon_ok(toks: &[Value]) -> Result<(), String> {
    for t in toks {
        if t["t"] == "cell" && t["v"]["k"] == "rk" {
            if let CellVal::Rk(bits) = cellval_from_token(&t["v"]) {
                let want: f64 = t["v"]["canon"].as_str().unwrap().parse().unwrap();
                if rk_decode(bits) != want {
                    return Err(format!("RK {:#x} denotes {} but the token says {}", bits, rk_decode(bits), want));
                }
            }
        }
    }
    Ok(())
}

fn check_one(rep: &mut Report, b: &Value, toks: &[Value], ideal: &Value, second_sheet: bool) {
    if let Err(m) = rk_canon_ok(toks) {
        eprintln!("harness: {}", m);
        std::process::exit(2);
    }
    let bytes = book(&pre_from(&b["pre"]), toks, &sst_from(&b["sst"]), second_sheet);
    match observe(bytes, Some(&ideal["cells"])) {
        Err(m) => {
            let key = if m.starts_with("panic") { "unexplained:panic" } else { "unexplained:error" };
            rep.fail(key, b, ideal.clone(), json!({ "error": m }));
        }
        Ok(o) => {
            if !same_range(ideal, &o.range) {
                rep.fail("unexplained:range", b, ideal.clone(), o.range);
            } else if !same_range(ideal, &o.range_ref) {
                rep.fail("unexplained:range_ref", b, ideal.clone(), o.range_ref);
            } else if let Some(a) = o.access {
                rep.fail("unexplained:get_value", b, ideal.clone(), json!({ "access": a }));
            }
        }
    }
}

fn replay_one(rep: &mut Report, k: u64, b: &Value) {
    let toks = b["tokens"].as_array().cloned().unwrap_or_default();
    let ideal = &b["ideal"];
    let ncell = toks.iter().filter(|t| t["t"] == "cell").count();
    // non-trivial: a cell together with a filler record, a second row or a second cell
    let nontrivial = ncell > 0 && toks.len() > 2;
    rep.case(&json!([b["pre"], b["tokens"]]), nontrivial);
    check_one(rep, b, &toks, ideal, k % 5 == 0);
    if k % 9973 == 1 {
        rep.sample(json!({"tokens": b["tokens"], "expected": ideal}));
    }
}

pub fn replay(args: &Args) -> i32 {
    let rep = crate::par::par_replay(args.req("in"), replay_one);
    rep.write(args.req("out"));
    0
}

/// MC_XlsbFraming FRAME lines: {"id","len","hdr":[bytes]}
pub fn frames(args: &Args) -> i32 {
    let mut rep = Report::new();
    let interpreted = |id: u64| id <= 11 || id == 0x92;
    for b in read_ndjson(args.req("in")) {
        // a replay file of an earlier failure carries the frame inside the behaviour
        let b = if b.get("frame").is_some() { b["frame"].clone() } else { b };
        let (id, len) = (b["id"].as_u64().unwrap(), b["len"].as_u64().unwrap() as usize);
        rep.case(&b, id >= 128 || len >= 128);
        let want: Vec<u8> = b["hdr"].as_array().unwrap().iter().map(|x| x.as_u64().unwrap() as u8).collect();
        let got = header_bytes(id as u16, len, None);
        if got != want {
            // the materialiser disagrees with the writer model: a tool problem, not a finding
            eprintln!("harness: header bytes of ({}, {}) are {:?}, the model says {:?}", id, len, got, want);
            return 2;
        }
        if interpreted(id) {
            continue; // such a record is a row/cell/end record, covered by the sheet model
        }
        // a record of that id and length, inside an FRT bracket, between two cells and two rows
        let toks = vec![
            json!({"t": "row", "r": 1048574}),
            json!({"t": "cell", "c": 127, "v": {"k": "rk", "int": true, "d100": false, "m": "7", "canon": "7"}}),
            json!({"t": "ign", "id": 35, "len": 4}),
            json!({"t": "ign", "id": id, "len": len}),
            json!({"t": "ign", "id": 36, "len": 0}),
            json!({"t": "cell", "c": 128, "v": {"k": "st", "s": "after", "canon": "after"}}),
            json!({"t": "ign", "id": 35, "len": 4}),
            json!({"t": "ign", "id": id, "len": len}),
            json!({"t": "ign", "id": 36, "len": 0}),
            json!({"t": "row", "r": 1048575}),
            json!({"t": "cell", "c": 16383, "v": {"k": "real", "x": "2.5", "canon": "2.5"}}),
        ];
        let ideal = json!({"start": [1048574, 127], "end": [1048575, 16383],
            "cells": [[1048574, 127, ["n", "7"]], [1048574, 128, ["s", "after"]], [1048575, 16383, ["n", "2.5"]]]});
        let beh = json!({"frame": b, "pre": {"ws_prop": true}, "tokens": toks, "sst": []});
        check_one(&mut rep, &beh, &toks, &ideal, false);
    }
    rep.write(args.req("out"));
    0
}

// ------------------------------------------------------------------------------- leg 2

const ERRS: [&str; 8] = ["Null", "Div0", "Value", "Ref", "Name", "Num", "NA", "GettingData"];

fn num_canon(x: f64) -> String {
    format!("{:?}", x)
}

fn pick_value(rng: &mut StdRng, nsst: usize) -> Value {
    let text = |rng: &mut StdRng| -> String {
        // (U+FEFF and U+BBEF U+00BF -- bytes EF BB BF 00 -- are characters like any other, also at the start)
        let pool = ["a", "b", "é", "€", "𝄞", " ", "<", "&", "\"", "Z", "漢", "0", "\u{FEFF}", "\u{BBEF}\u{BF}"];
        (0..rng.gen_range(1..6)).map(|_| pool[rng.gen_range(0..pool.len())]).collect()
    };
    match rng.gen_range(0..14) {
        0 => {
            let m: i32 = rng.gen_range(-(1 << 29)..(1 << 29));
            json!({"k": "rk", "int": true, "d100": false, "m": m.to_string(), "canon": num_canon(m as f64)})
        }
        1 => {
            let m: i32 = rng.gen_range(-100000..100000);
            json!({"k": "rk", "int": true, "d100": true, "m": m.to_string(), "canon": num_canon(m as f64 / 100.0)})
        }
        2 | 3 => {
            // a double with the low 34 bits clear
            let x = f64::from_bits((rng.gen_range(-1.0e6..1.0e6f64)).to_bits() & !0x3_FFFF_FFFFu64);
            let d100 = rng.gen_bool(0.5);
            json!({"k": "rk", "int": false, "d100": d100, "m": num_canon(x),
                   "canon": num_canon(if d100 { x / 100.0 } else { x })})
        }
        4 | 5 => {
            let x = if rng.gen_bool(0.2) { 0.0 } else { rng.gen_range(-1.0e9..1.0e9f64) };
            json!({"k": if rng.gen_bool(0.5) { "real" } else { "fnum" }, "x": num_canon(x), "canon": num_canon(x)})
        }
        6 => {
            let b: bool = rng.gen();
            json!({"k": if rng.gen_bool(0.5) { "bool" } else { "fbool" }, "b": b, "canon": if b { "true" } else { "false" }})
        }
        7 => {
            let e = ERRS[rng.gen_range(0..8)];
            json!({"k": if rng.gen_bool(0.5) { "err" } else { "ferr" }, "e": e, "canon": e})
        }
        8 | 9 => {
            let s = text(rng);
            json!({"k": if rng.gen_bool(0.6) { "st" } else { "fstr" }, "s": s, "canon": s})
        }
        10 | 11 if nsst > 0 => json!({"k": "isst", "i": rng.gen_range(0..nsst), "canon": ""}),
        12 => json!({"k": "blank", "canon": ""}),
        _ => json!({"k": "rk", "int": true, "d100": false, "m": "0", "canon": "0.0"}),
    }
}

fn push_filler(rng: &mut StdRng, toks: &mut Vec<Value>, budget: &mut usize) {
    let lens = [0usize, 1, 4, 127, 128, 300, 16383, 16384, 70000];
    let len = lens[rng.gen_range(0..lens.len())].min(*budget);
    *budget -= len;
    match rng.gen_range(0..4) {
        0 => toks.push(json!({"t": "ign", "id": if rng.gen() { 49 } else { 50 }, "len": 4})),
        1 => toks.push(json!({"t": "ign", "id": if rng.gen() { 426 } else { 427 }, "len": len})),
        _ => {
            let id = [12u64, 127, 128, 200, 1025, 5000, 16383][rng.gen_range(0..7)];
            toks.push(json!({"t": "ign", "id": 35, "len": 4}));
            toks.push(json!({"t": "ign", "id": id, "len": len}));
            toks.push(json!({"t": "ign", "id": 36, "len": 0}));
        }
    }
}

fn gen_sheet(rng: &mut StdRng, nrows: usize, nsst: usize) -> Vec<Value> {
    let mut toks = Vec::new();
    let mut budget = 400_000usize;
    // the dense Range bounds the rectangle: a window of h rows x w columns placed anywhere in
    // 0..=1048575 x 0..=16383 (tall and narrow, or short and wide)
    let (h, w): (u32, u32) = match rng.gen_range(0..3) {
        0 => (rng.gen_range(1000..60000), rng.gen_range(1..20)),
        1 => (rng.gen_range(20..80), 16384),
        _ => (rng.gen_range(200..2000), rng.gen_range(100..600)),
    };
    let r0 = match rng.gen_range(0..3) { 0 => 0, 1 => 1048576 - h, _ => rng.gen_range(0..=1048576 - h) };
    let c0 = match rng.gen_range(0..3) { 0 => 0, 1 => 16384 - w, _ => rng.gen_range(0..=16384 - w) };
    let mut rows: Vec<u32> = (0..nrows)
        .map(|_| match rng.gen_range(0..4) {
            0 => r0 + rng.gen_range(0..h.min(5)),
            1 => r0 + h - 1 - rng.gen_range(0..h.min(5)),
            _ => r0 + rng.gen_range(0..h),
        })
        .collect();
    rows.sort();
    rows.dedup();
    if rng.gen_bool(0.3) {
        push_filler(rng, &mut toks, &mut budget);
    }
    for r in rows {
        toks.push(json!({"t": "row", "r": r}));
        let mut cols: Vec<u32> = (0..rng.gen_range(0..8))
            .map(|_| match rng.gen_range(0..4) {
                0 => c0 + rng.gen_range(0..w.min(4)),
                1 => c0 + w - 1 - rng.gen_range(0..w.min(4)),
                _ => c0 + rng.gen_range(0..w),
            })
            .collect();
        cols.sort();
        cols.dedup();
        for c in cols {
            if rng.gen_bool(0.15) {
                push_filler(rng, &mut toks, &mut budget);
            }
            toks.push(json!({"t": "cell", "c": c, "v": pick_value(rng, nsst)}));
        }
        if rng.gen_bool(0.15) {
            push_filler(rng, &mut toks, &mut budget);
        }
    }
    toks
}

pub fn drive(args: &Args) -> i32 {
    let n = args.num("n", 10);
    let nrows = args.num("rows", 300) as usize;
    let mut rng = StdRng::seed_from_u64(args.seed() ^ 0xC03);
    let mut out = std::io::BufWriter::new(std::fs::File::create(args.req("out")).unwrap());
    for run in 0..n {
        let sst: Vec<String> = (0..rng.gen_range(0..6)).map(|i| format!("shared {} é𝄞", i)).collect();
        let nr = rng.gen_range(nrows / 2..=nrows);
        let toks = gen_sheet(&mut rng, nr, sst.len());
        let pre = json!({"ws_prop": rng.gen::<bool>(), "views": rng.gen::<bool>(), "fmt_info": rng.gen::<bool>(),
                         "col_infos": rng.gen_range(0..3)});
        let bytes = book(&pre_from(&pre), &toks, &sst, run % 3 == 0);
        let mut ev = json!({"e": "sheet", "run": run, "pre": pre, "sst": sst, "tokens": toks});
        match observe(bytes, None) {
            Ok(o) => {
                ev["range"] = o.range;
                ev["range_ref"] = o.range_ref;
            }
            Err(m) => ev["error"] = json!(m),
        }
        writeln!(out, "{}", ev).unwrap();
    }
    0
}
