//! C14 (xlsb part) — formula token streams rendered as A1 text.
//! replay: every formula tree printed by MC_Ptg (RPN token list + ideal text) is laid out as
//!         BIFF12 rgce bytes (build/xlsb.rs `rgce_from_tokens`), stored (a) in a BrtFmla* record
//!         of a real .xlsb workbook and (b) as the formula of a defined name, and read back
//!         through `worksheet_formula` (text at the cell's absolute position, empty string
//!         elsewhere) and `defined_names`.
//! sweep : every column 0..=16383 through a PtgRef of a real file and through the window
//!         `calamine::verif::push_column`.
use crate::build::xlsb::*;
use crate::common::*;
use calamine::{Reader, Xlsb};
use serde_json::{json, Value};
use std::io::Cursor;

/// cells: (row, col, rgce); workbook with sheets S and Other, XTI 0 -> S, 1 -> Other, defined
/// names MyName, Rate and, when given, T = `name_rgce`
fn workbook(cells: &[(u32, u32, Vec<u8>)], name_rgce: Option<&[u8]>, deflate: bool) -> Vec<u8> {
    let mut recs = Vec::new();
    let (mut r0, mut r1, mut c0, mut c1) = (u32::MAX, 0, u32::MAX, 0);
    let mut last_row = None;
    for (i, (r, c, rgce)) in cells.iter().enumerate() {
        if last_row != Some(*r) {
            recs.push(row_hdr(*r, 0, 0));
            last_row = Some(*r);
        }
        // the cached value's type does not matter for the formula text: rotate the record kind
        let v = match i % 4 {
            0 => CellVal::FmlaNum(1.5),
            1 => CellVal::FmlaString("s".into()),
            2 => CellVal::FmlaBool(true),
            _ => CellVal::FmlaError(0x07),
        };
        recs.push(cell_record(*c, 0, &v, rgce));
        r0 = r0.min(*r);
        r1 = r1.max(*r);
        c0 = c0.min(*c);
        c1 = c1.max(*c);
    }
    // constant cells around must not show up in the formula range
    recs.insert(0, cell_record(0, 0, &CellVal::Real(1.0), &[]));
    recs.insert(0, row_hdr(0, 0, 0));
    if cells.first().map_or(false, |c| c.0 == 0) {
        recs.remove(2); // the row header of row 0 is already there
    }
    let dim = if r0 == u32::MAX { (0, 0, 0, 0) } else { (0, r1, 0, c1) };
    let s = sheet_stream(&Preamble { ws_prop: true, ..Preamble::default() }, dim, &recs);
    let other = sheet_stream(&Preamble::default(), (0, 0, 0, 0), &[]);
    let mut extra = extern_sheet_records(&[0, 1]);
    extra.push(name_record("MyName", &rgce_from_tokens(&[json!({"p": "ref3d", "x": 0, "r": 0, "c": 0})])));
    extra.push(name_record("Rate", &rgce_from_tokens(&[json!({"p": "num", "s": "0.5"})])));
    if let Some(r) = name_rgce {
        extra.push(name_record("T", r));
    }
    XlsbBook {
        sheets: vec![
            XlsbSheet { name: "S".into(), state: 0, stream: s },
            XlsbSheet { name: "Other".into(), state: 0, stream: other },
        ],
        extra_workbook: extra,
        ..XlsbBook::default()
    }
    .to_bytes(deflate)
}

/// formula range as {"start","end","cells":[[r,c,text]..]} (non-empty strings only)
fn formulas(bytes: Vec<u8>) -> Result<(Value, Vec<(String, String)>), String> {
    match catch(|| -> Result<(Value, Vec<(String, String)>), String> {
        let mut wb: Xlsb<_> = Xlsb::new(Cursor::new(bytes)).map_err(|e| format!("open: {}", e))?;
        let names = wb.defined_names().to_vec();
        let r = wb.worksheet_formula("S").map_err(|e| format!("worksheet_formula: {}", e))?;
        Ok((crate::observe::string_range_json(&r), names))
    }) {
        Ok(x) => x,
        Err(p) => Err(format!("panic: {}", p)),
    }
}

fn ideal_text(b: &Value) -> String {
    b["ideal"].as_array().unwrap().iter().map(|s| s.as_str().unwrap()).collect()
}

fn replay_one(rep: &mut Report, k: u64, b: &Value) {
    let toks = b["tokens"].as_array().unwrap();
    rep.case(&b["tokens"], toks.len() > 1 || toks[0].get("c").is_some() || toks[0].get("c1").is_some());
    let text = ideal_text(b);
    // reference class variants (reference / value / array) are an encoding choice of the writer
    let toks: Vec<Value> = toks
        .iter()
        .map(|t| {
            let mut t = t.clone();
            if matches!(t["p"].as_str(), Some("ref" | "area" | "ref3d" | "area3d" | "name" | "func" | "funcv")) {
                t["cls"] = json!(k % 3);
            }
            t
        })
        .collect();
    let rgce = rgce_from_tokens(&toks);
    // the formula cell anywhere: position varies with the behaviour number
    let pos = [(0u32, 1u32), (3, 0), (7, 26), (1048575, 16383), (65536, 255)][(k % 5) as usize];
    let bytes = workbook(&[(pos.0, pos.1, rgce.clone())], Some(&rgce), k % 7 == 0);
    let want = if text.is_empty() {
        json!({"start": [], "end": [], "cells": []})
    } else {
        json!({"start": [pos.0, pos.1], "end": [pos.0, pos.1], "cells": [[pos.0, pos.1, text]]})
    };
    match formulas(bytes) {
        Err(m) => {
            let key = if m.starts_with("panic") { "unexplained:panic" } else { "unexplained:error" };
            rep.fail(key, b, want, json!({ "error": m }));
        }
        Ok((got, names)) => {
            if got != want {
                rep.fail("unexplained:formula", b, want, got);
            } else {
                let t = names.iter().find(|n| n.0 == "T").map(|n| n.1.clone());
                if t.as_deref() != Some(text.as_str()) {
                    rep.fail("unexplained:defined-name", b, json!(text), json!(t));
                } else if names.iter().find(|n| n.0 == "MyName").map(|n| n.1.as_str()) != Some("S!$A$1") {
                    rep.fail("unexplained:defined-name", b, json!("MyName = S!$A$1"), json!(names));
                }
            }
        }
    }
    if k % 4999 == 1 {
        rep.sample(json!({"tokens": b["tokens"], "expected": text}));
    }
}

pub fn replay(args: &Args) -> i32 {
    let rep = crate::par::par_replay(args.req("in"), replay_one);
    rep.write(args.req("out"));
    0
}

/// independent lettering (bijective base 26), written from the definition of spreadsheet columns
fn letters(mut n: u32) -> String {
    let mut v = Vec::new();
    loop {
        v.push(b'A' + (n % 26) as u8);
        if n < 26 {
            break;
        }
        n = n / 26 - 1;
    }
    v.reverse();
    String::from_utf8(v).unwrap()
}

/// `cvh replay xlsbcols`: every column 0..=16383 (a) through the window, (b) as a relative PtgRef of a
/// formula cell in that very column, 128 columns per workbook
pub fn columns(args: &Args) -> i32 {
    let mut rep = Report::new();
    let max = args.num("max", 16383) as u32;
    assert_eq!((letters(0), letters(25), letters(26), letters(701), letters(702), letters(16383)),
               ("A".into(), "Z".into(), "AA".into(), "ZZ".into(), "AAA".into(), "XFD".into()));
    let mut col = 0u32;
    while col <= max {
        let hi = (col + 127).min(max);
        let cells: Vec<(u32, u32, Vec<u8>)> = (col..=hi)
            .map(|c| (2, c, rgce_from_tokens(&[json!({"p": "ref", "r": 9, "c": c, "rr": true, "cr": true})])))
            .collect();
        let got = formulas(workbook(&cells, None, false));
        for c in col..=hi {
            let b = json!({"column": c});
            rep.case(&b, c >= 26);
            let mut s = String::new();
            calamine::verif::push_column(c, &mut s);
            if s != letters(c) {
                rep.fail("unexplained:push_column", &b, json!(letters(c)), json!(s));
                continue;
            }
            let want = format!("{}10", letters(c));
            match &got {
                Ok((g, _)) => {
                    let found = g["cells"].as_array().and_then(|a| a.iter().find(|x| x[1] == c).map(|x| x[2].clone()));
                    if found != Some(json!(want)) {
                        rep.fail("unexplained:formula", &b, json!(want), json!(found));
                    }
                }
                Err(m) => rep.fail("unexplained:error", &b, json!(want), json!({ "error": m })),
            }
        }
        col = hi + 1;
    }
    rep.sample(json!({"columns": format!("0..={} through PtgRef in real files and verif::push_column", max)}));
    rep.write(args.req("out"));
    0
}
