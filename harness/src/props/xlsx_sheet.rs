//! C01 — xlsx worksheet cells.
//! replay: token lists printed by MC_XlsxSheet -> real .xlsx (build::xlsx) -> Xlsx::new ->
//!         worksheet_range / worksheet_range_ref / worksheets() compared with the ideal range.
//! drive : random large sheets with mixed implicit / explicit references; the token list and
//!         the observed range are logged for Trace_XlsxSheet.tla.
use crate::build::xlsx::build_xlsx;
use crate::common::*;
use crate::observe::*;
use calamine::{Data, Range, Reader, ReaderRef, Xlsx};
use rand::rngs::StdRng;
use rand::{Rng, SeedableRng};
use serde_json::{json, Value};
use std::io::{Cursor, Write};

pub const SST: [&str; 2] = ["alpha", "beta &<x>"];

fn opt(v: &Value) -> Value {
    match v.as_str() {
        Some("none") | None => Value::Null,
        Some(s) => json!(s),
    }
}

/// spec tokens -> builder tokens (explicit flag -> presence of the r attribute)
pub fn builder_tokens(tokens: &Value) -> Vec<Value> {
    let mut out = Vec::new();
    for t in tokens.as_array().unwrap() {
        match t["k"].as_str().unwrap() {
            "dim" => {
                let a = (t["a"][0].as_u64().unwrap() as u32, t["a"][1].as_u64().unwrap() as u32);
                let b = (t["b"][0].as_u64().unwrap() as u32, t["b"][1].as_u64().unwrap() as u32);
                let r = if a == b {
                    crate::build::xlsx::cell_ref(a.0, a.1)
                } else {
                    format!("{}:{}", crate::build::xlsx::cell_ref(a.0, a.1), crate::build::xlsx::cell_ref(b.0, b.1))
                };
                out.push(json!({"k": "dim", "ref": r}));
            }
            "ign" => out.push(t.clone()),
            "row" | "emptyrow" => {
                let r = if t["x"].as_bool().unwrap() { t["r"].clone() } else { Value::Null };
                out.push(json!({"k": t["k"], "r": r}));
            }
            "rowend" => out.push(json!({"k": "rowend"})),
            "c" => {
                let r = if t["x"].as_bool().unwrap() { t["p"].clone() } else { Value::Null };
                let s = match t["s"].as_str() {
                    Some("none") | None => Value::Null,
                    Some(s) => json!(s.parse::<u64>().unwrap()),
                };
                out.push(json!({"k": "c", "r": r, "t": opt(&t["t"]), "s": s, "f": opt(&t["f"]), "v": opt(&t["v"]), "is": opt(&t["is"])}));
            }
            k => panic!("harness: token {}", k),
        }
    }
    out
}

pub fn workbook_spec(pkg: &Value, tokens: Vec<Value>) -> Value {
    let styles = pkg["styles"].as_bool().unwrap_or(true);
    let sst = pkg["sst"].as_bool().unwrap_or(true);
    json!({
        "prefix": pkg["prefix"].as_str().unwrap_or(""),
        "deflate": pkg["deflate"].as_bool().unwrap_or(false),
        "sst": if sst { json!(SST.iter().map(|s| json!({"text": s})).collect::<Vec<_>>()) } else { Value::Null },
        "styles": if styles { json!({"cellStyleXfs": [0], "cellXfs": [0]}) } else { Value::Null },
        "sheets": [{"name": "S1", "file": "sheet1.xml", "dir": "worksheets",
                    "target": pkg["target"].as_str().unwrap_or("rel"),
                    "case": pkg["case"].as_str().unwrap_or("exact"), "tokens": tokens}],
    })
}

/// ideal tagged value (from the spec) against an observed cell; floats compared numerically
pub fn val_matches(ideal: &Value, d: &Data) -> bool {
    match (ideal[0].as_str().unwrap_or(""), d) {
        ("f", Data::Float(x)) => ideal[1].as_str().and_then(|s| s.parse::<f64>().ok()) == Some(*x),
        ("s", Data::String(s)) => ideal[1].as_str() == Some(s.as_str()),
        ("b", Data::Bool(b)) => ideal[1].as_bool() == Some(*b),
        ("e", Data::Error(e)) => ideal[1].as_str() == Some(err_name(e)),
        ("iso", Data::DateTimeIso(s)) => ideal[1].as_str() == Some(s.as_str()),
        _ => false,
    }
}

/// compare an observed Range<Data> with the ideal {start,end,cells}; None = equal
pub fn range_diff(ideal: &Value, r: &Range<Data>) -> Option<String> {
    let obs = range_json(r);
    if obs.get("shape").is_some() {
        return Some("rows()/get_size() inconsistent".into());
    }
    if obs["start"] != ideal["start"] || obs["end"] != ideal["end"] {
        return Some(format!("bounds {}..{} expected {}..{}", obs["start"], obs["end"], ideal["start"], ideal["end"]));
    }
    let ic = ideal["cells"].as_array().unwrap();
    let used: Vec<(usize, usize, &Data)> = r.used_cells().collect();
    if used.len() != ic.len() {
        return Some(format!("{} non-empty cells, expected {}", used.len(), ic.len()));
    }
    let s = r.start().unwrap_or((0, 0));
    for (c, (ur, uc, ud)) in ic.iter().zip(used.iter()) {
        let p = (c[0].as_u64().unwrap() as u32, c[1].as_u64().unwrap() as u32);
        if (s.0 + *ur as u32, s.1 + *uc as u32) != p {
            return Some(format!("used cell at ({},{}) expected at {:?}", s.0 + *ur as u32, s.1 + *uc as u32, p));
        }
        if !val_matches(&c[2], ud) {
            return Some(format!("value at {:?}: {} expected {}", p, data_json(ud), c[2]));
        }
        if r.get_value(p) != Some(*ud) {
            return Some(format!("get_value({:?}) disagrees with used_cells", p));
        }
    }
    None
}

/// read one workbook through every access path; Err = description of the first deviation
pub fn read_and_compare(bytes: &[u8], ideal: &Value) -> Result<(), Value> {
    let r = catch(|| -> Result<(), String> {
        let mut wb: Xlsx<_> = Xlsx::new(Cursor::new(bytes.to_vec())).map_err(|e| format!("open: {}", e))?;
        let range = wb.worksheet_range("S1").map_err(|e| format!("worksheet_range: {}", e))?;
        if let Some(d) = range_diff(ideal, &range) {
            return Err(format!("worksheet_range: {}", d));
        }
        {
            let rr = wb.worksheet_range_ref("S1").map_err(|e| format!("worksheet_range_ref: {}", e))?;
            let conv: Vec<calamine::Cell<Data>> = rr
                .used_cells()
                .map(|(r, c, v)| calamine::Cell::new((rr.start().unwrap().0 + r as u32, rr.start().unwrap().1 + c as u32), Data::from(v.clone())))
                .collect();
            let conv = Range::from_sparse(conv);
            if let Some(d) = range_diff(ideal, &conv) {
                return Err(format!("worksheet_range_ref: {}", d));
            }
            if rr.start() != range.start() || rr.end() != range.end() {
                return Err("worksheet_range_ref bounds differ from worksheet_range".into());
            }
        }
        let all = wb.worksheets();
        if all.len() != 1 || all[0].0 != "S1" {
            return Err("worksheets() does not list S1".into());
        }
        if let Some(d) = range_diff(ideal, &all[0].1) {
            return Err(format!("worksheets(): {}", d));
        }
        Ok(())
    });
    match r {
        Ok(Ok(())) => Ok(()),
        Ok(Err(m)) => Err(json!({ "mismatch": m })),
        Err(p) => Err(json!({ "panic": p })),
    }
}

pub fn replay(args: &Args) -> i32 {
    let mut rep = Report::new();
    for b in read_ndjson(args.req("in")) {
        let toks = builder_tokens(&b["tokens"]);
        let nontrivial = b["tokens"].as_array().unwrap().iter().any(|t| t["x"] == json!(false) || t["k"] == "emptyrow" || t["k"] == "dim")
            || b["pkg"] != json!({"prefix": "", "deflate": false, "target": "rel", "case": "exact", "styles": true, "sst": true});
        rep.case(&json!([b["pkg"], b["tokens"]]), nontrivial);
        let spec = workbook_spec(&b["pkg"], toks);
        let bytes = build_xlsx(&spec);
        match read_and_compare(&bytes, &b["ideal"]) {
            Ok(()) => {
                if rep.evaluated % 997 == 1 {
                    rep.sample(json!({"tokens": b["tokens"], "pkg": b["pkg"], "ideal": b["ideal"]}));
                }
            }
            Err(o) => rep.fail("unexplained", &b, b["ideal"].clone(), o),
        }
    }
    rep.write(args.req("out"));
    0
}

/// Random big sheets. Event per sheet: {"e":"sheet","tokens":[..compact..],"observed":{start,end,n,cells(sample)}}
/// The trace spec re-runs the reader machine over the tokens (cursor updates) and checks bounds,
/// count and the sampled cells.
pub fn drive(args: &Args) -> i32 {
    let n = args.num("n", 40);
    let maxcells = args.num("cells", 60) as usize;
    let mut rng = StdRng::seed_from_u64(args.seed() ^ 0xC01);
    let mut out = std::io::BufWriter::new(std::fs::File::create(args.req("out")).unwrap());
    for run in 0..n {
        // dense Range: keep the bounding box small (<= 600 x 1500) but place it anywhere
        let base_r = match rng.gen_range(0..3) { 0 => 0, 1 => 1_048_576 - 600, _ => rng.gen_range(0..1_048_576 - 600) };
        let base_c = match rng.gen_range(0..3) { 0 => 0, 1 => 16_384 - 1500, _ => rng.gen_range(0..16_384 - 1500) };
        let nrows = rng.gen_range(1..=8usize);
        let mut rows: Vec<u32> = (0..nrows).map(|_| base_r + rng.gen_range(0..600)).collect();
        rows.sort();
        rows.dedup();
        let mut toks: Vec<Value> = Vec::new();   // spec-format tokens
        let mut last_row: Option<u32> = None;
        let mut total = 0usize;
        for &r in &rows {
            // maybe an empty row in the gap
            let next_impl = last_row.map_or(0, |x| x + 1);
            if r > next_impl && rng.gen_bool(0.3) {
                let er = rng.gen_range(next_impl..r);
                let x = er != next_impl || rng.gen_bool(0.5);
                toks.push(json!({"k": "emptyrow", "r": er, "x": x}));
                last_row = Some(er);
            }
            let next_impl = last_row.map_or(0, |x| x + 1);
            let x = r != next_impl || rng.gen_bool(0.5);
            toks.push(json!({"k": "row", "r": r, "x": x}));
            last_row = Some(r);
            let ncols = rng.gen_range(1..=(maxcells / nrows).max(1));
            let mut cols: Vec<u32> = (0..ncols).map(|_| match rng.gen_range(0..3) {
                0 => base_c + rng.gen_range(0..30),
                1 if base_c == 0 => [25u32, 26, 27, 701, 702, 703][rng.gen_range(0..6)],
                _ => base_c + rng.gen_range(0..1500),
            }).collect();
            cols.sort();
            cols.dedup();
            let mut last_col: Option<u32> = None;
            for &c in &cols {
                let ni = last_col.map_or(0, |x| x + 1);
                if c > ni && rng.gen_bool(0.15) {
                    let ec = rng.gen_range(ni..c);
                    let x = ec != ni || rng.gen_bool(0.5);
                    toks.push(json!({"k": "c", "p": [r, ec], "x": x, "t": "none", "s": "0", "f": "none", "v": "none", "is": "none"}));
                    last_col = Some(ec);
                }
                let ni = last_col.map_or(0, |x| x + 1);
                let x = c != ni || rng.gen_bool(0.5);
                let form = [("none", "1"), ("none", "2"), ("n", "1.5"), ("s", "1"), ("b", "1"), ("e", "#N/A"), ("str", "a b")][rng.gen_range(0..7)];
                toks.push(json!({"k": "c", "p": [r, c], "x": x, "t": form.0, "s": "none", "f": "none", "v": form.1, "is": "none"}));
                last_col = Some(c);
                total += 1;
            }
            toks.push(json!({"k": "rowend"}));
        }
        let case = ["exact", "upper", "mixed"][rng.gen_range(0..3)];
        let pkg = json!({"prefix": if rng.gen_bool(0.3) { "x" } else { "" }, "deflate": rng.gen_bool(0.5),
                         "target": if rng.gen_bool(0.5) { "abs" } else { "rel" },
                         "case": case, "styles": true, "sst": true});
        let bytes = build_xlsx(&workbook_spec(&pkg, builder_tokens(&json!(toks))));
        let obs = catch(|| {
            let mut wb: Xlsx<_> = Xlsx::new(Cursor::new(bytes.clone())).map_err(|e| e.to_string())?;
            wb.worksheet_range("S1").map_err(|e| e.to_string())
        });
        let compact: Vec<Value> = toks.iter().map(|t| match t["k"].as_str().unwrap() {
            "c" => json!({"k": "c", "p": t["p"], "x": t["x"], "t": t["t"], "v": t["v"], "f": "none", "is": "none"}),
            _ => t.clone(),
        }).collect();
        let ev = match obs {
            Ok(Ok(r)) => {
                let cells: Vec<Value> = r.used_cells().map(|(ri, ci, v)| {
                    let s = r.start().unwrap();
                    json!([s.0 + ri as u32, s.1 + ci as u32, tag(v)])
                }).collect();
                json!({"e": "sheet", "run": run, "n": total, "tokens": compact,
                       "start": r.start().map_or(json!([]), |p| json!([p.0, p.1])),
                       "end": r.end().map_or(json!([]), |p| json!([p.0, p.1])), "cells": cells})
            }
            Ok(Err(e)) => json!({"e": "sheet", "run": run, "tokens": compact, "error": e}),
            Err(p) => json!({"e": "sheet", "run": run, "tokens": compact, "panic": p}),
        };
        writeln!(out, "{}", ev).unwrap();
    }
    0
}

fn tag(d: &Data) -> Value {
    match d {
        Data::Float(f) => json!(["f", if f.fract() == 0.0 { format!("{}", *f as i64) } else { format!("{}", f) }]),
        Data::String(s) => json!(["s", s]),
        Data::Bool(b) => json!(["b", b]),
        Data::Error(e) => json!(["e", err_name(e)]),
        other => json!(["?", format!("{:?}", other)]),
    }
}
