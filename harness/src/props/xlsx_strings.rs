//! C19 (xlsx) — cell text through every storage form and escaping layer.
use crate::build::xlsx::build_xlsx;
use crate::common::*;
use calamine::{Data, Reader, ReaderRef, Xlsx};
use rand::rngs::StdRng;
use rand::seq::SliceRandom;
use rand::{Rng, SeedableRng};
use serde_json::{json, Value};
use std::io::{Cursor, Write};

pub fn class_char(c: &str) -> char {
    match c {
        "a" => 'a', "amp" => '&', "lt" => '<', "gt" => '>', "quot" => '"', "apos" => '\'',
        "sp" => ' ', "tab" => '\t', "nl" => '\n', "cr" => '\r', "cjk" => '漢', "astral" => '😀', "bom" => '\u{feff}',
        o => panic!("harness: class {}", o),
    }
}

pub fn render_char(ch: &Value) -> String {
    let c = class_char(ch["c"].as_str().unwrap());
    match ch["e"].as_str().unwrap() {
        "lit" => c.to_string(),
        "named" => match c { '&' => "&amp;", '<' => "&lt;", '>' => "&gt;", '"' => "&quot;", '\'' => "&apos;", _ => panic!("harness: no named entity") }.to_string(),
        "dec" => format!("&#{};", c as u32),
        "hex" => format!("&#x{:X};", c as u32),
        "cdata" => format!("<![CDATA[{}]]>", c),
        o => panic!("harness: form {}", o),
    }
}

pub fn render_chars(chars: &Value) -> String {
    chars.as_array().map(|a| a.iter().map(render_char).collect::<String>()).unwrap_or_default()
}

fn q(p: &str, n: &str) -> String {
    if p.is_empty() { n.to_string() } else { format!("{}:{}", p, n) }
}

pub fn render_parts(p: &str, parts: &Value) -> String {
    let mut x = String::new();
    for part in parts.as_array().unwrap() {
        let txt = render_chars(&part["chars"]);
        match part["k"].as_str().unwrap() {
            "t" => {
                if txt.is_empty() { x.push_str(&format!("<{}/>", q(p, "t"))) } else { x.push_str(&format!("<{t} xml:space=\"preserve\">{}</{t}>", txt, t = q(p, "t"))) }
            }
            "r" => x.push_str(&format!("<{r}><{rpr}><{b}/></{rpr}><{t} xml:space=\"preserve\">{}</{t}></{r}>", txt, r = q(p, "r"), rpr = q(p, "rPr"), b = q(p, "b"), t = q(p, "t"))),
            "rnot" => x.push_str(&format!("<{r}><{rpr}><{b}/></{rpr}></{r}>", r = q(p, "r"), rpr = q(p, "rPr"), b = q(p, "b"))),
            "rph" => x.push_str(&format!("<{r} sb=\"0\" eb=\"1\"><{t}>{}</{t}></{r}>", txt, r = q(p, "rPh"), t = q(p, "t"))),
            "ppr" => x.push_str(&format!("<{} fontId=\"1\"/>", q(p, "phoneticPr"))),
            o => panic!("harness: part {}", o),
        }
    }
    x
}

pub fn ideal_string(classes: &Value) -> String {
    classes.as_array().map(|a| a.iter().map(|c| class_char(c.as_str().unwrap())).collect()).unwrap_or_default()
}

fn filler(p: &str, f: &str) -> String {
    match f {
        "empty_si" => format!("<{}/>", q(p, "si")),
        "empty_t" => format!("<{si}><{t}/></{si}>", si = q(p, "si"), t = q(p, "t")),
        _ => format!("<{si}><{t}>aa</{t}></{si}>", si = q(p, "si"), t = q(p, "t")),
    }
}

pub fn workbook(b: &Value) -> (Value, Vec<((u32, u32), String)>) {
    let p = b["prefix"].as_str().unwrap_or("");
    let ideal = ideal_string(&b["ideal"]);
    let mut expect = vec![((0u32, 0u32), ideal)];
    let mut spec = json!({"prefix": p, "styles": {"cellStyleXfs": [0], "cellXfs": [0]},
                          "sheets": [{"name": "S1", "file": "sheet1.xml", "tokens": []}]});
    let mut toks = vec![json!({"k": "row", "r": 0})];
    match b["store"].as_str().unwrap() {
        "shared" => {
            let ns = if p.is_empty() { "xmlns=\"http://schemas.openxmlformats.org/spreadsheetml/2006/main\"".to_string() } else { format!("xmlns:{}=\"http://schemas.openxmlformats.org/spreadsheetml/2006/main\"", p) };
            let pre: Vec<&str> = b["pre"].as_array().map(|a| a.iter().map(|x| x.as_str().unwrap()).collect()).unwrap_or_default();
            let mut sst = format!("<?xml version=\"1.0\" encoding=\"UTF-8\" standalone=\"yes\"?>\n<{} {} count=\"{n}\" uniqueCount=\"{n}\">", q(p, "sst"), ns, n = pre.len() + 2);
            for f in &pre {
                sst.push_str(&filler(p, f));
            }
            sst.push_str(&format!("<{si}>{}</{si}>", render_parts(p, &b["item"]), si = q(p, "si")));
            sst.push_str(&filler(p, "filler"));
            sst.push_str(&format!("</{}>", q(p, "sst")));
            spec["sst_raw"] = json!(sst);
            toks.push(json!({"k": "c", "r": [0, 0], "t": "s", "v": pre.len().to_string()}));
            toks.push(json!({"k": "c", "r": [0, 1], "t": "s", "v": (pre.len() + 1).to_string()}));
            expect.push(((0, 1), "aa".to_string()));
            // cells referring to filler strings placed before the item
            for (i, f) in pre.iter().enumerate() {
                if *f == "filler" {
                    toks.push(json!({"k": "c", "r": [0, 2 + i], "t": "s", "v": i.to_string()}));
                    expect.push(((0, 2 + i as u32), "aa".to_string()));
                }
            }
        }
        "inline" => {
            let raw = format!("<{is}>{}</{is}>", render_parts(p, &b["item"]), is = q(p, "is"));
            toks.push(json!({"k": "c", "r": [0, 0], "t": "inlineStr", "is_raw": raw}));
        }
        _ => {
            let txt = render_chars(&b["item"][0]["chars"]);
            toks.push(json!({"k": "c", "r": [0, 0], "t": "str", "f": "A2&B2", "v_raw": txt}));
        }
    }
    toks.push(json!({"k": "rowend"}));
    spec["sheets"][0]["tokens"] = json!(toks);
    (spec, expect)
}

pub fn check_workbook(bytes: &[u8], expect: &[((u32, u32), String)]) -> Result<(), Value> {
    let r = catch(|| -> Result<(), String> {
        let mut wb: Xlsx<_> = Xlsx::new(Cursor::new(bytes.to_vec())).map_err(|e| format!("open: {}", e))?;
        let range = wb.worksheet_range("S1").map_err(|e| format!("worksheet_range: {}", e))?;
        for (p, s) in expect {
            match range.get_value(*p) {
                Some(Data::String(got)) if got == s => {}
                other => return Err(format!("cell {:?}: {:?}, expected String({:?})", p, other, s)),
            }
        }
        let used = range.used_cells().count();
        if used != expect.len() {
            return Err(format!("{} non-empty cells, expected {}", used, expect.len()));
        }
        let rr = wb.worksheet_range_ref("S1").map_err(|e| format!("worksheet_range_ref: {}", e))?;
        for (p, s) in expect {
            let got = rr.get_value(*p).map(|d| Data::from(d.clone()));
            if got != Some(Data::String(s.clone())) {
                return Err(format!("ref cell {:?}: {:?}, expected String({:?})", p, got, s));
            }
        }
        Ok(())
    });
    match r {
        Ok(Ok(())) => Ok(()),
        Ok(Err(m)) => Err(json!({ "mismatch": m })),
        Err(p) => Err(json!({ "panic": p })),
    }
}

pub fn replay(args: &Args) -> i32 {
    let mut rep = Report::new();
    for b in read_ndjson(args.req("in")) {
        let nontrivial = b["item"].as_array().unwrap().len() > 1
            || b["item"].to_string().contains("\"e\":\"named\"") || b["item"].to_string().contains("\"e\":\"dec\"")
            || b["item"].to_string().contains("\"e\":\"hex\"") || b["item"].to_string().contains("\"e\":\"cdata\"")
            || b["pre"].as_array().map_or(false, |a| !a.is_empty());
        rep.case(&b, nontrivial);
        let (spec, expect) = workbook(&b);
        let bytes = build_xlsx(&spec);
        match check_workbook(&bytes, &expect) {
            Ok(()) => {
                if rep.evaluated % 4999 == 1 {
                    rep.sample(json!({"behaviour": b, "expected_cells": expect.iter().map(|e| json!([e.0.0, e.0.1, e.1])).collect::<Vec<_>>()}));
                }
            }
            Err(o) => {
                let s = b.to_string();
                // classify by the structural feature involved, so that different defects get different keys
                let key = if s.contains("\"e\":\"cdata\"") { "feature:cdata" }
                    else if b["prefix"] == "x" && s.contains("\"k\":\"r") { "feature:prefixed-rich" }
                    else if s.contains("empty_si") { "feature:empty-si" }
                    else { "unexplained" };
                rep.fail(key, &b, json!(expect.iter().map(|e| json!([e.0.0, e.0.1, e.1])).collect::<Vec<_>>()), o)
            }
        }
    }
    rep.write(args.req("out"));
    0
}

fn char_class(c: char) -> &'static str {
    match c {
        'a' => "a", '&' => "amp", '<' => "lt", '>' => "gt", '"' => "quot", '\'' => "apos", ' ' => "sp",
        '\t' => "tab", '\n' => "nl", '\r' => "cr", '漢' => "cjk", '😀' => "astral", '\u{feff}' => "bom", _ => "?",
    }
}

/// random long items (up to `maxlen` characters per part) in every storage form
pub fn drive(args: &Args) -> i32 {
    let n = args.num("n", 60);
    let maxlen = args.num("maxlen", 200) as usize;
    let mut rng = StdRng::seed_from_u64(args.seed() ^ 0xC19);
    let mut out = std::io::BufWriter::new(std::fs::File::create(args.req("out")).unwrap());
    let classes = ["a", "amp", "lt", "gt", "quot", "apos", "sp", "tab", "nl", "cr", "cjk", "astral", "bom"];
    let forms = |c: &str| -> Vec<&'static str> {
        match c {
            "a" => vec!["lit", "dec", "hex", "cdata"], "amp" => vec!["named", "dec", "hex", "cdata"],
            "lt" => vec!["named", "dec", "cdata"], "gt" => vec!["lit", "named", "cdata"],
            "quot" | "apos" => vec!["lit", "named"], "sp" | "tab" | "nl" => vec!["lit", "dec"],
            "cr" => vec!["dec"], "cjk" => vec!["lit", "hex"], _ => vec!["lit", "hex", "cdata"],
        }
    };
    for run in 0..n {
        let store = ["shared", "inline", "fstr"][rng.gen_range(0..3)];
        let prefix = if rng.gen_bool(0.3) { "x" } else { "" };
        let mut parts: Vec<Value> = Vec::new();
        let mk_chars = |rng: &mut StdRng, len: usize| -> Vec<Value> {
            (0..len).map(|_| {
                let c = classes[if rng.gen_bool(0.5) { 0 } else { rng.gen_range(0..classes.len()) }];
                json!({"c": c, "e": forms(c).choose(rng).unwrap()})
            }).collect()
        };
        if store == "fstr" || rng.gen_bool(0.3) {
            let len = rng.gen_range(1..=maxlen);
            parts.push(json!({"k": "t", "chars": mk_chars(&mut rng, len)}));
            if store != "fstr" && rng.gen_bool(0.5) {
                parts.push(json!({"k": "rph", "chars": [{"c": "a", "e": "lit"}]}));
                parts.push(json!({"k": "ppr", "chars": []}));
            }
        } else {
            let nr = rng.gen_range(1..=5);
            for i in 0..nr {
                let len = if i == 0 { rng.gen_range(1..=maxlen) } else { rng.gen_range(0..=maxlen) };
                parts.push(json!({"k": "r", "chars": mk_chars(&mut rng, len)}));
                if rng.gen_bool(0.3) {
                    parts.push(json!({"k": "rph", "chars": [{"c": "a", "e": "lit"}]}));
                }
                if rng.gen_bool(0.1) {
                    parts.push(json!({"k": "rnot", "chars": []}));
                }
            }
            if rng.gen_bool(0.3) {
                parts.push(json!({"k": "ppr", "chars": []}));
            }
        }
        let pre: Vec<&str> = if store == "shared" { (0..rng.gen_range(0..4)).map(|_| ["empty_si", "empty_t", "filler"][rng.gen_range(0..3)]).collect() } else { vec![] };
        let b = json!({"item": parts, "store": store, "pre": pre, "prefix": prefix, "ideal": []});
        let (spec, _) = workbook(&b);
        let bytes = build_xlsx(&spec);
        let got = catch(|| -> Result<String, String> {
            let mut wb: Xlsx<_> = Xlsx::new(Cursor::new(bytes.clone())).map_err(|e| format!("open: {}", e))?;
            let range = wb.worksheet_range("S1").map_err(|e| e.to_string())?;
            match range.get_value((0, 0)) {
                Some(Data::String(s)) => Ok(s.clone()),
                Some(Data::Empty) | None => Ok(String::new()),
                other => Err(format!("{:?}", other)),
            }
        });
        let compact: Vec<Value> = parts.iter().map(|p| json!({"k": p["k"], "chars": p["chars"].as_array().unwrap().iter().map(|c| json!({"c": c["c"]})).collect::<Vec<_>>()})).collect();
        let ev = match got {
            Ok(Ok(s)) => json!({"e": "item", "run": run, "store": store, "parts": compact, "observed": s.chars().map(char_class).collect::<Vec<_>>()}),
            Ok(Err(e)) => json!({"e": "item", "run": run, "store": store, "parts": compact, "error": e}),
            Err(p) => json!({"e": "item", "run": run, "store": store, "parts": compact, "error": p}),
        };
        writeln!(out, "{}", ev).unwrap();
    }
    0
}
