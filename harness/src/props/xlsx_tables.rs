//! C17 (xlsx) — merged regions and tables: configurations enumerated by MC_XlsxMergeTable are
//! materialised (two sheets, merges, one table part) and every accessor is compared with the ideal.
use crate::build::xlsx::{build_xlsx, cell_ref, esc};
use crate::common::*;
use calamine::{Data, Dimensions, Range, Reader, Xlsx};
use rand::rngs::StdRng;
use rand::{Rng, SeedableRng};
use serde_json::{json, Value};
use std::io::{Cursor, Write};

fn p2(v: &Value) -> (u32, u32) {
    (v[0].as_u64().unwrap() as u32, v[1].as_u64().unwrap() as u32)
}
fn ref_text(a: (u32, u32), b: (u32, u32)) -> String {
    if a == b { cell_ref(a.0, a.1) } else { format!("{}:{}", cell_ref(a.0, a.1), cell_ref(b.0, b.1)) }
}
const COLS: [&str; 3] = ["c1", "P&L", "x y"];

fn grid_tokens(empty: bool) -> Vec<Value> {
    let mut t = Vec::new();
    if empty {
        return t;
    }
    for r in 1..=4u32 {
        t.push(json!({"k": "row", "r": r}));
        for c in 1..=2u32 {
            t.push(json!({"k": "c", "r": [r, c], "v": (r * 10 + c).to_string()}));
        }
        t.push(json!({"k": "rowend"}));
    }
    t
}

pub fn workbook(b: &Value) -> Value {
    let cfg = &b["cfg"];
    let rect = (p2(&b["rect"]["a"]), p2(&b["rect"]["b"]));
    let ncols = cfg["ncols"].as_u64().unwrap() as usize;
    let mut tx = format!("<?xml version=\"1.0\" encoding=\"UTF-8\" standalone=\"yes\"?>\n<table xmlns=\"http://schemas.openxmlformats.org/spreadsheetml/2006/main\" id=\"1\" name=\"T1\" displayName=\"T1\" ref=\"{}\"", ref_text(rect.0, rect.1));
    match cfg["hdr"].as_str().unwrap() { "absent" => {}, h => tx.push_str(&format!(" headerRowCount=\"{}\"", h)) }
    match cfg["tot"].as_str().unwrap() { "absent" => {}, t => tx.push_str(&format!(" totalsRowCount=\"{}\"", t)) }
    tx.push_str(&format!("><tableColumns count=\"{}\">", ncols));
    for (i, c) in COLS.iter().take(ncols).enumerate() {
        tx.push_str(&format!("<tableColumn id=\"{}\" name=\"{}\"/>", i + 1, esc(c)));
    }
    tx.push_str("</tableColumns><tableStyleInfo name=\"TableStyleMedium2\"/></table>");
    let table = json!([{"file": "table1.xml", "target": cfg["target"], "xml": tx}]);
    let merges = |m: &Value| -> Vec<String> { m.as_array().unwrap().iter().map(|x| ref_text(p2(&x["a"]), p2(&x["b"]))).collect() };
    let tsheet = cfg["sheet"].as_u64().unwrap();
    // cfg.prefix: namespace prefix on every spreadsheetml element of the workbook and sheet parts
    // (prefixed variant: a chartsheet comes first, so sheet indexes and worksheet indexes differ)
    let chart = "<chartsheet xmlns=\"http://schemas.openxmlformats.org/spreadsheetml/2006/main\"><sheetViews><sheetView workbookViewId=\"0\"/></sheetViews></chartsheet>";
    let mut sheets = if cfg["prefix"] == "x" { vec![json!({"name": "Chart1", "file": "sheet9.xml", "dir": "chartsheets", "raw": chart, "tokens": []})] } else { vec![] };
    let rest = json!({"prefix": cfg["prefix"].as_str().unwrap_or(""), "sheets": [
        {"name": "S1", "file": "sheet1.xml", "tokens": grid_tokens(false), "merge": merges(&b["merges1"]), "tables": if tsheet == 1 { table.clone() } else { json!([]) }},
        {"name": "S2", "file": "sheet2.xml", "tokens": grid_tokens(cfg["s2empty"].as_bool().unwrap()), "merge": merges(&b["merges2"]), "tables": if tsheet == 2 { table } else { json!([]) }},
    ]});
    sheets.extend(rest["sheets"].as_array().unwrap().iter().cloned());
    json!({"prefix": rest["prefix"], "sheets": sheets})
}

fn dims_json(d: &Dimensions) -> Value {
    json!({"a": [d.start.0, d.start.1], "b": [d.end.0, d.end.1]})
}

fn table_data_diff(ideal: &Value, r: &Range<Data>) -> Option<String> {
    if ideal["start"] == json!([]) {
        // a table without data rows
        return if r.start().is_none() { None } else { Some(format!("data bounds {:?}..{:?}, expected an empty range", r.start(), r.end())) };
    }
    let s = p2(&ideal["start"]);
    let e = p2(&ideal["end"]);
    if r.start() != Some(s) || r.end() != Some(e) {
        return Some(format!("data bounds {:?}..{:?}, expected {:?}..{:?}", r.start(), r.end(), s, e));
    }
    let rows: Vec<Vec<Value>> = r.rows().map(|row| row.iter().map(|d| match d {
        Data::Empty => json!(0),
        Data::Float(f) => json!(*f as i64),
        o => json!(format!("{:?}", o)),
    }).collect()).collect();
    if json!(rows) != ideal["rows"] {
        return Some(format!("data rows {} expected {}", json!(rows), ideal["rows"]));
    }
    None
}

fn check(bytes: &[u8], b: &Value) -> Result<(), String> {
    let mut wb: Xlsx<_> = Xlsx::new(Cursor::new(bytes.to_vec())).map_err(|e| format!("open: {}", e))?;
    let cfg = &b["cfg"];
    let tsheet = format!("S{}", cfg["sheet"]);
    let other = if tsheet == "S1" { "S2" } else { "S1" };
    // ---- tables
    wb.load_tables().map_err(|e| format!("load_tables: {}", e))?;
    let names: Vec<String> = wb.table_names().into_iter().cloned().collect();
    if names != ["T1"] {
        return Err(format!("table_names = {:?}", names));
    }
    if wb.table_names_in_sheet(&tsheet) != [&"T1".to_string()] || !wb.table_names_in_sheet(other).is_empty() {
        return Err("table attributed to the wrong sheet".into());
    }
    let ncols = cfg["ncols"].as_u64().unwrap() as usize;
    let t = wb.table_by_name("T1").map_err(|e| format!("table_by_name: {}", e))?;
    if t.name() != "T1" || t.sheet_name() != tsheet {
        return Err(format!("table name/sheet = {}/{}", t.name(), t.sheet_name()));
    }
    if t.columns() != &COLS[..ncols].iter().map(|s| s.to_string()).collect::<Vec<_>>()[..] {
        return Err(format!("columns = {:?}", t.columns()));
    }
    if let Some(d) = table_data_diff(&b["table"], t.data()) {
        return Err(format!("table_by_name: {}", d));
    }
    {
        let tr = wb.table_by_name_ref("T1").map_err(|e| format!("table_by_name_ref: {}", e))?;
        let conv: Range<Data> = {
            let d = tr.data();
            let mut out = match (d.start(), d.end()) { (Some(a), Some(b)) => Range::new(a, b), _ => Range::empty() };
            if let Some(s) = d.start() {
                for (r, c, v) in d.cells() {
                    out.set_value((s.0 + r as u32, s.1 + c as u32), Data::from(v.clone()));
                }
            }
            out
        };
        if let Some(d) = table_data_diff(&b["table"], &conv) {
            return Err(format!("table_by_name_ref: {}", d));
        }
    }
    if wb.table_by_name("nope").is_ok() {
        return Err("unknown table name accepted".into());
    }
    // ---- merged regions
    wb.load_merged_regions().map_err(|e| format!("load_merged_regions: {}", e))?;
    // loading again (and loading the tables again) reports every region / table once, as declared
    let n_regions = wb.merged_regions().len();
    wb.load_merged_regions().map_err(|e| format!("load_merged_regions (again): {}", e))?;
    if wb.merged_regions().len() != n_regions {
        return Err(format!("{} merged regions after a second load_merged_regions, {} after the first", wb.merged_regions().len(), n_regions));
    }
    wb.load_tables().map_err(|e| format!("load_tables (again): {}", e))?;
    if wb.table_names().len() != 1 {
        return Err(format!("{} tables after a second load_tables", wb.table_names().len()));
    }
    let mut want_all = Vec::new();
    for (name, key) in [("S1", "merges1"), ("S2", "merges2")] {
        let want: Vec<Value> = b[key].as_array().unwrap().clone();
        for w in &want {
            want_all.push(json!([name, w]));
        }
        let got: Vec<Value> = wb.merged_regions_by_sheet(name).iter().map(|(n, _, d)| { let _ = n; dims_json(d) }).collect();
        if got != want {
            return Err(format!("merged_regions_by_sheet({}) = {} expected {}", name, json!(got), json!(want)));
        }
        let got2: Vec<Value> = match wb.worksheet_merge_cells(name) {
            Some(Ok(v)) => v.iter().map(dims_json).collect(),
            Some(Err(e)) => return Err(format!("worksheet_merge_cells: {}", e)),
            None => return Err("worksheet_merge_cells: None".into()),
        };
        if got2 != want {
            return Err(format!("worksheet_merge_cells({}) = {} expected {}", name, json!(got2), json!(want)));
        }
        let idx = (if name == "S1" { 0 } else { 1 }) + if cfg["prefix"] == "x" { 1 } else { 0 };
        let got3: Vec<Value> = match wb.worksheet_merge_cells_at(idx) {
            Some(Ok(v)) => v.iter().map(dims_json).collect(),
            _ => return Err("worksheet_merge_cells_at failed".into()),
        };
        if got3 != want {
            return Err(format!("worksheet_merge_cells_at({}) differs", idx));
        }
    }
    let got_all: Vec<Value> = wb.merged_regions().iter().map(|(n, _, d)| json!([n, dims_json(d)])).collect();
    if got_all != want_all {
        return Err(format!("merged_regions() = {} expected {}", json!(got_all), json!(want_all)));
    }
    if wb.worksheet_merge_cells("nope").is_some() {
        return Err("merge cells of an unknown sheet".into());
    }
    Ok(())
}

pub fn replay(args: &Args) -> i32 {
    let mut rep = Report::new();
    for b in read_ndjson(args.req("in")) {
        rep.case(&b["cfg"], true);
        let bytes = build_xlsx(&workbook(&b));
        match catch(|| check(&bytes, &b)) {
            Ok(Ok(())) => {
                if rep.evaluated % 4999 == 1 {
                    rep.sample(json!({"cfg": b["cfg"], "table": b["table"]}));
                }
            }
            Ok(Err(m)) => {
                let key = if b["cfg"]["target"] == "abs" && m.starts_with("table_names") { "feature:abs-table-target" }
                    else if m.starts_with("columns") { "feature:column-name-escape" }
                    else { "unexplained" };
                rep.fail(key, &b, b["table"].clone(), json!({ "mismatch": m }))
            }
            Err(p) => rep.fail("unexplained", &b, b["table"].clone(), json!({ "panic": p })),
        }
    }
    rep.write(args.req("out"));
    0
}

/// leg 2: random workbooks with several tables per sheet and many merged regions anywhere in the
/// grid; what the real reader reports is logged for Trace_XlsxMergeTable.tla
pub fn drive(args: &Args) -> i32 {
    let n = args.num("n", 40);
    let mut rng = StdRng::seed_from_u64(args.seed() ^ 0xC17);
    let mut out = std::io::BufWriter::new(std::fs::File::create(args.req("out")).unwrap());
    for run in 0..n {
        let nsheets = rng.gen_range(1..=3usize);
        let mut sheets = Vec::new();
        let mut declared: Vec<Vec<Value>> = Vec::new();
        let mut tables: Vec<Value> = Vec::new();
        let mut tcount = 0;
        for si in 0..nsheets {
            let nm = rng.gen_range(0..6);
            let mut ms = Vec::new();
            let mut refs = Vec::new();
            for _ in 0..nm {
                let a = (rng.gen_range(0..1_048_000u32), rng.gen_range(0..16_000u32));
                let b = if rng.gen_bool(0.2) { a } else { (a.0 + rng.gen_range(0..500), a.1 + rng.gen_range(0..300)) };
                ms.push(json!({"a": [a.0, a.1], "b": [b.0, b.1]}));
                refs.push(ref_text(a, b));
            }
            declared.push(ms);
            let nt = rng.gen_range(0..3);
            let mut tparts = Vec::new();
            for _ in 0..nt {
                tcount += 1;
                let a = (rng.gen_range(0..8u32), rng.gen_range(0..4u32));
                let b = (a.0 + rng.gen_range(3..9), a.1 + rng.gen_range(0..4));
                let hdr = ["absent", "0", "1"][rng.gen_range(0..3)];
                let tot = ["absent", "0", "1"][rng.gen_range(0..3)];
                let mut tx = format!("<table xmlns=\"http://schemas.openxmlformats.org/spreadsheetml/2006/main\" id=\"{i}\" name=\"T{i}\" displayName=\"T{i}\" ref=\"{r}\"", i = tcount, r = ref_text(a, b));
                if hdr != "absent" { tx.push_str(&format!(" headerRowCount=\"{}\"", hdr)); }
                if tot != "absent" { tx.push_str(&format!(" totalsRowCount=\"{}\"", tot)); }
                tx.push_str("><tableColumns count=\"1\"><tableColumn id=\"1\" name=\"c1\"/></tableColumns></table>");
                tparts.push(json!({"file": format!("table{}.xml", tcount), "target": if rng.gen_bool(0.5) { "abs" } else { "rel" }, "xml": tx}));
                tables.push(json!({"name": format!("T{}", tcount), "sheet": format!("S{}", si + 1), "a": [a.0, a.1], "b": [b.0, b.1], "hdr": hdr, "tot": tot}));
            }
            sheets.push(json!({"name": format!("S{}", si + 1), "file": format!("sheet{}.xml", si + 1), "tokens": grid_tokens(rng.gen_bool(0.2)), "merge": refs, "tables": tparts}));
        }
        let bytes = build_xlsx(&json!({ "sheets": sheets }));
        let res = catch(|| -> Result<(Vec<Value>, Vec<Value>), String> {
            let mut wb: Xlsx<_> = Xlsx::new(Cursor::new(bytes)).map_err(|e| e.to_string())?;
            wb.load_tables().map_err(|e| e.to_string())?;
            wb.load_merged_regions().map_err(|e| e.to_string())?;
            let mut tv = Vec::new();
            for t in &tables {
                let name = t["name"].as_str().unwrap();
                let tb = wb.table_by_name(name).map_err(|e| format!("{}: {}", name, e))?;
                let d = tb.data();
                tv.push(json!({"name": name, "sheet": tb.sheet_name(), "start": d.start().map_or(json!([]), |p| json!([p.0, p.1])), "end": d.end().map_or(json!([]), |p| json!([p.0, p.1]))}));
            }
            let mv: Vec<Value> = (0..nsheets).map(|si| json!(wb.merged_regions_by_sheet(&format!("S{}", si + 1)).iter().map(|(_, _, d)| dims_json(d)).collect::<Vec<_>>())).collect();
            Ok((tv, mv))
        });
        match res {
            Ok(Ok((tv, mv))) => {
                for (t, o) in tables.iter().zip(tv.iter()) {
                    writeln!(out, "{}", json!({"e": "table", "run": run, "decl": t, "obs": o})).unwrap();
                }
                for (si, (d, o)) in declared.iter().zip(mv.iter()).enumerate() {
                    writeln!(out, "{}", json!({"e": "merges", "run": run, "sheet": si + 1, "declared": d, "reported": o})).unwrap();
                }
            }
            Ok(Err(e)) => writeln!(out, "{}", json!({"e": "error", "run": run, "msg": e})).unwrap(),
            Err(p) => writeln!(out, "{}", json!({"e": "error", "run": run, "msg": p})).unwrap(),
        }
    }
    0
}
