----------------------------- MODULE CrossFormat -----------------------------
(* One logical workbook, several physical encodings.  /repo/tests holds workbooks that *)
(* a spreadsheet application saved under one stem in two to four formats; whatever the  *)
(* encoding, the readers must return the same abstract document:                        *)
(*   - a cell that two formats both report has the same class (number, string, boolean, *)
(*     error, date, duration) and the same canonical value (numbers to 12 significant   *)
(*     digits: the stored text carries 15 or 17; ods keeps dates and durations as ISO   *)
(*     text, which is compared by class only);                                          *)
(*   - the token-encoded and stored-text formula formats (xls, xlsb, xlsx) report the    *)
(*     same formula text for it (ods has its own formula syntax);                       *)
(*   - xls, xlsb and xlsx report the same number of non-empty cells for a worksheet.    *)
(* The writer of these files is independent of calamine and of this framework's own     *)
(* writers, which makes the agreement an oracle of its own: it exposed the swapped      *)
(* PtgGe/PtgGt of the xlsb reader that the model legs (whose token writer had copied    *)
(* the table) could not see.                                                            *)
EXTENDS Naturals, Sequences, TLC, Json, IOUtils

Rec == ndJsonDeserialize(IOEnv.TRACE)
VARIABLES l, memo, counts
vars == <<l, memo, counts>>
Ev == Rec[l]
IsEvent(e) == l <= Len(Rec) /\ Ev.e = e /\ l' = l + 1

Init == l = 1 /\ memo = <<>> /\ counts = <<>>

TFamily == IsEvent("family") /\ memo' = <<>> /\ counts' = <<>>

Agree(m, e) ==
  /\ m.cls = e.cls
  /\ (m.val = e.val \/ m.val = "iso" \/ e.val = "iso")
  /\ (m.fmt = "ods" \/ e.fmt = "ods" \/ m.fmla = e.fmla)

TCell ==
  /\ IsEvent("cell")
  /\ LET key == <<Ev.sheet, Ev.r, Ev.c>> IN
     IF key \in DOMAIN memo
       THEN /\ Agree(memo[key], Ev)
            \* keep a serial-number format's record as the reference once one is seen
            /\ memo' = IF memo[key].fmt = "ods" THEN [memo EXCEPT ![key] = Ev] ELSE memo
       ELSE memo' = [k \in DOMAIN memo \cup {key} |-> IF k = key THEN Ev ELSE memo[k]]
  /\ UNCHANGED counts

TSheet ==
  /\ IsEvent("sheet")
  /\ IF Ev.fmt = "ods" THEN UNCHANGED counts
     ELSE IF Ev.sheet \in DOMAIN counts THEN counts[Ev.sheet] = Ev.cells /\ UNCHANGED counts
     ELSE counts' = [k \in DOMAIN counts \cup {Ev.sheet} |-> IF k = Ev.sheet THEN Ev.cells ELSE counts[k]]
  /\ UNCHANGED memo

Next == TFamily \/ TCell \/ TSheet
Spec == Init /\ [][Next]_vars

Accepted ==
  LET d == TLCGet("stats").diameter IN
  IF d - 1 = Len(Rec) THEN PrintT(<<"ACCEPTED", ToString(Len(Rec))>>)
  ELSE PrintT(<<"REJECTED", ToJson([at |-> d, event |-> Rec[d]])>>)
=============================================================================
