----------------------------- MODULE MC_ReaderApi -----------------------------
(* History generator: every sequence of API calls up to a bound over the chosen  *)
(* alphabet, with the mutable reader state (hdr, caches) tracked so that calls    *)
(* with a documented precondition (table_names after load_tables, ...) are only   *)
(* issued when it holds.  Each complete history is replayed on real readers of    *)
(* all four formats; the recorded results are validated by Trace_ReaderApi.       *)
EXTENDS ReaderApi, Json

CONSTANTS Calls, HSet, MaxOps, DocCells, MaxDocCells, FixedDoc, SheetArgs

VARIABLES doc, hdr, tablesLoaded, mergedLoaded, hist, done
vars == <<doc, hdr, tablesLoaded, mergedLoaded, hist, done>>

HOf(k) == IF k = 4294967 THEN "max" ELSE IF k = 4294966 THEN "default" ELSE k   \* cfg codes for u32::MAX / back to default
\* cell ids: row*10 + col; 99990 = column A of the LAST row of the grid (1 048 575; the harness takes 65 535 for xls)
PosOf(k) == IF k = 99990 THEN <<1048575, 0>> ELSE <<k \div 10, k % 10>>
Docs == IF FixedDoc THEN {{<<1, 0, 11>>, <<1, 2, 12>>, <<3, 0, 13>>}}
        ELSE {{<<PosOf(k)[1], PosOf(k)[2], k + 100>> : k \in S} : S \in {T \in SUBSET DocCells : Cardinality(T) <= MaxDocCells}}

Init == /\ doc \in Docs /\ hdr = "default" /\ tablesLoaded = FALSE /\ mergedLoaded = FALSE
        /\ hist = <<>> /\ done = FALSE

Room == ~done /\ Len(hist) < MaxOps
Op(o) == hist' = Append(hist, o)

SetHeader(h) == Room /\ "set_header" \in Calls /\ hdr' = HOf(h) /\ Op([op |-> "set_header", h |-> HOf(h)])
                /\ UNCHANGED <<doc, tablesLoaded, mergedLoaded, done>>
Simple(c, a) == Room /\ c \in Calls /\ Op([op |-> c, arg |-> a]) /\ UNCHANGED <<doc, hdr, tablesLoaded, mergedLoaded, done>>
LoadTables == Room /\ "load_tables" \in Calls /\ tablesLoaded' = TRUE /\ Op([op |-> "load_tables", arg |-> ""])
              /\ UNCHANGED <<doc, hdr, mergedLoaded, done>>
\* table calls need the tables loaded (documented precondition): when they are not, the
\* history step stands for load_tables followed by the call
TableCalls(c) == Room /\ c \in Calls /\ Op([op |-> c, arg |-> "T1"]) /\ tablesLoaded' = TRUE
                 /\ UNCHANGED <<doc, hdr, mergedLoaded, done>>
LoadMerged == Room /\ "load_merged" \in Calls /\ mergedLoaded' = TRUE /\ Op([op |-> "load_merged", arg |-> ""])
              /\ UNCHANGED <<doc, hdr, tablesLoaded, done>>
MergedCalls == Room /\ "merged_by_sheet" \in Calls /\ Op([op |-> "merged_by_sheet", arg |-> "S1"]) /\ mergedLoaded' = TRUE
               /\ UNCHANGED <<doc, hdr, tablesLoaded, done>>
End == ~done /\ hist # <<>> /\ done' = TRUE /\ UNCHANGED <<doc, hdr, tablesLoaded, mergedLoaded, hist>>

Next == \/ \E h \in HSet : SetHeader(h)
        \/ \E s \in SheetArgs : Simple("range", s) \/ Simple("range_ref", s) \/ Simple("formula", s) \/ Simple("merge_cells", s)
        \* unknown names: one unrelated, one that differs from an existing sheet ("S2") only by case
        \/ \E u \in UnknownSheets : Simple("range", u) \/ Simple("formula", u)
        \/ \E n \in {"0", "1", "2", "7"} : Simple("range_at", n)
        \/ Simple("worksheets", "") \/ Simple("sheet_names", "") \/ Simple("defined_names", "") \/ Simple("vba", "")
        \/ LoadTables \/ TableCalls("table_by_name") \/ TableCalls("table_names") \/ LoadMerged \/ MergedCalls
        \/ End
Spec == Init /\ [][Next]_vars

\* only complete histories that end with a read are interesting
EndsWithRead == hist[Len(hist)].op \notin {"set_header", "load_tables", "load_merged"}
Dump == (done /\ EndsWithRead) => PrintT(<<"REPLAY", ToJson([doc |-> doc, ops |-> hist])>>)
=============================================================================
