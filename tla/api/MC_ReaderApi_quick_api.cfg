SPECIFICATION Spec
CONSTANTS
  Calls = {"set_header", "range", "range_ref", "range_at", "worksheets", "formula", "merge_cells", "sheet_names", "defined_names", "vba", "load_tables", "table_by_name", "table_names", "load_merged", "merged_by_sheet"}
  HSet = {0, 2, 4294966}
  MaxOps = 3
  DocCells = {}
  MaxDocCells = 0
  FixedDoc = TRUE
  SheetArgs = {"S1", "S2"}
INVARIANT Dump
CHECK_DEADLOCK FALSE
