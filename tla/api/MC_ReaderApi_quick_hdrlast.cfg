SPECIFICATION Spec
CONSTANTS
  Calls = {"set_header", "range", "range_ref"}
  HSet = {0, 1048575, 4294967, 4294966}
  MaxOps = 3
  DocCells = {99990}
  MaxDocCells = 1
  FixedDoc = FALSE
  SheetArgs = {"S1"}
INVARIANT Dump
CHECK_DEADLOCK FALSE
