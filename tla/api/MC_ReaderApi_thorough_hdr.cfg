SPECIFICATION Spec
CONSTANTS
  Calls = {"set_header", "range", "range_ref"}
  HSet = {0, 1, 2, 3, 4, 5, 6, 65535, 1048575, 2147483647, 4294967, 4294966}
  MaxOps = 3
  DocCells = {0, 2, 10, 30, 32, 40}
  MaxDocCells = 3
  FixedDoc = FALSE
  SheetArgs = {"S1"}
INVARIANT Dump
CHECK_DEADLOCK FALSE
