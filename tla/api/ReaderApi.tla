------------------------------ MODULE ReaderApi ------------------------------
(***************************************************************************)
(* C07 / C08 -- the Reader / ReaderRef API as a state machine.             *)
(*                                                                         *)
(* Reader state that calls can change: the header-row option in force      *)
(* (hdr), the lazily loaded table and merged-region caches.  Every read    *)
(* call returns a value that must be a function of (file, call, argument,  *)
(* hdr) only -- PURITY -- which the trace spec checks with a memo table    *)
(* shared by all readers of the same file (native reader, auto-detected    *)
(* reader, fresh single-call readers).  Alternative access paths           *)
(* (worksheet_range, worksheet_range_ref converted, worksheet_range_at,    *)
(* worksheets() entries under the default option) are normalised to the    *)
(* same memo key, so they must agree.                                      *)
(* C08: HeaderOK(res, doc, h) is the statement's predicate on a returned   *)
(* range (it fixes the first row and the values, not the column extent).   *)
(***************************************************************************)
EXTENDS Naturals, Sequences, FiniteSets, TLC

\* header option: kind hk \in {"default", "row", "max"} ("max" = u32::MAX, larger than any row)
\* and, for kind "row", the row number hn
RowGeq(r, hk, hn) == IF hk = "default" THEN TRUE ELSE IF hk = "max" THEN FALSE ELSE r >= hn

\* doc : set of <<r, c, v>> triples (non-empty cells); res : [start, end, cells : Seq(<<r,c,v>>)]
Kept(doc, hk, hn) == {x \in doc : RowGeq(x[1], hk, hn)}
SetMin(S) == CHOOSE x \in S : \A y \in S : x <= y
HeaderOK(res, doc, hk, hn) ==
  LET keep == Kept(doc, hk, hn)
      got  == {res.cells[i] : i \in 1..Len(res.cells)}
  IN IF keep = {} THEN res.start = <<>> /\ res.cells = <<>>
     ELSE /\ res.start # <<>>
          \* first row: the first non-empty row by default, exactly row n otherwise
          /\ res.start[1] = (IF hk = "default" THEN SetMin({x[1] : x \in doc}) ELSE hn)
          \* every position with row >= n holds the same value as without the option, none from above
          /\ got = keep
          /\ Len(res.cells) = Cardinality(got)

\* range-like calls are the same question asked through different paths
IsRangeLike(call) == call \in {"range", "range_ref", "range_at"}
NormCall(call, hdr) ==
  IF IsRangeLike(call) THEN "range"
  ELSE IF call = "worksheets_entry" /\ hdr = "default" THEN "range"
  ELSE call
=============================================================================
