---------------------------- MODULE Trace_ReaderApi ----------------------------
(* code -> spec: every call made on real readers (native, auto-detected, fresh      *)
(* single-call readers) of one workbook, in all four formats, with its canonical    *)
(* result digest.  The spec keeps a memo per workbook: the result of a call must be *)
(* a function of (format, call, argument, header option) only, range-like access    *)
(* paths share one key, an unknown sheet is an error, and range results satisfy the *)
(* header-row predicate HeaderOK.                                                   *)
EXTENDS ReaderApi, Json, IOUtils

Rec == ndJsonDeserialize(IOEnv.TRACE)
VARIABLES l, doc, hdr, memo
vars == <<l, doc, hdr, memo>>
Ev == Rec[l]
IsEvent(e) == l <= Len(Rec) /\ Ev.e = e /\ l' = l + 1

Init == l = 1 /\ doc = {} /\ hdr = "default" /\ memo = <<>>

DocSet(js) == {js[i] : i \in 1..Len(js)}
TWorkbook == IsEvent("workbook") /\ doc' = DocSet(Ev.doc) /\ hdr' = "default" /\ memo' = <<>>
TOpen == IsEvent("open") /\ hdr' = "default" /\ UNCHANGED <<doc, memo>>
TSet == IsEvent("set_header") /\ hdr' = Ev.h /\ UNCHANGED <<doc, memo>>

HKind(ev) == IF ev.hdr \in {"default", "max"} THEN ev.hdr ELSE "row"
HNum(ev) == IF "hnum" \in DOMAIN ev THEN ev.hnum ELSE 0

TCall ==
  /\ IsEvent("call")
  /\ Ev.hdr = hdr                                         \* the option in force is the last one set on this reader
  /\ LET key == <<Ev.fmt, NormCall(Ev.call, Ev.hdr), Ev.arg, Ev.hdr>> IN
     /\ (key \in DOMAIN memo) => memo[key] = Ev.digest   \* purity / path agreement / auto = native
     /\ memo' = [k \in DOMAIN memo \cup {key} |-> IF k = key THEN Ev.digest ELSE memo[k]]
  /\ (Ev.arg = "nope") => Ev.digest = "error"
  /\ ("res" \in DOMAIN Ev /\ (Ev.call # "worksheets_entry" \/ Ev.hdr = "default"))
        => HeaderOK(Ev.res, doc, HKind(Ev), HNum(Ev))
  /\ UNCHANGED <<doc, hdr>>

Next == TWorkbook \/ TOpen \/ TSet \/ TCall
Spec == Init /\ [][Next]_vars

Accepted ==
  LET d == TLCGet("stats").diameter IN
  IF d - 1 = Len(Rec) THEN PrintT(<<"ACCEPTED", ToString(Len(Rec))>>)
  ELSE PrintT(<<"REJECTED", ToJson([at |-> d, event |-> Rec[d]])>>)
=============================================================================
