------------------------------- MODULE Biff5 -------------------------------
(***************************************************************************)
(* X04 (extended coverage) -- xls beyond BIFF8/UTF-16: BIFF5 workbooks and *)
(* code pages, at byte level.                                              *)
(*                                                                         *)
(* A FILE is a function from stream names ("Book", "Workbook") to streams; *)
(* a stream is [g : globals records, s : sequence of sheet substreams];    *)
(* a record is <<type, data>> with data a sequence of byte values 0..255.  *)
(* (The harness lays the substreams out one after the other and patches    *)
(* lbPlyPos of the i-th BoundSheet record to the i-th sheet substream.)    *)
(*                                                                         *)
(* READER = src/xls.rs  parse_workbook (both loops), parse_bof,            *)
(*   parse_sheet_metadata, parse_short_string, parse_string, parse_label,  *)
(*   parse_label_sst, parse_format, parse_xf, parse_number, parse_rk,      *)
(*   parse_mul_rk, parse_dimensions, parse_sst / read_rich_extended_string *)
(*   / read_dbcs (strings inside one record without runs / ExtRst: C12     *)
(*   covers the rest), the Lbl arm + read_unicode_string_no_cch, the       *)
(*   FORMULA arm (string results), src/cfb.rs XlsEncoding::from_codepage / *)
(*   high_byte / decode_to (as repaired by /repo 4e8471f: UTF-16LE for a   *)
(*   string with an option-flags byte, the CODEPAGE page for a byte string,*)
(*   no BOM sniffing; AsWas = TRUE keeps Encoding::decode of the page with *)
(*   its BOM sniffing) and src/formats.rs detect_custom_number_format.     *)
(*                                                                         *)
(* Text is a sequence of Unicode code points.  The decoding tables below   *)
(* hold only the bytes the checked alphabets can produce; a byte outside   *)
(* them makes TLC fail (never a silently wrong answer), and every decode   *)
(* call the reader model makes is exported (`calls`) and re-evaluated by   *)
(* the harness with encoding_rs.                                           *)
(*                                                                         *)
(* Not covered: BIFF2-4 record ids (0x0009/0x0209/0x0409 BOF, 0x0004 LABEL *)
(* ...), RSTRING (0x00D6, ignored by calamine), BIFF5 formula tokens,      *)
(* CONTINUE, CODEPAGE values 0x8000/0x8001 (BIFF2-4 only), CODEPAGE 1200   *)
(* in a BIFF5 workbook (not meaningful).                                   *)
(***************************************************************************)
EXTENDS Naturals, Sequences, FiniteSets, TLC, SequencesExt

\* FALSE: the reader as repaired by /repo commit 4e8471f (a string with an option-flags byte is UTF-16LE
\* whatever CODEPAGE says; no byte-order-mark sniffing).  TRUE: the reader as it was before (every string
\* through Encoding::decode of the CODEPAGE page) -- kept as a configuration TLC has to refute.
CONSTANT AsWas

\* The NAMED DEVIATIONS of the pinned reader (known_findings.json, X04) are switches of the model: Rep is
\* the set of deviations taken to be REPAIRED.  Rep = {} is the reader as it is; Trace_Biff5 / MC_Biff5
\* instantiate the module once per subset (INSTANCE Biff5 WITH Rep <- R), so that a reader in which any
\* subset of the deviations has been repaired -- including two deviations that meet in one string -- is a
\* behaviour of the specification, and a third reading is not.
\*   "Biff5Lbl"             the Lbl name is read with an option-flags byte in every version
\*   "Biff5Format"          FORMAT is read as ifmt, cch(2), flags in every version (BIFF5: ifmt, cch(1), bytes)
\*   "DbcsByteString"       a byte string under a double-byte page is widened byte by byte (Some(false))
\*   "UnsupportedCodePage"  a CODEPAGE without decoder fails the workbook (repaired: ASCII as it is; of the
\*                          high bytes only the alphabet's 437 byte is given a reading)
CONSTANT Rep
DevNames == {"Biff5Lbl", "Biff5Format", "DbcsByteString", "UnsupportedCodePage"}

MinN(a, b) == IF a < b THEN a ELSE b
MaxN(a, b) == IF a > b THEN a ELSE b
Drop(s, n) == SubSeq(s, n + 1, Len(s))
Take(s, n) == SubSeq(s, 1, n)
U16(d, i) == d[i] + 256 * d[i + 1]                       \* read_u16(&d[i-1..]), i is 1-based
U32(d, i) == d[i] + 256 * d[i + 1] + 65536 * d[i + 2]    \* values below 2^24 only (d[i+3] = 0)
LE16(n) == <<n % 256, n \div 256>>
FFFD == 65533

--------------------------------------------------------------------------
(* code pages: codepage::to_encoding + encoding_rs, restricted to the alphabet *)
SbPages == {1252, 1251, 1250, 866, 10000}
DbPages == {932, 936}
Known   == SbPages \cup DbPages \cup {1200}
Kind(cp) == IF cp = 1200 THEN "u16" ELSE IF cp \in DbPages THEN "db" ELSE IF cp \in SbPages THEN "sb" ELSE "ascii"

\* high half of the single-byte pages (byte -> code point)
SbHigh(cp) ==
  CASE cp = 1252  -> (128 :> 8364 @@ 233 :> 233  @@ 254 :> 254  @@ 255 :> 255)
    [] cp = 1251  -> (192 :> 1040 @@ 233 :> 1081 @@ 254 :> 1102 @@ 255 :> 1103)
    [] cp = 1250  -> (163 :> 321  @@ 233 :> 233)
    [] cp = 866   -> (128 :> 1040 @@ 233 :> 1097)
    [] cp = 10000 -> (142 :> 233  @@ 233 :> 200)

\* double-byte pages: WHATWG Shift_JIS (932) and gb18030/GBK (936) decoders
IsLead(cp, b)  == IF cp = 932 THEN (b >= 129 /\ b <= 159) \/ (b >= 224 /\ b <= 252)
                  ELSE b >= 129 /\ b <= 254
IsTrail(cp, b) == IF cp = 932 THEN (b >= 64 /\ b <= 126) \/ (b >= 128 /\ b <= 252)
                  ELSE (b >= 64 /\ b <= 126) \/ (b >= 128 /\ b <= 254)
DbPair(cp) == IF cp = 932 THEN (<<130, 160>> :> 12354) ELSE (<<214, 208>> :> 20013)
DbSingle(cp, b) == IF cp = 932
                   THEN (IF b >= 161 /\ b <= 223 THEN 65377 + (b - 161) ELSE IF b = 128 THEN 128 ELSE FFFD)
                   ELSE (IF b = 128 THEN 8364 ELSE FFFD)
RECURSIVE DecodeDb(_, _)
DecodeDb(cp, bs) ==
  IF bs = <<>> THEN <<>>
  ELSE LET b == bs[1] IN
       IF b < 128 THEN <<b>> \o DecodeDb(cp, Drop(bs, 1))
       ELSE IF ~IsLead(cp, b) THEN <<DbSingle(cp, b)>> \o DecodeDb(cp, Drop(bs, 1))
       ELSE IF Len(bs) = 1 THEN <<FFFD>>
       ELSE LET t == bs[2] IN
            IF IsTrail(cp, t) THEN <<DbPair(cp)[<<b, t>>]>> \o DecodeDb(cp, Drop(bs, 2))
            \* an ASCII byte that is not a trail byte is looked at again
            ELSE IF t < 128 THEN <<FFFD>> \o DecodeDb(cp, Drop(bs, 1))
            ELSE <<FFFD>> \o DecodeDb(cp, Drop(bs, 2))

IsSurr(u) == u >= 55296 /\ u <= 57343
\* UTF-16 (no astral characters in the alphabets: a surrogate is unpaired); a trailing odd byte is malformed
Units(bs, le) == [k \in 1..(Len(bs) \div 2) |->
                    IF le THEN bs[2 * k - 1] + 256 * bs[2 * k] ELSE 256 * bs[2 * k - 1] + bs[2 * k]]
DecodeU16(bs, le) == [k \in 1..(Len(bs) \div 2) |-> IF IsSurr(Units(bs, le)[k]) THEN FFFD ELSE Units(bs, le)[k]]
                     \o (IF Len(bs) % 2 = 1 THEN <<FFFD>> ELSE <<>>)

Raw(cp, bs) == CASE Kind(cp) = "u16" -> DecodeU16(bs, TRUE)
                 [] Kind(cp) = "sb"  -> [k \in 1..Len(bs) |-> IF bs[k] < 128 THEN bs[k] ELSE SbHigh(cp)[bs[k]]]
                 [] Kind(cp) = "db"  -> DecodeDb(cp, bs)
                 \* a page without decoder, once "UnsupportedCodePage" is repaired: what IBM 437 gives for the one
                 \* high byte of the alphabet; any other high byte has no defined reading here
                 [] Kind(cp) = "ascii" -> [k \in 1..Len(bs) |-> IF bs[k] < 128 THEN bs[k]
                                                               ELSE IF cp = 437 /\ bs[k] = 130 THEN 233 ELSE FFFD]

\* encoding_rs Encoding::decode: BOM sniffing first -- a UTF-8, UTF-16LE or UTF-16BE byte order mark
\* at the start of the bytes is removed and selects the encoding of the rest
DecodeUtf8(bs) == [k \in 1..Len(bs) |-> IF bs[k] < 128 THEN bs[k] ELSE Assert(FALSE, "non-ASCII UTF-8 outside the alphabet")]
Decode(cp, bs) ==
  IF Len(bs) >= 3 /\ Take(bs, 3) = <<239, 187, 191>> THEN DecodeUtf8(Drop(bs, 3))
  ELSE IF Len(bs) >= 2 /\ bs[1] = 255 /\ bs[2] = 254 THEN DecodeU16(Drop(bs, 2), TRUE)
  ELSE IF Len(bs) >= 2 /\ bs[1] = 254 /\ bs[2] = 255 THEN DecodeU16(Drop(bs, 2), FALSE)
  ELSE Raw(cp, bs)

--------------------------------------------------------------------------
(* src/cfb.rs XlsEncoding *)
\* high_byte(): an explicit flag wins; without one a single-byte encoding decodes the bytes as
\* they are, every other encoding (UTF-16LE and the double-byte pages) gets Some(false)
HighByte(enc, hb) == IF hb # "none" THEN hb
                     ELSE IF Kind(enc) \in {"sb", "ascii"} \/ (Kind(enc) = "db" /\ "DbcsByteString" \in Rep) THEN "none"
                     ELSE "false"
HB(b) == IF b % 2 = 1 THEN "true" ELSE "false"

\* decode_to(stream, len, s, high_byte): `arg` is what is handed to the decoder -- UTF-16LE when the caller
\* passed an option-flags bit (the argument, not the overridden value), the CODEPAGE page otherwise,
\* decode_without_bom_handling in both cases.  `call` = <<page used, bytes, text>> (re-evaluated with encoding_rs)
DecodeTo(enc, stream, len, hb) ==
  LET h == HighByte(enc, hb)
      l == IF h = "true" THEN MinN(Len(stream) \div 2, len) ELSE MinN(Len(stream), len)
      arg == CASE h = "none"  -> Take(stream, l)
               [] h = "false" -> [k \in 1..(2 * l) |-> IF k % 2 = 1 THEN stream[(k + 1) \div 2] ELSE 0]
               [] h = "true"  -> Take(stream, 2 * l)
      page == IF ~AsWas /\ hb # "none" THEN 1200 ELSE enc
      text == IF AsWas THEN Decode(enc, arg) ELSE Raw(page, arg)
  IN [l |-> l, ub |-> IF h = "true" THEN 2 * l ELSE l, text |-> text, call |-> <<page, arg, text>>]

--------------------------------------------------------------------------
(* src/formats.rs detect_custom_number_format over code points: "o" | "dt" | "td" *)
Lower(c) == IF c >= 65 /\ c <= 90 THEN c + 32 ELSE c
IsHMS(c) == c \in {109, 104, 115, 77, 72, 83}                          \* m h s M H S
IsDateCh(c) == c \in {100, 109, 104, 121, 115, 68, 77, 72, 89, 83}     \* d m h y s D M H Y S
ScanInit == [esc |-> FALSE, quote |-> FALSE, br |-> 0, prev |-> 32, hms |-> FALSE, ap |-> FALSE, ret |-> "none"]
ScanStep(st, s) ==
  IF st.ret # "none" THEN st
  ELSE LET st2 ==
         IF st.esc THEN [st EXCEPT !.esc = FALSE]
         ELSE IF s = 34 /\ st.quote THEN [st EXCEPT !.quote = FALSE]
         ELSE IF st.quote THEN st
         ELSE IF s \in {95, 92} THEN [st EXCEPT !.esc = TRUE]
         ELSE IF s = 34 THEN [st EXCEPT !.quote = TRUE]
         ELSE IF s = 59 THEN [st EXCEPT !.ret = "o"]
         ELSE IF s = 91 THEN [st EXCEPT !.br = @ + 1]
         ELSE IF s = 93 /\ st.br = 1 /\ st.hms THEN [st EXCEPT !.ret = "td"]
         ELSE IF s = 93 THEN [st EXCEPT !.br = IF @ = 0 THEN 0 ELSE @ - 1]
         ELSE IF s \in {97, 65} /\ ~st.ap /\ st.br = 0 THEN [st EXCEPT !.ap = TRUE]
         ELSE IF s \in {112, 109, 47, 80, 77} /\ st.ap /\ st.br = 0 THEN [st EXCEPT !.ret = "dt"]
         ELSE IF IsDateCh(s) /\ ~st.ap /\ st.br = 0 THEN [st EXCEPT !.ret = "dt"]
         ELSE IF st.hms /\ Lower(s) = Lower(st.prev) THEN st                 \* eq_ignore_ascii_case
         ELSE [st EXCEPT !.hms = (st.prev = 91 /\ IsHMS(s))]
       IN [st2 EXCEPT !.prev = s]
Detect(text) == LET r == FoldLeft(ScanStep, ScanInit, text).ret IN IF r = "none" THEN "o" ELSE r
\* builtin_format_by_code (src/formats.rs)
Builtin(id) == IF id \in (14..22) \cup {45, 47} THEN "dt" ELSE IF id = 46 THEN "td" ELSE "o"

--------------------------------------------------------------------------
(* src/xls.rs *)
ParseBof(d) ==
  IF Len(d) < 2 THEN [err |-> "Len(BOF)", biff |-> "Biff8"]
  ELSE LET v  == U16(d, 1)
           dt == IF Len(d) >= 4 THEN U16(d, 3) ELSE 0
       IN [err |-> "",
           biff |-> CASE v \in {512, 2, 7} -> "Biff2"
                      [] v = 768  -> "Biff3"
                      [] v = 1024 -> "Biff4"
                      [] v = 1280 -> "Biff5"
                      [] v = 1536 -> "Biff8"
                      [] v = 0    -> IF dt = 4096 THEN "Biff5" ELSE "Biff8"
                      [] OTHER    -> "Biff8"]

\* result of one string read: [err, text, calls]
Str(err, text, calls) == [err |-> err, text |-> text, calls |-> calls]

\* parse_short_string: cch is one byte; the option-flags byte exists in BIFF8 only
ShortString(d, enc, biff) ==
  IF Len(d) < 2 THEN Str("Len(short string)", <<>>, <<>>)
  ELSE LET cch == d[1]
           r   == IF biff = "Biff8" THEN DecodeTo(enc, Drop(d, 2), cch, HB(d[2]))
                  ELSE DecodeTo(enc, Drop(d, 1), cch, "none")
       IN Str("", r.text, <<r.call>>)

\* parse_string: cch is two bytes; every version before BIFF8 has no option-flags byte
LongString(d, enc, biff) ==
  \* cch, the option flags in BIFF8, then cch characters, possibly none (as pinned: 4 bytes demanded of every
  \* version -- a one-character BIFF5 string or an empty BIFF8 one failed the workbook; repaired in /repo, see
  \* known_findings.json "fixed"; AsWas keeps the old test)
  IF Len(d) < (IF AsWas THEN 4 ELSE IF biff = "Biff8" THEN 3 ELSE 2) THEN Str("Len(string)", <<>>, <<>>)
  ELSE LET cch == U16(d, 1)
           r   == IF biff = "Biff8" THEN DecodeTo(enc, Drop(d, 3), cch, HB(d[3]))
                  ELSE DecodeTo(enc, Drop(d, 2), cch, "none")
       IN Str("", r.text, <<r.call>>)

\* parse_format: the same layout for every version (ifmt, cch u16, flags)
ParseFormat(d, enc, biff) ==
  IF biff # "Biff8" /\ "Biff5Format" \in Rep
  THEN IF Len(d) < 3 THEN [err |-> "Len(format)", idx |-> 0, text |-> <<>>, calls |-> <<>>]
       ELSE LET r == DecodeTo(enc, Drop(d, 3), d[3], "none")
            IN [err |-> "", idx |-> U16(d, 1), text |-> r.text, calls |-> <<r.call>>]
  ELSE IF Len(d) < 5 THEN [err |-> "Len(format)", idx |-> 0, text |-> <<>>, calls |-> <<>>]
  ELSE LET r == DecodeTo(enc, Drop(d, 5), U16(d, 3), HB(d[5]))
       IN [err |-> "", idx |-> U16(d, 1), text |-> r.text, calls |-> <<r.call>>]

\* the Lbl arm: the same layout for every version (name = XLUnicodeStringNoCch at offset 14)
ParseLbl(d, enc, biff) ==
  IF biff # "Biff8" /\ "Biff5Lbl" \in Rep
  THEN IF Len(d) < 14 THEN Str("Len(Lbl)", <<>>, <<>>)
       ELSE LET cch == d[4]
                cce == U16(d, 5)
            IN IF Len(d) < MaxN(14 + cch, cce) THEN Str("Len(Lbl)", <<>>, <<>>)
               ELSE LET r == DecodeTo(enc, Drop(d, 14), cch, "none") IN Str("", r.text, <<r.call>>)
  ELSE IF Len(d) < 15 THEN Str("Len(Lbl)", <<>>, <<>>)
  ELSE LET cch == d[4]
           cce == U16(d, 5)
       IN IF Len(d) < MaxN(15 + cch, cce) THEN Str("Len(Lbl)", <<>>, <<>>)
          ELSE LET r == DecodeTo(enc, Drop(d, 15), cch, HB(d[15])) IN Str("", r.text, <<r.call>>)

\* parse_sst / read_rich_extended_string / read_dbcs for strings that lie inside the record and
\* have neither formatting runs nor an ExtRst block (flags bits 2 and 3 clear)
RECURSIVE ReadSst(_, _, _, _, _)
ReadSst(d, n, enc, acc, calls) ==
  IF n = 0 THEN [err |-> "", sst |-> acc, calls |-> calls]
  ELSE IF Len(d) < 3 THEN [err |-> "Len(rich extended string)", sst |-> acc, calls |-> calls]
  ELSE LET cch   == U16(d, 1)
           flags == d[3]
           high  == flags % 2 = 1
           rest  == Drop(d, 3)
           l     == IF high THEN MinN(Len(rest) \div 2, cch) ELSE MinN(Len(rest), cch)
       IN IF (flags \div 4) % 4 # 0 THEN Assert(FALSE, "rich / ext strings are C12's")
          ELSE IF l # cch THEN [err |-> "EoStream(dbcs)", sst |-> acc, calls |-> calls]
          ELSE LET r == DecodeTo(enc, rest, cch, HB(flags))
               IN ReadSst(Drop(rest, r.ub), n - 1, enc, Append(acc, IF cch = 0 THEN <<>> ELSE r.text),
                          IF cch = 0 THEN calls ELSE Append(calls, r.call))
ParseSst(d, enc) ==
  IF Len(d) < 8 THEN [err |-> "Len(sst)", sst |-> <<>>, calls |-> <<>>]
  ELSE ReadSst(Drop(d, 8), U32(d, 5), enc, <<>>, <<>>)

\* state of the first loop of parse_workbook
\* XlsOptions::force_codepage (`force`, 0 = not set): the page every byte string is read with, whatever
\* the CODEPAGE record says -- the record is still length-checked, its value is not looked at
G0F(force) == [err |-> IF force # 0 /\ force \notin Known /\ "UnsupportedCodePage" \notin Rep THEN "CodePageNotFound" ELSE "",
               stop |-> FALSE, biff |-> "Biff8", enc |-> IF force # 0 THEN force ELSE 1200, force |-> force, fmts |-> <<>>, xfs |-> <<>>,
               names |-> <<>>, defs |-> <<>>, sst |-> <<>>, calls |-> <<>>]
G0 == G0F(0)
Fail(g, e) == [g EXCEPT !.err = e]

GlobalsRec(g, rec) ==
  IF g.err # "" \/ g.stop THEN g
  ELSE LET typ == rec[1]
           d   == rec[2]
  IN CASE typ = 47   -> Fail(g, "Password")                                    \* 0x002F FilePass
       [] typ = 66   -> IF Len(d) < 2 THEN Fail(g, "Len(CodePage)")            \* 0x0042 CodePage
                        ELSE IF g.force # 0 THEN g
                        ELSE IF U16(d, 1) \notin Known /\ "UnsupportedCodePage" \notin Rep THEN Fail(g, "CodePageNotFound")
                        ELSE [g EXCEPT !.enc = U16(d, 1)]
       [] typ = 1054 -> LET r == ParseFormat(d, g.enc, g.biff)                         \* 0x041E Format
                        IN IF r.err # "" THEN Fail(g, r.err)
                           ELSE [g EXCEPT !.fmts = Append(@, <<r.idx, r.text>>), !.calls = @ \o r.calls]
       [] typ = 224  -> IF Len(d) < 4 THEN Fail(g, "Len(xf)")                  \* 0x00E0 XF
                        ELSE [g EXCEPT !.xfs = Append(@, U16(d, 3))]
       [] typ = 133  -> IF Len(d) < 6 THEN Fail(g, "Len(BoundSheet8)")         \* 0x0085 BoundSheet
                        ELSE IF (d[5] % 64) \notin {0, 1, 2} THEN Fail(g, "Unrecognized(BoundSheet8:hsState)")
                        ELSE IF d[6] \notin {0, 1, 2, 6} THEN Fail(g, "Unrecognized(BoundSheet8:dt)")
                        ELSE LET r == ShortString(Drop(d, 6), g.enc, g.biff)
                             IN IF r.err # "" THEN Fail(g, r.err)
                                \* name.retain(|c| c != '\0')
                                ELSE [g EXCEPT !.names = Append(@, SelectSeq(r.text, LAMBDA c : c # 0)),
                                               !.calls = @ \o r.calls]
       [] typ = 2057 -> LET b == ParseBof(d)                                   \* 0x0809 BOF
                        IN IF b.err # "" THEN Fail(g, b.err) ELSE [g EXCEPT !.biff = b.biff]
       [] typ = 24   -> LET r == ParseLbl(d, g.enc, g.biff)                            \* 0x0018 Lbl
                        IN IF r.err # "" THEN Fail(g, r.err)
                           ELSE [g EXCEPT !.defs = Append(@, r.text), !.calls = @ \o r.calls]
       [] typ = 252  -> LET r == ParseSst(d, g.enc)                            \* 0x00FC SST
                        IN IF r.err # "" THEN Fail(g, r.err)
                           ELSE [g EXCEPT !.sst = r.sst, !.calls = @ \o r.calls]
       [] typ = 10   -> [g EXCEPT !.stop = TRUE]                               \* EOF
       [] OTHER      -> g

\* self.formats: class of XF i (custom format of that id, the last one wins, else the built-in id)
FmtClass(g, xf) ==
  IF xf >= Len(g.xfs) THEN "o"
  ELSE LET id == g.xfs[xf + 1]
           hits == {k \in 1..Len(g.fmts) : g.fmts[k][1] = id}
       IN IF hits = {} THEN Builtin(id)
          ELSE Detect(g.fmts[CHOOSE k \in hits : \A j \in hits : j <= k][2])

\* second loop: one sheet substream; state [err, stop, cells, pos (fmla_pos), calls]
S0 == [err |-> "", stop |-> FALSE, cells |-> <<>>, pos |-> <<0, 0>>, calls |-> <<>>]
Num(kind, bytes, cls) == <<"n", kind, bytes, cls>>
SheetRec(g, s, rec) ==
  IF s.err # "" \/ s.stop THEN s
  ELSE LET typ == rec[1]
           d   == rec[2]
  IN CASE typ = 512 -> IF Len(d) \notin {10, 14} THEN Fail(s, "Len(dimensions)") ELSE s       \* Dimensions
       [] typ = 515 -> IF Len(d) < 14 THEN Fail(s, "Len(number)")                              \* Number
                       ELSE [s EXCEPT !.cells = Append(@, <<U16(d, 1), U16(d, 3),
                                                  Num("num", SubSeq(d, 7, 14), FmtClass(g, U16(d, 5)))>>)]
       [] typ = 516 -> IF Len(d) < 6 THEN Fail(s, "Len(label)")                                \* Label
                       ELSE LET r == LongString(Drop(d, 6), g.enc, g.biff)
                            IN IF r.err # "" THEN Fail(s, r.err)
                               ELSE [s EXCEPT !.cells = Append(@, <<U16(d, 1), U16(d, 3), <<"s", r.text>>>>),
                                              !.calls = @ \o r.calls]
       [] typ = 519 -> LET r == LongString(d, g.enc, g.biff)                                    \* String
                       IN IF r.err # "" THEN Fail(s, r.err)
                          ELSE [s EXCEPT !.cells = Append(@, <<s.pos[1], s.pos[2], <<"s", r.text>>>>),
                                         !.calls = @ \o r.calls]
       [] typ = 638 -> IF Len(d) < 10 THEN Fail(s, "Len(rk)")                                  \* RK
                       ELSE [s EXCEPT !.cells = Append(@, <<U16(d, 1), U16(d, 3),
                                                  Num("rk", SubSeq(d, 7, 10), FmtClass(g, U16(d, 5)))>>)]
       [] typ = 253 -> IF Len(d) < 10 THEN Fail(s, "Len(label sst)")                           \* LabelSst
                       ELSE LET i == U32(d, 7)
                            IN IF i < Len(g.sst) /\ g.sst[i + 1] # <<>>
                               THEN [s EXCEPT !.cells = Append(@, <<U16(d, 1), U16(d, 3), <<"s", g.sst[i + 1]>>>>)]
                               ELSE s
       [] typ = 189 -> IF Len(d) < 6 THEN Fail(s, "Len(rk)")                                   \* MulRk
                       ELSE LET c0 == U16(d, 3)
                                c1 == U16(d, Len(d) - 1)
                                n  == IF c1 + 1 > c0 THEN c1 + 1 - c0 ELSE 0
                            IN IF Len(d) # 6 + 6 * n THEN Fail(s, "Len(rk)")
                               ELSE [s EXCEPT !.cells = @ \o [k \in 1..n |->
                                       <<U16(d, 1), c0 + k - 1,
                                         Num("rk", SubSeq(d, 5 + 6 * (k - 1) + 2, 5 + 6 * (k - 1) + 5),
                                             FmtClass(g, U16(d, 5 + 6 * (k - 1))))>>]]
       [] typ = 6   -> IF Len(d) < 20 THEN Fail(s, "Len(Formula)")                             \* Formula
                       ELSE IF d[7] = 0 /\ d[13] = 255 /\ d[14] = 255
                            THEN [s EXCEPT !.pos = <<U16(d, 1), U16(d, 3)>>]     \* the value follows in a String record
                            ELSE Assert(FALSE, "only string results are in the alphabet")
       [] typ = 10  -> [s EXCEPT !.stop = TRUE]
       [] OTHER     -> s

\* the public observation: error class, else sheet names in file order with the cells found under
\* that name (self.sheets is a map by name: a later sheet of the same name replaces an earlier one),
\* and the defined names
ErrObs(e) == [err |-> e, sheets |-> <<>>, defs |-> <<>>]
ReadStreamF(st, force) ==
  LET g == FoldLeft(GlobalsRec, G0F(force), st.g) IN
  IF g.err # "" THEN [obs |-> ErrObs(g.err), calls |-> g.calls, scans |-> <<>>]
  ELSE LET n  == Len(g.names)
           \* every custom format text the reader classified (re-evaluated by the harness with the real scanner)
           scans == [k \in 1..Len(g.fmts) |-> <<g.fmts[k][2], Detect(g.fmts[k][2])>>]
           sh == [i \in 1..n |-> FoldLeft(LAMBDA s, rec : SheetRec(g, s, rec), S0, st.s[i])]
           bad == {i \in 1..n : sh[i].err # ""}
           allcalls == g.calls \o FlattenSeq([i \in 1..n |-> sh[i].calls])
       IN IF bad # {} THEN [obs |-> ErrObs(sh[CHOOSE i \in bad : \A j \in bad : i <= j].err), calls |-> allcalls, scans |-> scans]
          ELSE LET last(i) == CHOOSE k \in 1..n : g.names[k] = g.names[i] /\ \A j \in 1..n : g.names[j] = g.names[i] => j <= k
               IN [obs |-> [err |-> "",
                            sheets |-> [i \in 1..n |-> [name |-> g.names[i], cells |-> sh[last(i)].cells]],
                            defs |-> g.defs],
                   calls |-> allcalls, scans |-> scans]

\* cfb.get_stream("Workbook").or_else(|_| cfb.get_stream("Book"))
ReadStream(st) == ReadStreamF(st, 0)
ReadF(file, force) ==
  IF "Workbook" \in DOMAIN file THEN ReadStreamF(file["Workbook"], force)
  ELSE IF "Book" \in DOMAIN file THEN ReadStreamF(file["Book"], force)
  ELSE [obs |-> ErrObs("StreamNotFound"), calls |-> <<>>, scans |-> <<>>]
Read(file) == ReadF(file, 0)
=============================================================================
