----------------------------- MODULE BiffCells -----------------------------
(***************************************************************************)
(* C02 -- cell records of a BIFF8 worksheet substream.                     *)
(*                                                                         *)
(* A TOKEN is one record of the substream between BOF and EOF:             *)
(*   [k |-> "number",  r, c, n]            NUMBER   n : number class id    *)
(*   [k |-> "rk",      r, c, rk]           RK       rk : Rk!word           *)
(*   [k |-> "mulrk",   r, c, rks]          MULRK    c = first column       *)
(*   [k |-> "labelsst",r, c, isst]         LABELSST index into the SST     *)
(*   [k |-> "label",   r, c, s, hi]        LABEL    string id, storage     *)
(*   [k |-> "boolerr", r, c, v, err]       BOOLERR  v : byte, err : fError *)
(*   [k |-> "formula", r, c, res]          FORMULA  res : cached result    *)
(*        res = [t |-> "num", n] | [t |-> "str"] | [t |-> "bool", v]       *)
(*              | [t |-> "err", v] | [t |-> "blank"]                       *)
(*   [k |-> "shrfmla"] [k |-> "string", s, hi]   after a FORMULA           *)
(*   [k |-> "blank", r, c] [k |-> "mulblank", r, c, n] [k |-> "row", r]    *)
(*   [k |-> "dbcell"] [k |-> "unknown"] [k |-> "dims"]     ignorable       *)
(*                                                                         *)
(* READER  = the `match r.typ` loop of Xls::parse_workbook (second loop),  *)
(*           one Step per record, state = (cells, fmla_pos), then          *)
(*           Range::from_sparse.                                           *)
(* IDEAL   = from the statement: the cells the records store, numbers by   *)
(*           value (Int n ~ Float n) with the variant fixed only where the *)
(*           statement fixes it, range = bounding rectangle of the         *)
(*           non-empty cells.                                              *)
(* Not asserted (legality / meaning doubtful): FORMULA with the "blank     *)
(* string" result (0x03), LABELSST pointing at an empty string, MULRK with *)
(* a single cell, records out of row-major order, a STRING record that     *)
(* does not follow a FORMULA.                                              *)
(***************************************************************************)
EXTENDS Rk, FiniteSets, SequencesExt

\* value of a number class: decimal fraction or opaque double
CONSTANT ClsVal(_)      \* id -> [m, s]  or  [cls |-> id, sc |-> 0] for an opaque class

ErrName(v) == CASE v = 0 -> "Null" [] v = 7 -> "Div0" [] v = 15 -> "Value" [] v = 23 -> "Ref"
                [] v = 29 -> "Name" [] v = 36 -> "Num" [] v = 42 -> "NA" [] v = 43 -> "GettingData"
                [] OTHER -> "?"
ErrCodes == {0, 7, 15, 23, 29, 36, 42, 43}

FloatOf(n) == Tag("f", ClsVal(n))

--------------------------------------------------------------------------
(* READER: state [cells : Seq([p, v]), fpos : <<r, c>>, err : STRING]      *)
RInit == [cells |-> <<>>, fpos |-> <<0, 0>>, err |-> ""]

Push(st, p, v) == [st EXCEPT !.cells = Append(@, [p |-> p, v |-> v])]

\* parse_bool_err
BoolErrVal(v, err) ==
  IF err = 0 THEN [t |-> "b", b |-> (v # 0)]
  ELSE IF err = 1 THEN (IF v \in ErrCodes THEN [t |-> "e", e |-> ErrName(v)] ELSE [t |-> "fail"])
  ELSE [t |-> "fail"]

RStep(st, tk, sst) ==
  IF st.err # "" THEN st
  ELSE CASE tk.k = "number" -> Push(st, <<tk.r, tk.c>>, FloatOf(tk.n))
         [] tk.k = "rk" -> Push(st, <<tk.r, tk.c>>, RkDecode(tk.rk))
         [] tk.k = "mulrk" ->
              \* col = col_first; for rk in chunks(6) { push((row, col)); col += 1 }
              [st EXCEPT !.cells = @ \o [j \in 1..Len(tk.rks) |->
                                          [p |-> <<tk.r, tk.c + j - 1>>, v |-> RkDecode(tk.rks[j])]]]
         [] tk.k = "labelsst" ->
              \* strings.get(i): Some(non-empty) -> cell ; otherwise nothing
              IF tk.isst < Len(sst) /\ sst[tk.isst + 1] # ""
              THEN Push(st, <<tk.r, tk.c>>, [t |-> "s", v |-> sst[tk.isst + 1]]) ELSE st
         [] tk.k = "label" -> Push(st, <<tk.r, tk.c>>, [t |-> "s", v |-> tk.s])
         [] tk.k = "boolerr" ->
              (LET v == BoolErrVal(tk.v, tk.err)
               IN IF v.t = "fail" THEN [st EXCEPT !.err = "Unrecognized"] ELSE Push(st, <<tk.r, tk.c>>, v))
         [] tk.k = "formula" ->
              \* fmla_pos = (row, col); parse_formula_value
              (LET st1 == [st EXCEPT !.fpos = <<tk.r, tk.c>>]
                  res == tk.res
              IN CASE res.t = "str"  -> st1
                   \* cached value of type 3: the formula evaluates to the empty string (no STRING record follows)
                   [] res.t = "empty" -> Push(st1, <<tk.r, tk.c>>, [t |-> "s", v |-> ""])
                   [] res.t = "num"  -> Push(st1, <<tk.r, tk.c>>, FloatOf(res.n))
                   [] res.t = "bool" -> Push(st1, <<tk.r, tk.c>>, [t |-> "b", b |-> (res.v # 0)])
                   [] res.t = "err"  -> IF res.v \in ErrCodes
                                        THEN Push(st1, <<tk.r, tk.c>>, [t |-> "e", e |-> ErrName(res.v)])
                                        ELSE [st1 EXCEPT !.err = "Unrecognized"]
                   [] res.t = "blank" -> Push(st1, <<tk.r, tk.c>>, [t |-> "s", v |-> ""]))
         [] tk.k = "string" -> Push(st, st.fpos, [t |-> "s", v |-> tk.s])
         [] OTHER -> st      \* blank, mulblank, row, dbcell, dims, shrfmla, unknown: `_ => ()`

\* Range::from_sparse on the collected cells, kept sparse: rows from the first / last cell,
\* columns by scan, index = (r - r0) * cols + (c - c0), out-of-range indices dropped
\* (a row above the first one underflows in Rust: panic), later cells overwrite earlier ones
SetMin(S) == CHOOSE x \in S : \A y \in S : x <= y
SetMax(S) == CHOOSE x \in S : \A y \in S : x >= y
FromSparse(cells) ==
  IF cells = <<>> THEN [start |-> <<>>, end |-> <<>>, cells |-> {}]
  ELSE LET n  == Len(cells)
           r0 == cells[1].p[1]
           r1 == cells[n].p[1]
           cs == {cells[i].p[2] : i \in 1..n}
           c0 == SetMin(cs)
           c1 == SetMax(cs)
       IN IF r1 < r0 \/ \E i \in 1..n : cells[i].p[1] < r0
          THEN [panic |-> "from_sparse: row below the first row"]
          ELSE LET InR(i) == cells[i].p[1] <= r1
                   LastAt(p) == SetMax({i \in 1..n : cells[i].p = p})
               IN [start |-> <<r0, c0>>, end |-> <<r1, c1>>,
                   cells |-> {[p |-> cells[i].p, v |-> cells[i].v] :
                                i \in {j \in 1..n : InR(j) /\ LastAt(cells[j].p) = j}}]

RECURSIVE RRun(_, _, _, _)
RRun(st, toks, k, sst) == IF k > Len(toks) THEN st ELSE RRun(RStep(st, toks[k], sst), toks, k + 1, sst)

AsIs(toks, sst) ==
  LET st == RRun(RInit, toks, 1, sst)
  IN IF st.err # "" THEN [err |-> st.err] ELSE FromSparse(st.cells)

--------------------------------------------------------------------------
(* IDEAL: doc = set of [p, v] (one per position) -> bounding rectangle     *)
RangeOf(doc) ==
  IF doc = {} THEN [start |-> <<>>, end |-> <<>>, cells |-> {}]
  ELSE [start |-> <<SetMin({d.p[1] : d \in doc}), SetMin({d.p[2] : d \in doc})>>,
        end   |-> <<SetMax({d.p[1] : d \in doc}), SetMax({d.p[2] : d \in doc})>>,
        cells |-> doc]

\* asis and ideal agree: same rectangle, same positions, values agree (numbers numerically)
ValAgrees(a, i) == IF i.t \in {"i", "f", "any"} THEN a.t \in {"i", "f"} /\ Agrees(a, i) ELSE a = i
Matches(asis, ideal) ==
  /\ "start" \in DOMAIN asis
  /\ asis.start = ideal.start /\ asis.end = ideal.end
  /\ {x.p : x \in asis.cells} = {x.p : x \in ideal.cells}
  /\ \A x \in asis.cells : \A y \in ideal.cells : x.p = y.p => ValAgrees(x.v, y.v)

--------------------------------------------------------------------------
(* IDEAL read off a token list (used where no logical document is given, i.e. by the trace   *)
(* specification): "the value at every absolute position equals what the NUMBER, RK, MULRK,   *)
(* LABELSST, LABEL, BOOLERR and FORMULA(+STRING) records store there".  A FORMULA whose       *)
(* cached result is a string is followed by [SHRFMLA] STRING, which carries the value.        *)
IStep(st, tk, sst) ==
  LET Put(p, v) == [st EXCEPT !.doc = Append(@, [p |-> p, v |-> v])]
      P == IF "r" \in DOMAIN tk /\ "c" \in DOMAIN tk THEN <<tk.r, tk.c>> ELSE <<0, 0>>
  IN CASE tk.k = "number" -> Put(P, Tag("f", ClsVal(tk.n)))
       [] tk.k = "rk" -> Put(P, RkIdeal(tk.rk))
       [] tk.k = "mulrk" ->
            [st EXCEPT !.doc = @ \o [j \in 1..Len(tk.rks) |-> [p |-> <<tk.r, tk.c + j - 1>>, v |-> RkIdeal(tk.rks[j])]]]
       [] tk.k = "labelsst" -> Put(P, [t |-> "s", v |-> sst[tk.isst + 1]])
       [] tk.k = "label" -> Put(P, [t |-> "s", v |-> tk.s])
       [] tk.k = "boolerr" -> Put(P, IF tk.err = 0 THEN [t |-> "b", b |-> (tk.v # 0)] ELSE [t |-> "e", e |-> ErrName(tk.v)])
       [] tk.k = "formula" ->
            (CASE tk.res.t = "num"  -> Put(P, Tag("f", ClsVal(tk.res.n)))
               [] tk.res.t = "bool" -> Put(P, [t |-> "b", b |-> (tk.res.v # 0)])
               [] tk.res.t = "err"  -> Put(P, [t |-> "e", e |-> ErrName(tk.res.v)])
               [] tk.res.t = "empty" -> Put(P, [t |-> "s", v |-> ""])
               [] OTHER -> [st EXCEPT !.pend = P])
       [] tk.k = "string" -> [doc |-> Append(st.doc, [p |-> st.pend, v |-> [t |-> "s", v |-> tk.s]]), pend |-> <<>>]
       [] OTHER -> st

IdealOfTokens(toks, sst) ==
  LET st == FoldLeft(LAMBDA a, tk : IStep(a, tk, sst), [doc |-> <<>>, pend |-> <<>>], toks)
  IN RangeOf({st.doc[k] : k \in 1..Len(st.doc)})

\* the reader run as a left fold (same as RRun; linear on long token lists)
AsIsFold(toks, sst) ==
  LET st == FoldLeft(LAMBDA a, tk : RStep(a, tk, sst), RInit, toks)
  IN IF st.err # "" THEN [err |-> st.err] ELSE FromSparse(st.cells)
=============================================================================
