------------------------------ MODULE BiffSst ------------------------------
(***************************************************************************)
(* C12 -- the shared-string table of a BIFF8 workbook, at byte level.      *)
(*                                                                         *)
(* The SST record body (after cstTotal / cstUnique) and the bodies of the  *)
(* CONTINUE records that follow it are FRAGMENTS: sequences of byte values *)
(* 0..255.  Each string is an XLUnicodeRichExtendedString ([MS-XLS]        *)
(* 2.5.293): cch(2) flags(1) [cRun(2)] [cbExtRst(4)] rgb rgRun ExtRst.     *)
(*                                                                         *)
(* READER = src/xls.rs parse_sst / read_rich_extended_string / read_dbcs / *)
(*          Record::continue_record / Record::skip and src/cfb.rs          *)
(*          XlsEncoding::decode_to (code page 1200), state                 *)
(*          [data : current fragment remainder, cont : fragments left].    *)
(* A string is a sequence of UTF-16 code units; text = its UTF-16 decoding *)
(* (code points; an unpaired surrogate decodes to U+FFFD = 65533).         *)
(***************************************************************************)
EXTENDS Naturals, Sequences, FiniteSets, TLC, SequencesExt

MinN(a, b) == IF a < b THEN a ELSE b
Drop(s, n) == SubSeq(s, n + 1, Len(s))

IsHigh(u) == u >= 55296 /\ u <= 56319      \* D800..DBFF
IsLow(u)  == u >= 56320 /\ u <= 57343      \* DC00..DFFF
FFFD == 65533

\* UTF-16 decoding of a unit sequence (encoding_rs UTF_16LE.decode, lossy)
RECURSIVE DecodeUnits(_)
DecodeUnits(us) ==
  IF us = <<>> THEN <<>>
  ELSE IF IsHigh(us[1]) /\ Len(us) >= 2 /\ IsLow(us[2])
       THEN <<65536 + (us[1] - 55296) * 1024 + (us[2] - 56320)>> \o DecodeUnits(Drop(us, 2))
  ELSE IF IsHigh(us[1]) \/ IsLow(us[1]) THEN <<FFFD>> \o DecodeUnits(Drop(us, 1))
  ELSE <<us[1]>> \o DecodeUnits(Drop(us, 1))

--------------------------------------------------------------------------
(* Record::continue_record *)
HasCont(st) == st.cont # <<>>
Continue(st) == [data |-> st.cont[1], cont |-> Drop(st.cont, 1)]

\* XlsEncoding::decode_to(stream, len, s, Some(high_byte)) for UTF-16LE:
\*   Some(false): l = min(stream.len(), len), every byte zero-extended, l bytes used
\*   Some(true) : l = min(stream.len() / 2, len), 2l bytes used
DecodeTo(data, len, high) ==
  IF high
  THEN LET l == MinN(Len(data) \div 2, len)
       IN [l |-> l, at |-> 2 * l, units |-> [k \in 1..l |-> data[2 * k - 1] + 256 * data[2 * k]]]
  ELSE LET l == MinN(Len(data), len)
       IN [l |-> l, at |-> l, units |-> SubSeq(data, 1, l)]

(* read_dbcs.  PerFragment = TRUE is the code as pinned: every fragment's units are decoded  *)
(* by a separate decode call and the texts concatenated; FALSE is the repaired code: the     *)
(* units of all fragments are collected and decoded once.                                    *)
RECURSIVE ReadDbcs(_, _, _, _, _, _)
ReadDbcs(st, len, high, text, units, PerFragment) ==
  IF len = 0 THEN [err |-> "", st |-> st,
                   text |-> IF PerFragment THEN text ELSE DecodeUnits(units)]
  ELSE LET d    == DecodeTo(st.data, len, high)
           st1  == [st EXCEPT !.data = Drop(@, d.at)]
           len1 == len - d.l
           t1   == text \o DecodeUnits(d.units)
           u1   == units \o d.units
       IN IF len1 = 0 THEN [err |-> "", st |-> st1, text |-> IF PerFragment THEN t1 ELSE DecodeUnits(u1)]
          ELSE IF ~HasCont(st1) THEN [err |-> "EoStream(dbcs)", st |-> st1, text |-> t1]
          ELSE LET st2 == Continue(st1)
               IN IF st2.data = <<>> THEN [err |-> "panic:index out of bounds (flag byte)", st |-> st2, text |-> t1]
                  \* high_byte = r.data[0] & 0x1 != 0; r.data = &r.data[1..]
                  ELSE ReadDbcs([st2 EXCEPT !.data = Drop(@, 1)], len1, st2.data[1] % 2 = 1, t1, u1, PerFragment)

(* Record::skip *)
RECURSIVE Skip(_, _)
Skip(st, n) ==
  IF n = 0 THEN [err |-> "", st |-> st]
  ELSE IF st.data = <<>> /\ ~HasCont(st) THEN [err |-> "ContinueRecordTooShort", st |-> st]
  ELSE LET s1 == IF st.data = <<>> THEN Continue(st) ELSE st
           l  == MinN(n, Len(s1.data))
       IN Skip([s1 EXCEPT !.data = Drop(@, l)], n - l)

Bit(x, b) == (x \div b) % 2 = 1

(* read_rich_extended_string *)
ReadString(st0, PerFragment) ==
  LET st == IF st0.data = <<>> /\ HasCont(st0) THEN Continue(st0) ELSE st0
  IN IF (st0.data = <<>> /\ ~HasCont(st0)) \/ Len(st.data) < 3
     THEN [err |-> "Len(rich extended string)", st |-> st, text |-> <<>>]
     ELSE
     LET cch   == st.data[1] + 256 * st.data[2]
         flags == st.data[3]
         d1    == Drop(st.data, 3)
         rich  == Bit(flags, 8)
         ext   == Bit(flags, 4)
     IN IF rich /\ Len(d1) < 2 THEN [err |-> "panic:cRun", st |-> st, text |-> <<>>]
        ELSE
        LET crun == IF rich THEN d1[1] + 256 * d1[2] ELSE 0
            d2   == IF rich THEN Drop(d1, 2) ELSE d1
        IN IF ext /\ Len(d2) < 4 THEN [err |-> "panic:cbExtRst", st |-> st, text |-> <<>>]
           ELSE
           LET cb == IF ext THEN d2[1] + 256 * d2[2] + 65536 * d2[3] ELSE 0
               d3 == IF ext THEN Drop(d2, 4) ELSE d2
               r  == ReadDbcs([st EXCEPT !.data = d3], cch, Bit(flags, 1), <<>>, <<>>, PerFragment)
           IN IF r.err # "" THEN r
              ELSE LET k1 == Skip(r.st, crun * 4)
                   IN IF k1.err # "" THEN [err |-> k1.err, st |-> k1.st, text |-> r.text]
                      ELSE LET k2 == Skip(k1.st, cb)
                           IN [err |-> k2.err, st |-> k2.st, text |-> r.text]

(* parse_sst: cstUnique strings *)
\* for _ in 0..len { sst.push(read_rich_extended_string(r)?) }   (a left fold: linear on long tables)
ReadN(st, n, acc, PerFragment) ==
  LET step(a, i) == IF a.err # "" THEN a
                    ELSE LET r == TLCEval(ReadString(a.st, PerFragment))
                         IN IF r.err # "" THEN [a EXCEPT !.err = r.err]
                            ELSE [err |-> "", st |-> r.st, sst |-> Append(a.sst, r.text)]
      res == FoldLeft(step, [err |-> "", st |-> st, sst |-> acc], [i \in 1..n |-> i])
  IN [err |-> res.err, sst |-> res.sst]

ParseSst(frags, n, PerFragment) == ReadN([data |-> frags[1], cont |-> Drop(frags, 1)], n, <<>>, PerFragment)

\* parse_short_string / parse_string / (LABEL, STRING, BoundSheet8): one decode_to call
Inline(units, high) ==
  LET bytes == IF high THEN [k \in 1..(2 * Len(units)) |->
                               IF k % 2 = 1 THEN units[(k + 1) \div 2] % 256 ELSE units[k \div 2] \div 256]
               ELSE units
  IN DecodeUnits(DecodeTo(bytes, Len(units), high).units)
=============================================================================
