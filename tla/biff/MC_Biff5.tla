----------------------------- MODULE MC_Biff5 -----------------------------
(***************************************************************************)
(* X04, leg 0 + export for leg 1.                                          *)
(*                                                                         *)
(* A DOCUMENT (chosen in Init from Docs) is one logical workbook -- two    *)
(* sheets named tn and "b"+tn; sheet 1 holds the text tc as a constant, as *)
(* the cached result of a formula and as a (shareable) constant, a number  *)
(* under XF 1, an RK number and a MULRK pair; sheet 2 holds tc once; XF 1  *)
(* uses the custom number format fmt (or built-in 14 when fmt is empty);   *)
(* an optional defined name -- and a physical form:                        *)
(*   lay = "b5"  : stream "Book", BIFF5 BOF (vers 0x0500, 8 bytes), byte   *)
(*                 strings in code page cp (no option-flags byte; cch      *)
(*                 counts bytes; 8-bit cch in BoundSheet and FORMAT, 16-   *)
(*                 bit in LABEL / STRING, none in NAME), LABEL cells only  *)
(*   lay = "b8"  : stream "Workbook", BIFF8 BOF (0x0600, 16 bytes),        *)
(*                 Unicode strings (compressed or 16-bit), SST + LABELSST  *)
(*   lay = "dual": both streams with the same logical content (what Excel  *)
(*                 97 writes as "5.0/95 & 97" workbooks)                   *)
(*   cp  = value of the CODEPAGE record, 0 = no such record.               *)
(* A logical character is [u : code point, b : its bytes in the page].     *)
(*                                                                         *)
(* IDEAL (from the statement): bytes of page P read as the Unicode text    *)
(* they denote in P; BIFF8 strings are Unicode whatever CODEPAGE says;     *)
(* sheet names, cell texts and numbers do not depend on the form.          *)
(* With no CODEPAGE record only ASCII has a defined reading: documents     *)
(* with other bytes are exported with unspec = TRUE (bound to the code by  *)
(* the replay, not compared with an ideal).  The same holds for the BOF    *)
(* sweep (illegal version fields; binds parse_bof's table).                *)
(***************************************************************************)
EXTENDS Biff5, Json

CONSTANTS CheckIndependent, Pages5,      \* CODEPAGE values of the BIFF5 documents (0 = none)
          Pages8,      \* CODEPAGE values of the BIFF8 documents
          PagesDual,   \* code page of the Book stream of dual documents
          Rich,        \* TRUE: more name texts and formats
          Sweep        \* TRUE: add the BOF sweep

VARIABLE doc

Asc(c) == [u |-> c, b |-> <<c>>]
A == Asc(97)
B == Asc(98)
Hi(cp) == CASE cp = 1252  -> [u |-> 233,   b |-> <<233>>]
            [] cp = 1251  -> [u |-> 1040,  b |-> <<192>>]
            [] cp = 1250  -> [u |-> 321,   b |-> <<163>>]
            [] cp = 866   -> [u |-> 1040,  b |-> <<128>>]
            [] cp = 10000 -> [u |-> 233,   b |-> <<142>>]
            [] cp = 932   -> [u |-> 65393, b |-> <<177>>]
            [] cp = 437   -> [u |-> 233,   b |-> <<130>>]            \* a page codepage::to_encoding does not know
Euro == [u |-> 8364, b |-> <<128>>]                                        \* 1252
Db(cp) == IF cp = 932 THEN [u |-> 12354, b |-> <<130, 160>>] ELSE [u |-> 20013, b |-> <<214, 208>>]
YFF(cp) == IF cp = 1252 THEN [u |-> 255, b |-> <<255>>] ELSE [u |-> 1103, b |-> <<255>>]
YFE(cp) == IF cp = 1252 THEN [u |-> 254, b |-> <<254>>] ELSE [u |-> 1102, b |-> <<254>>]
RawB(x) == [u |-> 0, b |-> <<x>>]                                          \* a byte without a defined reading
L == [u |-> 233,   b |-> <<>>]                                             \* BIFF8 only: e-acute
W == [u |-> 1046,  b |-> <<>>]                                             \* Cyrillic Zhe
Z == [u |-> 65279, b |-> <<>>]                                             \* U+FEFF
K1 == [u |-> 48111, b |-> <<>>]                                            \* U+BBEF (Hangul syllable): bytes EF BB
K2 == [u |-> 191,   b |-> <<>>]                                            \* U+00BF: bytes BF 00

T5(cp) ==
  CASE cp \in SbPages -> {<<A>>, <<A, B>>, <<A, Hi(cp)>>, <<Hi(cp), A>>, <<Hi(cp)>>}
                         \cup (IF cp \in {1252, 1251} THEN {<<YFF(cp), YFE(cp), A, B>>} ELSE {})
                         \cup (IF cp = 1252 THEN {<<Euro, A>>} ELSE {})
    [] cp \in DbPages -> {<<A>>, <<A, B>>, <<Db(cp), A>>, <<A, Db(cp)>>}
                         \cup (IF cp = 932 THEN {<<Hi(932), A>>} ELSE {})
    [] cp = 0         -> {<<A>>, <<A, B>>, <<B, A, B>>}
    [] cp = 437       -> {<<A, B>>, <<A, Hi(437)>>}
T5free == {<<A, RawB(233)>>, <<RawB(128), A>>}
T8 == {<<A>>, <<A, B>>, <<A, L>>, <<W, A>>, <<Z, A>>, <<K1, K2, A>>}
\* sheet names: a subset unless Rich
N5(cp) == IF Rich THEN T5(cp)
          ELSE CASE cp \in SbPages -> {<<A, B>>, <<Hi(cp), A>>} \cup (IF cp = 1252 THEN {<<YFF(cp), YFE(cp), A, B>>} ELSE {})
                 [] cp \in DbPages -> {<<A, B>>, <<Db(cp), A>>}
                 [] cp \in {0, 437} -> {<<A, B>>}
\* (byte-order-mark look-alikes only at the start of a string: the names are also used inside formats)
N8 == IF Rich THEN {<<A>>, <<A, B>>, <<A, L>>, <<W, A>>} ELSE {<<A, B>>, <<A, L>>, <<W, A>>}

Q(c) == Asc(c)
FYY == <<Q(121), Q(121)>>                                                  \* yy
Fq(t) == <<Q(34)>> \o t \o <<Q(34)>> \o FYY                                 \* "t"yy
Fmts(t) == {<<>>, FYY, Fq(t)}
           \cup (IF Rich THEN {<<Q(121), Q(121), Q(121), Q(121), Q(45), Q(109), Q(109)>>,   \* yyyy-mm
                               <<Q(48), Q(46), Q(48)>>,                                     \* 0.0
                               <<Q(91), Q(104), Q(93), Q(58), Q(109), Q(109)>>}             \* [h]:mm
                 ELSE {})

StdBof(v) == IF v = 5 THEN <<1280, 5, 8>> ELSE <<1536, 5, 16>>
Compressible(t) == \A k \in 1..Len(t) : t[k].u <= 255
Mk(lay, cp, wide, tn, tc, fmt, lbl, bof, unspec) ==
  [lay |-> lay, cp |-> cp, wide |-> wide, tn |-> tn, tc |-> tc, fmt |-> fmt, lbl |-> lbl, bof |-> bof, unspec |-> unspec]

\* (nested unions: the choices of tn / tc depend on the page, the formats on tn)
Docs5 == UNION {UNION {{Mk("b5", cp, FALSE, tn, tc, f, lbl, StdBof(5), FALSE) :
                          tc \in T5(cp), f \in Fmts(tn), lbl \in BOOLEAN} : tn \in N5(cp)} : cp \in Pages5}
Free5 == IF 0 \in Pages5
         THEN {Mk("b5", 0, FALSE, tn, tc, <<>>, FALSE, StdBof(5), TRUE) : tn \in T5free \cup {<<A, B>>}, tc \in T5free}
         ELSE {}
\* wide = FALSE: every string that can be compressed is; TRUE: all strings in 16-bit storage
Docs8 == UNION {{Mk("b8", cp, w, tn, tc, f, lbl, StdBof(8), FALSE) :
                   cp \in Pages8, w \in BOOLEAN, tc \in T8, f \in Fmts(tn), lbl \in BOOLEAN} : tn \in N8}
DocsDual == UNION {UNION {{Mk("dual", cp, w, tn, tc, f, lbl, StdBof(5), FALSE) :
                             w \in BOOLEAN, tc \in T5(cp), f \in Fmts(tn), lbl \in BOOLEAN} : tn \in N5(cp)} : cp \in PagesDual}
\* BOF sweep: BIFF5-shaped strings <01 'a' 'b'> under every version field the reader distinguishes
SweepDocs == IF Sweep
             THEN {Mk("b5", 1252, FALSE, <<Asc(1), A, B>>, <<Asc(1), A, B>>, <<>>, FALSE, <<v, dt, n>>, TRUE) :
                     v \in {512, 2, 7, 768, 1024, 1280, 1536, 0, 1792}, dt \in {5, 4096}, n \in {2, 8, 16}}
             ELSE {}
Docs == Docs5 \cup Free5 \cup Docs8 \cup DocsDual \cup SweepDocs

Init == doc \in Docs
Next == UNCHANGED doc
Spec == Init /\ [][Next]_doc

--------------------------------------------------------------------------
(* WRITER *)
Bytes5(t) == FlattenSeq([k \in 1..Len(t) |-> t[k].b])
IsWide(t, w) == w \/ ~Compressible(t)
Chars8(t, w) == FlattenSeq([k \in 1..Len(t) |-> IF IsWide(t, w) THEN LE16(t[k].u) ELSE <<t[k].u>>])
Flag8(t, w) == IF IsWide(t, w) THEN 1 ELSE 0
ShortS(v, t, w) == IF v = 5 THEN <<Len(Bytes5(t))>> \o Bytes5(t) ELSE <<Len(t), Flag8(t, w)>> \o Chars8(t, w)
LongS(v, t, w)  == IF v = 5 THEN LE16(Len(Bytes5(t))) \o Bytes5(t) ELSE LE16(Len(t)) \o <<Flag8(t, w)>> \o Chars8(t, w)
Cch(v, t)       == IF v = 5 THEN Len(Bytes5(t)) ELSE Len(t)
NoCch(v, t, w)  == IF v = 5 THEN Bytes5(t) ELSE <<Flag8(t, w)>> \o Chars8(t, w)
Zeros(n) == [k \in 1..n |-> 0]

BofRec(bof) == <<2057, Take(LE16(bof[1]) \o LE16(bof[2]) \o <<187, 13, 204, 7, 193, 0, 0, 0, 6, 3, 0, 0>>, bof[3])>>
SheetBof(v) == BofRec(<<StdBof(v)[1], 16, StdBof(v)[3]>>)
Eof == <<10, <<>>>>
Xf(v, ifmt) == <<224, <<0, 0>> \o LE16(ifmt) \o Zeros(IF v = 5 THEN 12 ELSE 16)>>
Rgce == <<30, 1, 0>>                                                        \* PtgInt 1
LName(d) == <<A>> \o SelectSeq(d.tn, LAMBDA c : c.u \notin {8364, 65279})
Sheet2Name(d) == <<B>> \o d.tn
Num15 == <<0, 0, 0, 0, 0, 0, 248, 63>>                                     \* 1.5
Rk7 == <<30, 0, 0, 0>>                                                      \* RK integer 7
Rk3 == <<14, 0, 0, 0>>                                                      \* RK integer 3
Cell(r, c, xf) == <<r, 0, c, 0, xf, 0>>

Globals(v, cp, w, bof, d) ==
  <<BofRec(bof)>>
  \o (IF cp # 0 THEN <<<<66, LE16(cp)>>>> ELSE <<>>)
  \o (IF d.fmt # <<>> THEN <<<<1054, LE16(164) \o (IF v = 5 THEN ShortS(5, d.fmt, w) ELSE LongS(8, d.fmt, w))>>>> ELSE <<>>)
  \o <<Xf(v, 0), Xf(v, IF d.fmt # <<>> THEN 164 ELSE 14)>>
  \o <<<<133, <<0, 0, 0, 0, 0, 0>> \o ShortS(v, d.tn, w)>>, <<133, <<0, 0, 0, 0, 0, 0>> \o ShortS(v, Sheet2Name(d), w)>>>>
  \o (IF d.lbl THEN <<<<24, <<0, 0, 0, Cch(v, LName(d))>> \o LE16(Len(Rgce)) \o Zeros(8) \o NoCch(v, LName(d), w) \o Rgce>>>>
      ELSE <<>>)
  \o (IF v = 8 THEN <<<<252, <<1, 0, 0, 0, 1, 0, 0, 0>> \o LongS(8, d.tc, w)>>>> ELSE <<>>)
  \o <<Eof>>

Sheet1(v, w, d) ==
  <<SheetBof(v),
    <<512, IF v = 5 THEN <<0, 0, 5, 0, 0, 0, 2, 0, 0, 0>> ELSE <<0, 0, 0, 0, 5, 0, 0, 0, 0, 0, 2, 0, 0, 0>>>>,
    <<516, Cell(0, 0, 0) \o LongS(v, d.tc, w)>>,
    <<6, Cell(1, 0, 0) \o <<0, 0, 0, 0, 0, 0, 255, 255>> \o <<0, 0>> \o Zeros(4) \o LE16(Len(Rgce)) \o Rgce>>,
    <<519, LongS(v, d.tc, w)>>,
    <<515, Cell(2, 0, 1) \o Num15>>,
    <<638, Cell(2, 1, 0) \o Rk7>>,
    <<189, <<3, 0, 0, 0>> \o <<0, 0>> \o Rk7 \o <<1, 0>> \o Rk3 \o <<1, 0>>>>,
    \* the shareable constant: a second LABEL in BIFF5 (there is no SST), LABELSST in BIFF8
    IF v = 5 THEN <<516, Cell(4, 0, 0) \o LongS(5, d.tc, w)>> ELSE <<253, Cell(4, 0, 0) \o <<0, 0, 0, 0>>>>,
    Eof>>
Sheet2(v, w, d) == <<SheetBof(v), <<516, Cell(0, 1, 0) \o LongS(v, d.tc, w)>>, Eof>>

Stream(v, cp, w, bof, d) == [g |-> Globals(v, cp, w, bof, d), s |-> <<Sheet1(v, w, d), Sheet2(v, w, d)>>]
File(d) == CASE d.lay = "b5"   -> [Book |-> Stream(5, d.cp, FALSE, d.bof, d)]
             [] d.lay = "b8"   -> [Workbook |-> Stream(8, d.cp, d.wide, d.bof, d)]
             [] d.lay = "dual" -> [Book |-> Stream(5, d.cp, FALSE, d.bof, d),
                                   Workbook |-> Stream(8, 1200, d.wide, StdBof(8), d)]

--------------------------------------------------------------------------
(* IDEAL *)
U(t) == [k \in 1..Len(t) |-> t[k].u]
IdealObs(d) ==
  LET cls1 == IF d.fmt # <<>> THEN Detect(U(d.fmt)) ELSE Builtin(14)
      s == <<"s", U(d.tc)>>
  IN [err |-> "",
      sheets |-> <<[name |-> U(d.tn),
                    cells |-> <<<<0, 0, s>>, <<1, 0, s>>, <<2, 0, Num("num", Num15, cls1)>>, <<2, 1, Num("rk", Rk7, "o")>>,
                                <<3, 0, Num("rk", Rk7, "o")>>, <<3, 1, Num("rk", Rk3, cls1)>>, <<4, 0, s>>>>],
                   [name |-> U(Sheet2Name(d)), cells |-> <<<<0, 1, s>>>>]>>,
      defs |-> IF d.lbl THEN <<U(LName(d))>> ELSE <<>>]

(* NAMED DEVIATIONS of the pinned code (known_findings.json, property X04) *)
Dev(d, r) ==
  LET v  == IF d.lay = "b5" THEN 5 ELSE 8                  \* the stream an xls reader takes
      cp == IF d.lay = "dual" THEN 1200 ELSE d.cp
  IN (IF cp \notin Known \cup {0} THEN {"UnsupportedCodePage"} ELSE {})
     \cup (IF v = 5 /\ cp \in DbPages THEN {"DbcsByteString"} ELSE {})
     \* (the format text itself is not observable, its class is: named when the class comes out wrong)
     \cup (IF v = 5 /\ d.fmt # <<>> /\ r.scans # <<>> /\ r.scans[1][2] # Detect(U(d.fmt)) THEN {"Biff5Format"} ELSE {})
     \cup (IF v = 5 /\ d.lbl THEN {"Biff5Lbl"} ELSE {})
     \* (ShortString -- v = 5 /\ Len(Bytes5(d.tc)) < 2 -- repaired in /repo, no longer a deviation)
     \* (repaired by /repo 4e8471f, no longer deviations: Biff8CodePage -- v = 8 /\ cp \notin {0, 1200} --
     \*  and BomSniff -- a string whose bytes start with FF FE / FE FF / EF BB BF; MC_Biff5_aswas.cfg keeps the
     \*  reader as it was and has to violate Refines)

Why(name) == PrintT(<<"WHY", name, doc>>) /\ FALSE

\* the reader in which the deviations R are repaired (Biff5.tla, CONSTANT Rep)
RI(R) == INSTANCE Biff5 WITH Rep <- R

Refines ==
  LET f == File(doc)
      r == TLCEval(Read(f))
      ideal == IdealObs(doc)
      dev == Dev(doc, r)
      \* what a reader with some of the exhibited deviations repaired observes
      \* (a deviation can hide another: one that fails the workbook hides those of the strings after it --
      \*  `all` closes the set under "exhibited once the ones before are repaired")
      d1 == dev \cup Dev(doc, RI(dev)!Read(f))
      all == d1 \cup Dev(doc, RI(d1)!Read(f))
      cands == {[rep |-> R, obs |-> RI(R)!Read(f).obs] : R \in SUBSET all}
      full == (CHOOSE c \in cands : c.rep = all).obs
  IN /\ PrintT(<<"REPLAY", ToJson([doc |-> [lay |-> doc.lay, cp |-> doc.cp, wide |-> doc.wide, tn |-> doc.tn, tc |-> doc.tc,
                                            fmt |-> doc.fmt, lbl |-> doc.lbl, bof |-> doc.bof, unspec |-> doc.unspec,
                                            lname |-> LName(doc)],
                                   files |-> f, ideal |-> ideal, asis |-> r.obs, calls |-> r.calls, scans |-> r.scans, dev |-> dev,
                                   cands |-> SetToSeq({c.obs : c \in cands})])>>)
     /\ doc.unspec \/ ((dev = {}) <=> (r.obs = ideal)) \/ Why("Refines: deviation set and as-is reading disagree")
     \* the switches mean what their names say: with every exhibited deviation repaired the reading is the ideal one,
     /\ doc.unspec \/ full = ideal \/ Why("Refines: the reader with the exhibited deviations repaired is not the ideal one")
     \* and a switch for a deviation the document does not exhibit changes nothing
     /\ doc.unspec \/ ~CheckIndependent \/ (\A n \in DevNames \ all : RI({n})!Read(f).obs = r.obs)
                   \/ Why("Refines: a repair switch changes a document that does not exhibit its deviation")
=============================================================================
