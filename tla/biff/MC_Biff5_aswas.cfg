SPECIFICATION Spec
CONSTANTS
  Pages5 = {0, 1252, 1251, 932, 437}
  Pages8 = {0, 1200, 1252, 1251, 932}
  PagesDual = {1252, 932}
  Rich = FALSE
  Sweep = TRUE
  AsWas = TRUE
  Rep = {}
  CheckIndependent = TRUE
INVARIANTS Refines
CHECK_DEADLOCK FALSE
