SPECIFICATION Spec
CONSTANTS
  Pages5 = {0, 1252, 1251, 1250, 866, 10000, 932, 936, 437}
  Pages8 = {0, 1200, 1252, 1251, 1250, 866, 10000, 932, 936, 437}
  PagesDual = {1252, 1251, 932, 936}
  Rich = TRUE
  Sweep = TRUE
  AsWas = FALSE
  Rep = {}
  CheckIndependent = TRUE
INVARIANTS Refines
CHECK_DEADLOCK FALSE
