---------------------------- MODULE MC_BiffCells ----------------------------
(***************************************************************************)
(* C02, leg 0 + export for leg 1.                                          *)
(*                                                                         *)
(* WRITER: walks the candidate positions Cands (row-major, as [MS-XLS]     *)
(* orders cell records) and at each one either leaves the cell empty or    *)
(* stores one value in one of its legal record encodings:                  *)
(*   number  -> NUMBER | RK int | RK int x100 | RK double | RK double x100 *)
(*              (only the encodings that represent the number exactly, see *)
(*              ClsEnc) | member of a MULRK run over adjacent columns,     *)
(*              each member with its own RK encoding                       *)
(*   string  -> LABELSST(isst) | LABEL (8-bit or 16-bit storage)           *)
(*   bool / error -> BOOLERR                                               *)
(*   formula -> FORMULA with cached number / bool / error, or FORMULA      *)
(*              [SHRFMLA] STRING                                           *)
(*   nothing -> BLANK / MULBLANK (formatting only)                         *)
(* and may interleave ignorable records (ROW, DBCELL, unknown types); an   *)
(* optional DIMENSIONS record comes first.                                 *)
(* READER / IDEAL: BiffCells.tla.  Property: Refines.                      *)
(***************************************************************************)
EXTENDS BiffCells, Json

CONSTANTS CandsId,      \* which candidate position list (see Cands)
          NumChoices,   \* set of <<class, encoding>> usable in single-cell records
          RunChoices,   \* set of <<class, encoding>> usable inside MULRK
          OtherChoices, \* subset of {"sst","label8","label16","label0","bool","err","fnum","fbool","ferr","fstr","fempty","fshr","blank"}
          MaxCells, MaxRun, MaxIgn, WithDims

\* ---- number classes (the harness has the same table with the IEEE doubles and checks that
\* every encoding listed here is exact for its double)
\* id:   0      1     2     3          4           5     6      7     8       9     10
\* val:  0      1    -1   2^29-1     -2^29        1.5  12.34  0.07  1e300   -0.0   100
ClsValT(n) == CASE n = 0 -> [m |-> 0, s |-> 0]   [] n = 1 -> [m |-> 1, s |-> 0]
                [] n = 2 -> [m |-> -1, s |-> 0]  [] n = 3 -> [m |-> 536870911, s |-> 0]
                [] n = 4 -> [m |-> -536870912, s |-> 0]
                [] n = 5 -> [m |-> 150, s |-> 1] [] n = 6 -> [m |-> 1234, s |-> 1]
                [] n = 7 -> [m |-> 7, s |-> 1]   [] n = 8 -> [cls |-> 8, sc |-> 0]
                [] n = 9 -> [m |-> 0, s |-> 0]   [] n = 10 -> [m |-> 1, s |-> -1]
ClsEnc(n) == CASE n \in {0, 1, 2, 10} -> {"number", "int", "int100", "flt", "flt100"}
               [] n = 3 -> {"number", "int"}
               [] n = 4 -> {"number", "int", "flt", "flt100"}
               [] n = 5 -> {"number", "int100", "flt", "flt100"}
               [] n \in {6, 7} -> {"number", "int100", "flt100"}
               [] n = 8 -> {"number"}
               [] n = 9 -> {"number", "flt"}

\* the integer m / 100^s for s <= 0
RECURSIVE IntOf(_)
IntOf(v) == IF v.s = 0 THEN v.m ELSE IntOf([m |-> v.m * 100, s |-> v.s + 1])

RkWord(n, enc) ==
  LET v == ClsValT(n)
  IN CASE enc = "int"    -> [int |-> TRUE,  x100 |-> FALSE, p |-> ToU30(IntOf(v))]
       [] enc = "int100" -> [int |-> TRUE,  x100 |-> TRUE,  p |-> ToU30(IntOf(Mul100(v)))]
       [] enc = "flt"    -> [int |-> FALSE, x100 |-> FALSE, p |-> v]
       [] enc = "flt100" -> [int |-> FALSE, x100 |-> TRUE,  p |-> Mul100(v)]

\* what the statement promises for a number stored in a given encoding
NumIdeal(n, enc) ==
  Tag(CASE enc \in {"number", "flt"} -> "f" [] enc = "int" -> "i" [] OTHER -> "any", ClsValT(n))

\* ---- candidate positions
Cands == CASE CandsId = "pair"   -> <<<<1, 1>>, <<1, 2>>>>
           [] CandsId = "lo"     -> <<<<0, 0>>, <<0, 1>>, <<0, 2>>, <<1, 0>>, <<1, 1>>, <<1, 2>>, <<2, 1>>>>
           [] CandsId = "hi"     -> <<<<65534, 253>>, <<65534, 254>>, <<65534, 255>>, <<65535, 253>>,
                                      <<65535, 254>>, <<65535, 255>>>>
           [] CandsId = "rows"   -> <<<<0, 0>>, <<0, 1>>, <<1, 1>>, <<1, 2>>, <<65535, 0>>, <<65535, 1>>, <<65535, 2>>>>
           [] CandsId = "cols"   -> <<<<0, 0>>, <<0, 1>>, <<0, 2>>, <<0, 254>>, <<0, 255>>, <<1, 0>>, <<1, 254>>, <<1, 255>>>>
           [] CandsId = "corner" -> <<<<0, 0>>, <<0, 255>>, <<65535, 0>>, <<65535, 255>>>>

\* string ids (the harness maps them to real text); "" = an empty shared string: the table has one
\* at its first, a middle and its last index, LABELSST cells refer to the others only
Sst == <<"", "s0", "", "s1", "">>

VARIABLES i, toks, doc, ncell, nign
vars == <<i, toks, doc, ncell, nign>>

Init == /\ i = 1 /\ doc = {} /\ ncell = 0 /\ nign = 0
        /\ toks \in (IF WithDims THEN {<<>>, <<[k |-> "dims"]>>} ELSE {<<>>})

AtEnd == i > Len(Cands)
done  == AtEnd
Pos   == Cands[i]

Emit(ts, cells, adv) ==
  /\ toks' = toks \o ts
  /\ doc' = doc \cup cells
  /\ i' = i + adv
  /\ ncell' = ncell + adv          \* BLANK / MULBLANK count towards the bound too
  /\ nign' = nign

Skip == ~AtEnd /\ i' = i + 1 /\ UNCHANGED <<toks, doc, ncell, nign>>

Cell(p, v) == {[p |-> p, v |-> v]}

PutNumber(ne) ==
  /\ ~AtEnd /\ ncell < MaxCells /\ ne[2] \in ClsEnc(ne[1])
  /\ LET tk == IF ne[2] = "number" THEN [k |-> "number", r |-> Pos[1], c |-> Pos[2], n |-> ne[1]]
               ELSE [k |-> "rk", r |-> Pos[1], c |-> Pos[2], n |-> ne[1], enc |-> ne[2], rk |-> RkWord(ne[1], ne[2])]
     IN Emit(<<tk>>, Cell(Pos, NumIdeal(ne[1], ne[2])), 1)

\* MULRK over len adjacent columns starting at the current candidate; members chosen one by one
\* would explode, so a run takes its members from RunChoices as a sequence
Adjacent(len) == /\ i + len - 1 <= Len(Cands)
                 /\ \A j \in 1..(len - 1) : Cands[i + j] = <<Pos[1], Pos[2] + j>>
PutRun(members) ==
  LET len == Len(members)
  IN /\ ~AtEnd /\ len >= 2 /\ ncell + len <= MaxCells /\ Adjacent(len)
     /\ \A j \in 1..len : members[j][2] \in ClsEnc(members[j][1]) \ {"number"}
     /\ Emit(<<[k |-> "mulrk", r |-> Pos[1], c |-> Pos[2],
               ms |-> [j \in 1..len |-> [n |-> members[j][1], enc |-> members[j][2]]],
               rks |-> [j \in 1..len |-> RkWord(members[j][1], members[j][2])]]>>,
             {[p |-> <<Pos[1], Pos[2] + j - 1>>, v |-> NumIdeal(members[j][1], members[j][2])] : j \in 1..len},
             len)

PutOther(kind) ==
  /\ ~AtEnd /\ ncell < MaxCells /\ kind \in OtherChoices
  /\ LET r == Pos[1]
         c == Pos[2]
         S(id) == [t |-> "s", v |-> id]
     IN \/ /\ kind = "sst"
           /\ \E x \in {y \in 0..(Len(Sst) - 1) : Sst[y + 1] # ""} :
                Emit(<<[k |-> "labelsst", r |-> r, c |-> c, isst |-> x]>>, Cell(Pos, S(Sst[x + 1])), 1)
        \/ /\ kind \in {"label8", "label16"}
           /\ Emit(<<[k |-> "label", r |-> r, c |-> c, s |-> "s1", hi |-> (kind = "label16")]>>, Cell(Pos, S("s1")), 1)
        \/ /\ kind = "label0"       \* a LABEL holding the empty string: cch = 0, option flags, no characters
           /\ \E hi \in BOOLEAN : Emit(<<[k |-> "label", r |-> r, c |-> c, s |-> "", hi |-> hi]>>, Cell(Pos, S("")), 1)
        \/ /\ kind = "bool"
           /\ \E b \in {0, 1} :
                Emit(<<[k |-> "boolerr", r |-> r, c |-> c, v |-> b, err |-> 0]>>, Cell(Pos, [t |-> "b", b |-> (b = 1)]), 1)
        \/ /\ kind = "err"
           /\ \E e \in ErrCodes :
                Emit(<<[k |-> "boolerr", r |-> r, c |-> c, v |-> e, err |-> 1]>>, Cell(Pos, [t |-> "e", e |-> ErrName(e)]), 1)
        \/ /\ kind = "fnum"
           /\ \E n \in {5, 8} :
                Emit(<<[k |-> "formula", r |-> r, c |-> c, res |-> [t |-> "num", n |-> n]]>>,
                     Cell(Pos, Tag("f", ClsValT(n))), 1)
        \/ /\ kind = "fbool"
           /\ Emit(<<[k |-> "formula", r |-> r, c |-> c, res |-> [t |-> "bool", v |-> 1]]>>, Cell(Pos, [t |-> "b", b |-> TRUE]), 1)
        \/ /\ kind = "ferr"
           /\ \E e \in {7, 42} :
                Emit(<<[k |-> "formula", r |-> r, c |-> c, res |-> [t |-> "err", v |-> e]]>>, Cell(Pos, [t |-> "e", e |-> ErrName(e)]), 1)
        \/ /\ kind = "fempty"
           /\ Emit(<<[k |-> "formula", r |-> r, c |-> c, res |-> [t |-> "empty"]]>>, Cell(Pos, S("")), 1)
        \/ /\ kind = "fstr"
           /\ \E hi \in BOOLEAN :
                Emit(<<[k |-> "formula", r |-> r, c |-> c, res |-> [t |-> "str"]],
                       [k |-> "string", s |-> "s0", hi |-> hi]>>, Cell(Pos, S("s0")), 1)
        \/ /\ kind = "fshr"
           /\ Emit(<<[k |-> "formula", r |-> r, c |-> c, res |-> [t |-> "str"], shr |-> TRUE],
                     [k |-> "shrfmla", r |-> r, c |-> c],
                     [k |-> "string", s |-> "s0", hi |-> FALSE]>>, Cell(Pos, S("s0")), 1)
        \/ /\ kind = "blank"
           /\ \/ Emit(<<[k |-> "blank", r |-> r, c |-> c]>>, {}, 1)
              \/ /\ Adjacent(2)
                 /\ Emit(<<[k |-> "mulblank", r |-> r, c |-> c, n |-> 2]>>, {}, 2)

PutIgn(kind) ==
  /\ nign < MaxIgn
  /\ toks' = Append(toks, IF kind = "row" THEN [k |-> "row", r |-> IF AtEnd THEN 0 ELSE Pos[1]] ELSE [k |-> kind])
  /\ nign' = nign + 1
  /\ UNCHANGED <<i, doc, ncell>>

Runs == UNION {[1..len -> RunChoices] : len \in 2..MaxRun}

Next ==
  \/ Skip
  \/ \E ne \in NumChoices : PutNumber(ne)
  \/ \E ms \in Runs : PutRun(ms)
  \/ \E kind \in OtherChoices : PutOther(kind)
  \/ \E kind \in {"row", "dbcell", "unknown"} : PutIgn(kind)

Spec == Init /\ [][Next]_vars

--------------------------------------------------------------------------
Why(name) == PrintT(<<"WHY", name>>) /\ FALSE

Refines ==
  done => LET asis  == TLCEval(AsIs(toks, Sst))
              ideal == TLCEval(RangeOf(doc))
          IN /\ PrintT(<<"REPLAY", ToJson([tokens |-> toks, sst |-> Sst, ideal |-> ideal, asis |-> asis, dev |-> {}])>>)
             /\ Matches(asis, ideal) \/ Why("Refines: the record walk does not yield the stored cells")

--------------------------------------------------------------------------
(* value alphabets of the configurations *)
AllEnc == {"number", "int", "int100", "flt", "flt100"}
NC_all   == {ne \in (0..10) \X AllEnc : ne[2] \in ClsEnc(ne[1])}
RC_all   == {ne \in (0..10) \X AllEnc : ne[2] \in ClsEnc(ne[1]) \ {"number"}}
NC_small == {<<1, "number">>, <<1, "int">>, <<5, "int100">>, <<4, "flt">>}
RC_small == {<<1, "int">>, <<5, "flt100">>}
NC_one   == {<<1, "number">>, <<2, "int">>}
RC_one   == {<<2, "int">>}
=============================================================================
