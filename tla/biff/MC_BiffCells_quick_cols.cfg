SPECIFICATION Spec
CONSTANTS
  ClsVal <- ClsValT
  CandsId = "cols"
  NumChoices <- NC_one
  RunChoices <- RC_one
  OtherChoices = {"sst"}
  MaxCells = 3
  MaxRun = 3
  MaxIgn = 0
  WithDims = FALSE
INVARIANTS Refines
CHECK_DEADLOCK FALSE
