SPECIFICATION Spec
CONSTANTS
  ClsVal <- ClsValT
  CandsId = "pair"
  NumChoices <- NC_all
  RunChoices <- RC_all
  OtherChoices = {"sst", "label8", "label16", "label0", "bool", "err", "fnum", "fbool", "ferr", "fstr", "fempty", "fshr", "blank"}
  MaxCells = 2
  MaxRun = 2
  MaxIgn = 0
  WithDims = FALSE
INVARIANTS Refines
CHECK_DEADLOCK FALSE
