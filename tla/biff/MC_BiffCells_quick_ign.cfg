SPECIFICATION Spec
CONSTANTS
  ClsVal <- ClsValT
  CandsId = "pair"
  NumChoices <- NC_one
  RunChoices <- RC_one
  OtherChoices = {"sst", "fstr", "fshr", "blank"}
  MaxCells = 2
  MaxRun = 2
  MaxIgn = 2
  WithDims = TRUE
INVARIANTS Refines
CHECK_DEADLOCK FALSE
