SPECIFICATION Spec
CONSTANTS
  ClsVal <- ClsValT
  CandsId = "lo"
  NumChoices <- NC_one
  RunChoices <- RC_small
  OtherChoices = {"sst", "blank", "fstr", "fempty"}
  MaxCells = 3
  MaxRun = 3
  MaxIgn = 0
  WithDims = FALSE
INVARIANTS Refines
CHECK_DEADLOCK FALSE
