SPECIFICATION Spec
CONSTANTS
  ClsVal <- ClsValT
  CandsId = "rows"
  NumChoices <- NC_one
  RunChoices <- RC_one
  OtherChoices = {"sst"}
  MaxCells = 2
  MaxRun = 2
  MaxIgn = 0
  WithDims = TRUE
INVARIANTS Refines
CHECK_DEADLOCK FALSE
