SPECIFICATION Spec
CONSTANTS
  ClsVal <- ClsValT
  CandsId = "hi"
  NumChoices <- NC_small
  RunChoices <- RC_small
  OtherChoices = {"sst", "blank", "fstr"}
  MaxCells = 4
  MaxRun = 3
  MaxIgn = 0
  WithDims = TRUE
INVARIANTS Refines
CHECK_DEADLOCK FALSE
