SPECIFICATION Spec
CONSTANTS
  ClsVal <- ClsValT
  CandsId = "lo"
  NumChoices <- NC_small
  RunChoices <- RC_small
  OtherChoices = {"sst", "label16", "bool", "blank", "fstr", "fempty", "fshr", "fnum"}
  MaxCells = 3
  MaxRun = 3
  MaxIgn = 0
  WithDims = TRUE
INVARIANTS Refines
CHECK_DEADLOCK FALSE
