SPECIFICATION Spec
CONSTANTS
  ClsVal <- ClsValT
  CandsId = "rows"
  NumChoices <- NC_small
  RunChoices <- RC_one
  OtherChoices = {"sst", "fstr"}
  MaxCells = 3
  MaxRun = 3
  MaxIgn = 0
  WithDims = TRUE
INVARIANTS Refines
CHECK_DEADLOCK FALSE
