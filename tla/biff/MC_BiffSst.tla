----------------------------- MODULE MC_BiffSst -----------------------------
(***************************************************************************)
(* C12, leg 0 + export for leg 1.                                          *)
(*                                                                         *)
(* WRITER: serialises a table of strings (Table, chosen in Init from       *)
(* Tables) into SST + CONTINUE fragments, one byte group per action, with  *)
(* every legal cut ([MS-XLS] 2.4.265 SST, 2.4.58 Continue):                *)
(*   (a) between two strings -- the new fragment starts with the header,   *)
(*   (b) between two characters of rgb -- the new fragment starts with a   *)
(*       flag byte (fHighByte) and may switch between 8-bit and 16-bit     *)
(*       storage; 8-bit only while every character placed in the fragment  *)
(*       is <= 0xFF,                                                       *)
(*   (c) anywhere inside rgRun or ExtRst (before its first byte too), no   *)
(*       flag byte,                                                        *)
(*   several cuts per string, empty strings anywhere.                      *)
(* Never generated (not legal): cuts inside the header fields, empty       *)
(* fragments.  HeaderCut = TRUE additionally allows a cut between the      *)
(* header and the first character (doubtful: Excel moves the whole string  *)
(* to the next record); it is used by a separate, non-asserting            *)
(* configuration only.                                                     *)
(* A character is a UTF-16 code unit (cch counts units), so a cut of kind  *)
(* (b) may fall between the two halves of a surrogate pair.                *)
(*                                                                         *)
(* READER: BiffSst.tla.  IDEAL: the strings written, in order; inline      *)
(* strings (sheet names, LABEL, STRING) decode to the same text in both    *)
(* storages.                                                               *)
(***************************************************************************)
EXTENDS BiffSst, Json

CONSTANTS Tables,        \* set of sequences of [u : Seq(class), crun, cb]
          MaxCuts, HeaderCut,
          PerFragment    \* TRUE: the reader as pinned (decode per fragment) ; FALSE: repaired

\* code unit of the k-th unit of string s (distinct values, so any mix-up shows)
UnitOf(cls, s, k) == CASE cls = "L"  -> 64 + 8 * s + k             \* 'A'.. latin-1, one byte
                       [] cls = "E"  -> 224 + 8 * (s - 1) + k       \* 0xE0.. latin-1 high half
                       [] cls = "W"  -> 19968 + 16 * s + k          \* CJK, BMP
                       [] cls = "H"  -> 55357                       \* D83D
                       [] cls = "Lo" -> 56832 + 16 * s + k          \* DE00..
Units(tbl, s) == [k \in 1..Len(tbl[s].u) |-> UnitOf(tbl[s].u[k], s, k)]

VARIABLES tbl, si, ph, ui, nb, mode, frags, cur, ncut, cuts
vars == <<tbl, si, ph, ui, nb, mode, frags, cur, ncut, cuts>>
\* si : strings completely written ; ph : "between" | "rgb" | "run" | "ext"
\* ui : units of the current string written ; nb : bytes of rgRun / ExtRst written
\* cuts : history (what kind of cut was made where), observation only

N == Len(tbl)
Cur == tbl[si + 1]

Init == /\ tbl \in Tables
        /\ si = 0 /\ ph = "between" /\ ui = 0 /\ nb = 0 /\ mode = FALSE
        /\ frags = <<>> /\ cur = <<>> /\ ncut = 0 /\ cuts = <<>>

\* phase after the current string's rgb / rgRun / ExtRst is complete
After(phase, s) ==
  LET x == tbl[s]
  IN IF phase = "hdr" /\ Len(x.u) > 0 THEN "rgb"
     ELSE IF phase \in {"hdr", "rgb"} /\ x.crun > 0 THEN "run"
     ELSE IF phase \in {"hdr", "rgb", "run"} /\ x.cb > 0 THEN "ext"
     ELSE "between"

Advance(phase) ==
  LET nx == After(phase, si + 1)
  IN /\ ph' = nx
     /\ si' = IF nx = "between" THEN si + 1 ELSE si
     /\ nb' = 0

Compressible(u) == u <= 255

Begin(hi) ==
  /\ ph = "between" /\ si < N
  /\ LET x == Cur
         us == Units(tbl, si + 1)
         cch == Len(x.u)
         flags == (IF hi THEN 1 ELSE 0) + (IF x.cb > 0 THEN 4 ELSE 0) + (IF x.crun > 0 THEN 8 ELSE 0)
     IN /\ (IF hi \/ cch = 0 THEN TRUE ELSE Compressible(us[1]))
        /\ cur' = cur \o <<cch % 256, cch \div 256, flags>>
                      \o (IF x.crun > 0 THEN <<x.crun, 0>> ELSE <<>>)
                      \o (IF x.cb > 0 THEN <<x.cb, 0, 0, 0>> ELSE <<>>)
        /\ mode' = hi /\ ui' = 0
        /\ Advance("hdr")
  /\ cuts' = Append(cuts, [k |-> "begin", s |-> si + 1, at |-> 0, surr |-> FALSE, hi |-> hi])
  /\ UNCHANGED <<tbl, frags, ncut>>

Unit ==
  /\ ph = "rgb"
  /\ LET u == Units(tbl, si + 1)[ui + 1]
     IN /\ (IF mode THEN TRUE ELSE Compressible(u))
        /\ cur' = cur \o (IF mode THEN <<u % 256, u \div 256>> ELSE <<u>>)
  /\ IF ui + 1 = Len(Cur.u) THEN Advance("rgb") /\ ui' = 0
     ELSE ui' = ui + 1 /\ UNCHANGED <<ph, si, nb>>
  /\ UNCHANGED <<tbl, mode, frags, ncut, cuts>>

Filler == 200 + nb
RunByte ==
  /\ ph = "run"
  /\ cur' = Append(cur, Filler)
  /\ IF nb + 1 = 4 * Cur.crun THEN Advance("run") ELSE nb' = nb + 1 /\ UNCHANGED <<ph, si>>
  /\ UNCHANGED <<tbl, ui, mode, frags, ncut, cuts>>

ExtByte ==
  /\ ph = "ext"
  /\ cur' = Append(cur, Filler)
  /\ IF nb + 1 = Cur.cb THEN Advance("ext") ELSE nb' = nb + 1 /\ UNCHANGED <<ph, si>>
  /\ UNCHANGED <<tbl, ui, mode, frags, ncut, cuts>>

\* the first fragment carries cstTotal / cstUnique, so it is never empty
NonEmpty == frags = <<>> \/ cur # <<>>

CutRgb(hi) ==
  /\ ph = "rgb" /\ ncut < MaxCuts /\ NonEmpty
  /\ (IF HeaderCut THEN TRUE ELSE ui > 0)
  \* a fragment holds at least one character besides the flag byte
  /\ ~(cuts # <<>> /\ cuts[Len(cuts)].k = "rgb" /\ cuts[Len(cuts)].s = si + 1 /\ cuts[Len(cuts)].at = ui)
  /\ (IF hi THEN TRUE ELSE Compressible(Units(tbl, si + 1)[ui + 1]))
  /\ frags' = Append(frags, cur) /\ cur' = <<IF hi THEN 1 ELSE 0>> /\ mode' = hi
  /\ ncut' = ncut + 1
  /\ cuts' = Append(cuts, [k |-> "rgb", s |-> si + 1, at |-> ui,
                           surr |-> (ui > 0 /\ IsHigh(Units(tbl, si + 1)[ui])), hi |-> hi])
  /\ UNCHANGED <<tbl, si, ph, ui, nb>>

CutPlain ==
  /\ (IF ph = "between" THEN si < N ELSE ph \in {"run", "ext"})
  /\ ncut < MaxCuts /\ NonEmpty
  /\ frags' = Append(frags, cur) /\ cur' = <<>>
  /\ ncut' = ncut + 1
  /\ cuts' = Append(cuts, [k |-> ph, s |-> si + 1, at |-> nb, surr |-> FALSE, hi |-> mode])
  /\ UNCHANGED <<tbl, si, ph, ui, nb, mode>>

done == ph = "between" /\ si = N /\ NonEmpty

Next ==
  \/ \E hi \in BOOLEAN : Begin(hi)
  \/ Unit \/ RunByte \/ ExtByte
  \/ \E hi \in BOOLEAN : CutRgb(hi)
  \/ CutPlain

Spec == Init /\ [][Next]_vars

--------------------------------------------------------------------------
Frags == Append(frags, cur)
IdealSst == [s \in 1..N |-> DecodeUnits(Units(tbl, s))]

\* named deviation (only meaningful with PerFragment = TRUE): a cut between the halves of a
\* surrogate pair
SurrogateSplit == \E k \in 1..Len(cuts) : cuts[k].surr
Dev == IF PerFragment /\ SurrogateSplit THEN {"SurrogateSplit"} ELSE {}

Why(name) == PrintT(<<"WHY", name>>) /\ FALSE

InlineOK ==
  \A s \in 1..N : LET us == Units(tbl, s)
                  IN /\ Inline(us, TRUE) = DecodeUnits(us)
                     /\ (\A k \in 1..Len(us) : Compressible(us[k])) => Inline(us, FALSE) = DecodeUnits(us)

Refines ==
  done => LET r == TLCEval(ParseSst(Frags, N, PerFragment))
              asis == IF r.err # "" THEN [err |-> r.err] ELSE [sst |-> r.sst]
          IN /\ PrintT(<<"REPLAY", ToJson([frags |-> Frags, n |-> N,
                                           units |-> [s \in 1..N |-> Units(tbl, s)],
                                           strs |-> [s \in 1..N |-> [crun |-> tbl[s].crun, cb |-> tbl[s].cb]],
                                           ideal |-> IdealSst, asis |-> asis, cuts |-> cuts,
                                           headercut |-> HeaderCut, dev |-> Dev])>>)
             /\ (Dev = {} /\ ~HeaderCut) =>
                   (asis = [sst |-> IdealSst] \/ Why("Refines: the table does not read back"))
             /\ InlineOK \/ Why("Inline")

--------------------------------------------------------------------------
(* tables of the configurations *)
S(u, crun, cb) == [u |-> u, crun |-> crun, cb |-> cb]
Firsts == {S(<<>>, 0, 0), S(<<"L">>, 0, 0), S(<<"L", "W">>, 0, 0), S(<<"L", "L", "L">>, 0, 0),
           S(<<"W", "E", "L">>, 1, 0), S(<<"H", "Lo">>, 0, 0), S(<<"L", "H", "Lo">>, 0, 1),
           S(<<"E", "L">>, 2, 5), S(<<"L", "W">>, 1, 1), S(<<>>, 1, 0), S(<<"H", "Lo", "L">>, 2, 0)}
Seconds == {S(<<"L">>, 0, 0), S(<<"W", "L">>, 1, 5)}
\* empty strings at the first (Firsts), a middle and the last index, followed by strings that cells refer to
Empties == {S(<<>>, 0, 0), S(<<>>, 0, 1)}
T_quick == {<<a>> : a \in Firsts} \cup {<<a, b>> : a \in Firsts, b \in Seconds}
           \cup {<<a, e, b>> : a \in {S(<<"L", "W">>, 0, 0), S(<<"H", "Lo">>, 1, 0)}, e \in Empties, b \in Seconds}
           \cup {<<a, e>> : a \in {S(<<"L", "W">>, 1, 1)}, e \in Empties}
Thirds == {S(<<"E">>, 0, 0), S(<<>>, 0, 0)}
Firsts4 == {S(<<"L", "W", "L", "L">>, 0, 0), S(<<"L", "H", "Lo", "W">>, 1, 1), S(<<"H", "Lo", "H", "Lo">>, 0, 0),
            S(<<"E", "L", "W", "L">>, 2, 5)}
T_thorough == T_quick \cup {<<a, b, c>> : a \in Firsts \cup Firsts4, b \in Seconds, c \in Thirds}
=============================================================================
