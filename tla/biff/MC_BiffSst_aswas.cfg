SPECIFICATION Spec
CONSTANTS
  Tables <- T_quick
  MaxCuts = 2
  HeaderCut = FALSE
  PerFragment = TRUE
INVARIANTS Refines
CHECK_DEADLOCK FALSE
