SPECIFICATION Spec
CONSTANTS
  Tables <- T_quick
  MaxCuts = 2
  HeaderCut = TRUE
  PerFragment = FALSE
INVARIANTS Refines
CHECK_DEADLOCK FALSE
