SPECIFICATION Spec
CONSTANTS
  Tables <- T_thorough
  MaxCuts = 3
  HeaderCut = FALSE
  PerFragment = FALSE
INVARIANTS Refines
CHECK_DEADLOCK FALSE
