SPECIFICATION Spec
CONSTANTS Random = FALSE
INVARIANTS Refines
CHECK_DEADLOCK FALSE
