------------------------------- MODULE MC_Rk -------------------------------
(* C02, RK sub-model: RkDecode (transcription of src/xls.rs rk_num) against  *)
(* RkIdeal ([MS-XLS] RkNumber) over all four flag combinations x payload     *)
(* classes (exhaustive, Init) and over random 30-bit payloads (simulation,   *)
(* Next).  Every evaluated word is printed as a STEP line and replayed on    *)
(* calamine::verif::rk_num by `cvh replay rk`.  A double payload is opaque:  *)
(* [cls |-> u, sc |-> 0] = "the double whose top 30 bits are u"; the harness *)
(* applies f64::from_bits((u << 2) << 32) and one division by 100.           *)
EXTENDS Rk, Json

CONSTANTS Random     \* TRUE: simulation mode, payloads drawn at random

PayloadClasses ==
  {0, 1, 2, 99, 100, 101, 199, 200, 12345, 12300, 10000, 9999,
   P29 - 1, P29 - 100, P29 - 101, P29 - 12,          \* largest positive values
   P29, P29 + 1, P29 + 12, P29 + 100,                \* most negative values (sign bit set)
   P30 - 1, P30 - 2, P30 - 99, P30 - 100, P30 - 101, P30 - 200, P30 - 12345, P30 - 12300,
   \* double patterns: 1.0, 100.0, 1.5, -1.0, +inf, nan, -0.0, max finite, smallest, 2^-1022
   267911168, 269762560, 268042240, 804782080, 536608768, 536739840, P29, 536608767, 1, 262144}

Word(int, x100, u) == [int |-> int, x100 |-> x100, p |-> IF int THEN u ELSE [cls |-> u, sc |-> 0]]

VARIABLES rk
Init == rk \in {Word(i, x, u) : i \in BOOLEAN, x \in BOOLEAN, u \in PayloadClasses}
Next == /\ Random
        /\ rk' = Word(RandomElement(BOOLEAN), RandomElement(BOOLEAN), RandomElement(0..(P30 - 1)))
Spec == Init /\ [][Next]_rk

Refines ==
  LET a == RkDecode(rk)
      i == RkIdeal(rk)
  IN /\ PrintT(<<"STEP", ToJson([rk |-> rk, ideal |-> i, asis |-> a])>>)
     /\ Agrees(a, i)
=============================================================================
