SPECIFICATION Spec
CONSTANTS Random = TRUE
INVARIANTS Refines
CHECK_DEADLOCK FALSE
