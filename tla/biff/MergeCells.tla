------------------------------ MODULE MergeCells ------------------------------
(* C17 (xls) -- merged regions of a BIFF8 worksheet.  The writer lists the regions  *)
(* of each sheet in one or several MERGECELLS records (cmcs + cmcs Ref8 structures, *)
(* any split of the list into consecutive records, other records in between); the   *)
(* reader (parse_merge_cells) appends the Ref8s of every record in order.           *)
(* Ideal: exactly the declared regions, in order, attributed to their sheet.        *)
EXTENDS Naturals, Sequences, FiniteSets, TLC, Json

RegionOf(k) == CASE k = "cell" -> <<1, 1, 1, 1>>          \* rwFirst, rwLast, colFirst, colLast
                 [] k = "area" -> <<0, 2, 0, 2>>
                 [] k = "row"  -> <<5, 5, 0, 255>>
                 [] k = "col"  -> <<0, 65535, 26, 27>>
                 [] k = "max"  -> <<65534, 65535, 254, 255>>
Kinds == {"cell", "area", "row", "col", "max"}

\* a sheet = sequence of records, each a sequence of region kinds (an empty record list = no merges)
RECURSIVE Flat(_)
Flat(recs) == IF recs = <<>> THEN <<>> ELSE Head(recs) \o Flat(Tail(recs))
Ideal(sheet) == [i \in 1..Len(Flat(sheet)) |-> RegionOf(Flat(sheet)[i])]
\* reader: for each MERGECELLS record in stream order, push its cmcs regions
RECURSIVE ReadRecs(_, _)
ReadRecs(recs, acc) == IF recs = <<>> THEN acc
                       ELSE ReadRecs(Tail(recs), acc \o [i \in 1..Len(Head(recs)) |-> RegionOf(Head(recs)[i])])
AsIs(sheet) == ReadRecs(sheet, <<>>)

CONSTANTS MaxRegions
VARIABLES s1, s2, cur, which, done
vars == <<s1, s2, cur, which, done>>
Total == Len(Flat(s1)) + Len(Flat(s2)) + Len(cur)
Init == s1 = <<>> /\ s2 = <<>> /\ cur = <<>> /\ which = 1 /\ done = FALSE
AddRegion(k) == /\ ~done /\ Total < MaxRegions /\ (\A i \in 1..Len(cur) : cur[i] # k)
                /\ (\A i \in 1..Len(Flat(IF which = 1 THEN s1 ELSE s2)) : Flat(IF which = 1 THEN s1 ELSE s2)[i] # k)
                /\ cur' = Append(cur, k) /\ UNCHANGED <<s1, s2, which, done>>
CloseRecord == /\ ~done /\ cur # <<>>
               /\ IF which = 1 THEN s1' = Append(s1, cur) /\ s2' = s2 ELSE s2' = Append(s2, cur) /\ s1' = s1
               /\ cur' = <<>> /\ UNCHANGED <<which, done>>
NextSheet == ~done /\ cur = <<>> /\ which = 1 /\ which' = 2 /\ UNCHANGED <<s1, s2, cur, done>>
End == ~done /\ cur = <<>> /\ done' = TRUE /\ UNCHANGED <<s1, s2, cur, which>>
Next == (\E k \in Kinds : AddRegion(k)) \/ CloseRecord \/ NextSheet \/ End
Spec == Init /\ [][Next]_vars
Refines == done => AsIs(s1) = Ideal(s1) /\ AsIs(s2) = Ideal(s2)
Dump == done => PrintT(<<"REPLAY", ToJson([s1 |-> s1, s2 |-> s2, ideal1 |-> Ideal(s1), ideal2 |-> Ideal(s2)])>>)
=============================================================================
