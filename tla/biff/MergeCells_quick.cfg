SPECIFICATION Spec
CONSTANT MaxRegions = 3
INVARIANTS Refines Dump
CHECK_DEADLOCK FALSE
