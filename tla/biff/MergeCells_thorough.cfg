SPECIFICATION Spec
CONSTANT MaxRegions = 4
INVARIANTS Refines Dump
CHECK_DEADLOCK FALSE
