--------------------------------- MODULE Rk ---------------------------------
(***************************************************************************)
(* RK numbers of BIFF8 ([MS-XLS] 2.5.122 RkNumber) and the small number    *)
(* algebra shared by the cell-record models.                               *)
(*                                                                         *)
(* An RK word is [x100 : BOOLEAN, int : BOOLEAN, p] :                      *)
(*   bit 0 fX100, bit 1 fInt, bits 2..31 the 30-bit payload.               *)
(*   int  : p = the payload as an unsigned number 0..2^30-1 (two's         *)
(*          complement of a signed 30-bit integer)                         *)
(*   ~int : the payload is the top 30 bits of an IEEE double; p = the      *)
(*          number it denotes (below).                                     *)
(*                                                                         *)
(* Numbers are decimal fractions m / 100^s kept normalised (Norm), which   *)
(* is closed under everything the reader does (divide by 100); a double    *)
(* that is treated as an opaque bit pattern is [cls |-> id, sc |-> k] =    *)
(* "pattern id times 100^k" (the harness applies f64::from_bits and one    *)
(* division).  A value read from a cell is a number tagged t = "i" | "f".  *)
(***************************************************************************)
EXTENDS Integers, Sequences, TLC

P30 == 1073741824       \* 2^30
P29 == 536870912        \* 2^29

RECURSIVE Norm(_, _)
Norm(m, s) == IF m = 0 THEN [m |-> 0, s |-> 0]
              ELSE IF m % 100 = 0 THEN Norm(m \div 100, s - 1)
              ELSE [m |-> m, s |-> s]

IsDec(v) == "m" \in DOMAIN v
Div100(v) == IF IsDec(v) THEN Norm(v.m, v.s + 1) ELSE [cls |-> v.cls, sc |-> v.sc - 1]
Mul100(v) == IF IsDec(v) THEN Norm(v.m, v.s - 1) ELSE [cls |-> v.cls, sc |-> v.sc + 1]
Tag(t, v) == [t |-> t] @@ v

\* the signed value of a 30-bit payload:  (read_i32(..) >> 2) after masking the flag bits
Signed30(u) == IF u >= P29 THEN u - P30 ELSE u
ToU30(x)    == IF x < 0 THEN x + P30 ELSE x

\* src/xls.rs rk_num (format = not a date format):
\*   is_int: v = payload >> 2 (arithmetic); d100 && v % 100 != 0 -> Float(v as f64 / 100.0)
\*           else Int(if d100 { v / 100 } else { v })
\*   else  : Float(if d100 { v / 100.0 } else { v })
RkDecode(rk) ==
  IF rk.int
  THEN LET v == Signed30(rk.p)
       IN IF rk.x100 /\ v % 100 # 0 THEN Tag("f", Norm(v, 1))
          ELSE Tag("i", Norm(IF rk.x100 THEN v \div 100 ELSE v, 0))
  ELSE Tag("f", IF rk.x100 THEN Div100(rk.p) ELSE rk.p)

\* IDEAL ([MS-XLS] 2.5.122): the number an RK word denotes -- payload, divided by 100 iff fX100;
\* "30-bit RK integers as Int": an fInt word without fX100 is an Int, a double without fX100 a
\* Float; with fX100 only the numeric value is promised (t = "any")
RkIdeal(rk) ==
  IF rk.int
  THEN LET v == Signed30(rk.p)
       IN IF rk.x100 THEN Tag("any", Norm(v, 1)) ELSE Tag("i", Norm(v, 0))
  ELSE IF rk.x100 THEN Tag("any", Div100(rk.p)) ELSE Tag("f", rk.p)

\* numeric equality Int n ~ Float n; the variant matters only where the ideal names one
Untag(a) == [x \in DOMAIN a \ {"t"} |-> a[x]]
SameNumber(a, b) == Untag(a) = Untag(b)
Agrees(asis, ideal) == SameNumber(asis, ideal) /\ (ideal.t = "any" \/ asis.t = ideal.t)
=============================================================================
