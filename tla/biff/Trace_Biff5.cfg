SPECIFICATION Spec
CONSTANTS
  AsWas = FALSE
  Rep = {}
POSTCONDITION Accepted
CHECK_DEADLOCK FALSE
