SPECIFICATION Spec
CONSTANTS
  AsWas = FALSE
POSTCONDITION Accepted
CHECK_DEADLOCK FALSE
