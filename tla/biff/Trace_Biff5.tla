---------------------------- MODULE Trace_Biff5 ----------------------------
(* X04, leg 2 (code -> spec).  `cvh drive biff5` writes random larger workbooks  *)
(* (1-4 sheets, up to 25 cells each anywhere in the BIFF grid, strings of up to  *)
(* 400 characters, BIFF5 / BIFF8 / both streams, every code page of the tables)  *)
(* with the Rust writer and logs per workbook a "book" event: the record bytes   *)
(* of every stream, the ideal observation recomputed by the harness (encoding_rs *)
(* on the logical document) and what calamine::Xls returned, in the vocabulary   *)
(* of Biff5.tla.  Accepted iff every observation is the one the reader model     *)
(* computes from the logged bytes -- or the ideal one, or a leaf-by-leaf mix of   *)
(* the two (so that a wholly or partly repaired implementation is still a        *)
(* behaviour of the specification).                                              *)
EXTENDS Biff5, Json, IOUtils

Rec == ndJsonDeserialize(IOEnv.TRACE)
RI(R) == INSTANCE Biff5 WITH Rep <- R

VARIABLES l, nideal
vars == <<l, nideal>>
Init == l = 1 /\ nideal = 0
Ev == Rec[l]

\* A reader in which some of the listed deviations are repaired and others are not is explained leaf by
\* leaf: every sheet name, cell position, cell value and defined name is the as-is model's or the ideal one
Leaf(o, a, i) == o = a \/ o = i
MixSeq(o, a, i, P(_, _, _)) == Len(o) = Len(a) /\ Len(o) = Len(i) /\ \A k \in 1..Len(o) : P(o[k], a[k], i[k])
MixCell(o, a, i) == Leaf(o, a, i) \/ (Leaf(o[1], a[1], i[1]) /\ Leaf(o[2], a[2], i[2]) /\ Leaf(o[3], a[3], i[3]))
MixSheet(o, a, i) == Leaf(o.name, a.name, i.name) /\ (Leaf(o.cells, a.cells, i.cells) \/ MixSeq(o.cells, a.cells, i.cells, MixCell))
MixObs(o, a, i) == \/ Leaf(o, a, i)
                   \/ /\ Leaf(o.err, a.err, i.err)
                      /\ (Leaf(o.defs, a.defs, i.defs) \/ MixSeq(o.defs, a.defs, i.defs, Leaf))
                      /\ (Leaf(o.sheets, a.sheets, i.sheets) \/ MixSeq(o.sheets, a.sheets, i.sheets, MixSheet))

TBook == /\ l <= Len(Rec) /\ Ev.e = "book"
         \* (bound by a quantifier, not by LET: a LET definition is re-evaluated at every use)
         \* (... = TRUE: evaluated as an expression; as part of the action every disjunction inside would
         \* be a branch of the next-state relation and TLC would enumerate the combinations)
         \* the reading of the model with some subset R of the named deviations repaired (R = {}: as it is)
         /\ (\E R \in SUBSET DevNames : \E asis \in {RI(R)!ReadF(Ev.files, IF "force" \in DOMAIN Ev THEN Ev.force ELSE 0).obs} : MixObs(Ev.obs, asis, Ev.ideal)) = TRUE
         /\ nideal' = nideal + (IF Ev.obs = Ev.ideal THEN 1 ELSE 0)
         /\ l' = l + 1
Next == TBook
Spec == Init /\ [][Next]_vars

Accepted ==
  LET d == TLCGet("stats").diameter IN
  IF d - 1 = Len(Rec) THEN PrintT(<<"ACCEPTED", ToString(Len(Rec))>>)
  ELSE PrintT(<<"REJECTED", ToJson([at |-> d, run |-> IF "run" \in DOMAIN Rec[d] THEN Rec[d].run ELSE 0, lay |-> Rec[d].lay, cp |-> Rec[d].cp,
                                    obs |-> Rec[d].obs, asis |-> ReadF(Rec[d].files, IF "force" \in DOMAIN Rec[d] THEN Rec[d].force ELSE 0).obs])>>)
=============================================================================
