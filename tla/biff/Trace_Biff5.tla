---------------------------- MODULE Trace_Biff5 ----------------------------
(* X04, leg 2 (code -> spec).  `cvh drive biff5` writes random larger workbooks  *)
(* (1-4 sheets, up to 25 cells each anywhere in the BIFF grid, strings of up to  *)
(* 400 characters, BIFF5 / BIFF8 / both streams, every code page of the tables)  *)
(* with the Rust writer and logs per workbook a "book" event: the record bytes   *)
(* of every stream, the ideal observation recomputed by the harness (encoding_rs *)
(* on the logical document) and what calamine::Xls returned, in the vocabulary   *)
(* of Biff5.tla.  Accepted iff every observation is the one the reader model     *)
(* computes from the logged bytes -- or the ideal one (so that a repaired        *)
(* implementation is still a behaviour of the specification).                    *)
EXTENDS Biff5, Json, IOUtils

Rec == ndJsonDeserialize(IOEnv.TRACE)

VARIABLES l, nideal
vars == <<l, nideal>>
Init == l = 1 /\ nideal = 0
Ev == Rec[l]

TBook == /\ l <= Len(Rec) /\ Ev.e = "book"
         /\ LET asis == TLCEval(Read(Ev.files).obs)
            IN Ev.obs = asis \/ Ev.obs = Ev.ideal
         /\ nideal' = nideal + (IF Ev.obs = Ev.ideal THEN 1 ELSE 0)
         /\ l' = l + 1
Next == TBook
Spec == Init /\ [][Next]_vars

Accepted ==
  LET d == TLCGet("stats").diameter IN
  IF d - 1 = Len(Rec) THEN PrintT(<<"ACCEPTED", ToString(Len(Rec))>>)
  ELSE PrintT(<<"REJECTED", ToJson([at |-> d, run |-> IF "run" \in DOMAIN Rec[d] THEN Rec[d].run ELSE 0, lay |-> Rec[d].lay, cp |-> Rec[d].cp,
                                    obs |-> Rec[d].obs, asis |-> Read(Rec[d].files).obs])>>)
=============================================================================
