SPECIFICATION Spec
CONSTANTS ClsVal <- ClsOpaque
INVARIANTS Refines
POSTCONDITION Accepted
CHECK_DEADLOCK FALSE
