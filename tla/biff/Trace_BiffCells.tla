-------------------------- MODULE Trace_BiffCells --------------------------
(* C02, leg 2 (code -> spec).  `cvh drive biffcells` writes random large     *)
(* sheets and logs per sheet: "reset" (shared-string ids), one "tok" event   *)
(* per record of the worksheet substream, and "range" = what                 *)
(* Xls::worksheet_range returned (start, end, non-empty cells; numbers in    *)
(* the model's terms relative to the payload of the record that wrote the    *)
(* cell -- trusted glue obs_value in harness/src/props/biff.rs).  Accepted   *)
(* iff the reader model of BiffCells.tla, run over the logged records,       *)
(* yields the logged range; Refines: the logged range is what the records    *)
(* store (IdealOfTokens).  A double is an opaque pattern [cls |-> id].       *)
EXTENDS BiffCells, Json, IOUtils

Rec == ndJsonDeserialize(IOEnv.TRACE)

ClsOpaque(n) == [cls |-> n, sc |-> 0]

\* predictions per "range" event, computed once (constant level; see Trace_Cfb)
ResetBefore(i) == CHOOSE j \in 1..i : Rec[j].e = "reset" /\ \A k \in (j + 1)..i : Rec[k].e # "reset"
Toks(i) == LET j == ResetBefore(i) IN SubSeq(Rec, j + 1, i - 1)
RangeIdx == {i \in 1..Len(Rec) : Rec[i].e = "range"}
Predicted == [i \in RangeIdx |-> TLCEval([asis  |-> AsIsFold(Toks(i), Rec[ResetBefore(i)].sst),
                                          ideal |-> IdealOfTokens(Toks(i), Rec[ResetBefore(i)].sst)])]
Expected == TLCEval([i \in RangeIdx |-> Predicted[i]])

VARIABLES l, last
vars == <<l, last>>
None == [none |-> TRUE]
Init == l = 1 /\ last = None

Ev == Rec[l]
IsEvent(e) == l <= Len(Rec) /\ Ev.e = e /\ l' = l + 1

Observed(ev) == [start |-> ev.start, end |-> ev.end,
                 cells |-> {[p |-> ev.cells[k].p, v |-> ev.cells[k].v] : k \in 1..Len(ev.cells)}]

TReset == IsEvent("reset") /\ last' = None
TTok   == IsEvent("tok") /\ UNCHANGED last
TRange == /\ IsEvent("range")
          /\ "cells" \in DOMAIN Ev /\ Ev.shape_ok
          /\ LET x == Expected[l]
             IN /\ "start" \in DOMAIN x.asis
                /\ Observed(Ev) = x.asis
                /\ last' = [asis |-> x.asis, ideal |-> x.ideal]

Next == TReset \/ TTok \/ TRange
Spec == Init /\ [][Next]_vars

Refines == last # None => Matches(last.asis, last.ideal)

Accepted ==
  LET d == TLCGet("stats").diameter IN
  IF d - 1 = Len(Rec) THEN PrintT(<<"ACCEPTED", ToString(Len(Rec))>>)
  ELSE PrintT(<<"REJECTED", ToJson([at |-> d, event |-> [e |-> Rec[d].e]])>>)
=============================================================================
