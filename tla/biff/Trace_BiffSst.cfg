SPECIFICATION Spec
INVARIANTS Reads
POSTCONDITION Accepted
CHECK_DEADLOCK FALSE
