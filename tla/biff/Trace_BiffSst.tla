---------------------------- MODULE Trace_BiffSst ----------------------------
(* C12, leg 2 (code -> spec).  `cvh drive sst` writes random shared-string     *)
(* tables with random legal cuts and storage switches and logs per table an    *)
(* "sst" event (number of strings, the byte values of the SST body and of      *)
(* every CONTINUE body) and a "strings" event (the code points of every string *)
(* as observed through LABELSST cells of the real reader).  Accepted iff the   *)
(* reader model of BiffSst.tla (repaired read_dbcs) run over the logged        *)
(* fragments yields the logged strings.                                        *)
EXTENDS BiffSst, Json, IOUtils

Rec == ndJsonDeserialize(IOEnv.TRACE)

SstIdx == {i \in 1..Len(Rec) : Rec[i].e = "sst"}
Expected == TLCEval([i \in SstIdx |-> TLCEval(ParseSst(Rec[i].frags, Rec[i].n, FALSE))])

VARIABLES l, last
vars == <<l, last>>
None == [none |-> TRUE]
Init == l = 1 /\ last = None
Ev == Rec[l]
IsEvent(e) == l <= Len(Rec) /\ Ev.e = e /\ l' = l + 1

TSst == IsEvent("sst") /\ last' = [at |-> l, x |-> Expected[l]]
TStrings == /\ IsEvent("strings")
            /\ last # None /\ last.x.err = ""
            /\ "texts" \in DOMAIN Ev /\ Ev.odd = 0
            /\ Ev.texts = last.x.sst
            /\ last' = None

Next == TSst \/ TStrings
Spec == Init /\ [][Next]_vars

\* a well-formed table is read without error
Reads == last # None => last.x.err = ""

Accepted ==
  LET d == TLCGet("stats").diameter IN
  IF d - 1 = Len(Rec) THEN PrintT(<<"ACCEPTED", ToString(Len(Rec))>>)
  ELSE PrintT(<<"REJECTED", ToJson([at |-> d, event |-> [e |-> Rec[d].e]])>>)
=============================================================================
