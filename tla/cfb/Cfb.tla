-------------------------------- MODULE Cfb --------------------------------
(***************************************************************************)
(* C13 -- compound files ([MS-CFB]) as calamine reads them.                *)
(*                                                                         *)
(* A FILE is a record                                                      *)
(*   ver  : 3 | 4                                                          *)
(*   hdr  : [dirLen, fatLen, dirStart, miniFatStart, miniFatLen,           *)
(*           difatStart, difat : Seq(word)]          header fields         *)
(*   sec  : Seq(sector)   sec[id+1] is the sector with id `id`             *)
(*            [t |-> "fat" | "difat" | "minifat", w |-> Seq(word)]         *)
(*            [t |-> "dir", d |-> Seq([name, start, len])]                 *)
(*            [t |-> "data", o |-> owner, i |-> k]  k-th sector of stream  *)
(*                 `owner` ("$mini" = the mini-stream container)           *)
(*            [t |-> "free"]                                               *)
(*   mini : Seq([o, i])   what each 64-byte slot of the mini-stream        *)
(*                        container holds (o = "" : free mini sector)      *)
(* and a GEOMETRY g = [ssz, msz, cut, eps, dps]: bytes per sector / mini   *)
(* sector, mini-stream cutoff, words per sector, directory entries per     *)
(* sector (real: 512|4096, 64, 4096, 128|1024, 4|32; the model-checking    *)
(* configuration uses small numbers, the trace specification the real).    *)
(*                                                                         *)
(* This module is the READER: a transcription of src/cfb.rs                *)
(*   Cfb::new      -> New(f, g)                                            *)
(*   get_stream    -> GetStream(f, g, c, name)                             *)
(*   get_chain     -> Chain(...) + truncation                              *)
(* (TLCEval only forces eager evaluation of LET values; TLC would otherwise *)
(* re-evaluate them at every use, which is quadratic on real-size files.)   *)
(* Data bytes are abstracted to block descriptors [o, i] ("the i-th block  *)
(* of stream o") plus an exact byte length, so "byte-exact" reads as       *)
(* "blocks <<[s,0],[s,1],...>> and length len(s)".                         *)
(* Behaviour of the code on files that are not legal layouts (cycles, ids  *)
(* beyond the file, chains running into foreign sectors) is reported as an *)
(* `err` string; it is never reached from the writer of MC_Cfb.            *)
(***************************************************************************)
EXTENDS Naturals, Sequences, FiniteSets, TLC, SequencesExt

\* special words; real value = 0xFFFFFF00 + (m - 1000000)
RESERVED == 1000250     \* 0xFFFFFFFA  RESERVED_SECTORS
DIFSECT  == 1000252     \* 0xFFFFFFFC
FATSECT  == 1000253     \* 0xFFFFFFFD
ENDCH    == 1000254     \* 0xFFFFFFFE  ENDOFCHAIN
FREESECT == 1000255     \* 0xFFFFFFFF

MinN(a, b) == IF a < b THEN a ELSE b
CeilDiv(a, b) == (a + b - 1) \div b
NSec(f) == Len(f.sec)

\* to_u32(sectors.get(id)) : the sector read as little-endian words
IsWords(f, id) == id < NSec(f) /\ f.sec[id + 1].t \in {"fat", "difat", "minifat"}
Words(f, id) == f.sec[id + 1].w

--------------------------------------------------------------------------
(* Sectors::get_chain, the walk: ids visited from `start` following `fats` *)
(* (`limit` = number of sectors that exist).  while sector_id != ENDOFCHAIN *)
(*   { chain.extend(get(sector_id)); sector_id = fats[sector_id] }          *)
\* (a left fold over 1..fuel rather than a recursive operator: TLC's cost of a recursive call
\*  grows with the recursion depth, which is quadratic on real-size chains)
ChainStep(st, fats, limit) ==
  IF st.err # "" \/ st.cur = ENDCH THEN st
  ELSE IF st.cur >= limit THEN [st EXCEPT !.err = "bad-sector-id"]
  ELSE IF st.cur + 1 > Len(fats) THEN [st EXCEPT !.err = "panic:fat-index"]
  ELSE [cur |-> fats[st.cur + 1], ids |-> Append(st.ids, st.cur), err |-> ""]

Chain(start, fats, limit, acc, fuel) ==
  LET r == FoldLeft(LAMBDA st, i : ChainStep(st, fats, limit),
                    [cur |-> start, ids |-> acc, err |-> ""], [i \in 1..fuel |-> i])
  IN IF r.err # "" THEN [err |-> r.err, ids |-> r.ids]
     ELSE IF r.cur # ENDCH THEN [err |-> "hang:cycle", ids |-> r.ids]
     ELSE [err |-> "", ids |-> r.ids]

\* bytes returned by get_chain(start, fats, r, len): n whole sectors, truncated iff len > 0
ChainLen(n, size, len) == IF len > 0 THEN MinN(len, n * size) ELSE n * size

RECURSIVE FlatWords(_, _, _)
FlatWords(f, ids, k) ==
  IF k > Len(ids) THEN <<>> ELSE Words(f, ids[k]) \o FlatWords(f, ids, k + 1)

RECURSIVE FlatDirs(_, _, _)
FlatDirs(f, ids, k) ==
  IF k > Len(ids) THEN <<>> ELSE f.sec[ids[k] + 1].d \o FlatDirs(f, ids, k + 1)

--------------------------------------------------------------------------
(* Cfb::new *)
\* while sector_id < RESERVED_SECTORS { difat.extend(to_u32(get(sector_id))); sector_id = difat.pop() }
RECURSIVE DifatLoop(_, _, _, _)
DifatLoop(f, difat, sid, fuel) ==
  IF ~(sid < RESERVED) THEN [err |-> "", difat |-> difat]
  ELSE IF fuel = 0 THEN [err |-> "hang:difat-cycle", difat |-> difat]
  ELSE IF ~IsWords(f, sid) THEN [err |-> "difat-sector-not-words", difat |-> difat]
  ELSE LET d2 == difat \o Words(f, sid)
       IN DifatLoop(f, SubSeq(d2, 1, Len(d2) - 1), d2[Len(d2)], fuel - 1)

AllWords(f, ids) == \A k \in 1..Len(ids) : IsWords(f, ids[k])
AllDirs(f, ids)  == \A k \in 1..Len(ids) : f.sec[ids[k] + 1].t = "dir"

\* RootRule(ver, dirs): the check after the directory is loaded.
\*   as written in the pinned source:  dirs.is_empty() || (h.version != 3 && dirs[0].start == ENDOFCHAIN)
\*   repaired (fix: commit in /repo):  dirs.is_empty()
\* The specification models the repaired code; RootRuleAsWas is kept for the record and for
\* the sensitivity configuration.
RootRuleAsWas(ver, dirs) == dirs = <<>> \/ (ver # 3 /\ dirs[1].start = ENDCH)
RootRule(ver, dirs) == dirs = <<>>

NewWith(f, g, Root(_, _)) ==
  LET h  == f.hdr
      fu == NSec(f) + 2
      dl == TLCEval(DifatLoop(f, h.difat, h.difatStart, fu))
  IN IF dl.err # "" THEN [err |-> dl.err]
     ELSE
     LET fatIds == TLCEval(SelectSeq(dl.difat, LAMBDA x : x < DIFSECT))
     IN IF ~AllWords(f, fatIds) THEN [err |-> "fat-sector-not-words"]
        ELSE
        LET fats == TLCEval(FlatWords(f, fatIds, 1))
            dc   == TLCEval(Chain(h.dirStart, fats, NSec(f), <<>>, fu))
        IN IF dc.err # "" THEN [err |-> dc.err]
           ELSE IF ~AllDirs(f, dc.ids) THEN [err |-> "dir-chain-not-dir"]
           ELSE
           LET all  == TLCEval(FlatDirs(f, dc.ids, 1))
               \* get_chain(.., h.dir_len * h.sector_size) then chunks(128)
               dirs == TLCEval(IF h.dirLen > 0 THEN SubSeq(all, 1, MinN(Len(all), h.dirLen * g.dps)) ELSE all)
           IN IF Root(f.ver, dirs) THEN [err |-> "EmptyRootDir"]
              ELSE IF h.miniFatLen > 0
              THEN LET ms == TLCEval(Chain(dirs[1].start, fats, NSec(f), <<>>, fu))
                       mf == TLCEval(Chain(h.miniFatStart, fats, NSec(f), <<>>, fu))
                   IN IF ms.err # "" THEN [err |-> ms.err]
                      ELSE IF mf.err # "" THEN [err |-> mf.err]
                      ELSE IF ~AllWords(f, mf.ids) THEN [err |-> "minifat-not-words"]
                      ELSE LET mw == TLCEval(FlatWords(f, mf.ids, 1))
                           IN [err |-> "", dirs |-> dirs, fats |-> fats,
                               msIds |-> ms.ids,
                               msLen |-> ChainLen(Len(ms.ids), g.ssz, dirs[1].len),
                               miniFats |-> SubSeq(mw, 1, MinN(Len(mw), h.miniFatLen * g.eps))]
              ELSE [err |-> "", dirs |-> dirs, fats |-> fats, msIds |-> <<>>, msLen |-> 0,
                    miniFats |-> <<>>]

New(f, g) == NewWith(f, g, RootRule)

--------------------------------------------------------------------------
(* Cfb::get_stream : directories.iter().find(name); len < 4096 ? mini : regular *)
FindDir(dirs, name) ==
  LET hit == {k \in 1..Len(dirs) : dirs[k].name = name}
  IN IF hit = {} THEN 0 ELSE CHOOSE k \in hit : \A j \in hit : k <= j

GetStream(f, g, c, name) ==
  LET k == FindDir(c.dirs, name)
  IN IF k = 0 THEN [err |-> "StreamNotFound"]
     ELSE
     LET d == c.dirs[k]
     IN IF d.len < g.cut
        THEN \* mini_sectors = Sectors::new(64, ministream): a slot exists iff it lies inside the
             \* (truncated) mini stream; beyond it the code would read on from the file reader
             LET w == TLCEval(Chain(d.start, c.miniFats, c.msLen \div g.msz, <<>>, Len(c.miniFats) + 2))
             IN IF w.err # "" THEN [err |-> "mini:" \o w.err]
                ELSE [err |-> "", mini |-> TRUE, ids |-> w.ids,
                      len |-> ChainLen(Len(w.ids), g.msz, d.len)]
        ELSE LET w == TLCEval(Chain(d.start, c.fats, NSec(f), <<>>, NSec(f) + 2))
             IN IF w.err # "" THEN [err |-> w.err]
                ELSE [err |-> "", mini |-> FALSE, ids |-> w.ids,
                      len |-> ChainLen(Len(w.ids), g.ssz, d.len)]

--------------------------------------------------------------------------
(* what the returned bytes are: descriptors of the blocks the walk collected, *)
(* cut to the blocks that lie (at least partly) inside the returned length    *)
Foreign(s) == [o |-> "?" \o s.t, i |-> 0]
RegBlock(f, id) == LET s == f.sec[id + 1] IN IF s.t = "data" THEN [o |-> s.o, i |-> s.i] ELSE Foreign(s)
MiniBlock(f, g, c, m) ==
  LET mps == g.ssz \div g.msz
      s   == f.sec[c.msIds[(m \div mps) + 1] + 1]
  IN IF s.t = "data" /\ s.o = "$mini"
     THEN LET slot == s.i * mps + (m % mps)
          IN IF slot + 1 \in DOMAIN f.mini THEN f.mini[slot + 1] ELSE [o |-> "?slack", i |-> 0]
     ELSE Foreign(s)

Blocks(f, g, c, r) ==
  LET bs == IF r.mini THEN g.msz ELSE g.ssz
      nb == CeilDiv(r.len, bs)
  IN [k \in 1..nb |-> IF r.mini THEN MiniBlock(f, g, c, r.ids[k]) ELSE RegBlock(f, r.ids[k])]

\* result of open + get_stream(name) as seen by the caller
ReadWith(f, g, name, Root(_, _)) ==
  LET c == TLCEval(NewWith(f, g, Root))
  IN IF c.err # "" THEN [err |-> c.err]
     ELSE LET r == TLCEval(GetStream(f, g, c, name))
          IN IF r.err # "" THEN [err |-> r.err]
             ELSE [err |-> "", len |-> r.len, blocks |-> Blocks(f, g, c, r)]
Read(f, g, name) == ReadWith(f, g, name, RootRule)

--------------------------------------------------------------------------
(* IDEAL, from the property statement: the byte-exact logical stream *)
Ideal(g, name, len) ==
  LET bs == IF len < g.cut THEN g.msz ELSE g.ssz
  IN [err |-> "", len |-> len,
      blocks |-> [k \in 1..CeilDiv(len, bs) |-> [o |-> name, i |-> k - 1]]]
=============================================================================
