------------------------------- MODULE MC_Cfb -------------------------------
(***************************************************************************)
(* C13, leg 0 + export for leg 1.                                          *)
(*                                                                         *)
(* WRITER: every legal [MS-CFB] layout of a stream set over NSect model    *)
(* sectors.  Chosen in Init (small closed sets): version, stream set,      *)
(* order of the directory entries incl. unused ones, assignment of the     *)
(* mini sectors to mini-stream slots (free slots in between), number of    *)
(* surplus FAT / mini-FAT sectors.  Chosen by actions (one unit per step,  *)
(* so the BFS spreads over the workers): the sector id of every unit --    *)
(* FAT, DIFAT, directory, mini-FAT, mini-stream container and stream       *)
(* sectors -- any injection into 0..NSect-1; ids left over are free        *)
(* sectors.  That covers contiguous, reversed, interleaved and fragmented  *)
(* chains.                                                                 *)
(*                                                                         *)
(* Geometry is small (Geo): e.g. 4 bytes / 4 words / 2 directory entries   *)
(* per sector, 2-byte mini sectors, cutoff 4, HD header DIFAT slots, so    *)
(* multi-sector FAT, DIFAT chains and mini/regular placement are all       *)
(* reached on <= 10 sectors.  Not in the checked language (legality        *)
(* doubtful, see DESIGN 2.3): two streams with the same name in different  *)
(* storages, empty streams whose start is not ENDOFCHAIN, a mini stream    *)
(* whose size is not a multiple of 64, DIFAT sectors while header slots    *)
(* are free, range-lock sector (files > 2 GB).                             *)
(*                                                                         *)
(* READER: Cfb.tla.  Property: Refines.  Every complete layout is printed  *)
(* as a REPLAY line and materialised by `cvh replay cfb`.                  *)
(***************************************************************************)
EXTENDS Cfb, Json

CONSTANTS Versions,      \* subset of {3, 4}
          StreamSets,    \* set of sequences of [n |-> name, len |-> model bytes]
          NSect,         \* sector ids 0..NSect-1
          Geo,           \* [ssz, msz, cut, eps, dps]
          HD,            \* DIFAT slots in the header (real: 109)
          XFat,          \* set of surplus FAT sector counts
          XMiniFat,      \* set of surplus mini-FAT sector counts
          FreeMinis,     \* set of free mini slot counts
          XDirSect,      \* set of surplus directory sector counts (all entries unused)
          DirMode,       \* "all" : every order of the entries ; "canon" : given order, unused last
          PlaceMode,     \* "all" : any free id ; "ends" : lowest or highest free id only
          UseAsWas       \* TRUE: check the root rule of the pinned source (sensitivity/record)

VARIABLES lay, place
vars == <<lay, place>>

--------------------------------------------------------------------------
(* derived quantities of a layout choice *)
IsMini(len) == len > 0 /\ len < Geo.cut
IsReg(len)  == len >= Geo.cut

RECURSIVE MiniUnits(_, _)     \* sequence of [o, i] for the short streams, stream-major
MiniUnits(S, k) ==
  IF k > Len(S) THEN <<>>
  ELSE (IF IsMini(S[k].len)
        THEN [j \in 1..CeilDiv(S[k].len, Geo.msz) |-> [o |-> S[k].n, i |-> j - 1]]
        ELSE <<>>) \o MiniUnits(S, k + 1)

RECURSIVE RegUnits(_, _)
RegUnits(S, k) ==
  IF k > Len(S) THEN <<>>
  ELSE (IF IsReg(S[k].len)
        THEN [j \in 1..CeilDiv(S[k].len, Geo.ssz) |-> [k |-> "s", o |-> S[k].n, i |-> j - 1]]
        ELSE <<>>) \o RegUnits(S, k + 1)

NMini(l)  == IF Len(MiniUnits(l.S, 1)) = 0 THEN 0 ELSE Len(MiniUnits(l.S, 1)) + l.freeMinis
NMs(l)    == CeilDiv(NMini(l) * Geo.msz, Geo.ssz)
NMf(l)    == IF NMini(l) = 0 THEN 0 ELSE CeilDiv(NMini(l), Geo.eps) + l.xmf
NDir(l)   == (1 + Len(l.dir)) \div Geo.dps
NFat(l)   == CeilDiv(NSect, Geo.eps) + l.xfat
NDifat(l) == IF NFat(l) > HD THEN CeilDiv(NFat(l) - HD, Geo.eps - 1) ELSE 0

Mk(kind, n) == [j \in 1..n |-> [k |-> kind, o |-> "", i |-> j - 1]]
Units(l) == Mk("fat", NFat(l)) \o Mk("difat", NDifat(l)) \o Mk("dir", NDir(l))
            \o Mk("minifat", NMf(l)) \o Mk("ms", NMs(l)) \o RegUnits(l.S, 1)

--------------------------------------------------------------------------
(* the closed choices *)
Md(a, b) == a - b * (a \div b)
Perms(T) == {p \in [1..Cardinality(T) -> T] : \A a, b \in 1..Cardinality(T) : a # b => p[a] # p[b]}
Injections(n, m) == {p \in [1..n -> 0..(m - 1)] : \A a, b \in 1..n : a # b => p[a] # p[b]}

\* directory orders: the stream names plus u unused entries ("" ), u minimal to fill the last
\* sector plus whole surplus sectors
DirSeqs(S, xd) ==
  LET n   == Len(S)
      pad == Md(Geo.dps - Md(1 + n, Geo.dps), Geo.dps) + xd * Geo.dps
      tot == n + pad
      canon == [k \in 1..tot |-> IF k <= n THEN S[k].n ELSE ""]
  IN IF DirMode = "canon" THEN {canon}
     ELSE {[k \in 1..tot |-> canon[p[k]]] : p \in Perms(1..tot)}

SetMin(T) == CHOOSE x \in T : \A y \in T : x <= y

LaysFor(v, S, xf, xm, fm, xd) ==
  LET mu == MiniUnits(S, 1)
      nm == IF Len(mu) = 0 THEN 0 ELSE Len(mu) + fm
  IN \* a free-mini / surplus-mini-FAT choice is meaningless without mini streams: one representative
     IF Len(mu) = 0 /\ (fm # SetMin(FreeMinis) \/ xm # SetMin(XMiniFat)) THEN {}
     ELSE {[ver |-> v, S |-> S, dir |-> d, xfat |-> xf,
            xmf |-> IF Len(mu) = 0 THEN 0 ELSE xm,
            freeMinis |-> IF Len(mu) = 0 THEN 0 ELSE fm, mslot |-> ms]
             : d \in DirSeqs(S, xd), ms \in Injections(Len(mu), nm)}

LayChoices ==
  UNION {LaysFor(v, S, xf, xm, fm, xd) :
           v \in Versions, S \in StreamSets, xf \in XFat, xm \in XMiniFat, fm \in FreeMinis, xd \in XDirSect}

Init == /\ lay \in {l \in LayChoices : Len(Units(l)) <= NSect}
        /\ place = <<>>

done == Len(place) = Len(Units(lay))

FreeIds == {id \in 0..(NSect - 1) : \A k \in 1..Len(place) : place[k] # id}
Place(id) == /\ ~done
             /\ id \in FreeIds
             /\ PlaceMode = "ends" => (\A x \in FreeIds : id <= x) \/ (\A x \in FreeIds : id >= x)
             /\ place' = Append(place, id)
             /\ UNCHANGED lay

Next == \E id \in 0..(NSect - 1) : Place(id)
Spec == Init /\ [][Next]_vars

--------------------------------------------------------------------------
(* the file a complete layout denotes *)
UnitIdx(us, u) == CHOOSE k \in 1..Len(us) : us[k] = u
HasUnit(us, u) == \E k \in 1..Len(us) : us[k] = u
At(us, pl, u)  == pl[UnitIdx(us, u)]
AtOrEnd(us, pl, u) == IF HasUnit(us, u) THEN At(us, pl, u) ELSE ENDCH

NextInChain(u) == IF u.k \in {"dir", "minifat", "ms", "s"} THEN [u EXCEPT !.i = @ + 1] ELSE u

FatWord(us, pl, id) ==
  LET hit == {k \in 1..Len(pl) : pl[k] = id}
  IN IF hit = {} THEN FREESECT
     ELSE LET u == us[CHOOSE k \in hit : TRUE]
          IN IF u.k = "fat" THEN FATSECT
             ELSE IF u.k = "difat" THEN DIFSECT
             ELSE AtOrEnd(us, pl, NextInChain(u))

MiniSlotOf(l, mu, o, i) ==      \* slot of mini unit (o,i) or ENDCH
  LET hit == {k \in 1..Len(mu) : mu[k] = [o |-> o, i |-> i]}
  IN IF hit = {} THEN ENDCH ELSE l.mslot[CHOOSE k \in hit : TRUE]

MiniArray(l) ==
  LET mu == MiniUnits(l.S, 1)
  IN [s \in 1..NMini(l) |->
        LET hit == {k \in 1..Len(mu) : l.mslot[k] = s - 1}
        IN IF hit = {} THEN [o |-> "", i |-> 0] ELSE mu[CHOOSE k \in hit : TRUE]]

MiniFatWord(l, slot) ==
  LET ma == MiniArray(l)
  IN IF slot + 1 > Len(ma) \/ ma[slot + 1].o = "" THEN FREESECT
     ELSE MiniSlotOf(l, MiniUnits(l.S, 1), ma[slot + 1].o, ma[slot + 1].i + 1)

StreamLen(S, name) == S[CHOOSE k \in 1..Len(S) : S[k].n = name].len

DirEntries(l, us, pl) ==
  LET mu == MiniUnits(l.S, 1)
      root == [name |-> "Root Entry",
               start |-> AtOrEnd(us, pl, [k |-> "ms", o |-> "", i |-> 0]),
               len |-> NMini(l) * Geo.msz]
      Ent(name) ==
        IF name = "" THEN [name |-> "", start |-> 0, len |-> 0]
        ELSE LET len == StreamLen(l.S, name)
             IN [name |-> name, len |-> len,
                 start |-> IF len = 0 THEN ENDCH
                           ELSE IF IsMini(len) THEN MiniSlotOf(l, mu, name, 0)
                           ELSE At(us, pl, [k |-> "s", o |-> name, i |-> 0])]
  IN <<root>> \o [k \in 1..Len(l.dir) |-> Ent(l.dir[k])]

FileOf(l, pl) ==
  LET us   == Units(l)
      nfat == NFat(l)
      fatIds == [k \in 1..nfat |-> At(us, pl, [k |-> "fat", o |-> "", i |-> k - 1])]
      dirs == DirEntries(l, us, pl)
      Sector(id) ==
        LET hit == {k \in 1..Len(pl) : pl[k] = id}
        IN IF hit = {} THEN [t |-> "free"]
           ELSE LET u == us[CHOOSE k \in hit : TRUE]
                IN CASE u.k = "fat" ->
                          [t |-> "fat", w |-> [j \in 1..Geo.eps |-> FatWord(us, pl, u.i * Geo.eps + j - 1)]]
                     [] u.k = "difat" ->
                          [t |-> "difat",
                           w |-> [j \in 1..Geo.eps |->
                                    IF j = Geo.eps
                                    THEN AtOrEnd(us, pl, [u EXCEPT !.i = @ + 1])
                                    ELSE LET n == HD + u.i * (Geo.eps - 1) + j
                                         IN IF n <= nfat THEN fatIds[n] ELSE FREESECT]]
                     [] u.k = "dir" ->
                          [t |-> "dir", d |-> SubSeq(dirs, u.i * Geo.dps + 1, (u.i + 1) * Geo.dps)]
                     [] u.k = "minifat" ->
                          [t |-> "minifat", w |-> [j \in 1..Geo.eps |-> MiniFatWord(l, u.i * Geo.eps + j - 1)]]
                     [] u.k = "ms" -> [t |-> "data", o |-> "$mini", i |-> u.i]
                     [] OTHER -> [t |-> "data", o |-> u.o, i |-> u.i]
  IN [ver |-> l.ver,
      hdr |-> [dirLen |-> IF l.ver = 3 THEN 0 ELSE NDir(l),
               fatLen |-> nfat,
               dirStart |-> At(us, pl, [k |-> "dir", o |-> "", i |-> 0]),
               miniFatStart |-> AtOrEnd(us, pl, [k |-> "minifat", o |-> "", i |-> 0]),
               miniFatLen |-> NMf(l),
               difatStart |-> AtOrEnd(us, pl, [k |-> "difat", o |-> "", i |-> 0]),
               difatLen |-> NDifat(l),
               difat |-> [k \in 1..HD |-> IF k <= nfat THEN fatIds[k] ELSE FREESECT]],
      sec |-> [id1 \in 1..NSect |-> Sector(id1 - 1)],
      mini |-> MiniArray(l)]

--------------------------------------------------------------------------
(* properties *)
ReadAs(f, name) == IF UseAsWas THEN ReadWith(f, Geo, name, RootRuleAsWas) ELSE Read(f, Geo, name)

Results(l, f) == [k \in 1..Len(l.S) |-> ReadAs(f, l.S[k].n)]
Ideals(l)     == [k \in 1..Len(l.S) |-> Ideal(Geo, l.S[k].n, l.S[k].len)]

\* C13: whatever the layout, every stream reads back byte-exact
RefinesF(f, res) == res = Ideals(lay)

\* a name that is not in the file is not found (and unused entries never match)
NotFoundF(f) == ReadAs(f, "nosuchstream").err = "StreamNotFound"

\* sanity of the writer itself ([MS-CFB] 2.3): FAT sectors are marked, every chain is marked
\* to its end, nothing else is allocated
WriterLegalF(f) ==
    LET us == Units(lay)
        fats == FlatWords(f, [k \in 1..NFat(lay) |-> At(us, place, [k |-> "fat", o |-> "", i |-> k - 1])], 1)
    IN /\ \A id \in 0..(NSect - 1) :
            LET s == f.sec[id + 1]
            IN /\ (s.t = "fat") = (fats[id + 1] = FATSECT)
               /\ (s.t = "difat") = (fats[id + 1] = DIFSECT)
               /\ (s.t = "free") = (fats[id + 1] = FREESECT)
       /\ \A id \in NSect..(Len(fats) - 1) : fats[id + 1] = FREESECT
       /\ f.hdr.fatLen * Geo.eps >= NSect

DumpF(f, res) ==
    LET us == Units(lay)
    IN PrintT(<<"REPLAY", ToJson(
         [ver |-> lay.ver, streams |-> lay.S, dir |-> lay.dir, mslot |-> lay.mslot,
          nmini |-> NMini(lay), nfat |-> NFat(lay), nmf |-> NMf(lay), ndir |-> NDir(lay),
          ndifat |-> NDifat(lay), nsect |-> NSect, geo |-> Geo, hd |-> HD,
          units |-> [k \in 1..Len(us) |-> [k |-> us[k].k, o |-> us[k].o, i |-> us[k].i, at |-> place[k]]],
          hdr |-> f.hdr,
          asis |-> [k \in 1..Len(lay.S) |-> IF res[k].err = "" THEN "ok" ELSE res[k].err],
          dev |-> {}])>>)

Why(name) == PrintT(<<"WHY", name>>) /\ FALSE

\* one invariant so that the file and the reads are computed once per layout; the REPLAY line is
\* printed first, a WHY line names the conjunct that failed
Refines ==
  done => LET f   == TLCEval(FileOf(lay, place))
              res == TLCEval(Results(lay, f))
          IN /\ DumpF(f, res)
             /\ RefinesF(f, res) \/ Why("Refines: a stream does not read back byte-exact")
             /\ NotFoundF(f) \/ Why("NotFound")
             /\ WriterLegalF(f) \/ Why("WriterLegal: the writer model produced an illegal layout")

--------------------------------------------------------------------------
(* configurations (record/sequence constants cannot be written in a cfg file) *)
G4 == [ssz |-> 4, msz |-> 2, cut |-> 4, eps |-> 4, dps |-> 4]
G3 == [ssz |-> 4, msz |-> 2, cut |-> 4, eps |-> 4, dps |-> 3]
St(n, len) == [n |-> n, len |-> len]
\* model bytes: 0 empty | 1,2,3 mini (1 slot part, 1 slot full, 2 slots part) | 4 = cutoff, one
\* full sector | 5 two sectors, partial | 8 two full | 9 three
SS_perm == {<<St("Workbook", 5)>>, <<St("Workbook", 4), St("B", 1)>>, <<St("Workbook", 9)>>,
            <<St("Workbook", 3), St("C", 2)>>}
SS_dir  == {<<St("Workbook", 4), St("B", 1), St("C", 0)>>}
SS_dir2 == {<<St("Workbook", 4), St("B", 1)>>, <<St("Workbook", 1), St("B", 5)>>}
SS_difat3 == {<<St("Workbook", 4)>>, <<St("Workbook", 5), St("B", 1)>>}
SS_difat == {<<St("Workbook", 4)>>, <<St("Workbook", 3)>>}
SS_thor == {<<St("Workbook", 5), St("B", 3), St("C", 0)>>, <<St("Workbook", 8), St("B", 4)>>,
            <<St("Workbook", 3), St("B", 2)>>, <<St("Workbook", 9), St("B", 2)>>}
=============================================================================
