SPECIFICATION Spec
CONSTANTS
  Versions = {3, 4}
  StreamSets <- SS_difat
  NSect = 10
  Geo <- G4
  HD = 1
  XFat = {0, 2}
  XMiniFat = {0}
  FreeMinis = {0}
  XDirSect = {0}
  DirMode = "canon"
  PlaceMode = "ends"
  UseAsWas = FALSE
INVARIANTS Refines
CHECK_DEADLOCK FALSE
