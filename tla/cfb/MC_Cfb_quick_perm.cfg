SPECIFICATION Spec
CONSTANTS
  Versions = {3, 4}
  StreamSets <- SS_perm
  NSect = 6
  Geo <- G4
  HD = 2
  XFat = {0}
  XMiniFat = {0}
  FreeMinis = {0}
  XDirSect = {0}
  DirMode = "canon"
  PlaceMode = "all"
  UseAsWas = FALSE
INVARIANTS Refines
CHECK_DEADLOCK FALSE
