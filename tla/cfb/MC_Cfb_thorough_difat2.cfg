SPECIFICATION Spec
CONSTANTS
  Versions = {3, 4}
  StreamSets <- SS_difat
  NSect = 12
  Geo <- G4
  HD = 1
  XFat = {0, 2, 4}
  XMiniFat = {0}
  FreeMinis = {0, 1}
  XDirSect = {0}
  DirMode = "canon"
  PlaceMode = "ends"
  UseAsWas = FALSE
INVARIANTS Refines
CHECK_DEADLOCK FALSE
