SPECIFICATION Spec
CONSTANTS
  Versions = {3, 4}
  StreamSets <- SS_dir
  NSect = 8
  Geo <- G3
  HD = 3
  XFat = {0}
  XMiniFat = {0, 1}
  FreeMinis = {0, 1}
  XDirSect = {0}
  DirMode = "all"
  PlaceMode = "ends"
  UseAsWas = FALSE
INVARIANTS Refines
CHECK_DEADLOCK FALSE
