SPECIFICATION Spec
CONSTANTS
  Versions = {3, 4}
  StreamSets <- SS_thor
  NSect = 8
  Geo <- G4
  HD = 2
  XFat = {0}
  XMiniFat = {0}
  FreeMinis = {0}
  XDirSect = {0}
  DirMode = "canon"
  PlaceMode = "all"
  UseAsWas = FALSE
INVARIANTS Refines
CHECK_DEADLOCK FALSE
