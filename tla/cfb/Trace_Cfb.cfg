SPECIFICATION Spec
INVARIANTS Opens Refines
POSTCONDITION Accepted
CHECK_DEADLOCK FALSE
