----------------------------- MODULE Trace_Cfb -----------------------------
(* C13, leg 2 (code -> spec).  `cvh drive cfb` writes real-size compound     *)
(* files in random legal layouts and logs, per file, one "file" event (the   *)
(* file as written: header fields, the words of every FAT / DIFAT / mini-FAT *)
(* sector, directory entries, which stream block every sector and mini slot  *)
(* holds, real geometry) with the outcome of Cfb::new, and one "get" event   *)
(* per stream with what Cfb::get_stream returned (length, the block          *)
(* descriptors decoded from the returned bytes, byte-exactness).  The trace  *)
(* is accepted iff the reader model of Cfb.tla, run over the logged file,    *)
(* yields the logged results; the property invariants are evaluated in every *)
(* state of the observed execution.                                          *)
EXTENDS Cfb, Json, IOUtils

Rec == ndJsonDeserialize(IOEnv.TRACE)

(* TLC caches LET values only in constant-level evaluation, and everything the reader model  *)
(* says about the log depends on the log alone; so the model's prediction for every event is *)
(* computed once, as a constant sequence (Cfb!New per "file" event, Cfb!GetStream + Blocks   *)
(* per "get" event on the file opened last), and the actions step through the log comparing  *)
(* each event with the prediction.                                                           *)
RECURSIVE Predict(_, _, _)
Predict(i, fidx, c) ==
  IF i > Len(Rec) THEN <<>>
  ELSE LET e == Rec[i]
       IN IF e.e = "file"
          THEN LET n == TLCEval(New(e, e.geo))
               IN <<[kind |-> "file", err |-> n.err]>> \o Predict(i + 1, i, n)
          ELSE LET f == Rec[fidx]
                   r == TLCEval(GetStream(f, f.geo, c, e.name))
               IN <<IF r.err # "" THEN [kind |-> "get", err |-> r.err]
                    ELSE [kind |-> "get", err |-> "", len |-> r.len, blocks |-> Blocks(f, f.geo, c, r),
                          ideal |-> Ideal(f.geo, e.name,
                                          f.streams[CHOOSE k \in 1..Len(f.streams) : f.streams[k].n = e.name].len)]>>
                  \o Predict(i + 1, fidx, c)
Expected == Predict(1, 0, [err |-> "no file opened"])

VARIABLES l, last
vars == <<l, last>>

None == [none |-> TRUE]
Init == l = 1 /\ last = None

Ev == Rec[l]
IsEvent(e) == l <= Len(Rec) /\ Ev.e = e /\ l' = l + 1

TFile == /\ IsEvent("file")
         /\ (Expected[l].err = "") <=> (Ev.new = "ok")
         /\ last' = [kind |-> "file", opened |-> Ev.new]

TGet == /\ IsEvent("get")
        /\ LET x == Expected[l]
           IN IF x.err # "" THEN Ev.res # "ok" /\ last' = [kind |-> "get", res |-> x.err]
              ELSE /\ Ev.res = "ok"
                   /\ Ev.len = x.len
                   /\ Ev.blocks = x.blocks
                   /\ last' = [kind |-> "get", res |-> "ok", exact |-> Ev.exact,
                               got |-> [err |-> "", len |-> Ev.len, blocks |-> Ev.blocks],
                               ideal |-> x.ideal]

Next == TFile \/ TGet
Spec == Init /\ [][Next]_vars

\* property invariants on the observed execution
Opens   == (last # None /\ last.kind = "file") => last.opened = "ok"
Refines == (last # None /\ last.kind = "get") => /\ last.res = "ok"
                                                  /\ last.exact
                                                  /\ last.got = last.ideal

Accepted ==
  LET d == TLCGet("stats").diameter IN
  IF d - 1 = Len(Rec) THEN PrintT(<<"ACCEPTED", ToString(Len(Rec))>>)
  ELSE PrintT(<<"REJECTED", ToJson([at |-> d, event |-> [e |-> Rec[d].e,
                 name |-> IF "name" \in DOMAIN Rec[d] THEN Rec[d].name ELSE "",
                 run |-> IF "run" \in DOMAIN Rec[d] THEN Rec[d].run ELSE 0]])>>)
=============================================================================
