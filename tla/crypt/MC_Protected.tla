----------------------------- MODULE MC_Protected -----------------------------
EXTENDS Protected, Json
CONSTANTS Sizes, Layouts
VARIABLES k, done

Containers ==
       [kind : {"ooxml"}, size : Sizes, info : {"standard", "agile"}, layout : Layouts, dataspaces : BOOLEAN]
  \cup [kind : {"plaincfb"}, content : {"xls", "vba"}, layout : Layouts]
  \cup [kind : {"biff"}, filepass : {"none", "xor", "xor5", "rc4", "cryptoapi"}, after_writeprotect : BOOLEAN, protect : BOOLEAN, sheets : 1..2]
  \cup [kind : {"ods"}, entries : UNION {[1..n -> BOOLEAN] : n \in 1..3}]

Init == k \in Containers /\ done = FALSE
Next == ~done /\ done' = TRUE /\ UNCHANGED k
Spec == Init /\ [][Next]_<<k, done>>
Refines == AsIs(k) = Ideal(k)
Dump == done => PrintT(<<"REPLAY", ToJson([k |-> k, ideal |-> Ideal(k)])>>)
=============================================================================
