SPECIFICATION Spec
CONSTANTS
  Sizes = {64, 4095, 4096, 100000}
  Layouts = {"canon", "v4", "rev", "v4rev", "dirrev", "dirgap", "free", "v4free"}
INVARIANTS Refines Dump
CHECK_DEADLOCK FALSE
