SPECIFICATION Spec
CONSTANTS
  Sizes = {0, 1, 64, 4095, 4096, 4097, 65536, 100000, 3000000}
  Layouts = {"canon", "v4", "rev", "v4rev", "dirrev", "dirgap", "free", "v4free"}
INVARIANTS Refines Dump
CHECK_DEADLOCK FALSE
