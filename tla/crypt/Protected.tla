------------------------------ MODULE Protected ------------------------------
(***************************************************************************)
(* C20 -- encrypted workbooks are reported as password protected, and only *)
(* those.  A container descriptor `k` is one of                            *)
(*  ooxml : compound file with EncryptionInfo + EncryptedPackage streams   *)
(*          (size of the ciphertext, standard/agile info, physical layout, *)
(*          optional DataSpaces storage), opened by Xlsx and Xlsb;         *)
(*  plaincfb : compound file WITHOUT EncryptedPackage (an xls workbook or  *)
(*          a VBA project) opened by Xlsx / Xlsb -- must fail otherwise;   *)
(*  biff : BIFF8 globals with a FILEPASS record of type XOR / RC4 standard *)
(*          / RC4 CryptoAPI directly after BOF or after WRITEPROTECT,       *)
(*          followed by obfuscated records; or without FILEPASS;           *)
(*  ods : manifest with 1..3 file entries, any subset carrying             *)
(*          manifest:encryption-data.                                      *)
(* Ideal outcome: "password" iff encrypted.  As-is: the sniffing code.     *)
(***************************************************************************)
EXTENDS Naturals, Sequences, FiniteSets, TLC

Encrypted(k) ==
  CASE k.kind = "ooxml"    -> TRUE
    [] k.kind = "plaincfb" -> FALSE
    \* (k.protect: structure / window protection records PROTECT, PASSWORD with a non-zero verifier,
    \*  WINDOWPROTECT -- protection against editing, not encryption)
    [] k.kind = "biff"     -> k.filepass # "none"
    [] k.kind = "ods"      -> \E i \in 1..Len(k.entries) : k.entries[i]
    [] OTHER -> FALSE
Ideal(k) == IF Encrypted(k) THEN "password" ELSE "not-password"

\* AS-IS -------------------------------------------------------------------
\* xlsx / xlsb check_for_password_protected: Cfb::new succeeds and some directory entry is
\* called EncryptedPackage.  Cfb::new accepts both versions and any sector placement.
CfbOpens(k) == TRUE
DirNames(k) == CASE k.kind = "ooxml" -> {"EncryptionInfo", "EncryptedPackage"}
                                         \cup (IF k.dataspaces THEN {"DataSpaces", "Version", "DataSpaceMap"} ELSE {})
                 [] OTHER -> {"Workbook"}
OoxmlSniff(k) == CfbOpens(k) /\ "EncryptedPackage" \in DirNames(k)
\* xls parse_workbook: records are read in order; a FILEPASS record (0x002F) of any
\* encryption type ends the parse with Password
BiffSniff(k) == k.filepass # "none"
\* ods: any manifest:encryption-data below any manifest:file-entry
OdsSniff(k) == \E i \in 1..Len(k.entries) : k.entries[i]

AsIs(k) == CASE k.kind \in {"ooxml", "plaincfb"} -> IF OoxmlSniff(k) THEN "password" ELSE "not-password"
             [] k.kind = "biff" -> IF BiffSniff(k) THEN "password" ELSE "not-password"
             [] k.kind = "ods"  -> IF OdsSniff(k) THEN "password" ELSE "not-password"
=============================================================================
