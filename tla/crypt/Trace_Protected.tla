---------------------------- MODULE Trace_Protected ----------------------------
(* code -> spec: random containers (random sizes, random sector permutations) opened *)
(* by the real readers; the recorded outcome must be the one Protected.tla assigns.  *)
EXTENDS Protected, Json, IOUtils
Rec == ndJsonDeserialize(IOEnv.TRACE)
VARIABLES l
Ev == Rec[l]
Init == l = 1
TOpen == /\ l <= Len(Rec) /\ Ev.e = "open"
         /\ Ev.outcome = AsIs(Ev.k) /\ Ev.outcome = Ideal(Ev.k)
         /\ l' = l + 1
Spec == Init /\ [][TOpen]_l
Accepted ==
  LET d == TLCGet("stats").diameter IN
  IF d - 1 = Len(Rec) THEN PrintT(<<"ACCEPTED", ToString(Len(Rec))>>)
  ELSE PrintT(<<"REJECTED", ToJson([at |-> d, event |-> Rec[d]])>>)
=============================================================================
