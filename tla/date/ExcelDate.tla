------------------------------ MODULE ExcelDate ------------------------------
(***************************************************************************)
(* C11 -- spreadsheet serial date-times.                                   *)
(*                                                                         *)
(* The calendar as a state machine: (sys, serial, <<y,m,d>>) with action   *)
(* NextDay (Gregorian month lengths and leap rule).  Spreadsheet           *)
(* convention: 1900 system -- serial 1 = 1900-01-01, serials up to 59      *)
(* precede the fictitious 1900-02-29 (serial 60, which does not advance    *)
(* the real calendar), serial 61 = 1900-03-01; 1904 system -- serial 0 =   *)
(* 1904-01-01.  Civil(sys, serial) is the closed form (days-to-civil).     *)
(* Time of day: ms in 0..86399999 -> (h, mi, s, milli).                    *)
(***************************************************************************)
EXTENDS Integers, Sequences, TLC

IsLeap(y) == (y % 4 = 0 /\ y % 100 # 0) \/ y % 400 = 0
DaysIn(y, m) == CASE m \in {1, 3, 5, 7, 8, 10, 12} -> 31
                  [] m \in {4, 6, 9, 11} -> 30
                  [] OTHER -> IF IsLeap(y) THEN 29 ELSE 28
NextDate(dt) == LET y == dt[1]  m == dt[2]  d == dt[3] IN
                IF d < DaysIn(y, m) THEN <<y, m, d + 1>>
                ELSE IF m < 12 THEN <<y, m + 1, 1>> ELSE <<y + 1, 1, 1>>

\* days after 1899-12-30 designated by a whole serial
Offset(sys, serial) == IF sys = 1904 THEN serial + 1462
                       ELSE IF serial >= 60 THEN serial ELSE serial + 1

\* civil date of the day `off` days after 1899-12-30 (valid for off >= -690000)
CivilOfOffset(off) ==
  LET z   == off - 25569 + 719468
      era == z \div 146097
      doe == z - era * 146097
      yoe == (doe - doe \div 1460 + doe \div 36524 - doe \div 146096) \div 365
      doy == doe - (365 * yoe + yoe \div 4 - yoe \div 100)
      mp  == (5 * doy + 2) \div 153
      d   == doy - (153 * mp + 2) \div 5 + 1
      m   == IF mp < 10 THEN mp + 3 ELSE mp - 9
      y   == yoe + era * 400 + (IF m <= 2 THEN 1 ELSE 0)
  IN <<y, m, d>>
Civil(sys, serial) == CivilOfOffset(Offset(sys, serial))

\* time of day from milliseconds since midnight
TimeOf(ms) == <<ms \div 3600000, (ms \div 60000) % 60, (ms \div 1000) % 60, ms % 1000>>

MaxSerial == 2958465          \* 9999-12-31 in the 1900 system
=============================================================================
