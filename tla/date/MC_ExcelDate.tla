----------------------------- MODULE MC_ExcelDate -----------------------------
EXTENDS ExcelDate
CONSTANTS Starts, Steps, Systems
VARIABLES sys, serial, date, n
vars == <<sys, serial, date, n>>

Init == /\ sys \in Systems /\ serial \in Starts /\ date = Civil(sys, serial) /\ n = 0
\* the fictitious 1900-02-29: stepping from serial 59 to 60 does not advance the calendar
NextDay == /\ n < Steps /\ serial < MaxSerial
           /\ serial' = serial + 1 /\ n' = n + 1 /\ sys' = sys
           /\ date' = IF sys = 1900 /\ serial = 59 THEN date ELSE NextDate(date)
Spec == Init /\ [][NextDay]_vars

ClosedForm == date = Civil(sys, serial)
Anchors == /\ (sys = 1900 /\ serial = 1) => date = <<1900, 1, 1>>
           /\ (sys = 1900 /\ serial = 59) => date = <<1900, 2, 28>>
           /\ (sys = 1900 /\ serial = 61) => date = <<1900, 3, 1>>
           /\ (sys = 1904 /\ serial = 0) => date = <<1904, 1, 1>>
           /\ (sys = 1900 /\ serial = 25569) => date = <<1970, 1, 1>>
           /\ (sys = 1900 /\ serial = MaxSerial) => date = <<9999, 12, 31>>
\* the two systems differ by exactly 1462 days
Systems1462 == sys = 1904 /\ serial + 1462 <= MaxSerial => date = Civil(1900, serial + 1462)
Later(a, b) == a[1] > b[1] \/ (a[1] = b[1] /\ a[2] > b[2]) \/ (a[1] = b[1] /\ a[2] = b[2] /\ a[3] > b[3])
Monotone == [][(sys = 1900 /\ serial = 59) \/ Later(date', date)]_vars
=============================================================================
