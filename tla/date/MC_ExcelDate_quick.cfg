SPECIFICATION Spec
CONSTANTS
  Starts = {0, 30, 1400, 36400, 73000, 109500, 146000, 693000, 1000000, 2958000}
  Steps = 800
  Systems = {1900, 1904}
INVARIANTS ClosedForm Anchors Systems1462
PROPERTY Monotone
CHECK_DEADLOCK FALSE
