SPECIFICATION Spec
CONSTANTS
  Starts = {0}
  Steps = 3000000
  Systems = {1900, 1904}
INVARIANTS ClosedForm Anchors Systems1462
PROPERTY Monotone
CHECK_DEADLOCK FALSE
