---------------------------- MODULE Trace_ExcelDate ----------------------------
(* code -> spec: results of the real conversions (ExcelDateTime::as_datetime,    *)
(* DataType::as_date/as_time/as_datetime/as_duration on Int, Float and DateTime  *)
(* cells) for whole days and for fractions placed on and around millisecond      *)
(* boundaries, one event per serial; every event must agree with the calendar    *)
(* machine (closed form, and NextDay between consecutive days).                  *)
EXTENDS ExcelDate, Json, IOUtils

Rec == ndJsonDeserialize(IOEnv.TRACE)
VARIABLES l
Ev == Rec[l]
Init == l = 1

\* {"e":"day","sys","serial","ymd":[y,m,d],"t":[h,mi,s,ms]}
TDay == /\ l <= Len(Rec) /\ Ev.e = "day"
        \* serial 60 of the 1900 system is the fictitious 1900-02-29: the statement fixes its
        \* neighbours only, so either neighbour is accepted for it
        /\ IF Ev.sys = 1900 /\ Ev.serial = 60 THEN Ev.ymd \in {<<1900, 2, 28>>, <<1900, 3, 1>>}
           ELSE Ev.ymd = Civil(Ev.sys, Ev.serial)
        /\ Ev.t = <<0, 0, 0, 0>>
        \* consecutive days of one system are related by NextDay (except across the fictitious day)
        /\ (l > 1 /\ Rec[l - 1].e = "day" /\ Rec[l - 1].sys = Ev.sys /\ Rec[l - 1].serial + 1 = Ev.serial
              /\ ~(Ev.sys = 1900 /\ Ev.serial \in {60, 61}))
             => Ev.ymd = NextDate(Rec[l - 1].ymd)
        /\ l' = l + 1
\* {"e":"frac","sys","serial","k": ms of day the float was built from,"ymd","t"}
TFrac == /\ l <= Len(Rec) /\ Ev.e = "frac"
         /\ Ev.ymd = Civil(Ev.sys, Ev.serial) /\ Ev.t = TimeOf(Ev.k)
         /\ l' = l + 1
\* {"e":"dur","serial","k","days","ms"}: duration = serial * 24h (+ k ms)
TDur == /\ l <= Len(Rec) /\ Ev.e = "dur"
        /\ Ev.days = Ev.serial /\ Ev.ms = Ev.k
        /\ l' = l + 1
\* {"e":"none","what"}: out-of-range values yield None
TNone == /\ l <= Len(Rec) /\ Ev.e = "none" /\ Ev.result = "None" /\ l' = l + 1
\* serde fallback helpers on cells that carry more than a number (1904 flag, duration flavour):
\* must agree with the direct conversion, unless the disagreement is a listed finding
KnownKeys == LET k == ndJsonDeserialize(IOEnv.KNOWN) IN {k[i].key : i \in 1..Len(k)}
THelper == /\ l <= Len(Rec) /\ Ev.e = "helper" /\ (Ev.agree \/ Ev.key \in KnownKeys) /\ l' = l + 1
\* {"e":"mono","sys","lo_serial","hi_serial","lo":{ymd,t},"hi":{ymd,t}}: lo_serial <= hi_serial, so the
\* conversion of the first is not later than the conversion of the second ("conversions are monotone")
DateKey(r) == r.ymd[1] * 10000 + r.ymd[2] * 100 + r.ymd[3]
TimeKey(r) == ((r.t[1] * 60 + r.t[2]) * 60 + r.t[3]) * 1000 + r.t[4]
TMono == /\ l <= Len(Rec) /\ Ev.e = "mono"
         /\ Len(Ev.lo.ymd) = 3 /\ Len(Ev.hi.ymd) = 3 /\ Len(Ev.lo.t) = 4 /\ Len(Ev.hi.t) = 4
         /\ (DateKey(Ev.lo) < DateKey(Ev.hi) \/ (DateKey(Ev.lo) = DateKey(Ev.hi) /\ TimeKey(Ev.lo) <= TimeKey(Ev.hi))) = TRUE
         /\ l' = l + 1
Next == TDay \/ TFrac \/ TDur \/ TNone \/ THelper \/ TMono
Spec == Init /\ [][Next]_l
Accepted ==
  LET d == TLCGet("stats").diameter IN
  IF d - 1 = Len(Rec) THEN PrintT(<<"ACCEPTED", ToString(Len(Rec))>>)
  ELSE PrintT(<<"REJECTED", ToJson([at |-> d, event |-> Rec[d]])>>)
=============================================================================
