------------------------------- MODULE DeSpec -------------------------------
(***************************************************************************)
(* C09 -- serde deserialisation of a Range (src/de.rs).                    *)
(*                                                                         *)
(* A scenario `sc` is a logical table: named, typed fields with rows of    *)
(* cell codes, plus a physical presentation (origin, column permutation,   *)
(* padded header texts), a header configuration and a target record shape. *)
(* Ideal* is what the property statement promises.  The state machine      *)
(* Build / Next / Hint transcribes RangeDeserializer::{new,next,size_hint} *)
(* (column_indexes, current_pos, the Rows cursor) and RowDeserializer's    *)
(* seq / map access; TLC checks that the two agree at every step.          *)
(***************************************************************************)
EXTENDS Naturals, Sequences, FiniteSets, TLC

Names == <<"a", "b", "c">>
Padded(n) == CASE n = "a" -> " a " [] n = "b" -> " b " [] n = "c" -> " c " [] OTHER -> n
Trim(t) == CASE t = " a " -> "a" [] t = " b " -> "b" [] t = " c " -> "c" [] OTHER -> t

IsOpt(T) == T \in {"OptString", "Optf64", "Opti64", "Optbool"}
Base(T) == CASE T = "OptString" -> "String" [] T = "Optf64" -> "f64" [] T = "Opti64" -> "i64"
             [] T = "Optbool" -> "bool" [] OTHER -> T

ErrCodes == {"XDiv0", "XNA"}
ErrKind(c) == IF c = "XDiv0" THEN "Div0" ELSE "NA"

\* documented conversions (statement: numeric casts, numeric and boolean strings,
\* Empty as None / false / "", identity); "ERR" = the record fails with a non-cell error
ConvBase(B, c) ==
  CASE B = "String" -> (CASE c = "E" -> "s:" [] c = "S0" -> "s:" [] c = "Sx" -> "s:x" [] c = "S12" -> "s:12"
                          [] c = "Spad" -> "s: a " [] OTHER -> "ERR")
    [] B = "f64"    -> (CASE c = "I7" -> "f:7.0" [] c = "F1.5" -> "f:1.5" [] c = "F2" -> "f:2.0"
                          [] c = "S12" -> "f:12.0" [] c = "S1.5" -> "f:1.5" [] OTHER -> "ERR")
    [] B = "i64"    -> (CASE c = "I7" -> "i:7" [] c = "Ibig" -> "i:9007199254740993" [] c = "F2" -> "i:2" [] c = "F1.5" -> "i:1"
                          [] c = "S12" -> "i:12" [] OTHER -> "ERR")
    [] B = "bool"   -> (CASE c = "B1" -> "b:true" [] c = "B0" -> "b:false" [] c = "STRUE" -> "b:true"
                          \* numeric casts: a number is true iff it is not zero
                          [] c = "I7" -> "b:true" [] c = "I0" -> "b:false" [] c = "F1.5" -> "b:true" [] c = "F0" -> "b:false"
                          [] c = "F0.5" -> "b:true"          \* not zero, although it truncates to zero
                          [] c = "Sfalse" -> "b:false" [] c = "E" -> "b:false" [] c = "Strue" -> "b:true"
                          [] c = "STrue" -> "b:true" [] c = "SFALSE" -> "b:false" [] c = "SFalse" -> "b:false"
                          [] OTHER -> "ERR")
    \* fallback helpers deserialize_as_i64_or_none / deserialize_as_f64_or_none: the value when the
    \* cell is numeric (numbers, booleans, numeric strings), None otherwise -- never an error
    [] B = "I64OrNone" -> (CASE c = "I7" -> "i:7" [] c = "Ibig" -> "i:9007199254740993" [] c = "F2" -> "i:2" [] c = "F1.5" -> "i:1" [] c = "S12" -> "i:12"
                             [] c = "B1" -> "i:1" [] c = "B0" -> "i:0" [] OTHER -> "none")
    [] B = "F64OrNone" -> (CASE c = "I7" -> "f:7.0" [] c = "F2" -> "f:2.0" [] c = "F1.5" -> "f:1.5" [] c = "S12" -> "f:12.0"
                             [] c = "S1.5" -> "f:1.5" [] c = "B1" -> "f:1.0" [] c = "B0" -> "f:0.0" [] OTHER -> "none")
    \* deserialize_as_i64_or_string / deserialize_as_f64_or_string: the value when the cell is numeric,
    \* otherwise Err(what the cell displays) -- "es:<text>", never a failure of the record
    [] B = "I64OrString" -> (CASE c = "I7" -> "i:7" [] c = "Ibig" -> "i:9007199254740993" [] c = "F2" -> "i:2" [] c = "F1.5" -> "i:1" [] c = "S12" -> "i:12"
                             [] c = "B1" -> "i:1" [] c = "B0" -> "i:0"
                             [] c = "E" -> "es:" [] c = "Sx" -> "es:x" [] c = "S1.5" -> "es:1.5" [] c = "STRUE" -> "es:TRUE" [] OTHER -> "ERR")
    [] B = "F64OrString" -> (CASE c = "I7" -> "f:7.0" [] c = "F2" -> "f:2.0" [] c = "F1.5" -> "f:1.5" [] c = "S12" -> "f:12.0"
                             [] c = "S1.5" -> "f:1.5" [] c = "B1" -> "f:1.0" [] c = "B0" -> "f:0.0"
                             [] c = "E" -> "es:" [] c = "Sx" -> "es:x" [] c = "STRUE" -> "es:TRUE" [] OTHER -> "ERR")
    [] B = "Data"   -> (CASE c = "E" -> "d:E" [] c = "I7" -> "d:I7" [] c = "F1.5" -> "d:F1.5"
                          [] c = "Sx" -> "d:Sx" [] c = "B1" -> "d:B1" [] c = "S0" -> "d:S0" [] OTHER -> "ERR")
Conv(T, c) == IF IsOpt(T) /\ c = "E" THEN "none" ELSE ConvBase(Base(T), c)

\* "S0" is a cell holding the empty STRING: a value, not an empty cell -- Some("") under Option,
\* present under by-name binding -- which only "E" (Data::Empty) is.
\* cell codes a column of type T may hold in the checked language: those whose conversion
\* the statement fixes, one unambiguous failure ("x" is neither a number nor a boolean)
OkCodes(T) ==
  LET B == Base(T)
      ok == CASE B = "String" -> {"E", "S0", "Sx", "S12", "Spad"}
              [] B = "f64"  -> {"I7", "F1.5", "F2", "S12", "S1.5", "Sx"}
              [] B = "i64"  -> {"I7", "Ibig", "F2", "F1.5", "S12", "Sx"}     \* Ibig = 2^53 + 1: an integer cell keeps its value
              [] B = "bool" -> {"I7", "I0", "F1.5", "F0", "F0.5", "B1", "B0", "STRUE", "Sfalse", "Strue", "STrue", "SFALSE", "SFalse", "E", "Sx"}
              [] B = "Data" -> {"E", "S0", "I7", "F1.5", "Sx", "B1"}
              [] B = "I64OrNone" -> {"E", "I7", "Ibig", "F2", "F1.5", "S12", "S1.5", "Sx", "B1", "B0", "STRUE"}
              [] B = "F64OrNone" -> {"E", "I7", "F2", "F1.5", "S12", "S1.5", "Sx", "B1", "B0", "STRUE"}
              [] B = "I64OrString" -> {"E", "I7", "Ibig", "F2", "F1.5", "S12", "S1.5", "Sx", "B1", "B0", "STRUE"}
              [] B = "F64OrString" -> {"E", "I7", "F2", "F1.5", "S12", "S1.5", "Sx", "B1", "B0", "STRUE"}
  IN ok \cup (IF IsOpt(T) THEN {"E"} ELSE {})

--------------------------------------------------------------------------
(* scenario accessors.
   sc.w        number of fields/columns        sc.ft[f]   type of field f (1..w)
   sc.colf[j]  field shown in physical col j   sc.pad[j]  header text of col j is padded
   sc.rows     data rows, each [1..w -> code] indexed by FIELD
   sc.cfg      [kind : none|all|custom|recab, sel : Seq(name)]
   sc.shape    tuple | struct | map | recab     sc.origin  <<r, c>>                      *)
HasHdr(sc)   == sc.cfg.kind # "none"
HdrText(sc, j) == IF sc.pad[j] THEN Padded(Names[sc.colf[j]]) ELSE Names[sc.colf[j]]
PosOfName(sc, n) == {j \in 1..sc.w : Trim(HdrText(sc, j)) = Trim(n)}
Cell(sc, i, j) == sc.rows[i][sc.colf[j]]                 \* data row i, physical column j
Sel(sc) == IF sc.cfg.kind \in {"none", "all"} THEN [k \in 1..sc.w |-> Names[sc.colf[k]]]
           ELSE sc.cfg.sel
Missing(sc) == {k \in 1..Len(Sel(sc)) : PosOfName(sc, Sel(sc)[k]) = {}}
FirstOf(S) == CHOOSE x \in S : \A y \in S : x <= y

\* IDEAL ---------------------------------------------------------------
IdealBuild(sc) ==
  \* an empty range has no header row to look names up in: nothing is promised but "no items"
  IF sc.cfg.kind \in {"custom", "recab"} /\ sc.hdrrow /\ Missing(sc) # {}
  THEN <<"HeaderNotFound", Trim(Sel(sc)[FirstOf(Missing(sc))])>> ELSE <<"ok">>

\* selected physical columns, in selection order
Cols(sc) == [k \in 1..Len(Sel(sc)) |-> FirstOf(PosOfName(sc, Sel(sc)[k]))]
TypeAt(sc, j) == sc.ft[sc.colf[j]]

\* outcome of one cell: <<"ok", token>> | <<"cellerr", kind, absrow, abscol>> | <<"custom">>
CellOut(sc, i, j, T, absrow) ==
  LET c == Cell(sc, i, j) IN
  IF c \in ErrCodes THEN <<"cellerr", ErrKind(c), absrow, sc.origin[2] + j - 1>>
  ELSE IF Conv(T, c) = "ERR" THEN <<"custom">> ELSE <<"ok", Conv(T, c)>>

IdealItem(sc, i) ==
  LET absrow == sc.origin[1] + (IF HasHdr(sc) THEN 1 ELSE 0) + i - 1
      cols   == Cols(sc)
      byname == sc.shape \in {"struct", "map", "recab"}
      \* cells visited, in order; by-name shapes never see empty cells
      vis    == SelectSeq([k \in 1..Len(cols) |-> cols[k]],
                          LAMBDA j : ~byname \/ Cell(sc, i, j) # "E")
      TyOf(j) == IF sc.shape = "map" THEN "Data" ELSE TypeAt(sc, j)
      outs   == [k \in 1..Len(vis) |-> CellOut(sc, i, vis[k], TyOf(vis[k]), absrow)]
      bad    == {k \in 1..Len(outs) : outs[k][1] # "ok"}
  IN IF bad # {} THEN outs[FirstOf(bad)]
     ELSE IF ~byname THEN <<"ok", [k \in 1..Len(outs) |-> outs[k][2]]>>
     ELSE <<"ok", [n \in {HdrText(sc, vis[k]) : k \in 1..Len(vis)} |->
                     outs[CHOOSE k \in 1..Len(vis) : HdrText(sc, vis[k]) = n][2]]>>

NData(sc) == Len(sc.rows)
IdealItems(sc) == IF IdealBuild(sc) # <<"ok">> THEN <<>>
                  ELSE [i \in 1..NData(sc) |-> IdealItem(sc, i)]

--------------------------------------------------------------------------
(* AS-IS: RangeDeserializer.  st = [built, err, cidx, hdrs, ri, cur]        *)
(* ri = rows already taken from the Rows iterator, cur = current_pos.       *)
TotalRows(sc) == NData(sc) + (IF sc.hdrrow THEN 1 ELSE 0)     \* physical rows of the range
RangeEmpty(sc) == TotalRows(sc) = 0

Build(sc) ==
  LET start == IF RangeEmpty(sc) THEN <<0, 0>> ELSE sc.origin
      allix == [k \in 1..sc.w |-> k]
  IN IF sc.cfg.kind = "none"
     THEN [err |-> <<"ok">>, cidx |-> IF RangeEmpty(sc) THEN <<>> ELSE allix, hdrs |-> FALSE, ri |-> 0, cur |-> start]
     ELSE IF TotalRows(sc) = 0
     THEN [err |-> <<"ok">>, cidx |-> <<>>, hdrs |-> FALSE, ri |-> 0, cur |-> start]
     ELSE IF sc.cfg.kind = "all"
     THEN [err |-> <<"ok">>, cidx |-> allix, hdrs |-> TRUE, ri |-> 1, cur |-> <<start[1] + 1, start[2]>>]
     ELSE \* Custom: position of each trimmed wanted header among the trimmed headers
          LET sel == sc.cfg.sel
              miss == {k \in 1..Len(sel) : PosOfName(sc, sel[k]) = {}}
          IN IF miss # {}
             THEN [err |-> <<"HeaderNotFound", Trim(sel[FirstOf(miss)])>>, cidx |-> <<>>, hdrs |-> TRUE, ri |-> 1, cur |-> start]
             ELSE [err |-> <<"ok">>, cidx |-> [k \in 1..Len(sel) |-> FirstOf(PosOfName(sc, sel[k]))],
                   hdrs |-> TRUE, ri |-> 1, cur |-> <<start[1] + 1, start[2]>>]

\* RowDeserializer over physical row `ri+1` with position cur
RowItem(sc, st) ==
  LET i == st.ri + 1 - (IF sc.hdrrow THEN 1 ELSE 0)          \* data row index
      byname == st.hdrs /\ sc.shape \in {"struct", "map", "recab"}
      vis == SelectSeq(st.cidx, LAMBDA j : ~byname \/ Cell(sc, i, j) # "E")
      TyOf(j) == IF sc.shape = "map" THEN "Data" ELSE TypeAt(sc, j)
      out(j) == LET c == Cell(sc, i, j) IN
                IF c \in ErrCodes THEN <<"cellerr", ErrKind(c), st.cur[1], st.cur[2] + j - 1>>
                ELSE IF Conv(TyOf(j), c) = "ERR" THEN <<"custom">> ELSE <<"ok", Conv(TyOf(j), c)>>
      outs == [k \in 1..Len(vis) |-> out(vis[k])]
      bad  == {k \in 1..Len(outs) : outs[k][1] # "ok"}
  IN IF bad # {} THEN outs[FirstOf(bad)]
     ELSE IF ~byname THEN <<"ok", [k \in 1..Len(outs) |-> outs[k][2]]>>
     ELSE <<"ok", [n \in {HdrText(sc, vis[k]) : k \in 1..Len(vis)} |->
                     outs[CHOOSE k \in 1..Len(vis) : HdrText(sc, vis[k]) = n][2]]>>

HintOf(sc, st) == TotalRows(sc) - st.ri                        \* Rows::size_hint (exact)
=============================================================================
