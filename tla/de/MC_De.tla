-------------------------------- MODULE MC_De --------------------------------
EXTENDS DeSpec, Json, FiniteSetsExt

CONSTANTS Origins, MaxW, MaxH, TypeSet, CodeSet, CfgKinds, ShapeSet, Permute, Pads

VARIABLES sc, st, obs, phase, ideal
vars == <<sc, st, obs, phase, ideal>>

Perms(n) == {p \in [1..n -> 1..n] : \A i, j \in 1..n : i # j => p[i] # p[j]}
Ident(n) == [i \in 1..n |-> i]
OriginOf(k) == CASE k = 0 -> <<0, 0>> [] k = 1 -> <<5, 3>> [] OTHER -> <<1048570, 16380>>

\* CodeSet restricts the cell alphabet of a configuration
ColCodes(T) == (OkCodes(T) \cup ErrCodes) \cap CodeSet
RowSet(w, ft) == {r \in [1..w -> CodeSet] : \A f \in 1..w : r[f] \in ColCodes(ft[f])}

NameSet(w) == {Names[f] : f \in 1..w}
\* selections: 1..w distinct names (possibly one unknown, possibly written padded)
SelSet(w) ==
  UNION {{s \in [1..n -> NameSet(w) \cup {"zz", " a "}] :
             \A i, j \in 1..n : i # j => Trim(s[i]) # Trim(s[j])} : n \in 1..w}

CfgSet(w) ==
     (IF "none" \in CfgKinds THEN {[kind |-> "none", sel |-> <<>>]} ELSE {})
  \cup (IF "all" \in CfgKinds THEN {[kind |-> "all", sel |-> <<>>]} ELSE {})
  \cup (IF "custom" \in CfgKinds THEN {[kind |-> "custom", sel |-> s] : s \in SelSet(w)} ELSE {})
  \cup (IF "recab" \in CfgKinds THEN {[kind |-> "recab", sel |-> <<"a", "b">>]} ELSE {})

\* scenario bases (no data rows yet); rows are added by the AddRow action so that TLC's
\* workers share the enumeration
Bases ==
  UNION { UNION {
    { [origin |-> OriginOf(o), w |-> w, ft |-> ft, colf |-> cf, pad |-> pd, cfg |-> cfg, shape |-> sh,
       rows |-> <<>>, hdrrow |-> cfg.kind # "none"] :
        o \in Origins,
        cf \in (IF Permute THEN Perms(w) ELSE {Ident(w)}),
        pd \in [1..w -> Pads], cfg \in CfgSet(w), sh \in ShapeSet } : ft \in [1..w -> TypeSet] } : w \in 1..MaxW }

Legal(s) ==
  /\ (~s.hdrrow) => \A j \in 1..s.w : ~s.pad[j]
  /\ s.shape \in {"struct", "map", "recab"} =>
        /\ s.cfg.kind # "none" /\ \A j \in 1..s.w : ~s.pad[j]
        /\ \A k \in 1..Len(s.cfg.sel) : s.cfg.sel[k] # " a "
  /\ s.shape = "map" => \A f \in 1..s.w : s.ft[f] = "Data"
  /\ s.shape = "struct" => \A f \in 1..s.w : IsOpt(s.ft[f])
  /\ s.shape = "recab" => s.w = 2 /\ s.ft[1] = "OptString" /\ s.ft[2] = "Optf64"
  /\ (s.cfg.kind = "recab") => s.shape = "recab"
  /\ (s.shape = "recab") => s.cfg.kind \in {"recab", "all"}

\* what the statement promises, as the same observation sequence
IdealObs(s) ==
  IF IdealBuild(s) # <<"ok">> THEN <<IdealBuild(s)>>
  ELSE LET n == NData(s)
           items == IdealItems(s)
           body == [k \in 1..(2 * n) |-> IF k % 2 = 1 THEN <<"hint", n - (k - 1) \div 2>>
                                          ELSE <<"item", items[k \div 2]>>]
       IN <<<<"ok">>>> \o body \o << <<"hint", 0>>, <<"end">>, <<"hint", 0>>, <<"end">> >>


Init == /\ sc \in {s \in Bases : Legal(s)}
        /\ st = [err |-> <<"new">>] /\ obs = <<>> /\ phase = "rows" /\ ideal = <<>>

AddRow == /\ phase = "rows" /\ Len(sc.rows) < MaxH
          /\ \E r \in RowSet(sc.w, sc.ft) : sc' = [sc EXCEPT !.rows = Append(@, r)]
          /\ UNCHANGED <<st, obs, phase, ideal>>

\* the range is complete; a header configuration on a range without any row = empty range
Seal(empty) ==
          /\ phase = "rows"
          /\ empty => (Len(sc.rows) = 0 /\ sc.hdrrow)
          /\ sc' = IF empty THEN [sc EXCEPT !.hdrrow = FALSE] ELSE sc
          /\ ideal' = IdealObs(sc')
          /\ phase' = "build" /\ UNCHANGED <<st, obs>>

DoBuild == /\ phase = "build"
           /\ st' = Build(sc)
           /\ obs' = <<st'.err>>
           /\ phase' = IF st'.err = <<"ok">> THEN "hint" ELSE "done"
           /\ UNCHANGED <<sc, ideal>>

DoHint == /\ phase \in {"hint", "lasthint"}
          /\ obs' = Append(obs, <<"hint", HintOf(sc, st)>>)
          /\ phase' = IF phase = "hint" THEN "next" ELSE "lastnext"
          /\ UNCHANGED <<sc, st, ideal>>

DoNext == /\ phase \in {"next", "lastnext"}
          /\ IF st.ri < TotalRows(sc)
             THEN /\ obs' = Append(obs, <<"item", RowItem(sc, st)>>)
                  /\ st' = [st EXCEPT !.ri = @ + 1, !.cur = <<@[1] + 1, @[2]>>]
                  /\ phase' = "hint"
             ELSE /\ obs' = Append(obs, <<"end">>)
                  /\ st' = st
                  /\ phase' = IF phase = "next" THEN "lasthint" ELSE "done"
          /\ UNCHANGED <<sc, ideal>>

Next == AddRow \/ Seal(TRUE) \/ Seal(FALSE) \/ DoBuild \/ DoHint \/ DoNext
Spec == Init /\ [][Next]_vars

--------------------------------------------------------------------------
\* one item per row in order, exact size hints, right conversions and error positions
Refines == phase = "done" => obs = ideal
\* at every point the hint brackets what is still to come
HintBrackets == (phase \in {"hint", "lasthint", "next", "lastnext"}) =>
                   HintOf(sc, st) = NData(sc) - (st.ri - (IF sc.hdrrow THEN 1 ELSE 0))
\* prefix property: never an item that is not the ideal one at that index
PrefixOK == \A k \in 1..Len(obs) : k <= Len(ideal) /\ obs[k] = ideal[k]

Dump == phase = "done" => PrintT(<<"REPLAY", ToJson([sc |-> sc, ideal |-> ideal])>>)
=============================================================================
