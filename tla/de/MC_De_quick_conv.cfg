SPECIFICATION Spec
CONSTANTS
  Origins = {1}
  MaxW = 2
  MaxH = 1
  TypeSet = {"String", "f64", "i64", "bool", "Data", "OptString", "Optf64", "Opti64", "Optbool", "I64OrNone", "F64OrNone", "I64OrString", "F64OrString"}
  CodeSet = {"E", "S0", "Sx", "S12", "Spad", "I7", "I0", "F0", "F0.5", "Ibig", "F1.5", "F2", "S1.5", "B1", "B0", "STRUE", "Sfalse", "Strue", "STrue", "SFALSE", "SFalse", "XDiv0", "XNA"}
  CfgKinds = {"none", "all"}
  ShapeSet = {"tuple"}
  Permute = FALSE
  Pads = {FALSE}
INVARIANTS Refines HintBrackets PrefixOK Dump
CHECK_DEADLOCK FALSE
