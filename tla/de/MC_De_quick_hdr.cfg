SPECIFICATION Spec
CONSTANTS
  Origins = {1}
  MaxW = 2
  MaxH = 1
  TypeSet = {"OptString", "Optf64", "Data"}
  CodeSet = {"E", "Sx", "I7", "XNA"}
  CfgKinds = {"all", "custom", "recab"}
  ShapeSet = {"tuple", "struct", "map", "recab"}
  Permute = TRUE
  Pads = {FALSE, TRUE}
INVARIANTS Refines HintBrackets PrefixOK Dump
CHECK_DEADLOCK FALSE
