SPECIFICATION Spec
CONSTANTS
  Origins = {1}
  MaxW = 3
  MaxH = 1
  TypeSet = {"OptString"}
  CodeSet = {"E", "Sx", "XNA"}
  CfgKinds = {"all", "custom"}
  ShapeSet = {"tuple", "struct"}
  Permute = TRUE
  Pads = {FALSE}
INVARIANTS Refines HintBrackets PrefixOK Dump
CHECK_DEADLOCK FALSE
