SPECIFICATION Spec
CONSTANTS
  Origins = {0, 1, 2}
  MaxW = 2
  MaxH = 4
  TypeSet = {"OptString", "Optf64"}
  CodeSet = {"E", "Sx", "I7", "XDiv0"}
  CfgKinds = {"none", "all"}
  ShapeSet = {"tuple"}
  Permute = FALSE
  Pads = {FALSE}
INVARIANTS Refines HintBrackets PrefixOK Dump
CHECK_DEADLOCK FALSE
