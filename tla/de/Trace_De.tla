------------------------------ MODULE Trace_De ------------------------------
(* code -> spec: the calls made on real RangeDeserializers (build, size_hint,  *)
(* next) over randomly generated scenarios, one ndjson event per call, must be *)
(* a behaviour of DeSpec's Build / Next / Hint machine; every returned item    *)
(* must also be the ideal item of its row.                                     *)
EXTENDS DeSpec, Json, IOUtils, Integers

Rec == ndJsonDeserialize(IOEnv.TRACE)

VARIABLES sc, st, l
vars == <<sc, st, l>>

Ev == Rec[l]
IsEvent(e) == l <= Len(Rec) /\ Ev.e = e /\ l' = l + 1

Init == sc = [none |-> TRUE] /\ st = [err |-> <<"new">>] /\ l = 1

TScenario == /\ IsEvent("scenario")
             /\ sc' = Ev.sc /\ st' = [err |-> <<"new">>]

TBuild == /\ IsEvent("build") /\ st.err = <<"new">>
          /\ st' = Build(sc)
          /\ Ev.res = st'.err
          /\ Ev.res = IdealBuild(sc)
          /\ UNCHANGED sc

Remaining == TotalRows(sc) - st.ri
\* the hint must bracket what is still to come (exactness is not required by the property)
THint == /\ IsEvent("hint") /\ st.err = <<"ok">>
         /\ Ev.lo <= Remaining /\ (Ev.hi = -1 \/ Remaining <= Ev.hi)
         /\ UNCHANGED <<sc, st>>

TNext == /\ IsEvent("next") /\ st.err = <<"ok">>
         /\ IF st.ri < TotalRows(sc)
            THEN /\ Ev.item = RowItem(sc, st)
                 /\ Ev.item = IdealItem(sc, st.ri + 1 - (IF sc.hdrrow THEN 1 ELSE 0))
                 /\ st' = [st EXCEPT !.ri = @ + 1, !.cur = <<@[1] + 1, @[2]>>]
            ELSE Ev.item = <<"end">> /\ st' = st
         /\ UNCHANGED sc

Next == TScenario \/ TBuild \/ THint \/ TNext
Spec == Init /\ [][Next]_vars

Accepted ==
  LET d == TLCGet("stats").diameter IN
  IF d - 1 = Len(Rec) THEN PrintT(<<"ACCEPTED", ToString(Len(Rec))>>)
  ELSE PrintT(<<"REJECTED", ToJson([at |-> d, event |-> Rec[d]])>>)
=============================================================================
