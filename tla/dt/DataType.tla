------------------------------ MODULE DataType ------------------------------
(***************************************************************************)
(* The cell-value algebra: Data / DataRef and the DataType trait            *)
(* (src/datatype.rs) -- variant predicates is_*, projections get_*, the     *)
(* conversions as_i64 / as_f64 / as_string, the PartialEq impls against      *)
(* primitive values, Display, and DataRef -> Data.  (as_date / as_time /     *)
(* as_datetime / as_duration belong to ExcelDate.tla, C11.)                  *)
(*                                                                         *)
(* Values are codes; the harness maps each code to a concrete Data and, for  *)
(* the DataRef side, to a borrowed DataRef (codes "SS.." are                 *)
(* DataRef::SharedString, which has no Data counterpart but String).         *)
(* Results are tokens: "none" | "i:<n>" | "f:<x>" | "s:<text>" | "b:<bool>"  *)
(* | "k:<kind>" | "e:<err>" | "dt:<serial>".                                 *)
(***************************************************************************)
EXTENDS Naturals, Sequences, FiniteSets, TLC

Kinds == {"empty", "int", "float", "bool", "string", "datetime", "datetime_iso", "duration_iso", "error"}

\* code -> [k: kind, i/f/s/b payload tokens]
Val(c) ==
  CASE c = "E"     -> [k |-> "empty",  p |-> "none"]
    [] c = "I7"    -> [k |-> "int",    p |-> "i:7"]
    [] c = "Im3"   -> [k |-> "int",    p |-> "i:-3"]
    [] c = "F1.5"  -> [k |-> "float",  p |-> "f:1.5"]
    [] c = "F2"    -> [k |-> "float",  p |-> "f:2"]
    [] c = "Fm2.7" -> [k |-> "float",  p |-> "f:-2.7"]
    [] c = "B1"    -> [k |-> "bool",   p |-> "b:true"]
    [] c = "B0"    -> [k |-> "bool",   p |-> "b:false"]
    [] c = "S12"   -> [k |-> "string", p |-> "s:12"]
    [] c = "S1.5"  -> [k |-> "string", p |-> "s:1.5"]
    [] c = "Sx"    -> [k |-> "string", p |-> "s:x"]
    [] c = "S0"    -> [k |-> "string", p |-> "s:"]
    [] c = "SS12"  -> [k |-> "string", p |-> "s:12"]        \* DataRef::SharedString
    [] c = "SSx"   -> [k |-> "string", p |-> "s:x"]
    [] c = "DT"    -> [k |-> "datetime", p |-> "dt:45000.5"]
    [] c = "TD"    -> [k |-> "datetime", p |-> "dt:1.5"]
    [] c = "DI"    -> [k |-> "datetime_iso", p |-> "s:2020-01-02T03:04:05"]
    [] c = "DU"    -> [k |-> "duration_iso", p |-> "s:PT1H2M3S"]
    [] c = "XNA"   -> [k |-> "error",  p |-> "e:NA"]
    [] c = "XDiv0" -> [k |-> "error",  p |-> "e:Div0"]

Codes == {"E", "I7", "Im3", "F1.5", "F2", "Fm2.7", "B1", "B0", "S12", "S1.5", "Sx", "S0", "SS12", "SSx",
          "DT", "TD", "DI", "DU", "XNA", "XDiv0"}
RefOnly == {"SS12", "SSx"}

Is(kind, c)  == Val(c).k = kind
Get(kind, c) == IF Is(kind, c) /\ kind # "empty" THEN Val(c).p ELSE "none"

\* as_i64: Int, Float (truncated toward zero), Bool, strings that are decimal integers
AsI64(c) ==
  CASE c = "I7" -> "i:7" [] c = "Im3" -> "i:-3"
    [] c = "F1.5" -> "i:1" [] c = "F2" -> "i:2" [] c = "Fm2.7" -> "i:-2"
    [] c = "B1" -> "i:1" [] c = "B0" -> "i:0"
    [] c \in {"S12", "SS12"} -> "i:12"
    [] OTHER -> "none"
\* as_f64: Int, Float, Bool, strings that are decimal numbers
AsF64(c) ==
  CASE c = "I7" -> "f:7" [] c = "Im3" -> "f:-3"
    [] c = "F1.5" -> "f:1.5" [] c = "F2" -> "f:2" [] c = "Fm2.7" -> "f:-2.7"
    [] c = "B1" -> "f:1" [] c = "B0" -> "f:0"
    [] c \in {"S12", "SS12"} -> "f:12" [] c = "S1.5" -> "f:1.5"
    [] OTHER -> "none"
\* as_string: numbers in their shortest decimal form, strings as they are; nothing else
AsString(c) ==
  CASE c = "I7" -> "s:7" [] c = "Im3" -> "s:-3"
    [] c = "F1.5" -> "s:1.5" [] c = "F2" -> "s:2" [] c = "Fm2.7" -> "s:-2.7"
    [] Val(c).k = "string" -> Val(c).p
    [] OTHER -> "none"
\* Display (to_string; what Range::headers and the ..._or_string helpers show): numbers in their shortest decimal
\* form, text as it is, booleans true / false, a date-time as its serial number, an error as its literal, Empty as ""
Display(c) ==
  CASE c = "E" -> "s:" [] c = "B1" -> "s:true" [] c = "B0" -> "s:false"
    [] c = "DT" -> "s:45000.5" [] c = "TD" -> "s:1.5"
    [] c = "XNA" -> "s:#N/A" [] c = "XDiv0" -> "s:#DIV/0!"
    [] Val(c).k \in {"datetime_iso", "duration_iso"} -> Val(c).p
    [] OTHER -> AsString(c)
\* PartialEq against primitives: only the variant of the primitive's own type can be equal
EqStr(c, t)  == Val(c).k = "string" /\ Val(c).p = t
EqF64(c, t)  == Val(c).k = "float" /\ Val(c).p = t
EqI64(c, t)  == Val(c).k = "int" /\ Val(c).p = t
EqBool(c, t) == Val(c).k = "bool" /\ Val(c).p = t
\* DataRef -> Data: SharedString becomes String, everything else keeps its variant and payload
Owned(c) == CASE c = "SS12" -> "S12" [] c = "SSx" -> "Sx" [] OTHER -> c

Ops == {"is", "get", "as_i64", "as_f64", "as_string", "display", "eq", "owned"}
Prims == {"s:12", "s:x", "f:2", "f:1.5", "i:7", "i:12", "b:true", "b:false"}
Bool2(b) == IF b THEN "b:true" ELSE "b:false"
\* the result token of (op, argument, value code)
Result(op, arg, c) ==
  CASE op = "is"        -> Bool2(Is(arg, c))
    [] op = "get"       -> Get(arg, c)
    [] op = "as_i64"    -> AsI64(c)
    [] op = "as_f64"    -> AsF64(c)
    [] op = "as_string" -> AsString(c)
    [] op = "display"   -> Display(Owned(c))
    [] op = "owned"     -> Owned(c)
    [] op = "eq"        -> Bool2(CASE arg \in {"s:12", "s:x"} -> EqStr(c, arg)
                                   [] arg \in {"f:2", "f:1.5"} -> EqF64(c, arg)
                                   [] arg \in {"i:7", "i:12"} -> EqI64(c, arg)
                                   [] OTHER -> EqBool(c, arg))
ArgsOf(op) == CASE op \in {"is", "get"} -> Kinds [] op = "eq" -> Prims [] OTHER -> {"-"}

-----------------------------------------------------------------------------
\* laws of the algebra (checked by TLC over all codes)
ExactlyOneKind == \A c \in Codes : Cardinality({k \in Kinds : Is(k, c)}) = 1
GetIffIs == \A c \in Codes, k \in Kinds \ {"empty"} : (Get(k, c) # "none") <=> Is(k, c)
\* what a value shows is its text whenever it has one
DisplayExtendsAsString == \A c \in Codes : AsString(c) # "none" => Display(c) = AsString(c)
IntImpliesFloat == \A c \in Codes : AsI64(c) # "none" => AsF64(c) # "none"
OwnVariantIsIdentity == \A c \in Codes : /\ (Is("int", c) => AsI64(c) = Get("int", c))
                                         /\ (Is("float", c) => AsF64(c) = Get("float", c))
                                         /\ (Is("string", c) => AsString(c) = Get("string", c))
\* a borrowed value and its owned copy answer every question alike
OwnedCommutes == \A c \in Codes, op \in Ops \ {"owned"} : \A a \in ArgsOf(op) :
                    Result(op, a, c) = Result(op, a, Owned(c))
=============================================================================
