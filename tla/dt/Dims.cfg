SPECIFICATION Spec
CONSTANT N = 2
INVARIANTS LenCountsContained Dump
CHECK_DEADLOCK FALSE
