-------------------------------- MODULE Dims --------------------------------
(* calamine::Dimensions -- the rectangle type of merged regions, tables and the sheet   *)
(* dimension: contains(row, col) and len() (rows x columns; 0 when the end lies before  *)
(* the start, as a hostile file may declare).                                            *)
EXTENDS Naturals, FiniteSets, TLC, Json

CONSTANT N                      \* coordinates 0..N
Coords == 0..N
VARIABLES d, p
vars == <<d, p>>
Init == d \in [a : Coords \X Coords, b : Coords \X Coords] /\ p \in Coords \X Coords
Next == UNCHANGED vars
Spec == Init /\ [][Next]_vars

Contains(dd, q) == dd.a[1] <= q[1] /\ q[1] <= dd.b[1] /\ dd.a[2] <= q[2] /\ q[2] <= dd.b[2]
Span(lo, hi) == IF hi + 1 > lo THEN hi + 1 - lo ELSE 0
Len(dd) == Span(dd.a[1], dd.b[1]) * Span(dd.a[2], dd.b[2])
\* laws: len counts exactly the contained positions (of the whole plane, hence of the grid here)
LenCountsContained == Len(d) = Cardinality({q \in Coords \X Coords : Contains(d, q)})
Dump == PrintT(<<"REPLAY", ToJson([a |-> d.a, b |-> d.b, p |-> p, contains |-> Contains(d, p), len |-> Len(d)])>>)
=============================================================================
