SPECIFICATION Spec
INVARIANTS ExactlyOneKind GetIffIs DisplayExtendsAsString IntImpliesFloat OwnVariantIsIdentity OwnedCommutes Dump
CHECK_DEADLOCK FALSE
