SPECIFICATION Spec
INVARIANTS ExactlyOneKind GetIffIs IntImpliesFloat OwnVariantIsIdentity OwnedCommutes Dump
CHECK_DEADLOCK FALSE
