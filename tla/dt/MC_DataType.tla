----------------------------- MODULE MC_DataType -----------------------------
(* Every (operation, argument, value) triple, one state each; the laws are invariants; *)
(* every triple is exported with the specification's result and evaluated on the real  *)
(* Data and DataRef values by the harness.                                             *)
EXTENDS DataType, Json

VARIABLES op, arg, code
vars == <<op, arg, code>>
Init == op \in Ops /\ arg \in ArgsOf(op) /\ code \in Codes
Next == UNCHANGED vars
Spec == Init /\ [][Next]_vars
Dump == PrintT(<<"REPLAY", ToJson([op |-> op, arg |-> arg, code |-> code, want |-> Result(op, arg, code)])>>)
=============================================================================
