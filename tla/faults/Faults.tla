-------------------------------- MODULE Faults --------------------------------
(***************************************************************************)
(* C06 -- the structured fault space.                                       *)
(*                                                                         *)
(* The field map (one line per declared length / count / offset / index /  *)
(* chain pointer / tag / numeric attribute / cell reference / whole part   *)
(* found in the seed files, with the number of fault classes of its kind)  *)
(* is read from the file named by the FIELDS environment variable.  A      *)
(* fault script is a set of (field, class) faults on ONE seed; classes per *)
(* kind (interpreted by the harness):                                      *)
(*   num    : 0, 1, actual-1, actual+1, max-1, max, sign bit, 2x, 1/2      *)
(*   xmlnum : 0, 1, -1, +1, 2^31-1, 2^32-1, 2^32, 2^64, "-1", "", "abc"    *)
(*            3000000 (a valid count far beyond what the file holds)        *)
(*   xmlref : A0, XFE1, A1048577, A, 1, ZZZZZZZZZZ1, "A1:", A99999999999, "",*)
(*            C9:A1, A9:C1 (a range whose end lies before its start)          *)
(*            A1:Z100000, B2:B9000000 (valid, declaring millions of cells)   *)
(*   part   : truncate at 0, 1, 1/4, 1/2, len-1; drop the part             *)
(*   reccut : one BIFF record truncated to its first k payload bytes,       *)
(*            k = 0..47 (a record ending inside any of its header fields)   *)
(*   xmltag : one XML tag (start / end / empty-element) deleted or doubled, *)
(*            or the part cut right after / in the middle of that tag       *)
(*   rec    : one BIFF / BIFF12 record with a consistent length field:     *)
(*            1 / 5 stray bytes at the end or before the last two payload  *)
(*            bytes, 1 / 2 missing bytes, record duplicated, record dropped *)
(* The property: whatever the script, every entry point returns Ok or Err  *)
(* -- no panic, abort (allocation), hang or out-of-proportion resources.   *)
(***************************************************************************)
EXTENDS Naturals, Sequences, FiniteSets, TLC, Json, IOUtils

Fields == ndJsonDeserialize(IOEnv.FIELDS)
NF == Len(Fields)

VARIABLES seed, faults, done
vars == <<seed, faults, done>>
CONSTANT MaxFaults
MaxCls == 48          \* the largest class count of any field kind (reccut: 48 cut positions)

Init == seed = 0 /\ faults = <<>> /\ done = FALSE

\* the first fault may hit any field; further faults hit one of the next `Window` fields of the
\* same seed (neighbouring fields: same record / element / header), and only seeds marked
\* `pairs` in the field map get multi-fault scripts
CONSTANT Window
AddFault(i, c) ==
  /\ ~done /\ Len(faults) < MaxFaults
  /\ i \in 1..NF
  /\ c \in 1..Fields[i].ncls
  /\ faults # <<>> => (Fields[i].seed = seed /\ Fields[i].pairs)
  /\ seed' = Fields[i].seed
  /\ faults' = Append(faults, <<Fields[i].f, c, i>>)
  /\ UNCHANGED done
End == ~done /\ faults # <<>> /\ done' = TRUE /\ UNCHANGED <<seed, faults>>
Next == \/ (faults = <<>> /\ \E i \in 1..NF : \E c \in 1..MaxCls : AddFault(i, c))
        \/ (faults # <<>> /\ \E d \in 1..Window : \E c \in 1..MaxCls : AddFault(faults[Len(faults)][3] + d, c))
        \/ End
Spec == Init /\ [][Next]_vars

Dump == done => PrintT(<<"REPLAY", ToJson([seed |-> seed, faults |-> [k \in 1..Len(faults) |-> <<faults[k][1], faults[k][2]>>]])>>)
=============================================================================
