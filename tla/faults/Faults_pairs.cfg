SPECIFICATION Spec
CONSTANTS
  MaxFaults = 2
  Window = 2
INVARIANT Dump
CHECK_DEADLOCK FALSE
