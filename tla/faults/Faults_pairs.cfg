SPECIFICATION Spec
CONSTANT MaxFaults = 2
CONSTRAINT Neighbours
INVARIANT Dump
CHECK_DEADLOCK FALSE
