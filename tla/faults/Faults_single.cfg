SPECIFICATION Spec
CONSTANTS
  MaxFaults = 1
  Window = 1
INVARIANT Dump
CHECK_DEADLOCK FALSE
