SPECIFICATION Spec
CONSTANT MaxFaults = 1
INVARIANT Dump
CHECK_DEADLOCK FALSE
