----------------------------- MODULE Trace_Faults -----------------------------
(* code -> spec: one event per executed script with its outcome.  Accounting: the   *)
(* scripts are consumed in order, each exactly once.  Safety: the outcome is "safe" *)
(* (every entry point returned Ok or Err within the resource bounds) or its key is  *)
(* a finding listed in the file named by KNOWN.                                     *)
EXTENDS Naturals, Sequences, FiniteSets, TLC, Json, IOUtils
Rec == ndJsonDeserialize(IOEnv.TRACE)
KnownKeys == LET k == ndJsonDeserialize(IOEnv.KNOWN) IN {k[i].key : i \in 1..Len(k)}
VARIABLES l
Ev == Rec[l]
Init == l = 1
Safe(ev) == ev.outcome = "safe" \/ ev.key \in KnownKeys
TScript == /\ l <= Len(Rec) /\ Ev.e = "script"
           /\ Ev.id = l - 1                     \* every enumerated script exactly once, in order
           /\ Safe(Ev)
           /\ l' = l + 1
Spec == Init /\ [][TScript]_l
Accepted ==
  LET d == TLCGet("stats").diameter IN
  IF d - 1 = Len(Rec) THEN PrintT(<<"ACCEPTED", ToString(Len(Rec))>>)
  ELSE PrintT(<<"REJECTED", ToJson([at |-> d, event |-> Rec[d]])>>)
=============================================================================
