SPECIFICATION Spec
CONSTANTS
  Xtis <- XtisT
  NSheets = 3
  NNames = 2
  ViaXti = TRUE
INVARIANTS Refines
CHECK_DEADLOCK FALSE
