------------------------------ MODULE MC_Lbl8 ------------------------------
(* C14 / C16 (xls): defined names given by a token (Lbl record with rgce).    *)
(* WRITER: a list of 1..2 workbook-scope names, each defined by an absolute   *)
(* PtgRef3d / PtgArea3d / PtgRefErr3d / PtgAreaErr3d through an XTI table     *)
(* that is not in sheet order.  READER: parse_defined_names + the sheet       *)
(* resolution of parse_workbook (PtgBiff8!DefinedName).  IDEAL: the name      *)
(* designates the sheet its XTI entry designates, then the $-reference.       *)
(* Relative references in names, built-in names, names holding anything but   *)
(* a single 3-D token are not in the checked language.                        *)
EXTENDS PtgBiff8, Json

CONSTANTS ViaXti      \* TRUE: the code as pinned ; FALSE: the seeded variant sheet_names.get(ixti)

XtisT == <<2, 0, 1, 0>>
A == FALSE      \* absolute
NameToks ==
  {[t |-> "ref3d", ixti |-> x, r |-> r, c |-> c, rr |-> A, cr |-> A] : x \in 0..3, r \in {0, 65535}, c \in {0, 26, 255}}
  \cup {[t |-> "area3d", ixti |-> x, r1 |-> 0, r2 |-> r2, c1 |-> c1, c2 |-> 27, rr1 |-> A, cr1 |-> A, rr2 |-> A, cr2 |-> A]
          : x \in 0..3, r2 \in {1, 65535}, c1 \in {0, 26}}
  \cup {[t |-> k, ixti |-> x] : k \in {"referr3d", "areaerr3d"}, x \in 0..3}

VARIABLES names
Init == names \in UNION {[1..n -> NameToks] : n \in 1..2}
Next == UNCHANGED names
Spec == Init /\ [][Next]_names

IdealName(tk) ==
  <<SheetViaXti(tk.ixti), P("!")>> \o
  (CASE tk.t = "ref3d" -> CellText(tk.r, tk.c, tk.rr, tk.cr)
     [] tk.t = "area3d" -> AreaText(tk)
     [] OTHER -> <<P("#REF!")>>)

Refines ==
  LET asis  == [k \in 1..Len(names) |-> DefinedName(names[k], ViaXti)]
      ideal == [k \in 1..Len(names) |-> IdealName(names[k])]
  IN /\ PrintT(<<"REPLAY", ToJson([names |-> names, ideal |-> ideal, asis |-> asis, xtis |-> Xtis,
                                   nsheets |-> NSheets, dev |-> {}])>>)
     /\ asis = ideal
=============================================================================
