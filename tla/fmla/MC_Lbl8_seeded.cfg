SPECIFICATION Spec
CONSTANTS
  Xtis <- XtisT
  NSheets = 3
  NNames = 2
  ViaXti = FALSE
INVARIANTS Refines
CHECK_DEADLOCK FALSE
