------------------------------- MODULE MC_Ptg -------------------------------
(* All formula trees up to depth 2 over the leaf / operator alphabets of the     *)
(* cfg; each tree is one behaviour: TLC checks  Parse(Rpn(tree)) = Render(tree) *)
(* and prints the token list with the ideal text; the harness lays the tokens    *)
(* out as BIFF12 rgce bytes in a BrtFmla* record of a real .xlsb workbook (and   *)
(* as the formula of a defined name) and reads them back.                        *)
EXTENDS Ptg, Json

CONSTANTS Rows, Cols, Ops, UnOps, Depth, Profile

Sheets == <<"S", "Other">>          \* XTI table: ixti -> sheet name
Names  == <<"MyName", "Rate">>      \* defined names 1, 2

Ref(r, c, rr, cr) == [t |-> "ref", r |-> r, c |-> c, rr |-> rr, cr |-> cr]
Refs == {Ref(r, c, rr, cr) : r \in Rows, c \in Cols, rr \in BOOLEAN, cr \in BOOLEAN}
RefsSmall == {Ref(1, 27, TRUE, FALSE), Ref(0, 0, TRUE, TRUE)}
Areas == {[t |-> "area", r1 |-> 0, c1 |-> c, rr1 |-> f[1], cr1 |-> f[2], r2 |-> r, c2 |-> c + 1, rr2 |-> f[3], cr2 |-> f[4]] :
             c \in Cols \ {16383}, r \in Rows, f \in {<<TRUE, TRUE, TRUE, TRUE>>, <<FALSE, FALSE, FALSE, FALSE>>,
                                                      <<TRUE, FALSE, FALSE, TRUE>>, <<FALSE, TRUE, TRUE, FALSE>>}}
Ref3ds == {[t |-> "ref3d", x |-> x, r |-> r, c |-> c, rr |-> rr, cr |-> cr] :
             x \in {0, 1}, r \in Rows, c \in Cols, rr \in BOOLEAN, cr \in BOOLEAN}
Area3ds == {[t |-> "area3d", x |-> 1, r1 |-> 0, c1 |-> 25, rr1 |-> b, cr1 |-> b, r2 |-> 9, c2 |-> 26, rr2 |-> b, cr2 |-> ~b] : b \in BOOLEAN}
Lits == {[t |-> "int", v |-> 0], [t |-> "int", v |-> 65535], [t |-> "num", s |-> "1.5"], [t |-> "num", s |-> "-0.25"],
         [t |-> "str", s |-> "a b"], [t |-> "str", s |-> ""], [t |-> "bool", b |-> TRUE], [t |-> "bool", b |-> FALSE],
         [t |-> "name", i |-> 1], [t |-> "name", i |-> 2]}
Errs == {[t |-> "err", e |-> e] : e \in {"Null", "Div0", "Value", "Ref", "Name", "Num", "NA"}}
Miss == [t |-> "miss"]

\* operand alphabet of inner positions
Small == {Ref(1, 27, TRUE, FALSE), [t |-> "int", v |-> 7], [t |-> "str", s |-> "x"]}
           \cup (IF Profile = "deepw" THEN {Ref(0, 0, FALSE, TRUE), [t |-> "name", i |-> 1]} ELSE {})

Leaves == CASE Profile = "refs" -> Refs \cup Areas \cup Ref3ds \cup Area3ds
            [] Profile = "lits" -> Lits \cup Errs \cup RefsSmall
            [] OTHER -> Small

\* nodes whose FIRST operand comes from A and whose other operands come from B
Nodes(A, B) ==
  {[t |-> "bin", op |-> op, a |-> a, b |-> b] : op \in Ops, a \in A, b \in B}
  \cup {[t |-> "un", op |-> op, a |-> a] : op \in UnOps, a \in A}
  \cup {[t |-> "pct", a |-> a] : a \in A} \cup {[t |-> "paren", a |-> a] : a \in A}
  \cup {[t |-> "space", a |-> a] : a \in A} \cup {[t |-> "attrsum", a |-> a] : a \in A}
  \cup {[t |-> "func", f |-> 19, args |-> <<>>]}
  \cup {[t |-> "func", f |-> f, args |-> <<a>>] : f \in {24, 38}, a \in A}
  \cup {[t |-> "func", f |-> 27, args |-> <<a, b>>] : a \in A, b \in B}
  \cup {[t |-> "funcv", f |-> f, args |-> <<a>>] : f \in {4, 7}, a \in A}
  \cup {[t |-> "funcv", f |-> f, args |-> <<a, b>>] : f \in {4, 0}, a \in A, b \in B \cup {Miss}}
  \cup {[t |-> "funcv", f |-> 1, args |-> <<a, b, c>>] : a \in A, b \in B \cup {Miss}, c \in B}
\* ... and nodes whose LAST operand comes from D, the others from B
NodesLast(B, D) ==
  {[t |-> "bin", op |-> op, a |-> a, b |-> b] : op \in Ops, a \in B, b \in D}
  \cup {[t |-> "func", f |-> 27, args |-> <<a, b>>] : a \in B, b \in D}
  \cup {[t |-> "funcv", f |-> 4, args |-> <<a, b>>] : a \in B, b \in D}
  \cup {[t |-> "funcv", f |-> 1, args |-> <<a, b, c>>] : a \in B, b \in B \cup {Miss}, c \in D}

Level1 == IF Profile \in {"deep", "deepw"} THEN Nodes(Small, Small) ELSE Nodes(Leaves, Leaves)
Trees == CASE Depth = 0 -> Leaves
           [] Depth = 1 -> Leaves \cup Level1
           [] OTHER -> Nodes(Level1, Small) \cup NodesLast(Small, Level1)

VARIABLE tree
Init == tree \in Trees
Next == UNCHANGED tree
Spec == Init /\ [][Next]_tree

Refines == Parse(Rpn(tree), Sheets, Names) = [text |-> Render(tree, Sheets, Names)]

\* tokens as the materialiser wants them: leaf fields flattened
Tok(tk) == IF "a" \in DOMAIN tk THEN [x \in (DOMAIN tk.a \ {"t"}) \cup {"p"} |-> IF x = "p" THEN tk.p ELSE tk.a[x]] ELSE tk
Dump == PrintT(<<"REPLAY", ToJson([tokens |-> [i \in 1..Len(Rpn(tree)) |-> Tok(Rpn(tree)[i])],
                                   ideal |-> Render(tree, Sheets, Names), dev |-> <<>>])>>)
=============================================================================
