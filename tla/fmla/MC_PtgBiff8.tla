---------------------------- MODULE MC_PtgBiff8 ----------------------------
(***************************************************************************)
(* C14 (xls), leg 0 + export for leg 1.                                    *)
(*                                                                         *)
(* WRITER: emits the RPN token list of a formula, one token (or one fixed  *)
(* group of tokens) per action, keeping on its own stack the A1 text every *)
(* sub-expression must have (IDEAL, from the statement: references name    *)
(* row and column with $ exactly on the absolute components, 3-D           *)
(* references name the sheet the XTI entry designates, literals,           *)
(* operators, parentheses and functions with their arguments in            *)
(* evaluation order).  Every state whose stack holds exactly one           *)
(* expression is a complete formula: it is checked against the reader      *)
(* (PtgBiff8!Run) and printed as a REPLAY line.                            *)
(* Blanks (PtgAttrSpace) are not part of what the statement promises: both *)
(* sides are compared without them, but a formula with blanks must still   *)
(* be rendered.                                                            *)
(***************************************************************************)
EXTENDS PtgBiff8, Json

CONSTANTS Leaves,      \* set of operand tokens
          Bins,        \* subset of BinOps
          Uns,         \* subset of {"uplus", "uminus", "percent", "paren", "attrsum"}
          Funcs,       \* set of [iftab, argc, var : BOOLEAN]
          Groups,      \* subset of {"if", "sum_miss", "space", "volatile"}
          MaxTok,      \* bound on the number of tokens
          FxAll,       \* BOOLEAN: reader as repaired (TRUE) or as pinned (FALSE)
          Shared       \* BOOLEAN: the formula is stored as a shared formula (FORMULA = PtgExp, the
                       \* token list in a SHRFMLA record)

VARIABLES toks, ist
vars == <<toks, ist>>

Fx == [ref |-> FxAll, area |-> FxAll, ref3d |-> FxAll, area3d |-> FxAll, err3d |-> FxAll, space |-> FxAll]
Good == [ref |-> TRUE, area |-> TRUE, ref3d |-> TRUE, area3d |-> TRUE, err3d |-> TRUE, space |-> TRUE]

Init == toks = <<>> /\ ist = <<>>

Room(k) == Len(toks) + k <= MaxTok
N == Len(ist)
Top(k) == ist[N - k]                 \* k = 0 : top of the stack
Rest(k) == SubSeq(ist, 1, N - k)

Leaf(l) == /\ Room(1) /\ N < 3
           /\ toks' = Append(toks, l)
           /\ ist' = Append(ist, OperandText(l, Good))

Bin(op) == /\ Room(1) /\ N >= 2
           /\ toks' = Append(toks, [t |-> "bin", op |-> op])
           /\ ist' = Append(Rest(2), Top(1) \o <<P(op)>> \o Top(0))

Un(u) == /\ Room(1) /\ N >= 1
         /\ toks' = Append(toks, IF u \in {"paren", "attrsum"} THEN [t |-> u] ELSE [t |-> "un", op |-> u])
         /\ ist' = Append(Rest(1),
                     CASE u = "uplus"   -> <<P("+")>> \o Top(0)
                       [] u = "uminus"  -> <<P("-")>> \o Top(0)
                       [] u = "percent" -> Top(0) \o <<P("%")>>
                       [] u = "paren"   -> <<P("(")>> \o Top(0) \o <<P(")")>>
                       [] u = "attrsum" -> <<Sym("fn", 4), P("(")>> \o Top(0) \o <<P(")")>>)

RECURSIVE ArgList(_, _)
ArgList(args, k) == IF k > Len(args) THEN <<>>
                    ELSE args[k] \o (IF k < Len(args) THEN <<P(",")>> ELSE <<>>) \o ArgList(args, k + 1)
Call(iftab, args) == <<Sym("fn", iftab), P("(")>> \o ArgList(args, 1) \o <<P(")")>>

Func(f) == /\ Room(1) /\ N >= f.argc
           /\ toks' = Append(toks, IF f.var THEN [t |-> "funcvar", iftab |-> f.iftab, argc |-> f.argc]
                                   ELSE [t |-> "func", iftab |-> f.iftab])
           /\ ist' = Append(Rest(f.argc), Call(f.iftab, SubSeq(ist, N - f.argc + 1, N)))

\* fixed token groups over leaves
Group(g, a, b, c) ==
  /\ N < 3
  /\ \/ /\ g = "if"           \* IF(a,b,c) as Excel writes it: jump attributes between the arguments
        /\ Room(7)
        /\ toks' = toks \o <<a, [t |-> "attrif"], b, [t |-> "attrgoto"], c, [t |-> "attrgoto"],
                             [t |-> "funcvar", iftab |-> 1, argc |-> 3]>>
        /\ ist' = Append(ist, Call(1, <<OperandText(a, Good), OperandText(b, Good), OperandText(c, Good)>>))
     \/ /\ g = "sum_miss"     \* SUM(a,) : a missing argument
        /\ Room(3) /\ b = a /\ c = a
        /\ toks' = toks \o <<a, [t |-> "miss"], [t |-> "funcvar", iftab |-> 4, argc |-> 2]>>
        /\ ist' = Append(ist, Call(4, <<OperandText(a, Good), <<>>>>))
     \/ /\ g = "space"        \* blanks in front of an operand (also in front of the first one)
        /\ Room(2) /\ b = a /\ c = a
        /\ \E ty \in {0, 1} :
             /\ toks' = toks \o <<[t |-> "attrspace", ty |-> ty, n |-> 2], a>>
             /\ ist' = Append(ist, OperandText(a, Good))
     \/ /\ g = "volatile"     \* volatile marker in front of the formula
        /\ Room(2) /\ b = a /\ c = a /\ toks = <<>>
        /\ toks' = <<[t |-> "attrvolatile"], a>>
        /\ ist' = Append(ist, OperandText(a, Good))

Next ==
  \/ \E l \in Leaves : Leaf(l)
  \/ \E op \in Bins : Bin(op)
  \/ \E u \in Uns : Un(u)
  \/ \E f \in Funcs : Func(f)
  \/ \E g \in Groups : \E a, b, c \in Leaves : Group(g, a, b, c)

Spec == Init /\ [][Next]_vars

--------------------------------------------------------------------------
Why(name) == PrintT(<<"WHY", name>>) /\ FALSE

\* which pinned-code defects a token list touches (names of the deviations)
Touches ==
  LET has(S) == \E k \in 1..Len(toks) : toks[k].t \in S
  IN (IF \E k \in 1..Len(toks) : toks[k].t = "ref" /\ toks[k].rr # toks[k].cr THEN {"RefDollarSwapped"} ELSE {})
     \cup (IF has({"area"}) THEN {"AreaFlags"} ELSE {})
     \cup (IF has({"ref3d"}) THEN {"Ref3dColumn"} ELSE {})
     \cup (IF has({"area3d", "referr3d", "areaerr3d"}) THEN {"Sheet3dDirect"} ELSE {})
     \cup (IF has({"attrspace"}) THEN {"AttrSpace"} ELSE {})
\* named deviation: calamine does not read SHRFMLA records; the FORMULA record's PtgExp renders as
\* the empty text, so the cell looks as if it had no formula
Dev == (IF FxAll THEN {} ELSE Touches) \cup (IF Shared THEN {"XlsSharedFormula"} ELSE {})

Refines ==
  Len(ist) = 1 =>
    LET r == TLCEval(Run(toks, Fx))
        ideal == ist[1]
        asis == IF Shared THEN [text |-> <<>>] ELSE IF r.err # "" THEN [err |-> r.err] ELSE [text |-> r.text]
    IN /\ PrintT(<<"REPLAY", ToJson([tokens |-> toks, ideal |-> ideal, asis |-> asis, xtis |-> Xtis, nsheets |-> NSheets, shared |-> Shared,
                                       nnames |-> NNames, dev |-> Dev])>>)
       /\ Dev = {} => ((r.err = "" /\ NoSpace(r.text) = NoSpace(ideal))
                       \/ Why("Refines: the offset-stack machine does not render the token list"))

--------------------------------------------------------------------------
(* alphabets of the configurations.  XTI table: entry i -> sheet XtisT[i+1]; deliberately not in *)
(* sheet order.                                                                                   *)
XtisT == <<2, 0, 1, 0>>
Ref(r, c, rr, cr) == [t |-> "ref", r |-> r, c |-> c, rr |-> rr, cr |-> cr]
Area(r1, r2, c1, c2, f) == [t |-> "area", r1 |-> r1, r2 |-> r2, c1 |-> c1, c2 |-> c2,
                            rr1 |-> f[1], cr1 |-> f[2], rr2 |-> f[3], cr2 |-> f[4]]
Ref3d(x, r, c, rr, cr) == [t |-> "ref3d", ixti |-> x, r |-> r, c |-> c, rr |-> rr, cr |-> cr]
Area3d(x, r1, r2, c1, c2, f) == [t |-> "area3d", ixti |-> x, r1 |-> r1, r2 |-> r2, c1 |-> c1, c2 |-> c2,
                                 rr1 |-> f[1], cr1 |-> f[2], rr2 |-> f[3], cr2 |-> f[4]]
Rows == {0, 1, 65535}
Cols == {0, 1, 25, 26, 27, 51, 52, 255}
Flags4 == {<<TRUE, TRUE, TRUE, TRUE>>, <<FALSE, FALSE, FALSE, FALSE>>, <<TRUE, FALSE, TRUE, FALSE>>,
           <<FALSE, TRUE, FALSE, TRUE>>, <<TRUE, TRUE, FALSE, FALSE>>, <<FALSE, TRUE, TRUE, FALSE>>}
L_refs == {Ref(r, c, rr, cr) : r \in Rows, c \in Cols, rr \in BOOLEAN, cr \in BOOLEAN}
          \cup {Area(r1, r2, c1, c2, f) : r1 \in {0, 1}, r2 \in {1, 65535}, c1 \in {0, 26}, c2 \in {26, 27, 255}, f \in Flags4}
          \cup {Ref3d(x, r, c, rr, cr) : x \in 0..3, r \in {0, 65535}, c \in {0, 1, 2, 3, 26, 255}, rr \in BOOLEAN, cr \in BOOLEAN}
          \cup {Area3d(x, 0, r2, c1, 27, f) : x \in 0..3, r2 \in {1, 65535}, c1 \in {0, 26}, f \in Flags4}
          \cup {[t |-> "referr"], [t |-> "areaerr"]}
          \cup {[t |-> k, ixti |-> x] : k \in {"referr3d", "areaerr3d"}, x \in 0..3}
L_lits == {[t |-> "int", n |-> n] : n \in {0, 1, 65535}} \cup {[t |-> "num", id |-> i] : i \in 0..2}
          \cup {[t |-> "str", id |-> i, hi |-> h] : i \in 0..1, h \in BOOLEAN} \cup {[t |-> "str", id |-> 2, hi |-> TRUE]}
          \cup {[t |-> "bool", b |-> b] : b \in BOOLEAN} \cup {[t |-> "err", code |-> c] : c \in ErrCodes}
          \cup {[t |-> "name", i |-> i] : i \in 1..2}
L_small == {Ref(0, 0, TRUE, TRUE), Ref(1, 27, FALSE, TRUE), [t |-> "int", n |-> 1], [t |-> "str", id |-> 0, hi |-> FALSE]}
L_abs == {Ref(1, 26, FALSE, FALSE), [t |-> "int", n |-> 7]}
L_two == {Ref(1, 26, TRUE, FALSE), [t |-> "int", n |-> 7]}
L_three == {Ref(0, 0, TRUE, TRUE), Ref3d(1, 1, 1, FALSE, FALSE), [t |-> "name", i |-> 1]}
F_all == {[iftab |-> 19, argc |-> 0, var |-> FALSE], [iftab |-> 24, argc |-> 1, var |-> FALSE],
          [iftab |-> 27, argc |-> 2, var |-> FALSE], [iftab |-> 38, argc |-> 1, var |-> FALSE],
          [iftab |-> 4, argc |-> 1, var |-> TRUE], [iftab |-> 4, argc |-> 2, var |-> TRUE],
          [iftab |-> 4, argc |-> 3, var |-> TRUE], [iftab |-> 7, argc |-> 2, var |-> TRUE],
          [iftab |-> 36, argc |-> 2, var |-> TRUE]}
U_all == {"uplus", "uminus", "percent", "paren", "attrsum"}
G_all == {"if", "sum_miss", "space", "volatile"}
None == {}
=============================================================================
