SPECIFICATION Spec
CONSTANTS
  Xtis <- XtisT
  NSheets = 3
  NNames = 2
  Leaves <- L_refs
  Bins = {}
  Uns = {}
  Funcs <- None
  Groups = {}
  MaxTok = 1
  FxAll = FALSE
  Shared = FALSE
INVARIANTS Refines
CHECK_DEADLOCK FALSE
