SPECIFICATION Spec
CONSTANTS
  Xtis <- XtisT
  NSheets = 3
  NNames = 2
  Leaves <- L_three
  Bins = {"+"}
  Uns = {"paren", "attrsum"}
  Funcs <- F_all
  Groups <- G_all
  MaxTok = 5
  FxAll = TRUE
  Shared = FALSE
INVARIANTS Refines
CHECK_DEADLOCK FALSE
