SPECIFICATION Spec
CONSTANTS
  Xtis <- XtisT
  NSheets = 3
  NNames = 2
  Leaves <- L_lits
  Bins = {}
  Uns <- U_all
  Funcs <- None
  Groups = {}
  MaxTok = 2
  FxAll = TRUE
  Shared = FALSE
INVARIANTS Refines
CHECK_DEADLOCK FALSE
