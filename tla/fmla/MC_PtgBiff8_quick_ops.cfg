SPECIFICATION Spec
CONSTANTS
  Xtis <- XtisT
  NSheets = 3
  NNames = 2
  Leaves <- L_small
  Bins = {"+", "-", "*", "/", "^", "&", "<", "<=", "=", ">", ">=", "<>", " ", ",", ":"}
  Uns = {"uminus", "percent", "paren"}
  Funcs <- None
  Groups = {}
  MaxTok = 5
  FxAll = TRUE
  Shared = FALSE
INVARIANTS Refines
CHECK_DEADLOCK FALSE
