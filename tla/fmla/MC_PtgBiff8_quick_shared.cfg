SPECIFICATION Spec
CONSTANTS
  Xtis <- XtisT
  NSheets = 3
  NNames = 2
  Leaves <- L_abs
  Bins = {"+"}
  Uns <- U_all
  Funcs <- None
  Groups = {}
  MaxTok = 3
  FxAll = TRUE
  Shared = TRUE
INVARIANTS Refines
CHECK_DEADLOCK FALSE
