SPECIFICATION Spec
CONSTANTS
  Xtis <- XtisT
  NSheets = 3
  NNames = 2
  Leaves <- L_two
  Bins = {"+", "*", "&", "=", ","}
  Uns <- U_all
  Funcs <- F_all
  Groups = {"space"}
  MaxTok = 6
  FxAll = TRUE
  Shared = FALSE
INVARIANTS Refines
CHECK_DEADLOCK FALSE
