SPECIFICATION Spec
CONSTANTS
  PushColumnFixed = TRUE
  RefFlagsFixed = TRUE
  AreaFlagsFixed = FALSE
  Rows = {0}
  Cols = {0}
  Ops = {"+"}
  UnOps = {"+", "-"}
  Depth = 0
  Profile = "refs"
INVARIANTS Refines
CHECK_DEADLOCK FALSE
