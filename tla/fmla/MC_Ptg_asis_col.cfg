SPECIFICATION Spec
CONSTANTS
  PushColumnFixed = FALSE
  RefFlagsFixed = TRUE
  AreaFlagsFixed = TRUE
  Rows = {0}
  Cols = {25, 26}
  Ops = {"+"}
  UnOps = {"+", "-"}
  Depth = 0
  Profile = "refs"
INVARIANTS Refines
CHECK_DEADLOCK FALSE
