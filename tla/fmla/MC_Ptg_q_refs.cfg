SPECIFICATION Spec
CONSTANTS
  PushColumnFixed = TRUE
  RefFlagsFixed = TRUE
  AreaFlagsFixed = TRUE
  Rows = {0, 9, 65535, 1048575}
  Cols = {0, 25, 26, 51, 52, 255, 256, 701, 702, 16383}
  Ops = {"+", "-", "*", "/", "^", "&", "<", "<=", "=", ">", ">=", "<>", " ", ",", ":"}
  UnOps = {"+", "-"}
  Depth = 0
  Profile = "refs"
INVARIANTS Refines Dump
CHECK_DEADLOCK FALSE
