SPECIFICATION Spec
CONSTANTS
  PushColumnFixed = TRUE
  RefFlagsFixed = TRUE
  AreaFlagsFixed = TRUE
  Rows = {0, 1, 9, 65535, 65536, 1048575}
  Cols = {0, 1, 25, 26, 27, 51, 52, 255, 256, 701, 702, 703, 16382, 16383}
  Ops = {"+", "-", "*", "/", "^", "&", "<", "<=", "=", ">", ">=", "<>", " ", ",", ":"}
  UnOps = {"+", "-"}
  Depth = 0
  Profile = "refs"
INVARIANTS Refines Dump
CHECK_DEADLOCK FALSE
