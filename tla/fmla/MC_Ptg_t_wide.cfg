SPECIFICATION Spec
CONSTANTS
  PushColumnFixed = TRUE
  RefFlagsFixed = TRUE
  AreaFlagsFixed = TRUE
  Rows = {0}
  Cols = {0}
  Ops = {"+", "&", ":"}
  UnOps = {"+", "-"}
  Depth = 2
  Profile = "deepw"
INVARIANTS Refines Dump
CHECK_DEADLOCK FALSE
