-------------------------- MODULE MC_SharedFormula --------------------------
EXTENDS SharedFormula, Json

CONSTANTS RefCols, RefRows, MaxAtoms, AtomKinds, Masters, Shapes, SiPairs

VARIABLES atoms, grp, stage
vars == <<atoms, grp, stage>>

C(s) == s   \* readability: texts below are tuples of 1-character strings

RefSet == [cabs : BOOLEAN, col : RefCols, rabs : BOOLEAN, row : RefRows]
RefFeat(r) == IF r.cabs # r.rabs THEN {"MixedRef"} ELSE {}

RefAtoms    == {Atom("ref", <<>>, <<r>>, <<>>, RefFeat(r)) : r \in RefSet}
AreaAtoms   == {Atom("area", <<>>, <<r, [r EXCEPT !.col = @ + 1, !.row = @ + 1]>>, <<>>, RefFeat(r)) :
                  r \in {x \in RefSet : x.col < MaxCol /\ x.row < MaxRow}}
SimpleRef   == [cabs |-> FALSE, col |-> 1, rabs |-> FALSE, row |-> 1]       \* B2
SheetAtoms  == { Atom("sheet", <<"D","a","t","a","!">>, <<SimpleRef>>, <<>>, {}),
                 Atom("sheet", <<"A","B","1","!">>, <<SimpleRef>>, <<>>, {"SheetCellLike"}),
                 Atom("sheet", <<"'","M","y"," ","S","h","e","e","t","'","!">>, <<SimpleRef>>, <<>>, {}),
                 Atom("sheet", <<"'","M","y"," ","Q","4","'","!">>, <<SimpleRef>>, <<>>, {"SheetCellLike"}),
                 \* c' t' stand for the Cyrillic letters U+0441 U+0442 (low bytes 'A' 'B'): letters, but not
                 \* column letters -- the sheet name is not cell-like
                 Atom("sheet", <<"c'","t'","1","!">>, <<SimpleRef>>, <<>>, {}) }
FuncAtoms   == { Atom("func", <<"S","U","M","(">>, <<SimpleRef>>, <<")">>, {}),
                 Atom("func", <<"L","O","G","1","0","(">>, <<SimpleRef>>, <<")">>, {"FuncDigits"}),
                 Atom("func", <<"A","T","A","N","2","(">>, <<SimpleRef>>, <<",","1",")">>, {}),
                 Atom("func", <<"I","F","(">>, <<SimpleRef>>, <<">","0",",","1",",","2",")">>, {}) }
StrAtoms    == { Atom("str", <<"\"","x","\"">>, <<>>, <<>>, {}),
                 Atom("str", <<"\"","A","3","\"">>, <<>>, <<>>, {}),
                 Atom("str", <<"\"","s","a","y"," ","\"","\"","A","1","\"","\"","\"">>, <<>>, <<>>, {}),
                 Atom("str", <<"\"","e'","\"">>, <<>>, <<>>, {}),               \* e' stands for U+00E9
                 Atom("str", <<"\"","i","t","'","s","\"">>, <<>>, <<>>, {}) }     \* an apostrophe inside a string literal
NumAtoms    == { Atom("num", <<"1","0">>, <<>>, <<>>, {}), Atom("num", <<"1",".","5">>, <<>>, <<>>, {}),
                 Atom("num", <<"1","E","5">>, <<>>, <<>>, {"SciNumber"}) }
NameAtoms   == { Atom("name", <<"R","a","t","e">>, <<>>, <<>>, {}),
                 Atom("name", <<"T","A","X","2","0","2","0">>, <<>>, <<>>, {"NameCellLike"}),
                 Atom("name", <<"T","R","U","E">>, <<>>, <<>>, {}),
                 Atom("name", <<"Z","L'","1">>, <<>>, <<>>, {}),
                 Atom("name", <<"Q","1","S","a","l","e","s">>, <<>>, <<>>, {}) }     \* digits in the middle of a name                 \* L' stands for U+0141 (low byte 'A')

Menu == (IF "ref" \in AtomKinds THEN RefAtoms ELSE {}) \cup (IF "area" \in AtomKinds THEN AreaAtoms ELSE {})
        \cup (IF "sheet" \in AtomKinds THEN SheetAtoms ELSE {}) \cup (IF "func" \in AtomKinds THEN FuncAtoms ELSE {})
        \cup (IF "str" \in AtomKinds THEN StrAtoms ELSE {}) \cup (IF "num" \in AtomKinds THEN NumAtoms ELSE {})
        \cup (IF "name" \in AtomKinds THEN NameAtoms ELSE {})

ShapeOf(k) == CASE k = "col2" -> [h |-> 2, w |-> 1] [] k = "col3" -> [h |-> 3, w |-> 1]
                [] k = "row2" -> [h |-> 1, w |-> 2] [] k = "row3" -> [h |-> 1, w |-> 3]
                [] k = "block" -> [h |-> 2, w |-> 2]
MasterOf(k) == CASE k = 0 -> <<0, 0>> [] k = 1 -> <<2, 3>> [] OTHER -> <<9, 25>>

\* A second, fixed group (master "C3*2", two cells in a column) follows the first one in the same
\* sheet; the shared indices of the two groups are chosen by the writer: si pair id
\*   0 -> (0,1)   1 -> (0,2) (a gap)   2 -> (1,0) (descending in sheet order)   3 -> (0,4)   4 -> (2,7) (wider gaps)
SiOf(k) == CASE k = 0 -> <<0, 1>> [] k = 1 -> <<0, 2>> [] k = 2 -> <<1, 0>> [] k = 3 -> <<0, 4>> [] OTHER -> <<2, 7>>
Init == atoms = <<>> /\ stage = "build" /\ grp \in [m : Masters, shape : Shapes, si : SiPairs]

\* next_formula keeps the masters of the sheet's shared groups keyed by si (repair 71b5ea4): a group
\* is visible to its members whatever the order and the gaps of the indices.  (As pinned the
\* masters sat in a vector, a master with index b was appended at max(len, b) and looked up at b:
\* the second group was visible to its member iff b >= a + 1 -- deviation SiDescending, repaired.)
SecondGroupAsIsOK == SiOf(grp.si)[2] # SiOf(grp.si)[1]

Members(g) == LET s == ShapeOf(g.shape) IN
              {d \in (0..(s.h - 1)) \X (0..(s.w - 1)) : d # <<0, 0>>}
AddAtom(a) == /\ stage = "build" /\ Len(atoms) < MaxAtoms
              /\ \A d \in Members(grp) : AtomOK(a, d[1], d[2])
              /\ atoms' = Append(atoms, a) /\ UNCHANGED <<grp, stage>>
Seal == stage = "build" /\ atoms # <<>> /\ stage' = "done" /\ UNCHANGED <<atoms, grp>>
Next == (\E a \in Menu : AddAtom(a)) \/ Seal
Spec == Init /\ [][Next]_vars

Dev == UNION {atoms[i].feat : i \in 1..Len(atoms)}
         \cup (IF ShapeOf(grp.shape).h > 1 /\ ShapeOf(grp.shape).w > 1 THEN {"Block2D"} ELSE {})
         \cup (IF ~SecondGroupAsIsOK THEN {"SiDescending"} ELSE {})

\* what the code reports for a member: translated text, or "" when the offset map has no entry
AsIsOf(d) == IF ~AsIsMember(ShapeOf(grp.shape), d[1], d[2]) THEN <<>>
             ELSE AsIsText(atoms, d[1], d[2])
SortedMembers == SetToSortSeq(Members(grp), LAMBDA a, b : a[1] < b[1] \/ (a[1] = b[1] /\ a[2] < b[2]))

\* the transcribed algorithm is right outside the named deviations
\* the as-is text is compositional over the atoms (what the partial-repair explanation relies on)
Compositional == stage = "done" => \A d \in Members(grp) :
   AsIsText(atoms, d[1], d[2]) = (LET RECURSIVE J(_) J(k) == IF k > Len(atoms) THEN <<>>
                                        ELSE AsIsAtomText(atoms[k], d[1], d[2]) \o (IF k < Len(atoms) THEN <<"+">> ELSE <<>>) \o J(k + 1)
                                  IN J(1))
Refines == stage = "done" /\ Dev = {} => \A d \in Members(grp) : AsIsOf(d) = IdealText(atoms, d[1], d[2])
\* every named feature really is a deviation for some offset (no vacuous names): checked per feature
Dump == stage = "done" =>
   PrintT(<<"REPLAY", ToJson([master |-> MasterOf(grp.m), shape |-> ShapeOf(grp.shape),
                               text |-> MasterText(atoms),
                               members |-> [i \in 1..Len(SortedMembers) |->
                                              [d |-> SortedMembers[i],
                                               ideal |-> IdealText(atoms, SortedMembers[i][1], SortedMembers[i][2]),
                                               asis |-> AsIsOf(SortedMembers[i]),
                                               parts |-> [k \in 1..Len(atoms) |->
                                                            [ideal |-> AtomText(atoms[k], SortedMembers[i][1], SortedMembers[i][2]),
                                                             asis |-> AsIsAtomText(atoms[k], SortedMembers[i][1], SortedMembers[i][2])]]]],
                               si |-> SiOf(grp.si),
                               second |-> [ideal |-> <<"C","4","*","2">>,
                                           asis |-> IF SecondGroupAsIsOK THEN <<"C","4","*","2">> ELSE <<>>],
                               dev |-> Dev])>>)
=============================================================================
