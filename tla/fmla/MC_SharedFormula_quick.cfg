SPECIFICATION Spec
CONSTANTS
  RefCols = {0, 26, 16380}
  RefRows = {0, 9}
  MaxAtoms = 2
  AtomKinds = {"ref", "area", "sheet", "func", "str", "num", "name"}
  Masters = {0, 1}
  Shapes = {"col2", "row2", "block"}
  SiPairs = {0, 1, 2, 3, 4}
INVARIANTS Compositional Refines Dump
CHECK_DEADLOCK FALSE
