SPECIFICATION Spec
CONSTANTS
  RefCols = {0, 25, 26, 701, 16380}
  RefRows = {0, 8, 9, 1048570}
  MaxAtoms = 2
  AtomKinds = {"ref", "area", "sheet", "func", "str", "num", "name"}
  Masters = {0, 1, 2}
  Shapes = {"col2", "col3", "row2", "row3", "block"}
  SiPairs = {0, 1, 2, 3, 4}
INVARIANTS Compositional Refines Dump
CHECK_DEADLOCK FALSE
